/* C19: parameter_t::operator=(tenum) and parameter_t::value<tenum>() for EVERY enumeration with an enum_string<T>() table
 * (header templates, instantiated by the generated driver of specs/C19/enums.py).  The two table functions they call are used
 * through the contracts PROVED per table (targets enum_<T>_scat / enum_<T>_from_string):
 *   scat(v)          the name of the entry listing v -- a value the table does not list THROWS;
 *   from_string<T>(s) a function of the string -- a string that no name is a prefix of THROWS.
 * Which values are listed / which strings are readable and the results are uninterpreted functions here. */
#ifndef NV_C19_PARAM_ENUM_H
#define NV_C19_PARAM_ENUM_H
#include "param.h"
_Bool __CPROVER_uninterpreted_enum_listed(int64_t);
_Bool __CPROVER_uninterpreted_enum_readable(int64_t);
int64_t __CPROVER_uninterpreted_enum_read(int64_t);
#define NV_LISTED(v) __CPROVER_uninterpreted_enum_listed((int64_t)(v))
#define NV_READABLE(s) __CPROVER_uninterpreted_enum_readable((s).id)
#define NV_READ(s) __CPROVER_uninterpreted_enum_read((s).id)
static struct nv_str nv_scat_enum_t(int64_t v)
{
  if (!NV_LISTED(v)) { nv_thrown = 1; struct nv_str z; z.id = 0; return z; }
  return nv_scat_enum(v);
}
static int64_t nv_from_string_enum(const struct nv_str* s)
{
  if (!NV_READABLE(*s)) { nv_thrown = 1; return 0; }
  return NV_READ(*s);
}
/* operator=(tenum): an enumeration parameter takes scat(value) through operator=(string) (by its contract): accepted iff that
 * name is in the domain list; a value OUTSIDE the table throws before anything is assigned; any other kind throws; in every
 * rejected case nothing changes */
#define NV_CONTRACT_parameter_assign_enum_t \
__CPROVER_requires(!nv_thrown && __CPROVER_is_fresh(self, sizeof(*self)) && NV_ST_WF(self->m_storage)) \
__CPROVER_requires(self->m_storage.index != 1 || NV_STRS_OK(self->m_storage.a1.m_domain)) \
__CPROVER_assigns(nv_thrown, nv_w_find, self->m_storage.a1.m_value, self->m_storage.a2.m_value, self->m_storage.a3.m_value, \
                  self->m_storage.a4.m_value1, self->m_storage.a4.m_value2, self->m_storage.a5.m_value1, self->m_storage.a5.m_value2, \
                  self->m_storage.a6) \
__CPROVER_ensures(self->m_storage.index == NV_OLD(self->m_storage.index) && self->m_name.id == NV_OLD(self->m_name.id)) \
__CPROVER_ensures(!nv_thrown ==> __CPROVER_return_value == self) \
__CPROVER_ensures((self->m_storage.index == 1 && !NV_LISTED(NV_ARG_parameter_assign_enum_t_1)) ==> \
                  (nv_thrown && self->m_storage.a1.m_value.id == NV_OLD(self->m_storage.a1.m_value.id))) \
NV_POST_ENUM(self->m_storage.index == 1 && NV_LISTED(NV_ARG_parameter_assign_enum_t_1), self->m_storage.a1, NV_SCAT(NV_ARG_parameter_assign_enum_t_1)) \
__CPROVER_ensures(self->m_storage.index != 1 ==> (nv_thrown && self->m_storage.a1.m_value.id == NV_OLD(self->m_storage.a1.m_value.id))) \
__CPROVER_ensures(NV_SAME_R(NV_EQ_I, self->m_storage.a2) && NV_SAME_R(NV_EQ_F, self->m_storage.a3) && NV_SAME_P(NV_EQ_I, self->m_storage.a4) && \
                  NV_SAME_P(NV_EQ_F, self->m_storage.a5) && self->m_storage.a6.id == NV_OLD(self->m_storage.a6.id))
/* value<tenum>(): from_string<tenum>(the stored name) for an enumeration parameter; any other kind throws; nothing is modified */
#define NV_CONTRACT_parameter_value_enum_t \
NV_READ_REQ(1) \
__CPROVER_ensures((self->m_storage.index == 1 && NV_READABLE(self->m_storage.a1.m_value)) ==> (!nv_thrown && NV_RET == NV_READ(self->m_storage.a1.m_value))) \
__CPROVER_ensures((self->m_storage.index == 1 && !NV_READABLE(self->m_storage.a1.m_value)) ==> nv_thrown) \
__CPROVER_ensures(self->m_storage.index != 1 ==> nv_thrown)
#endif

/* ------------------------------------------------------------------ parameter_t::make_enum_<tenum>(name, value)  (header template)
 * "the domain list stored in the parameter is exactly the table's names": for ANY table (symbolic length; the names as string ids)
 * the parameter is constructed -- by the REAL constructor parameter_t(string_t, enum_t) and ::update(enum_t), inlined -- from
 * enum_t{scat(value), domain} where domain has the table's length and domain[g] is the g-th name (ghost position nv_g_str). */
#ifdef NV_MAKE_ENUM
struct nv_eopt2 { int64_t first; struct nv_str second; int64_t nv_pad[2]; };   /* std::pair<T, const char*>, the name as a string id (32 bytes: see engine/README) */
struct nv_etab2 { struct nv_eopt2* p; int64_t n; };      /* enum_map_t<T> */
struct nv_etab2 NV_MAKE_ENUM_STATIC;                      /* the function-local `static const auto options = enum_string<T>()` */
struct nv_str make_enum_name(struct nv_eopt2* v);         /* the extracted lambda [](const auto& v) { return v.second; } */
void parameter_ctor_enum(struct nv_parameter* self, struct nv_str name, struct nv_enum param);
/* ASSUMED: strings_t{n} holds n strings */
static struct nv_strs nv_strs_sized(uint64_t n)
{
  struct nv_strs v; v.n = (int64_t)n;
  v.p = malloc((n > 0 ? n : 1) * sizeof(struct nv_str));
  __CPROVER_assume(v.p != NULL);
  return v;
}
/* ASSUMED contract of std::transform(first, last, d_first, op): d_first[i] = op(first[i]) for every i in [0, last - first) (stated at
 * the ghost position, op = the real lambda); the destination range must exist */
static struct nv_str* nv_transform_names(struct nv_eopt2* first, struct nv_eopt2* last, struct nv_str* d)
{
  int64_t n = last - first;
  __CPROVER_assert(n == 0 || __CPROVER_rw_ok(d, n * sizeof(struct nv_str)), "std::transform: the destination holds last - first elements");
  if (0 <= nv_g_str && nv_g_str < n) d[nv_g_str] = make_enum_name(&first[nv_g_str]);
  return d + n;
}
static struct nv_parameter nv_parameter_make_enum(struct nv_str name, struct nv_enum e)
{
  struct nv_parameter r;
  parameter_ctor_enum(&r, name, e);
  return r;
}
#define NV_TAB NV_MAKE_ENUM_STATIC
#define NV_CONTRACT_make_enum_ \
__CPROVER_requires(!nv_thrown && NV_TAB.n >= 0 && NV_TAB.n <= NV_MAXN && __CPROVER_is_fresh(NV_TAB.p, (NV_TAB.n + 1) * sizeof(struct nv_eopt2))) \
__CPROVER_assigns(nv_thrown, nv_w_find) \
__CPROVER_ensures(!NV_LISTED(NV_ARG_make_enum__1) ==> nv_thrown) \
__CPROVER_ensures(!nv_thrown ==> (NV_RET.m_name.id == NV_ARG_make_enum__0.id && NV_RET.m_storage.index == 1 && \
                  NV_RET.m_storage.a1.m_value.id == NV_SCAT(NV_ARG_make_enum__1).id && NV_RET.m_storage.a1.m_domain.n == NV_TAB.n)) \
__CPROVER_ensures((!nv_thrown && 0 <= nv_g_str && nv_g_str < NV_TAB.n) ==> NV_RET.m_storage.a1.m_domain.p[nv_g_str].id == NV_TAB.p[nv_g_str].second.id) \
__CPROVER_ensures(!nv_thrown ==> NV_ENUM_HAS(NV_RET.m_storage.a1, nv_w_find, NV_RET.m_storage.a1.m_value))
#endif
