"""C19: "its clone has equal parameters and behaves identically while being independently modifiable" -- EVERY override of clone().

The clone() definitions are not hand-picked: every .cpp file of /repo/src that contains `clone() const` (text prefilter; plus the
top-level factory files src/*.cpp, which pull in the headers with in-class definitions) is handed to clang, grouped into one
GENERATED unity translation unit per directory (`#include "<the real .cpp>"` lines only; a directory whose files do not compile
together falls back to one translation unit per file), and every definition of a member function called `clone` that clang
reports (mangled name => a real, non-dependent definition) becomes one extracted function under the same contract:

    T::clone() returns a NEW object (not null, not *this) of the dynamic type T whose complete member state (every data member,
    bases and registered parameters included) is a copy of *this; *this is untouched.

Model: an object is (dynamic type, identity of its complete member state).  `std::make_unique<T>(const T&)` is `new T(copy)`:
T's copy constructor copies every base and member -- C++ semantics for the implicit / defaulted copy constructors, and proved
separately (solver_copy, mlparams_copy, functional_copy, gboost_copy, gbresult_copy) for the user-provided ones.  Any other
make_unique (default construction, other arguments, another class) yields an object about which nothing is known, so that
`make_unique<T>()` or `make_unique<base_t>(*this)` is refuted."""
import os
import re
import threading
import subprocess

import astload
from astload import ExtractionError
from core import Fn, Target, VC

HK = 'specs/C19/clonetab.h'


def _gen_dir():
    d = os.path.join(astload.SCRATCH, 'gen')
    os.makedirs(d, exist_ok=True)
    return d


_write_lock = threading.Lock()


def _write(path, text):
    """(re)write a generated file atomically; the targets' worker threads ask for the same file concurrently"""
    with _write_lock:
        try:
            if open(path).read() == text:
                return
        except OSError:
            pass
        tmp = f'{path}.{os.getpid()}.{threading.get_ident()}'
        with open(tmp, 'w') as f:
            f.write(text)
        os.replace(tmp, path)


def groups():
    """{group name: [files]}: text prefilter only (no clang).  One group per directory of /repo/src with .cpp files that contain
    `clone() const`, plus the group `include` = the headers with an in-class definition `clone() const ... {`"""
    out = {}
    for sub, ext, rx in (('src', '.cpp', r'\bclone\s*\(\s*\)\s*const'), ('include', '.h', r'\bclone\s*\(\s*\)\s*const\s*(override|final|\s)*\{')):
        base = os.path.join(astload.REPO, sub)
        for root, _, files in os.walk(base):
            for fn in sorted(files):
                if not fn.endswith(ext):
                    continue
                p = os.path.join(root, fn)
                try:
                    txt = open(p, errors='replace').read()
                except OSError:
                    continue
                if re.search(rx, txt):
                    out.setdefault(os.path.relpath(root, astload.REPO) if sub == 'src' else 'include', []).append(p)
    return out


def unity(name, files):
    path = os.path.join(_gen_dir(), 'c19_unity_' + re.sub(r'\W+', '_', name) + '.cpp')
    _write(path, '// GENERATED (specs/C19/clones.py): unity translation unit, includes the real sources only\n' +
           ''.join(f'#include "{f}"\n' for f in files))
    return path


def demangle(names):
    if not names:
        return {}
    r = subprocess.run(['c++filt'], input='\n'.join(names) + '\n', capture_output=True, text=True)
    return dict(zip(names, r.stdout.split('\n')))


DEPENDENT = ('UnresolvedLookupExpr', 'CXXDependentScopeMemberExpr', 'CXXUnresolvedConstructExpr', 'UnresolvedMemberExpr', 'DependentScopeDeclRefExpr')


def is_pattern(d):
    """a member of a class TEMPLATE as written (dependent, not instantiated): its instantiations are what is executed"""
    return any(n.get('kind') in DEPENDENT or n.get('type', {}).get('qualType') == '<dependent type>' for n in astload.walk(d))


def this_class(d):
    for n in astload.walk(d):
        if n.get('kind') == 'CXXThisExpr':
            return _norm(re.sub(r'\bconst\b|\*', '', n.get('type', {}).get('qualType', '')))
    return None


def _clone_methods(tu, flt='clone'):
    """every distinct definition of a member function clone() without parameters in the dump"""
    uniq = {}
    for c in astload.find_definitions(astload.dump(tu, flt), 'clone', ('CXXMethodDecl',)):
        if astload.param_types(c):
            continue
        k = c.get('mangledName') or (c.get('_file'), (c.get('loc') or {}).get('line'), (c.get('loc') or {}).get('offset'), c.get('id'))
        uniq.setdefault(k, c)
    return list(uniq.values())


def selector(d):
    if d.get('mangledName'):
        return ('m', d['mangledName'])
    loc = d.get('loc') or {}
    return ('loc', d.get('_file'), loc.get('line'), loc.get('col'))


def select_by(key):
    if key[0] == 'm':
        return lambda d: d.get('mangledName') == key[1]
    return lambda d: not d.get('mangledName') and (d.get('_file'), (d.get('loc') or {}).get('line'), (d.get('loc') or {}).get('col')) == key[1:]


def clone_defs(group, files):
    """([(tu, selector, qualified class)] of every clone() definition clang finds in the group, [class templates whose in-class
    clone() is a dependent pattern: (template name, header)], fallback translation units)"""
    tus = [unity(group, files)]
    try:
        astload.dump(tus[0], 'clone')
    except ExtractionError as e:
        if 'no declaration matches' in str(e):
            return [], [], []
        # the files of this directory do not compile as one unit (clashing using-directives / file-local names): one unit per file
        tus = files
    out, patterns, fallback = [], [], (tus if tus[0] in files and group != 'include' else [])
    for tu in tus:
        try:
            defs = _clone_methods(tu)
        except ExtractionError as e:
            if 'no declaration matches' in str(e):
                continue
            raise
        dm = demangle([d['mangledName'] for d in defs if d.get('mangledName')])
        for d in defs:
            if d.get('mangledName'):
                m = re.fullmatch(r'(.*)::clone\(\) const', dm.get(d['mangledName'], ''))
                if not m:
                    continue      # not a member function `T::clone() const`
                cls = this_class(d) or _norm(m.group(1))      # clang's own spelling of the class where the body mentions *this
            elif is_pattern(d):
                t = this_class(d) or '?'
                patterns.append((t.split('<')[0], d.get('_file')))
                continue
            else:
                cls = this_class(d)       # an inline definition that this unit does not use: clang prints no mangled name
                if cls is None:
                    raise ExtractionError(f'{d.get("_file")}:{(d.get("loc") or {}).get("line")}: cannot tell the class of this clone() definition')
            if cls.startswith(('std::', '__gnu_cxx::', 'Eigen::')):
                continue
            out.append((tu, selector(d), cls, 'clone', _norm(dm.get(d.get('mangledName'), '').rsplit('::clone()', 1)[0]) or cls))
    return out, patterns, fallback


def cname_of(cls):
    return 'clone_' + re.sub(r'\W+', '_', cls).strip('_')


def _norm(t):
    t = re.sub(r'\s+', ' ', re.sub(r'\b(class|struct)\s+', '', t)).strip()
    while '> >' in t:
        t = t.replace('> >', '>>')       # c++filt prints `> >`, clang `>>`
    return t


def make_unique_hook(cls):
    """std::make_unique<T>(args): T is read from the type clang gives the call (`std::unique_ptr<T>`, desugared), the parameter list
    from the callee's function type.  T == the class of this clone() and the parameter list == (const T&)  =>  new T(copy of the
    argument); everything else (default construction, other arguments, another class)  =>  an object about which nothing is known"""
    def hook(P, n):
        if n.get('kind') != 'CallExpr' or not n.get('inner'):
            return None
        c = n['inner'][0]
        while c.get('kind') in ('ImplicitCastExpr', 'ParenExpr') and c.get('inner'):
            c = c['inner'][0]
        rd = c.get('referencedDecl') or {}
        if c.get('kind') != 'DeclRefExpr' or rd.get('name') != 'make_unique':
            return None
        ty = n.get('type', {})
        made = None
        for q in (ty.get('desugaredQualType'), ty.get('qualType')):
            m = re.match(r'^(?:const )?std::unique_ptr<(.+?)(?:, std::default_delete<.*>)?\s*>$', q or '')
            if m:
                made = _norm(m.group(1))
                break
        fnty = rd.get('type', {}).get('qualType', '')
        params = fnty[fnty.index('(') + 1: fnty.rindex(')')].strip() if '(' in fnty else '?'
        args = n['inner'][1:]
        if made == cls and _norm(params) == f'const {cls} &' and len(args) == 1:
            P.note(f'std::make_unique<{cls}>(const {cls}&) -> nv_make_unique_copy')
            return f'nv_make_unique_copy({P.addr(args[0])})'
        P.note(f'std::make_unique<{made}>({params}) -> nv_make_unique_other (not a copy of the class under contract)')
        return f'nv_make_unique_other({1 if made == cls else 0})'
    return hook


def clone_fn(tu, key, cls, flt='clone'):
    e = re.escape(cls)
    types = [(r'^' + e + r'$', 'struct nv_cobj'),
             (r'^std::unique_ptr<.*>$|^(nano::)?r\w+_t$|__unique_ptr_t<.*>$|_MakeUniq<.*>::__single_object$', 'struct nv_cobj*')]
    calls = [
        # unique_ptr<base>(unique_ptr<derived>&&) / unique_ptr move construction: the pointer is transferred
        (r'^ctor\|[^|]*unique_ptr<[^|]*\|void \((std::)?unique_ptr<.*&&\)', '{0}'),
        (r'^move\|', '{0}')]
    return Fn(cname_of(cls), tu, 'clone', flt=flt, select=select_by(key), kinds=('CXXMethodDecl',),
              self_struct='struct nv_cobj', types=types, calls=calls, hooks=[make_unique_hook(cls)], uf_float=False)


def harness_for(classes):
    L = ['int main(void)', '{']
    for cls in classes:
        c = cname_of(cls)
        L += ['  {', '    struct nv_cobj o; o.dyn_type = NV_SELF_TYPE; o.state = nv_nondet_int64_t();', '    struct nv_cobj before = o;',
              '    nv_thrown = 0;', f'    struct nv_cobj* r = {c}(&o);',
              f'    __CPROVER_assert(!nv_thrown && r != NULL && r != &o, "{cls}::clone(): returns a new object");',
              f'    __CPROVER_assert(r == NULL || r->dyn_type == NV_SELF_TYPE, "{cls}::clone(): the clone has the class of *this");',
              f'    __CPROVER_assert(r == NULL || r->state == before.state, "{cls}::clone(): every data member (bases and parameters included) is a copy of *this");',
              f'    __CPROVER_assert(o.state == before.state && o.dyn_type == before.dyn_type, "{cls}::clone(): *this is untouched");',
              '  }']
    L += ['  __CPROVER_assert(0, "nv_canary: end of harness reachable");', '  return 0;', '}', '']
    return '\n'.join(L)


def include_closure(path, seen=None):
    """headers of /repo reachable from `path` through #include lines (text; <nano/..> and "..." forms)"""
    seen = seen if seen is not None else set()
    try:
        txt = open(path, errors='replace').read()
    except OSError:
        return seen
    for inc in re.findall(r'^\s*#\s*include\s*[<"]([^>"]+)[>"]', txt, re.M):
        for base in (os.path.join(astload.REPO, 'include'), os.path.join(astload.REPO, 'src'), os.path.dirname(path)):
            c = os.path.normpath(os.path.join(base, inc))
            if os.path.exists(c) and c not in seen:
                seen.add(c)
                include_closure(c, seen)
                break
    return seen


class _Group:
    """the clone() definitions of one directory, discovered once inside the target's worker"""

    def __init__(self, name, files):
        self.name, self.files, self.defs = name, files, None
        self.uninstantiated = []

    def get(self):
        if self.defs is None:
            defs, pats, fb = clone_defs(self.name, self.files)
            # class templates whose clone() clang shows as a dependent pattern: the instantiated bodies are printed when the dump filter
            # names the class template.  In-class definitions of headers are instantiated by the factory files src/*.cpp that include the
            # header (text include closure); out-of-line definitions in a .cpp by the explicit instantiations of that same unit
            src = os.path.join(astload.REPO, 'src')
            tops = [os.path.join(src, f) for f in sorted(os.listdir(src)) if f.endswith('.cpp')]
            own_tus = fb if fb else [unity(self.name, self.files)]
            for tname, header in sorted(set(pats)):
                found = 0
                cands = [tu for tu in tops if header in include_closure(tu)] if self.name == 'include' else own_tus
                for tu in cands:
                    try:
                        ms = _clone_methods(tu, tname)
                    except ExtractionError as e:
                        if 'no declaration matches' in str(e):
                            continue
                        raise
                    ms = [d for d in ms if d.get('mangledName')]
                    dm = demangle([d['mangledName'] for d in ms])
                    for d in ms:
                        m = re.fullmatch(r'(.*)::clone\(\) const', dm.get(d['mangledName'], ''))
                        if m and m.group(1).split('<')[0].split('::')[-1] == tname.split('::')[-1]:
                            defs.append((tu, selector(d), this_class(d) or _norm(m.group(1)), tname, _norm(m.group(1))))
                            found += 1
                if not found:
                    # a class template the library itself never instantiates (lambda_function_t: user lambdas): no factory object,
                    # nothing is executed; the pattern is the same `make_unique<T>(*this)` but it is not under contract
                    self.uninstantiated.append(f'{tname} ({os.path.relpath(header, astload.REPO)})')
            uniq = {}
            for x in defs:
                uniq.setdefault(x[2], x)
            self.defs = sorted(uniq.values(), key=lambda x: x[2])
            self.fallback = fb
        return self.defs

    def fns(self):
        d = self.get()
        if not d:
            raise ExtractionError(f'no clone() definition found in {self.name} although the text prefilter selected {len(self.files)} files')
        return [clone_fn(x[0], x[1], x[2], flt=x[3]) for x in d]

    def harness(self):
        return harness_for([x[2] for x in self.get()])


QUICK_GROUPS = ('src/loss', 'src/lsearch0', 'src/splitter')


def tier_groups(tier):
    """thorough tier: every directory and the headers.  Quick tier: three small directories (one contract for every clone(): the
    others differ in the class only)"""
    g = groups()
    if tier == 'thorough':
        return g
    return {k: v for k, v in g.items() if k in QUICK_GROUPS} or dict(sorted(g.items())[:3])


def targets(tier='thorough'):
    out = []
    for name, files in sorted(tier_groups(tier).items()):
        g = _Group(name, files)
        out.append(Target('clones_' + re.sub(r'\W+', '_', name), g.fns, HK, enforce_none=True, harness=g.harness, loops=0,
                          note=f'every clone() definition of {name}/ (found by clang)'))
    return out


# ----------------------------------------------------------------------------- registered classes override clone() themselves
class RegisteredVC(VC):
    """a class T registered by `factory.add<T>(..)` that does not define clone() ITSELF inherits the clone() of a base: its clones are
    sliced base objects (another dynamic type: they do not behave identically).  The registered classes are the template arguments of
    the add<T> instantiations clang reports for one factory file; the classes with their own clone() are the ones under contract above.
    A syntactic comparison, reported through the VC channel (thorough tier)."""

    def __init__(self, tu, tier='thorough'):
        self.tier = tier
        super().__init__('registered_clone/' + re.sub(r'\W+', '_', tu), '(assert true)', about=f'every class that {tu} registers defines clone() itself',
                         source={'file': tu}, group='registered_clone')
        self.tu = tu

    def verify(self, cross=False):
        try:
            regs = sorted({_norm(astload.template_args(d)[0]) for d in astload.instantiations(self.tu, 'factory_t', 'add') if d.get('mangledName')})
            own = set()
            for name, files in sorted(tier_groups(self.tier).items()):
                g = _Group(name, files)
                own |= {x[2] for x in g.get()} | {x[4] for x in g.get()}
            missing = [t for t in regs if t not in own]
            self.about += f' ({len(regs)} registered classes' + (f'; WITHOUT their own clone(): {missing}' if missing else '') + ')'
            if not regs:
                raise ExtractionError(f'no add<T> instantiation found in {self.tu}')
        except ExtractionError as e:
            return {'id': self.name, 'description': self.about + f' -- extraction: {e}', 'target': self.group, 'status': 'UNKNOWN', 'backend': None,
                    'location': self.source or {}, 'answers': {}, 'seconds': {}}
        self.smt = '(assert false)' if not missing else '(assert true)'
        return super().verify(cross)


def vcs(tier):
    import factory
    # quick tier: the classes src/lsearch0.cpp registers against the clone() definitions of the quick directories (src/lsearch0 is one)
    return [RegisteredVC(tu, tier) for tu in (factory.FACTORY_TUS if tier == 'thorough' else factory.FACTORY_TUS[:1])]
