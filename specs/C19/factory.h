/* C19: include/nano/factory.h under contract ("reports the id it was registered under", "its clone has equal parameters").
 * Model: std::string / std::string_view are values of an uninterpreted sort with equality (ids); a registered object is its type id
 * and the identity of the rest of its member state; m_protos is the array of (id, (prototype, description)) entries. */
#ifndef NV_C19_FACTORY_H
#define NV_C19_FACTORY_H
#include <stdlib.h>
struct nv_str { int64_t id; };
struct nv_fobj { struct nv_str m_type_id; int64_t state; };
struct nv_proto { struct nv_fobj* m_prototype; struct nv_str m_description; };
struct nv_entry { struct nv_str first; struct nv_proto second; int64_t nv_pad; };   /* std::pair<string_t, proto_t>; padded to 32 bytes: element offsets are shifts, not 64-bit multiplications, in the SAT encoding */
struct nv_protos { struct nv_entry* p; int64_t n; };                   /* std::vector<std::pair<string_t, proto_t>> */
struct nv_factory { struct nv_protos m_protos; };
struct nv_ids { int64_t n; struct nv_str g; };   /* strings_t, abstracted: its length and its element at the ghost position nv_pos_g */
struct nv_regex { int64_t id; };
#define NV_MAXF 100000
#define NV_RET __CPROVER_return_value
#define NV_EMPTY_STRING_ID 0
static struct nv_str nv_empty_string(void) { struct nv_str s; s.id = NV_EMPTY_STRING_ID; return s; }

int64_t nv_g_f;          /* ghost: an arbitrary position of m_protos, fixed before the call */
int64_t nv_w_find;       /* witness: the position std::find_if returned */
/* the factory is well formed: every entry holds a prototype, and is registered under the id its prototype reports (stated at the
 * ghost position; established by add, relied on by "get(id) reports id") */
#define NV_FACTORY_OK(f) (__CPROVER_is_fresh(f, sizeof(struct nv_factory)) && (f)->m_protos.n >= 0 && (f)->m_protos.n <= NV_MAXF && \
  __CPROVER_is_fresh((f)->m_protos.p, ((f)->m_protos.n + 1) * sizeof(struct nv_entry)))
#define NV_G_IN(f) (0 <= nv_g_f && nv_g_f < (f)->m_protos.n)
#define NV_ENTRY(f, j) ((f)->m_protos.p[j])
#define NV_PROTO_OK(f, j) (__CPROVER_is_fresh(NV_ENTRY(f, j).second.m_prototype, sizeof(struct nv_fobj)))
#define NV_ID_INV(f, j) (NV_ENTRY(f, j).second.m_prototype->m_type_id.id == NV_ENTRY(f, j).first.id)

/* the extracted lambda of factory_t::find: [&](const auto& proto) { return proto.first == type_id; } */
_Bool factory_find_pred(struct nv_entry* proto, struct nv_str* type_id);
/* ASSUMED contract of std::find_if(first, last, pred): the first position whose element satisfies pred (the real lambda), else
 * last; stated at the ghost position */
static struct nv_entry* nv_find_if_entry(struct nv_entry* begin, struct nv_entry* end, struct nv_str* type_id)
{
  int64_t n = end - begin, idx = nv_nondet_int64_t();
  __CPROVER_assume(0 <= idx && idx <= n);
  if (idx < n) __CPROVER_assume(factory_find_pred(&begin[idx], type_id));
  if (0 <= nv_g_f && nv_g_f < idx) __CPROVER_assume(!factory_find_pred(&begin[nv_g_f], type_id));
  nv_w_find = idx;
  return begin + idx;
}
/* contract of T::clone() as PROVED for every clone() definition of the library (targets clones_*): a new object, every member
 * (the type id included) a copy */
struct nv_fobj* nv_g_proto;     /* ghost: the prototype of the ghost entry (compared by value only) */
static struct nv_fobj* nv_fobj_clone(const struct nv_fobj* o)
{
  struct nv_fobj* r = malloc(sizeof(struct nv_fobj));
  __CPROVER_assume(r != NULL);
  /* the guarantee is used for the prototype of the GHOST entry only (the only one the contracts give a valid object for): a sound
   * weakening of the clone contract for the others */
  if (o == nv_g_proto) *r = *o;
  return r;
}
static struct nv_str nv_fobj_type_id(const struct nv_fobj* o) { return o->m_type_id; }     /* typed_t::type_id(): the stored id */
/* ASSUMED: std::make_unique<T>(args...) yields a new object (its id and state are whatever T's constructor sets: unknown here) */
static struct nv_fobj* nv_make_prototype(void)
{
  struct nv_fobj* r = malloc(sizeof(struct nv_fobj));
  __CPROVER_assume(r != NULL);
  return r;
}
/* ASSUMED contract of std::vector::emplace_back(a, b) for a vector of pairs: appends pair(a, b), keeps the others */
static void nv_protos_emplace_back(struct nv_protos* v, struct nv_str id, struct nv_proto pr)
{
  v->p[v->n].first = id; v->p[v->n].second = pr; v->n = v->n + 1;
}
/* std::regex_match as an uninterpreted predicate of (string, regex).  Ghost protocol of ids(): nv_cur = number of regex_match calls
 * since the result list was created (= index of the entry after the one being visited), nv_pos_g = where the id of the ghost entry
 * was appended */
_Bool __CPROVER_uninterpreted_regex_match(int64_t, int64_t);
#define NV_MATCH(s, r) __CPROVER_uninterpreted_regex_match((s).id, (r).id)
int64_t nv_pos_g;
int64_t nv_cur;
_Bool nv_match_g;        /* ghost: does the id of the ghost entry match the regex (defined in the requires clause of ids) */
static _Bool nv_regex_match(const struct nv_str* s, const struct nv_regex* r) { nv_cur = nv_cur + 1; return NV_MATCH(*s, *r); }
/* ASSUMED: a default-constructed strings_t is empty; push_back appends and keeps the others (so the element at a position, once
 * written, stays: nv_pos_g is where the id of the ghost entry was appended, v->g the string stored there) */
static struct nv_ids nv_ids_new(void)
{
  struct nv_ids v; v.n = 0;
  nv_cur = 0;
  return v;
}
static void nv_ids_push_back(struct nv_ids* v, const struct nv_str* s)
{
  if (nv_cur - 1 == nv_g_f) { nv_pos_g = v->n; v->g = *s; }
  v->n = v->n + 1;
}

/* ---- find: the first entry registered under type_id, else end() */
#define NV_FIND_POST(f, KEY) \
  (0 <= nv_w_find && nv_w_find <= (f)->m_protos.n && NV_RET == (f)->m_protos.p + nv_w_find && \
   (nv_w_find < (f)->m_protos.n ==> NV_ENTRY(f, nv_w_find).first.id == (KEY).id) && \
   ((NV_G_IN(f) && nv_g_f < nv_w_find) ==> NV_ENTRY(f, nv_g_f).first.id != (KEY).id))
#define NV_CONTRACT_factory_find \
__CPROVER_requires(!nv_thrown && NV_FACTORY_OK(self)) \
__CPROVER_assigns(nv_w_find) \
__CPROVER_ensures(!nv_thrown && NV_FIND_POST(self, NV_ARG_factory_find_1))
/* ---- has(id) <=> some entry is registered under id (ghost position: a registered id is found) */
#define NV_CONTRACT_factory_has \
__CPROVER_requires(!nv_thrown && NV_FACTORY_OK(self)) \
__CPROVER_assigns(nv_w_find) \
__CPROVER_ensures(!nv_thrown) \
__CPROVER_ensures(NV_RET ==> (0 <= nv_w_find && nv_w_find < self->m_protos.n && NV_ENTRY(self, nv_w_find).first.id == NV_ARG_factory_has_1.id)) \
__CPROVER_ensures((NV_G_IN(self) && NV_ENTRY(self, nv_g_f).first.id == NV_ARG_factory_has_1.id) ==> NV_RET)
/* ---- get(id): an unknown id returns null; otherwise a NEW object that is a clone of the FIRST prototype registered under exactly
 * that id (equal member state, so it reports the id it was registered under by the registration invariant); nothing is modified */
#define NV_CONTRACT_factory_get \
__CPROVER_requires(!nv_thrown && NV_FACTORY_OK(self) && NV_G_IN(self) && NV_PROTO_OK(self, nv_g_f) && NV_ID_INV(self, nv_g_f) && \
                   nv_g_proto == NV_ENTRY(self, nv_g_f).second.m_prototype) \
__CPROVER_assigns(nv_w_find) \
__CPROVER_ensures(!nv_thrown && 0 <= nv_w_find && nv_w_find <= self->m_protos.n) \
__CPROVER_ensures((NV_RET == NULL) == (nv_w_find == self->m_protos.n)) \
__CPROVER_ensures(NV_RET == NULL ==> NV_ENTRY(self, nv_g_f).first.id != NV_ARG_factory_get_1.id) \
__CPROVER_ensures(NV_RET != NULL ==> (NV_ENTRY(self, nv_w_find).first.id == NV_ARG_factory_get_1.id && \
                  (nv_g_f < nv_w_find ==> NV_ENTRY(self, nv_g_f).first.id != NV_ARG_factory_get_1.id))) \
__CPROVER_ensures((NV_RET != NULL && nv_w_find == nv_g_f) ==> (NV_RET != NV_ENTRY(self, nv_g_f).second.m_prototype && \
                  NV_RET->state == NV_ENTRY(self, nv_g_f).second.m_prototype->state && NV_RET->m_type_id.id == NV_ARG_factory_get_1.id)) \
__CPROVER_ensures(NV_ENTRY(self, nv_g_f).second.m_prototype == __CPROVER_old(NV_ENTRY(self, nv_g_f).second.m_prototype) && \
                  NV_ENTRY(self, nv_g_f).first.id == __CPROVER_old(NV_ENTRY(self, nv_g_f).first.id) && \
                  NV_ENTRY(self, nv_g_f).second.m_prototype->state == __CPROVER_old(NV_ENTRY(self, nv_g_f).second.m_prototype->state) && \
                  NV_ENTRY(self, nv_g_f).second.m_prototype->m_type_id.id == __CPROVER_old(NV_ENTRY(self, nv_g_f).second.m_prototype->m_type_id.id))
/* ---- description(id): the description registered with the first entry of that id, the empty string for an unknown id */
#define NV_CONTRACT_factory_description \
__CPROVER_requires(!nv_thrown && NV_FACTORY_OK(self)) \
__CPROVER_assigns(nv_w_find) \
__CPROVER_ensures(!nv_thrown) \
__CPROVER_ensures((0 <= nv_w_find && nv_w_find < self->m_protos.n) ==> (NV_ENTRY(self, nv_w_find).first.id == NV_ARG_factory_description_1.id && \
                  NV_RET.id == NV_ENTRY(self, nv_w_find).second.m_description.id)) \
__CPROVER_ensures(nv_w_find == self->m_protos.n ==> NV_RET.id == NV_EMPTY_STRING_ID) \
__CPROVER_ensures((NV_G_IN(self) && nv_g_f < nv_w_find) ==> NV_ENTRY(self, nv_g_f).first.id != NV_ARG_factory_description_1.id)
/* ---- size() */
#define NV_CONTRACT_factory_size \
__CPROVER_requires(!nv_thrown && NV_FACTORY_OK(self)) \
__CPROVER_assigns() \
__CPROVER_ensures(!nv_thrown && NV_RET == (uint64_t)self->m_protos.n)
/* ---- ids(regex): the registered ids that match, in registration order: never more than registered, and the id of EVERY (= the
 * ghost) entry that matches is listed -- at position nv_pos_g, after the ids of the matching entries before it */
#define NV_CONTRACT_factory_ids \
__CPROVER_requires(!nv_thrown && NV_FACTORY_OK(self) && __CPROVER_is_fresh(NV_ARG_factory_ids_1, sizeof(struct nv_regex))) \
__CPROVER_requires(NV_G_IN(self) ==> (nv_match_g != 0) == NV_MATCH(NV_ENTRY(self, nv_g_f).first, *NV_ARG_factory_ids_1)) \
__CPROVER_assigns(nv_pos_g, nv_cur) \
__CPROVER_ensures(!nv_thrown && 0 <= NV_RET.n && NV_RET.n <= self->m_protos.n) \
__CPROVER_ensures((NV_G_IN(self) && nv_match_g) ==> \
                  (0 <= nv_pos_g && nv_pos_g < NV_RET.n && nv_pos_g <= nv_g_f && NV_RET.g.id == NV_ENTRY(self, nv_g_f).first.id)) \
__CPROVER_ensures((NV_G_IN(self) && !nv_match_g) ==> NV_RET.n <= self->m_protos.n - 1)
#define NV_LOOP_factory_ids_1 \
__CPROVER_assigns(NV_LOOPVAR_factory_ids_1, ret.n, ret.g, nv_pos_g, nv_cur) \
__CPROVER_loop_invariant(0 <= nv_cur && nv_cur <= self->m_protos.n && NV_LOOPVAR_factory_ids_1 == self->m_protos.p + nv_cur && \
                         0 <= ret.n && ret.n <= nv_cur && \
                         ((NV_G_IN(self) && nv_g_f < nv_cur && nv_match_g) ==> \
                          (0 <= nv_pos_g && nv_pos_g < ret.n && nv_pos_g <= nv_g_f && ret.g.id == NV_ENTRY(self, nv_g_f).first.id)) && \
                         ((NV_G_IN(self) && nv_g_f < nv_cur && !nv_match_g) ==> ret.n <= nv_cur - 1)) \
__CPROVER_decreases(self->m_protos.n - nv_cur)

/* ---- add<T>(description, args...): a duplicate id is REJECTED (false, nothing registered, the first registration stays); otherwise
 * exactly one entry is appended: registered under the id the new prototype reports, with that prototype and the description */
#define NV_CONTRACT_factory_add \
__CPROVER_requires(!nv_thrown && NV_FACTORY_OK(self)) \
/* the ghost position is read by __CPROVER_old(..): keep the read inside the array (n + 1 cells); every clause about it is \
   conditional on 0 <= g < n, so positions outside [0, n] would only make the clauses vacuous */ \
__CPROVER_requires(0 <= nv_g_f && nv_g_f <= self->m_protos.n) \
__CPROVER_assigns(nv_w_find, self->m_protos.n, self->m_protos.p[self->m_protos.n]) \
__CPROVER_ensures(!nv_thrown) \
__CPROVER_ensures(!NV_RET ==> (self->m_protos.n == __CPROVER_old(self->m_protos.n) && 0 <= nv_w_find && nv_w_find < self->m_protos.n)) \
__CPROVER_ensures(NV_RET ==> (self->m_protos.n == __CPROVER_old(self->m_protos.n) + 1 && \
                  NV_ENTRY(self, self->m_protos.n - 1).second.m_prototype != NULL && NV_ID_INV(self, self->m_protos.n - 1) && \
                  NV_ENTRY(self, self->m_protos.n - 1).second.m_description.id == NV_ARG_factory_add_1.id)) \
__CPROVER_ensures((NV_RET && 0 <= nv_g_f && nv_g_f < self->m_protos.n - 1) ==> NV_ENTRY(self, nv_g_f).first.id != NV_ENTRY(self, self->m_protos.n - 1).first.id) \
__CPROVER_ensures((0 <= nv_g_f && nv_g_f < __CPROVER_old(self->m_protos.n)) ==> (NV_ENTRY(self, nv_g_f).first.id == __CPROVER_old(NV_ENTRY(self, nv_g_f).first.id) && \
                  NV_ENTRY(self, nv_g_f).second.m_prototype == __CPROVER_old(NV_ENTRY(self, nv_g_f).second.m_prototype) && \
                  NV_ENTRY(self, nv_g_f).second.m_description.id == __CPROVER_old(NV_ENTRY(self, nv_g_f).second.m_description.id)))
#endif
