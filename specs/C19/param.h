/* C19: "parameters stay inside their declared domain": C models of parameter_t's storage records and the contracts of
 * the check-then-assign code of src/parameter.cpp.  All postconditions are instances of the property statement:
 *   accepted  <=> the converted value c = (tscalar)x lies in the declared domain  => stored value is c, nothing thrown
 *   rejected  =>  throws and the WHOLE record is as before (both halves of a pair, and the domain itself)
 *   the domain predicate is an invariant of the record (never destroyed; established by every non-throwing update)
 *   arithmetic assignment to a parameter of another kind (enum, string, pair <-> scalar, empty) throws, nothing changes
 * Domain predicate (from the property): finite(v) && min <|<= v <|<= max with < / <= chosen per LEorLT flag,
 * pairs: min <|<= v1 <|<= v2 <|<= max. */
#ifndef NV_C19_PARAM_H
#define NV_C19_PARAM_H

/* std::variant<LE_t, LT_t>: `index` is variant::index(); which index means LE_t is read from clang's type by the
 * variant hooks (engine/hooks.py).  NV_LE is what the property calls "<=": the check_* targets prove that ::check()
 * implements exactly NV_CMP. */
struct nv_lelt { uint8_t index; };
#define NV_LE 0   /* LEorLT = std::variant<LE_t, LT_t>: alternative 0 */
#define NV_LT 1
#define NV_LELT_OK(c) ((c).index <= 1)   /* a variant of two empty, nothrow alternatives is never valueless */
#define NV_CMP(c, a, b) ((c).index == NV_LE ? ((a) <= (b)) : ((a) < (b)))

struct nv_str { int64_t id; };   /* std::string as a value of an uninterpreted sort: only copy and equality */
struct nv_strs { struct nv_str* p; int64_t n; };   /* std::vector<std::string> */

struct nv_irange { int64_t m_value, m_min, m_max; struct nv_lelt m_mincomp, m_maxcomp; };
struct nv_frange { double m_value, m_min, m_max; struct nv_lelt m_mincomp, m_maxcomp; };
struct nv_iprange { int64_t m_value1, m_value2, m_min, m_max; struct nv_lelt m_mincomp, m_valcomp, m_maxcomp; };
struct nv_fprange { double m_value1, m_value2, m_min, m_max; struct nv_lelt m_mincomp, m_valcomp, m_maxcomp; };
struct nv_enum { struct nv_str m_value; struct nv_strs m_domain; };
/* parameter_t::storage_t = std::variant<monostate, enum_t, irange_t, frange_t, iprange_t, fprange_t, string_t>
 * (engine convention: `index` + one member a<k> per alternative; the order is read from clang's type, and a wrong
 * member type here is a C type error) */
struct nv_storage { uint8_t index; struct nv_enum a1; struct nv_irange a2; struct nv_frange a3; struct nv_iprange a4;
                    struct nv_fprange a5; struct nv_str a6; };
struct nv_parameter { struct nv_str m_name; struct nv_storage m_storage; };
struct nv_tup_i32 { int32_t _0, _1; };
struct nv_tup_i64 { int64_t _0, _1; };
struct nv_tup_f64 { double _0, _1; };

/* std::isfinite(double) (the <cmath> function called by nano::isfinite<double>) */
static _Bool nv_std_isfinite(double x) { return !__CPROVER_isnand(x) && !__CPROVER_isinfd(x); }
#define NV_FIN_I(v) (1)
#define NV_FIN_F(v) (!__CPROVER_isnand(v) && !__CPROVER_isinfd(v))

/* domain predicates, parameterised by the candidate value(s) so that "dom[v := c]" can be written */
#define NV_DOM_R(FIN, r, v) (FIN(v) && NV_CMP((r).m_mincomp, (r).m_min, (v)) && NV_CMP((r).m_maxcomp, (v), (r).m_max))
#define NV_DOM_P(FIN, r, v1, v2) (FIN(v1) && FIN(v2) && NV_CMP((r).m_mincomp, (r).m_min, (v1)) && \
                                  NV_CMP((r).m_valcomp, (v1), (v2)) && NV_CMP((r).m_maxcomp, (v2), (r).m_max))
#define NV_RANGE_WF(r) (NV_LELT_OK((r).m_mincomp) && NV_LELT_OK((r).m_maxcomp))
#define NV_PAIR_WF(r) (NV_LELT_OK((r).m_mincomp) && NV_LELT_OK((r).m_valcomp) && NV_LELT_OK((r).m_maxcomp))
/* same stored value (integers: ==, doubles: NV_SAME so that a NaN bound or value counts as "unchanged") */
#define NV_EQ_I(a, b) ((a) == (b))
#define NV_EQ_F(a, b) NV_SAME(a, b)
#define NV_OLD(e) __CPROVER_old(e)

/* double -> int64 is defined only for finite values whose truncation is representable, i.e. -2^63 <= x < 2^63.
 * (CBMC's conversion check also rejects x == -2^63 exactly, which C++ defines; the guard below follows the checker,
 * so that single value is left undecided rather than claimed.) */
#define NV_F2I_DEFINED(x) (NV_FIN_F(x) && (x) > -9223372036854775808.0 && (x) < 9223372036854775808.0)

/* ------------------------------------------------------------------ ::check<tscalar>(lelt, v1, v2) */
#define NV_CONTRACT_CHECK \
__CPROVER_requires(__CPROVER_is_fresh(lelt, sizeof(*lelt)) && NV_LELT_OK(*lelt)) \
__CPROVER_assigns() \
__CPROVER_ensures(__CPROVER_return_value == NV_CMP(*lelt, value1, value2))
#define NV_CONTRACT_check_i64 NV_CONTRACT_CHECK
#define NV_CONTRACT_check_f64 NV_CONTRACT_CHECK

/* ------------------------------------------------------------------ check-then-assign on a range record `r`
 * G: guard (which alternative is active), DEF: the conversion (TS)x is defined, x: the assigned number.
 * Every clause that mentions (TS)x is guarded by DEF, so the contract never evaluates an undefined cast. */
#define NV_POST_R(G, FIN, EQ, TS, DEF, r, x) \
__CPROVER_ensures(((G) && (DEF) && NV_DOM_R(FIN, r, ((TS)(x)))) ==> (!nv_thrown && EQ((r).m_value, ((TS)(x))))) \
__CPROVER_ensures(((G) && (DEF) && !NV_DOM_R(FIN, r, ((TS)(x)))) ==> nv_thrown) \
__CPROVER_ensures(((G) && nv_thrown) ==> EQ((r).m_value, NV_OLD((r).m_value))) \
__CPROVER_ensures(((G) && !nv_thrown) ==> NV_DOM_R(FIN, r, (r).m_value)) \
__CPROVER_ensures(((G) && NV_DOM_R(FIN, r, NV_OLD((r).m_value))) ==> NV_DOM_R(FIN, r, (r).m_value)) \
__CPROVER_ensures(EQ((r).m_min, NV_OLD((r).m_min)) && EQ((r).m_max, NV_OLD((r).m_max)) && \
                  (r).m_mincomp.index == NV_OLD((r).m_mincomp.index) && (r).m_maxcomp.index == NV_OLD((r).m_maxcomp.index))
#define NV_SAME_R(EQ, r) (EQ((r).m_value, NV_OLD((r).m_value)))

#define NV_POST_P(G, FIN, EQ, TS, DEF, r, x1, x2) \
__CPROVER_ensures(((G) && (DEF) && NV_DOM_P(FIN, r, ((TS)(x1)), ((TS)(x2)))) ==> (!nv_thrown && EQ((r).m_value1, ((TS)(x1))) && EQ((r).m_value2, ((TS)(x2))))) \
__CPROVER_ensures(((G) && (DEF) && !NV_DOM_P(FIN, r, ((TS)(x1)), ((TS)(x2)))) ==> nv_thrown) \
__CPROVER_ensures(((G) && nv_thrown) ==> (EQ((r).m_value1, NV_OLD((r).m_value1)) && EQ((r).m_value2, NV_OLD((r).m_value2)))) \
__CPROVER_ensures(((G) && !nv_thrown) ==> NV_DOM_P(FIN, r, (r).m_value1, (r).m_value2)) \
__CPROVER_ensures(((G) && NV_DOM_P(FIN, r, NV_OLD((r).m_value1), NV_OLD((r).m_value2))) ==> NV_DOM_P(FIN, r, (r).m_value1, (r).m_value2)) \
__CPROVER_ensures(EQ((r).m_min, NV_OLD((r).m_min)) && EQ((r).m_max, NV_OLD((r).m_max)) && \
                  (r).m_mincomp.index == NV_OLD((r).m_mincomp.index) && (r).m_valcomp.index == NV_OLD((r).m_valcomp.index) && \
                  (r).m_maxcomp.index == NV_OLD((r).m_maxcomp.index))
#define NV_SAME_P(EQ, r) (EQ((r).m_value1, NV_OLD((r).m_value1)) && EQ((r).m_value2, NV_OLD((r).m_value2)))

/* ------------------------------------------------------------------ ::update(name, range_t<tscalar>&, tvalue) */
#define NV_CONTRACT_UPDATE_R(FIN, EQ, TS, DEF) \
__CPROVER_requires(!nv_thrown && __CPROVER_is_fresh(param, sizeof(*param)) && NV_RANGE_WF(*param)) \
__CPROVER_assigns(nv_thrown, param->m_value) \
NV_POST_R(1, FIN, EQ, TS, DEF, *param, value_) \
__CPROVER_ensures(!nv_thrown ==> __CPROVER_return_value == param)

#define NV_CONTRACT_update_ir_i64 NV_CONTRACT_UPDATE_R(NV_FIN_I, NV_EQ_I, int64_t, 1)
#define NV_CONTRACT_update_ir_ll  NV_CONTRACT_UPDATE_R(NV_FIN_I, NV_EQ_I, int64_t, 1)
/* double -> integer parameter, for EVERY double (the property quantifies over NaN / inf assignments and no caller
 * filters them: parameter_t::operator=(double) -> setd -> update(storage, double) -> here) */
#define NV_CONTRACT_update_ir_f64 NV_CONTRACT_UPDATE_R(NV_FIN_I, NV_EQ_I, int64_t, NV_F2I_DEFINED(value_))
#define NV_CONTRACT_update_fr_f64 NV_CONTRACT_UPDATE_R(NV_FIN_F, NV_EQ_F, double, 1)
#define NV_CONTRACT_update_fr_i64 NV_CONTRACT_UPDATE_R(NV_FIN_F, NV_EQ_F, double, 1)

/* ------------------------------------------------------------------ ::update(name, pair_range_t<tscalar>&, v1, v2) */
#define NV_CONTRACT_UPDATE_P(FIN, EQ, TS, DEF) \
__CPROVER_requires(!nv_thrown && __CPROVER_is_fresh(param, sizeof(*param)) && NV_PAIR_WF(*param)) \
__CPROVER_assigns(nv_thrown, param->m_value1, param->m_value2) \
NV_POST_P(1, FIN, EQ, TS, DEF, *param, value1_, value2_) \
__CPROVER_ensures(!nv_thrown ==> __CPROVER_return_value == param)

#define NV_CONTRACT_update_ip_i64 NV_CONTRACT_UPDATE_P(NV_FIN_I, NV_EQ_I, int64_t, 1)
#define NV_CONTRACT_update_ip_ll  NV_CONTRACT_UPDATE_P(NV_FIN_I, NV_EQ_I, int64_t, 1)
#define NV_CONTRACT_update_ip_i32 NV_CONTRACT_UPDATE_P(NV_FIN_I, NV_EQ_I, int64_t, 1)
#define NV_CONTRACT_update_ip_f64 NV_CONTRACT_UPDATE_P(NV_FIN_I, NV_EQ_I, int64_t, NV_F2I_DEFINED(value1_) && NV_F2I_DEFINED(value2_))
#define NV_CONTRACT_update_fp_f64 NV_CONTRACT_UPDATE_P(NV_FIN_F, NV_EQ_F, double, 1)
#define NV_CONTRACT_update_fp_i64 NV_CONTRACT_UPDATE_P(NV_FIN_F, NV_EQ_F, double, 1)
#define NV_CONTRACT_update_fp_i32 NV_CONTRACT_UPDATE_P(NV_FIN_F, NV_EQ_F, double, 1)

/* ------------------------------------------------------------------ ::update(name, storage_t&, number | tuple)
 * the std::visit dispatch: the active alternative decides; a parameter of any other kind rejects the assignment.
 * The variant never changes its alternative; records of the other alternatives are framed by the assigns clause. */
#define NV_ST_WF(s) ((s).index <= 6 && ((s).index != 2 || NV_RANGE_WF((s).a2)) && ((s).index != 3 || NV_RANGE_WF((s).a3)) && \
                     ((s).index != 4 || NV_PAIR_WF((s).a4)) && ((s).index != 5 || NV_PAIR_WF((s).a5)))

#define NV_POST_ST_SCALAR(s, DEF) \
__CPROVER_ensures((s).index == NV_OLD((s).index)) \
NV_POST_R((s).index == 2, NV_FIN_I, NV_EQ_I, int64_t, DEF, (s).a2, value) \
NV_POST_R((s).index == 3, NV_FIN_F, NV_EQ_F, double, 1, (s).a3, value) \
__CPROVER_ensures((s).index != 2 ==> NV_SAME_R(NV_EQ_I, (s).a2)) \
__CPROVER_ensures((s).index != 3 ==> NV_SAME_R(NV_EQ_F, (s).a3)) \
__CPROVER_ensures(((s).index != 2 && (s).index != 3) ==> nv_thrown)

#define NV_POST_ST_PAIR(s, DEF) \
__CPROVER_ensures((s).index == NV_OLD((s).index)) \
NV_POST_P((s).index == 4, NV_FIN_I, NV_EQ_I, int64_t, DEF, (s).a4, value._0, value._1) \
NV_POST_P((s).index == 5, NV_FIN_F, NV_EQ_F, double, 1, (s).a5, value._0, value._1) \
__CPROVER_ensures((s).index != 4 ==> NV_SAME_P(NV_EQ_I, (s).a4)) \
__CPROVER_ensures((s).index != 5 ==> NV_SAME_P(NV_EQ_F, (s).a5)) \
__CPROVER_ensures(((s).index != 4 && (s).index != 5) ==> nv_thrown)

#define NV_CONTRACT_UPDATE_ST_SCALAR(DEF) \
__CPROVER_requires(!nv_thrown && __CPROVER_is_fresh(storage, sizeof(*storage)) && NV_ST_WF(*storage)) \
__CPROVER_assigns(nv_thrown, storage->a2.m_value, storage->a3.m_value) \
NV_POST_ST_SCALAR(*storage, DEF)
#define NV_CONTRACT_UPDATE_ST_PAIR(DEF) \
__CPROVER_requires(!nv_thrown && __CPROVER_is_fresh(storage, sizeof(*storage)) && NV_ST_WF(*storage)) \
__CPROVER_assigns(nv_thrown, storage->a4.m_value1, storage->a4.m_value2, storage->a5.m_value1, storage->a5.m_value2) \
NV_POST_ST_PAIR(*storage, DEF)

#define NV_CONTRACT_update_st_i64 NV_CONTRACT_UPDATE_ST_SCALAR(1)
#define NV_CONTRACT_update_st_f64 NV_CONTRACT_UPDATE_ST_SCALAR(NV_F2I_DEFINED(value))
#define NV_CONTRACT_update_st_t32 NV_CONTRACT_UPDATE_ST_PAIR(1)
#define NV_CONTRACT_update_st_t64 NV_CONTRACT_UPDATE_ST_PAIR(1)
#define NV_CONTRACT_update_st_tf  NV_CONTRACT_UPDATE_ST_PAIR(NV_F2I_DEFINED(value._0) && NV_F2I_DEFINED(value._1))

/* ------------------------------------------------------------------ parameter_t::seti / setd / operator=(tuple) */
#define NV_CONTRACT_PARAM_SCALAR(DEF) \
__CPROVER_requires(!nv_thrown && __CPROVER_is_fresh(self, sizeof(*self)) && NV_ST_WF(self->m_storage)) \
__CPROVER_assigns(nv_thrown, self->m_storage.a2.m_value, self->m_storage.a3.m_value) \
NV_POST_ST_SCALAR(self->m_storage, DEF) \
__CPROVER_ensures(self->m_name.id == NV_OLD(self->m_name.id)) \
__CPROVER_ensures(!nv_thrown ==> __CPROVER_return_value == self)
#define NV_CONTRACT_PARAM_PAIR(DEF) \
__CPROVER_requires(!nv_thrown && __CPROVER_is_fresh(self, sizeof(*self)) && NV_ST_WF(self->m_storage)) \
__CPROVER_assigns(nv_thrown, self->m_storage.a4.m_value1, self->m_storage.a4.m_value2, self->m_storage.a5.m_value1, self->m_storage.a5.m_value2) \
NV_POST_ST_PAIR(self->m_storage, DEF) \
__CPROVER_ensures(self->m_name.id == NV_OLD(self->m_name.id)) \
__CPROVER_ensures(!nv_thrown ==> __CPROVER_return_value == self)
#define NV_CONTRACT_parameter_seti NV_CONTRACT_PARAM_SCALAR(1)
#define NV_CONTRACT_parameter_setd NV_CONTRACT_PARAM_SCALAR(NV_F2I_DEFINED(value))
#define NV_CONTRACT_parameter_assign_t32 NV_CONTRACT_PARAM_PAIR(1)
#define NV_CONTRACT_parameter_assign_t64 NV_CONTRACT_PARAM_PAIR(1)
#define NV_CONTRACT_parameter_assign_tf  NV_CONTRACT_PARAM_PAIR(NV_F2I_DEFINED(value._0) && NV_F2I_DEFINED(value._1))

#endif
