/* C19: "parameters stay inside their declared domain": C models of parameter_t's storage records and the contracts of
 * the check-then-assign code of src/parameter.cpp.  All postconditions are instances of the property statement:
 *   accepted  <=> the converted value c = (tscalar)x lies in the declared domain  => stored value is c, nothing thrown
 *   rejected  =>  throws and the WHOLE record is as before (both halves of a pair, and the domain itself)
 *   the domain predicate is an invariant of the record (never destroyed; established by every non-throwing update)
 *   arithmetic assignment to a parameter of another kind (enum, string, pair <-> scalar, empty) throws, nothing changes
 * Domain predicate (from the property): finite(v) && min <|<= v <|<= max with < / <= chosen per LEorLT flag,
 * pairs: min <|<= v1 <|<= v2 <|<= max. */
#ifndef NV_C19_PARAM_H
#define NV_C19_PARAM_H

/* std::variant<LE_t, LT_t>: `index` is variant::index(); which index means LE_t is read from clang's type by the
 * variant hooks (engine/hooks.py).  NV_LE is what the property calls "<=": the check_* targets prove that ::check()
 * implements exactly NV_CMP. */
struct nv_lelt { uint8_t index; };
#define NV_LE 0   /* LEorLT = std::variant<LE_t, LT_t>: alternative 0 */
#define NV_LT 1
#define NV_LELT_OK(c) ((c).index <= 1)   /* a variant of two empty, nothrow alternatives is never valueless */
#define NV_CMP(c, a, b) ((c).index == NV_LE ? ((a) <= (b)) : ((a) < (b)))

struct nv_str { int64_t id; };   /* std::string as a value of an uninterpreted sort: only copy and equality */
struct nv_strs { struct nv_str* p; int64_t n; };   /* std::vector<std::string> */

struct nv_irange { int64_t m_value, m_min, m_max; struct nv_lelt m_mincomp, m_maxcomp; };
struct nv_frange { double m_value, m_min, m_max; struct nv_lelt m_mincomp, m_maxcomp; };
struct nv_iprange { int64_t m_value1, m_value2, m_min, m_max; struct nv_lelt m_mincomp, m_valcomp, m_maxcomp; };
struct nv_fprange { double m_value1, m_value2, m_min, m_max; struct nv_lelt m_mincomp, m_valcomp, m_maxcomp; };
struct nv_enum { struct nv_str m_value; struct nv_strs m_domain; };
/* parameter_t::storage_t = std::variant<monostate, enum_t, irange_t, frange_t, iprange_t, fprange_t, string_t>
 * (engine convention: `index` + one member a<k> per alternative; the order is read from clang's type, and a wrong
 * member type here is a C type error) */
struct nv_storage { uint8_t index; struct nv_enum a1; struct nv_irange a2; struct nv_frange a3; struct nv_iprange a4;
                    struct nv_fprange a5; struct nv_str a6; };
struct nv_parameter { struct nv_str m_name; struct nv_storage m_storage; };
struct nv_tup_i32 { int32_t _0, _1; };
struct nv_tup_i64 { int64_t _0, _1; };
struct nv_tup_f64 { double _0, _1; };
struct nv_tup_f32 { float _0, _1; };

/* std::isfinite(double) (the <cmath> function called by nano::isfinite<double>) */
static _Bool nv_std_isfinite(double x) { return !__CPROVER_isnand(x) && !__CPROVER_isinfd(x); }
#define NV_FIN_I(v) (1)
#define NV_FIN_F(v) (!__CPROVER_isnand(v) && !__CPROVER_isinfd(v))

/* domain predicates, parameterised by the candidate value(s) so that "dom[v := c]" can be written */
#define NV_DOM_R(FIN, r, v) (FIN(v) && NV_CMP((r).m_mincomp, (r).m_min, (v)) && NV_CMP((r).m_maxcomp, (v), (r).m_max))
#define NV_DOM_P(FIN, r, v1, v2) (FIN(v1) && FIN(v2) && NV_CMP((r).m_mincomp, (r).m_min, (v1)) && \
                                  NV_CMP((r).m_valcomp, (v1), (v2)) && NV_CMP((r).m_maxcomp, (v2), (r).m_max))
#define NV_RANGE_WF(r) (NV_LELT_OK((r).m_mincomp) && NV_LELT_OK((r).m_maxcomp))
#define NV_PAIR_WF(r) (NV_LELT_OK((r).m_mincomp) && NV_LELT_OK((r).m_valcomp) && NV_LELT_OK((r).m_maxcomp))
/* same stored value (integers: ==, doubles: NV_SAME so that a NaN bound or value counts as "unchanged") */
#define NV_EQ_I(a, b) ((a) == (b))
#define NV_EQ_F(a, b) NV_SAME(a, b)
#define NV_OLD(e) __CPROVER_old(e)

/* (TS)x inside a contract: for a floating source and int64 target the boundary value -2^63 (defined by C++, flagged by
 * CBMC's conversion check) is converted without the built-in cast */
#define NV_CONV(TS, x) NV_CONV_##TS(x)
#define NV_CONV_double(x) ((double)(x))
#define NV_CONV_int64_t(x) _Generic((x), double: (((x) == -9223372036854775808.0) ? INT64_MIN : (int64_t)(x)), \
                                      float: (((x) == -9223372036854775808.0f) ? INT64_MIN : (int64_t)(x)), default: ((int64_t)(x)))
/* double -> int64 is defined only for finite values whose truncation is representable, i.e. -2^63 <= x < 2^63 */
#define NV_F2I_DEFINED(x) (NV_FIN_F(x) && (x) >= -9223372036854775808.0 && (x) < 9223372036854775808.0)

/* ------------------------------------------------------------------ ::check<tscalar>(lelt, v1, v2) */
/* (parameter names are taken from the source through NV_ARG_<function>_<k>; one contract per instantiation that can exist:
 * operands of type int64 (i64, ll), int32 (i32) or double (f64), compared as C++ compares them) */
#define NV_CONTRACT_CHECK(L, A, B) \
__CPROVER_requires(__CPROVER_is_fresh(L, sizeof(*L)) && NV_LELT_OK(*L)) \
__CPROVER_assigns() \
__CPROVER_ensures(__CPROVER_return_value == NV_CMP(*L, A, B))
#define NV_CONTRACT_check_i64_i64 NV_CONTRACT_CHECK(NV_ARG_check_i64_i64_0, NV_ARG_check_i64_i64_1, NV_ARG_check_i64_i64_2)
#define NV_CONTRACT_check_i64_ll NV_CONTRACT_CHECK(NV_ARG_check_i64_ll_0, NV_ARG_check_i64_ll_1, NV_ARG_check_i64_ll_2)
#define NV_CONTRACT_check_i64_i32 NV_CONTRACT_CHECK(NV_ARG_check_i64_i32_0, NV_ARG_check_i64_i32_1, NV_ARG_check_i64_i32_2)
#define NV_CONTRACT_check_i64_f64 NV_CONTRACT_CHECK(NV_ARG_check_i64_f64_0, NV_ARG_check_i64_f64_1, NV_ARG_check_i64_f64_2)
#define NV_CONTRACT_check_ll_i64 NV_CONTRACT_CHECK(NV_ARG_check_ll_i64_0, NV_ARG_check_ll_i64_1, NV_ARG_check_ll_i64_2)
#define NV_CONTRACT_check_ll_ll NV_CONTRACT_CHECK(NV_ARG_check_ll_ll_0, NV_ARG_check_ll_ll_1, NV_ARG_check_ll_ll_2)
#define NV_CONTRACT_check_ll_i32 NV_CONTRACT_CHECK(NV_ARG_check_ll_i32_0, NV_ARG_check_ll_i32_1, NV_ARG_check_ll_i32_2)
#define NV_CONTRACT_check_ll_f64 NV_CONTRACT_CHECK(NV_ARG_check_ll_f64_0, NV_ARG_check_ll_f64_1, NV_ARG_check_ll_f64_2)
#define NV_CONTRACT_check_i32_i64 NV_CONTRACT_CHECK(NV_ARG_check_i32_i64_0, NV_ARG_check_i32_i64_1, NV_ARG_check_i32_i64_2)
#define NV_CONTRACT_check_i32_ll NV_CONTRACT_CHECK(NV_ARG_check_i32_ll_0, NV_ARG_check_i32_ll_1, NV_ARG_check_i32_ll_2)
#define NV_CONTRACT_check_i32_i32 NV_CONTRACT_CHECK(NV_ARG_check_i32_i32_0, NV_ARG_check_i32_i32_1, NV_ARG_check_i32_i32_2)
#define NV_CONTRACT_check_i32_f64 NV_CONTRACT_CHECK(NV_ARG_check_i32_f64_0, NV_ARG_check_i32_f64_1, NV_ARG_check_i32_f64_2)
#define NV_CONTRACT_check_f64_i64 NV_CONTRACT_CHECK(NV_ARG_check_f64_i64_0, NV_ARG_check_f64_i64_1, NV_ARG_check_f64_i64_2)
#define NV_CONTRACT_check_f64_ll NV_CONTRACT_CHECK(NV_ARG_check_f64_ll_0, NV_ARG_check_f64_ll_1, NV_ARG_check_f64_ll_2)
#define NV_CONTRACT_check_f64_i32 NV_CONTRACT_CHECK(NV_ARG_check_f64_i32_0, NV_ARG_check_f64_i32_1, NV_ARG_check_f64_i32_2)
#define NV_CONTRACT_check_f64_f64 NV_CONTRACT_CHECK(NV_ARG_check_f64_f64_0, NV_ARG_check_f64_f64_1, NV_ARG_check_f64_f64_2)
#define NV_CONTRACT_check_i64_f32 NV_CONTRACT_CHECK(NV_ARG_check_i64_f32_0, NV_ARG_check_i64_f32_1, NV_ARG_check_i64_f32_2)
#define NV_CONTRACT_check_ll_f32 NV_CONTRACT_CHECK(NV_ARG_check_ll_f32_0, NV_ARG_check_ll_f32_1, NV_ARG_check_ll_f32_2)
#define NV_CONTRACT_check_i32_f32 NV_CONTRACT_CHECK(NV_ARG_check_i32_f32_0, NV_ARG_check_i32_f32_1, NV_ARG_check_i32_f32_2)
#define NV_CONTRACT_check_f64_f32 NV_CONTRACT_CHECK(NV_ARG_check_f64_f32_0, NV_ARG_check_f64_f32_1, NV_ARG_check_f64_f32_2)
#define NV_CONTRACT_check_f32_i64 NV_CONTRACT_CHECK(NV_ARG_check_f32_i64_0, NV_ARG_check_f32_i64_1, NV_ARG_check_f32_i64_2)
#define NV_CONTRACT_check_f32_ll NV_CONTRACT_CHECK(NV_ARG_check_f32_ll_0, NV_ARG_check_f32_ll_1, NV_ARG_check_f32_ll_2)
#define NV_CONTRACT_check_f32_i32 NV_CONTRACT_CHECK(NV_ARG_check_f32_i32_0, NV_ARG_check_f32_i32_1, NV_ARG_check_f32_i32_2)
#define NV_CONTRACT_check_f32_f64 NV_CONTRACT_CHECK(NV_ARG_check_f32_f64_0, NV_ARG_check_f32_f64_1, NV_ARG_check_f32_f64_2)
#define NV_CONTRACT_check_f32_f32 NV_CONTRACT_CHECK(NV_ARG_check_f32_f32_0, NV_ARG_check_f32_f32_1, NV_ARG_check_f32_f32_2)

/* ------------------------------------------------------------------ check-then-assign on a range record `r`
 * G: guard (which alternative is active), DEF: the conversion (TS)x is defined, x: the assigned number.
 * Every clause that mentions (TS)x is guarded by DEF, so the contract never evaluates an undefined cast. */
#define NV_POST_R(G, FIN, EQ, TS, DEF, r, x) \
__CPROVER_ensures(((G) && (DEF) && NV_DOM_R(FIN, r, NV_CONV(TS, x))) ==> (!nv_thrown && EQ((r).m_value, NV_CONV(TS, x)))) \
__CPROVER_ensures(((G) && (DEF) && !NV_DOM_R(FIN, r, NV_CONV(TS, x))) ==> nv_thrown) \
__CPROVER_ensures(((G) && nv_thrown) ==> EQ((r).m_value, NV_OLD((r).m_value))) \
__CPROVER_ensures(((G) && !nv_thrown) ==> NV_DOM_R(FIN, r, (r).m_value)) \
__CPROVER_ensures(((G) && NV_DOM_R(FIN, r, NV_OLD((r).m_value))) ==> NV_DOM_R(FIN, r, (r).m_value)) \
__CPROVER_ensures(EQ((r).m_min, NV_OLD((r).m_min)) && EQ((r).m_max, NV_OLD((r).m_max)) && \
                  (r).m_mincomp.index == NV_OLD((r).m_mincomp.index) && (r).m_maxcomp.index == NV_OLD((r).m_maxcomp.index))
#define NV_SAME_R(EQ, r) (EQ((r).m_value, NV_OLD((r).m_value)))

#define NV_POST_P(G, FIN, EQ, TS, DEF, r, x1, x2) \
__CPROVER_ensures(((G) && (DEF) && NV_DOM_P(FIN, r, NV_CONV(TS, x1), NV_CONV(TS, x2))) ==> (!nv_thrown && EQ((r).m_value1, NV_CONV(TS, x1)) && EQ((r).m_value2, NV_CONV(TS, x2)))) \
__CPROVER_ensures(((G) && (DEF) && !NV_DOM_P(FIN, r, NV_CONV(TS, x1), NV_CONV(TS, x2))) ==> nv_thrown) \
__CPROVER_ensures(((G) && nv_thrown) ==> (EQ((r).m_value1, NV_OLD((r).m_value1)) && EQ((r).m_value2, NV_OLD((r).m_value2)))) \
__CPROVER_ensures(((G) && !nv_thrown) ==> NV_DOM_P(FIN, r, (r).m_value1, (r).m_value2)) \
__CPROVER_ensures(((G) && NV_DOM_P(FIN, r, NV_OLD((r).m_value1), NV_OLD((r).m_value2))) ==> NV_DOM_P(FIN, r, (r).m_value1, (r).m_value2)) \
__CPROVER_ensures(EQ((r).m_min, NV_OLD((r).m_min)) && EQ((r).m_max, NV_OLD((r).m_max)) && \
                  (r).m_mincomp.index == NV_OLD((r).m_mincomp.index) && (r).m_valcomp.index == NV_OLD((r).m_valcomp.index) && \
                  (r).m_maxcomp.index == NV_OLD((r).m_maxcomp.index))
#define NV_SAME_P(EQ, r) (EQ((r).m_value1, NV_OLD((r).m_value1)) && EQ((r).m_value2, NV_OLD((r).m_value2)))

/* ------------------------------------------------------------------ ::update(name, range_t<tscalar>&, tvalue) */
#define NV_CONTRACT_UPDATE_R(FIN, EQ, TS, DEF, P, X) \
__CPROVER_requires(!nv_thrown && __CPROVER_is_fresh(P, sizeof(*P)) && NV_RANGE_WF(*P)) \
__CPROVER_assigns(nv_thrown, P->m_value) \
NV_POST_R(1, FIN, EQ, TS, DEF, *P, X) \
__CPROVER_ensures(!nv_thrown ==> __CPROVER_return_value == P)
/* one contract per (parameter kind, assigned type) the templates can be instantiated for; only those that exist in the
 * current source become targets.  A real number assigned to an integer parameter: a value that is not finite or not
 * representable as int64 is rejected before the conversion (it was undefined behaviour before the repair recorded in
 * known_findings.txt; the printer emits NV_F2I64 for such casts, whose obligation is the exact C++ definedness condition). */
#define NV_UPD_R_I(n) NV_CONTRACT_UPDATE_R(NV_FIN_I, NV_EQ_I, int64_t, 1, NV_ARG_##n##_1, NV_ARG_##n##_2)
#define NV_UPD_R_F(n) NV_CONTRACT_UPDATE_R(NV_FIN_F, NV_EQ_F, double, 1, NV_ARG_##n##_1, NV_ARG_##n##_2)
#define NV_CONTRACT_update_ir_i64 NV_UPD_R_I(update_ir_i64)
#define NV_CONTRACT_update_ir_ll  NV_UPD_R_I(update_ir_ll)
#define NV_CONTRACT_update_ir_i32 NV_UPD_R_I(update_ir_i32)
#define NV_CONTRACT_update_ir_f64 NV_CONTRACT_UPDATE_R(NV_FIN_I, NV_EQ_I, int64_t, NV_F2I_DEFINED(NV_ARG_update_ir_f64_2), NV_ARG_update_ir_f64_1, NV_ARG_update_ir_f64_2) \
__CPROVER_ensures(!NV_F2I_DEFINED(NV_ARG_update_ir_f64_2) ==> nv_thrown)
#define NV_CONTRACT_update_ir_f32 NV_CONTRACT_UPDATE_R(NV_FIN_I, NV_EQ_I, int64_t, NV_F2I_DEFINED(NV_ARG_update_ir_f32_2), NV_ARG_update_ir_f32_1, NV_ARG_update_ir_f32_2) \
__CPROVER_ensures(!NV_F2I_DEFINED(NV_ARG_update_ir_f32_2) ==> nv_thrown)
#define NV_CONTRACT_update_fr_f32 NV_UPD_R_F(update_fr_f32)
#define NV_CONTRACT_update_fr_f64 NV_UPD_R_F(update_fr_f64)
#define NV_CONTRACT_update_fr_i64 NV_UPD_R_F(update_fr_i64)
#define NV_CONTRACT_update_fr_ll  NV_UPD_R_F(update_fr_ll)
#define NV_CONTRACT_update_fr_i32 NV_UPD_R_F(update_fr_i32)

/* ------------------------------------------------------------------ ::update(name, pair_range_t<tscalar>&, v1, v2) */
#define NV_CONTRACT_UPDATE_P(FIN, EQ, TS, DEF, P, X1, X2) \
__CPROVER_requires(!nv_thrown && __CPROVER_is_fresh(P, sizeof(*P)) && NV_PAIR_WF(*P)) \
__CPROVER_assigns(nv_thrown, P->m_value1, P->m_value2) \
NV_POST_P(1, FIN, EQ, TS, DEF, *P, X1, X2) \
__CPROVER_ensures(!nv_thrown ==> __CPROVER_return_value == P)
#define NV_UPD_P_I(n) NV_CONTRACT_UPDATE_P(NV_FIN_I, NV_EQ_I, int64_t, 1, NV_ARG_##n##_1, NV_ARG_##n##_2, NV_ARG_##n##_3)
#define NV_UPD_P_F(n) NV_CONTRACT_UPDATE_P(NV_FIN_F, NV_EQ_F, double, 1, NV_ARG_##n##_1, NV_ARG_##n##_2, NV_ARG_##n##_3)
#define NV_CONTRACT_update_ip_i64 NV_UPD_P_I(update_ip_i64)
#define NV_CONTRACT_update_ip_ll  NV_UPD_P_I(update_ip_ll)
#define NV_CONTRACT_update_ip_i32 NV_UPD_P_I(update_ip_i32)
#define NV_IP_F64_DEF (NV_F2I_DEFINED(NV_ARG_update_ip_f64_2) && NV_F2I_DEFINED(NV_ARG_update_ip_f64_3))
#define NV_CONTRACT_update_ip_f64 NV_CONTRACT_UPDATE_P(NV_FIN_I, NV_EQ_I, int64_t, NV_IP_F64_DEF, NV_ARG_update_ip_f64_1, NV_ARG_update_ip_f64_2, NV_ARG_update_ip_f64_3) \
__CPROVER_ensures(!NV_IP_F64_DEF ==> nv_thrown)
#define NV_IP_F32_DEF (NV_F2I_DEFINED(NV_ARG_update_ip_f32_2) && NV_F2I_DEFINED(NV_ARG_update_ip_f32_3))
#define NV_CONTRACT_update_ip_f32 NV_CONTRACT_UPDATE_P(NV_FIN_I, NV_EQ_I, int64_t, NV_IP_F32_DEF, NV_ARG_update_ip_f32_1, NV_ARG_update_ip_f32_2, NV_ARG_update_ip_f32_3) \
__CPROVER_ensures(!NV_IP_F32_DEF ==> nv_thrown)
#define NV_CONTRACT_update_fp_f32 NV_UPD_P_F(update_fp_f32)
#define NV_CONTRACT_update_fp_f64 NV_UPD_P_F(update_fp_f64)
#define NV_CONTRACT_update_fp_i64 NV_UPD_P_F(update_fp_i64)
#define NV_CONTRACT_update_fp_ll  NV_UPD_P_F(update_fp_ll)
#define NV_CONTRACT_update_fp_i32 NV_UPD_P_F(update_fp_i32)

/* ------------------------------------------------------------------ ::update(name, storage_t&, number | tuple)
 * the std::visit dispatch: the active alternative decides; a parameter of any other kind rejects the assignment.
 * The variant never changes its alternative; records of the other alternatives are framed by the assigns clause. */
/* no bound on index: a valueless variant (any index beyond the last alternative) makes std::visit throw, like a mismatch */
#define NV_ST_WF(s) ((1) && ((s).index != 2 || NV_RANGE_WF((s).a2)) && ((s).index != 3 || NV_RANGE_WF((s).a3)) && \
                     ((s).index != 4 || NV_PAIR_WF((s).a4)) && ((s).index != 5 || NV_PAIR_WF((s).a5)))

#define NV_POST_ST_SCALAR(s, DEF, X) \
__CPROVER_ensures((s).index == NV_OLD((s).index)) \
NV_POST_R((s).index == 2, NV_FIN_I, NV_EQ_I, int64_t, DEF, (s).a2, X) \
NV_POST_R((s).index == 3, NV_FIN_F, NV_EQ_F, double, 1, (s).a3, X) \
__CPROVER_ensures((s).index != 2 ==> NV_SAME_R(NV_EQ_I, (s).a2)) \
__CPROVER_ensures((s).index != 3 ==> NV_SAME_R(NV_EQ_F, (s).a3)) \
__CPROVER_ensures(((s).index != 2 && (s).index != 3) ==> nv_thrown)

#define NV_POST_ST_PAIR(s, DEF, X) \
__CPROVER_ensures((s).index == NV_OLD((s).index)) \
NV_POST_P((s).index == 4, NV_FIN_I, NV_EQ_I, int64_t, DEF, (s).a4, X._0, X._1) \
NV_POST_P((s).index == 5, NV_FIN_F, NV_EQ_F, double, 1, (s).a5, X._0, X._1) \
__CPROVER_ensures((s).index != 4 ==> NV_SAME_P(NV_EQ_I, (s).a4)) \
__CPROVER_ensures((s).index != 5 ==> NV_SAME_P(NV_EQ_F, (s).a5)) \
__CPROVER_ensures(((s).index != 4 && (s).index != 5) ==> nv_thrown)

#define NV_CONTRACT_UPDATE_ST_SCALAR(DEF, S, X) \
__CPROVER_requires(!nv_thrown && __CPROVER_is_fresh(S, sizeof(*S)) && NV_ST_WF(*S)) \
__CPROVER_assigns(nv_thrown, S->a2.m_value, S->a3.m_value) \
NV_POST_ST_SCALAR(*S, DEF, X)
#define NV_CONTRACT_UPDATE_ST_PAIR(DEF, S, X) \
__CPROVER_requires(!nv_thrown && __CPROVER_is_fresh(S, sizeof(*S)) && NV_ST_WF(*S)) \
__CPROVER_assigns(nv_thrown, S->a4.m_value1, S->a4.m_value2, S->a5.m_value1, S->a5.m_value2) \
NV_POST_ST_PAIR(*S, DEF, X)

/* one contract per assigned type the storage-level template can be instantiated for (integers: the conversion to int64 is
 * always defined; floating point: defined iff finite and representable) */
#define NV_ST_I(n) NV_CONTRACT_UPDATE_ST_SCALAR(1, NV_ARG_##n##_1, NV_ARG_##n##_2)
#define NV_ST_F(n) NV_CONTRACT_UPDATE_ST_SCALAR(NV_F2I_DEFINED(NV_ARG_##n##_2), NV_ARG_##n##_1, NV_ARG_##n##_2)
#define NV_ST_TI(n) NV_CONTRACT_UPDATE_ST_PAIR(1, NV_ARG_##n##_1, NV_ARG_##n##_2)
#define NV_ST_TF(n) NV_CONTRACT_UPDATE_ST_PAIR(NV_F2I_DEFINED(NV_ARG_##n##_2._0) && NV_F2I_DEFINED(NV_ARG_##n##_2._1), NV_ARG_##n##_1, NV_ARG_##n##_2)
#define NV_CONTRACT_update_st_i64 NV_ST_I(update_st_i64)
#define NV_CONTRACT_update_st_ll  NV_ST_I(update_st_ll)
#define NV_CONTRACT_update_st_i32 NV_ST_I(update_st_i32)
#define NV_CONTRACT_update_st_f64 NV_ST_F(update_st_f64)
#define NV_CONTRACT_update_st_f32 NV_ST_F(update_st_f32)
#define NV_CONTRACT_update_st_ti64 NV_ST_TI(update_st_ti64)
#define NV_CONTRACT_update_st_tll  NV_ST_TI(update_st_tll)
#define NV_CONTRACT_update_st_ti32 NV_ST_TI(update_st_ti32)
#define NV_CONTRACT_update_st_tf64 NV_ST_TF(update_st_tf64)
#define NV_CONTRACT_update_st_tf32 NV_ST_TF(update_st_tf32)

/* ------------------------------------------------------------------ parameter_t::seti / setd / operator=(tuple) */
#define NV_CONTRACT_PARAM_SCALAR(DEF) \
__CPROVER_requires(!nv_thrown && __CPROVER_is_fresh(self, sizeof(*self)) && NV_ST_WF(self->m_storage)) \
__CPROVER_assigns(nv_thrown, self->m_storage.a2.m_value, self->m_storage.a3.m_value) \
NV_POST_ST_SCALAR(self->m_storage, DEF, value) \
__CPROVER_ensures(self->m_name.id == NV_OLD(self->m_name.id)) \
__CPROVER_ensures(!nv_thrown ==> __CPROVER_return_value == self)
#define NV_CONTRACT_PARAM_PAIR(DEF) \
__CPROVER_requires(!nv_thrown && __CPROVER_is_fresh(self, sizeof(*self)) && NV_ST_WF(self->m_storage)) \
__CPROVER_assigns(nv_thrown, self->m_storage.a4.m_value1, self->m_storage.a4.m_value2, self->m_storage.a5.m_value1, self->m_storage.a5.m_value2) \
NV_POST_ST_PAIR(self->m_storage, DEF, value) \
__CPROVER_ensures(self->m_name.id == NV_OLD(self->m_name.id)) \
__CPROVER_ensures(!nv_thrown ==> __CPROVER_return_value == self)
#define NV_CONTRACT_parameter_seti NV_CONTRACT_PARAM_SCALAR(1)
#define NV_CONTRACT_parameter_setd NV_CONTRACT_PARAM_SCALAR(NV_F2I_DEFINED(value))
#define NV_CONTRACT_parameter_assign_t32 NV_CONTRACT_PARAM_PAIR(1)
#define NV_CONTRACT_parameter_assign_t64 NV_CONTRACT_PARAM_PAIR(1)
#define NV_CONTRACT_parameter_assign_tf  NV_CONTRACT_PARAM_PAIR(NV_F2I_DEFINED(value._0) && NV_F2I_DEFINED(value._1))

/* ------------------------------------------------------------------ ::update(name, enum_t&, string)
 * "enum: v in domain list".  Strings are values of an uninterpreted sort (only equality matters here). */
#define NV_MAXN 1000000   /* symbolic length bound used only to keep n * sizeof inside size_t */
#define NV_STRS_OK(v) ((v).n >= 0 && (v).n <= NV_MAXN && __CPROVER_is_fresh((v).p, ((v).n > 0 ? (v).n : 1) * sizeof(struct nv_str)))
int64_t nv_g_str;    /* ghost: an arbitrary position of the domain list, fixed before the call */
int64_t nv_w_find;   /* witness: the position std::find returned */
/* ASSUMED contract of std::find(first, last, value): the first position whose element equals value, else last
 * (stated at the ghost index; stub body, not an ensures over a nondeterministic pointer) */
static struct nv_str* nv_find_str(struct nv_str* begin, struct nv_str* end, const struct nv_str* value)
{
  int64_t n = end - begin, idx = nv_nondet_int64_t();
  __CPROVER_assume(0 <= idx && idx <= n);
  if (idx < n) __CPROVER_assume(begin[idx].id == value->id);
  if (0 <= nv_g_str && nv_g_str < idx) __CPROVER_assume(begin[nv_g_str].id != value->id);
  nv_w_find = idx;
  return begin + idx;
}
#define NV_ENUM_HAS(e, j, s) (0 <= (j) && (j) < (e).m_domain.n && (e).m_domain.p[j].id == (s).id)
#define NV_POST_ENUM(G, e, s) \
__CPROVER_ensures(((G) && !nv_thrown) ==> ((e).m_value.id == (s).id && NV_ENUM_HAS(e, nv_w_find, s))) \
__CPROVER_ensures(((G) && nv_thrown) ==> ((e).m_value.id == NV_OLD((e).m_value.id))) \
__CPROVER_ensures(((G) && nv_thrown && 0 <= nv_g_str && nv_g_str < (e).m_domain.n) ==> (e).m_domain.p[nv_g_str].id != (s).id) \
__CPROVER_ensures((e).m_domain.n == NV_OLD((e).m_domain.n) && (e).m_domain.p == NV_OLD((e).m_domain.p))
#define NV_CONTRACT_update_enum \
__CPROVER_requires(!nv_thrown && __CPROVER_is_fresh(param, sizeof(*param)) && NV_STRS_OK(param->m_domain)) \
__CPROVER_assigns(nv_thrown, nv_w_find, param->m_value) \
NV_POST_ENUM(1, *param, value) \
__CPROVER_ensures(!nv_thrown ==> __CPROVER_return_value == param)

/* ------------------------------------------------------------------ parameter_t constructors
 * "constructors go through the same update, so an out-of-domain default throws": a constructed parameter holds the
 * given record, of the given kind, and that record satisfies its domain predicate. */
#define NV_CTOR_REQ(WF) __CPROVER_requires(!nv_thrown && __CPROVER_is_fresh(self, sizeof(*self)) && (WF))
#define NV_CONTRACT_CTOR_R(K, A, FIN, EQ) \
NV_CTOR_REQ(NV_RANGE_WF(param)) \
__CPROVER_assigns(nv_thrown, __CPROVER_object_whole(self)) \
__CPROVER_ensures(nv_thrown == !NV_DOM_R(FIN, param, param.m_value)) \
__CPROVER_ensures(!nv_thrown ==> (self->m_name.id == name.id && self->m_storage.index == (K) && \
    EQ(self->m_storage.A.m_value, param.m_value) && EQ(self->m_storage.A.m_min, param.m_min) && EQ(self->m_storage.A.m_max, param.m_max) && \
    self->m_storage.A.m_mincomp.index == param.m_mincomp.index && self->m_storage.A.m_maxcomp.index == param.m_maxcomp.index && \
    NV_DOM_R(FIN, self->m_storage.A, self->m_storage.A.m_value)))
#define NV_CONTRACT_CTOR_P(K, A, FIN, EQ) \
NV_CTOR_REQ(NV_PAIR_WF(param)) \
__CPROVER_assigns(nv_thrown, __CPROVER_object_whole(self)) \
__CPROVER_ensures(nv_thrown == !NV_DOM_P(FIN, param, param.m_value1, param.m_value2)) \
__CPROVER_ensures(!nv_thrown ==> (self->m_name.id == name.id && self->m_storage.index == (K) && \
    EQ(self->m_storage.A.m_value1, param.m_value1) && EQ(self->m_storage.A.m_value2, param.m_value2) && \
    EQ(self->m_storage.A.m_min, param.m_min) && EQ(self->m_storage.A.m_max, param.m_max) && \
    self->m_storage.A.m_mincomp.index == param.m_mincomp.index && self->m_storage.A.m_valcomp.index == param.m_valcomp.index && \
    self->m_storage.A.m_maxcomp.index == param.m_maxcomp.index && \
    NV_DOM_P(FIN, self->m_storage.A, self->m_storage.A.m_value1, self->m_storage.A.m_value2)))
#define NV_CONTRACT_parameter_ctor_ir NV_CONTRACT_CTOR_R(2, a2, NV_FIN_I, NV_EQ_I)
#define NV_CONTRACT_parameter_ctor_fr NV_CONTRACT_CTOR_R(3, a3, NV_FIN_F, NV_EQ_F)
#define NV_CONTRACT_parameter_ctor_ip NV_CONTRACT_CTOR_P(4, a4, NV_FIN_I, NV_EQ_I)
#define NV_CONTRACT_parameter_ctor_fp NV_CONTRACT_CTOR_P(5, a5, NV_FIN_F, NV_EQ_F)
#define NV_CONTRACT_parameter_ctor_str \
NV_CTOR_REQ(1) \
__CPROVER_assigns(__CPROVER_object_whole(self)) \
__CPROVER_ensures(!nv_thrown && self->m_name.id == name.id && self->m_storage.index == 6 && self->m_storage.a6.id == value.id)
#define NV_CONTRACT_parameter_ctor_enum \
NV_CTOR_REQ(NV_STRS_OK(param.m_domain)) \
__CPROVER_assigns(nv_thrown, nv_w_find, __CPROVER_object_whole(self)) \
__CPROVER_ensures(!nv_thrown ==> (self->m_name.id == name.id && self->m_storage.index == 1 && \
    self->m_storage.a1.m_value.id == param.m_value.id && self->m_storage.a1.m_domain.p == param.m_domain.p && \
    self->m_storage.a1.m_domain.n == param.m_domain.n && NV_ENUM_HAS(self->m_storage.a1, nv_w_find, param.m_value))) \
__CPROVER_ensures((nv_thrown && 0 <= nv_g_str && nv_g_str < param.m_domain.n) ==> param.m_domain.p[nv_g_str].id != param.m_value.id)

/* ------------------------------------------------------------------ parameter_t::operator=(string)
 * ASSUMED: std::stoll / std::stod / ::split_pair are deterministic functions of the string (uninterpreted here: which
 * strings parse, and to what, is the STL's business -- DESIGN C19 X); a string that does not parse throws
 * (std::invalid_argument / std::out_of_range).  The contract is then the numeric one with x = the parsed number. */
struct nv_tup_str { struct nv_str _0, _1; };
_Bool __CPROVER_uninterpreted_stoll_ok(int64_t);
int64_t __CPROVER_uninterpreted_stoll(int64_t);
_Bool __CPROVER_uninterpreted_stod_ok(int64_t);
double __CPROVER_uninterpreted_stod(int64_t);
int64_t __CPROVER_uninterpreted_split1(int64_t);
int64_t __CPROVER_uninterpreted_split2(int64_t);
#define NV_LL_OK(s) __CPROVER_uninterpreted_stoll_ok((s).id)
#define NV_LL(s) __CPROVER_uninterpreted_stoll((s).id)
#define NV_D_OK(s) __CPROVER_uninterpreted_stod_ok((s).id)
#define NV_D(s) __CPROVER_uninterpreted_stod((s).id)
#define NV_S1(s) __CPROVER_uninterpreted_split1((s).id)
#define NV_S2(s) __CPROVER_uninterpreted_split2((s).id)
static int64_t nv_stoll(const struct nv_str* s) { if (!NV_LL_OK(*s)) { nv_thrown = 1; return 0; } return NV_LL(*s); }
static double nv_stod(const struct nv_str* s) { if (!NV_D_OK(*s)) { nv_thrown = 1; return 0.0; } return NV_D(*s); }
static struct nv_tup_str nv_split_pair(const struct nv_str* s) { struct nv_tup_str r; r._0.id = NV_S1(*s); r._1.id = NV_S2(*s); return r; }
#define NV_LL1(s) __CPROVER_uninterpreted_stoll(NV_S1(s))
#define NV_LL2(s) __CPROVER_uninterpreted_stoll(NV_S2(s))
#define NV_LLP_OK(s) (__CPROVER_uninterpreted_stoll_ok(NV_S1(s)) && __CPROVER_uninterpreted_stoll_ok(NV_S2(s)))
#define NV_D1(s) __CPROVER_uninterpreted_stod(NV_S1(s))
#define NV_D2(s) __CPROVER_uninterpreted_stod(NV_S2(s))
#define NV_DP_OK(s) (__CPROVER_uninterpreted_stod_ok(NV_S1(s)) && __CPROVER_uninterpreted_stod_ok(NV_S2(s)))

#define NV_CONTRACT_parameter_assign_str \
__CPROVER_requires(!nv_thrown && __CPROVER_is_fresh(self, sizeof(*self)) && NV_ST_WF(self->m_storage)) \
__CPROVER_requires(self->m_storage.index != 1 || NV_STRS_OK(self->m_storage.a1.m_domain)) \
__CPROVER_assigns(nv_thrown, nv_w_find, self->m_storage.a1.m_value, self->m_storage.a2.m_value, self->m_storage.a3.m_value, \
                  self->m_storage.a4.m_value1, self->m_storage.a4.m_value2, self->m_storage.a5.m_value1, self->m_storage.a5.m_value2, \
                  self->m_storage.a6) \
__CPROVER_ensures(self->m_storage.index == NV_OLD(self->m_storage.index) && self->m_name.id == NV_OLD(self->m_name.id)) \
__CPROVER_ensures(!nv_thrown ==> __CPROVER_return_value == self) \
__CPROVER_ensures(self->m_storage.index == 0 ==> nv_thrown) \
NV_POST_ENUM(self->m_storage.index == 1, self->m_storage.a1, value) \
NV_POST_R(self->m_storage.index == 2, NV_FIN_I, NV_EQ_I, int64_t, NV_LL_OK(value), self->m_storage.a2, NV_LL(value)) \
__CPROVER_ensures((self->m_storage.index == 2 && !NV_LL_OK(value)) ==> nv_thrown) \
NV_POST_R(self->m_storage.index == 3, NV_FIN_F, NV_EQ_F, double, NV_D_OK(value), self->m_storage.a3, NV_D(value)) \
__CPROVER_ensures((self->m_storage.index == 3 && !NV_D_OK(value)) ==> nv_thrown) \
NV_POST_P(self->m_storage.index == 4, NV_FIN_I, NV_EQ_I, int64_t, NV_LLP_OK(value), self->m_storage.a4, NV_LL1(value), NV_LL2(value)) \
__CPROVER_ensures((self->m_storage.index == 4 && !NV_LLP_OK(value)) ==> nv_thrown) \
NV_POST_P(self->m_storage.index == 5, NV_FIN_F, NV_EQ_F, double, NV_DP_OK(value), self->m_storage.a5, NV_D1(value), NV_D2(value)) \
__CPROVER_ensures((self->m_storage.index == 5 && !NV_DP_OK(value)) ==> nv_thrown) \
__CPROVER_ensures(self->m_storage.index == 6 ==> (!nv_thrown && self->m_storage.a6.id == value.id)) \
__CPROVER_ensures(self->m_storage.index != 1 ==> self->m_storage.a1.m_value.id == NV_OLD(self->m_storage.a1.m_value.id)) \
__CPROVER_ensures(self->m_storage.index != 2 ==> NV_SAME_R(NV_EQ_I, self->m_storage.a2)) \
__CPROVER_ensures(self->m_storage.index != 3 ==> NV_SAME_R(NV_EQ_F, self->m_storage.a3)) \
__CPROVER_ensures(self->m_storage.index != 4 ==> NV_SAME_P(NV_EQ_I, self->m_storage.a4)) \
__CPROVER_ensures(self->m_storage.index != 5 ==> NV_SAME_P(NV_EQ_F, self->m_storage.a5)) \
__CPROVER_ensures(self->m_storage.index != 6 ==> self->m_storage.a6.id == NV_OLD(self->m_storage.a6.id))

/* ------------------------------------------------------------------ parameter_t::value<T>() / value_pair<T>()
 * "an accepted assignment is read back as assigned (converted to the requested kind)"; "type-mismatched reads
 * throw" (scalar read of a pair / enum / string / empty parameter and vice versa).  Nothing is modified.
 * Reading a REAL parameter as an integer converts double -> int64: defined only if the stored value is representable;
 * that is the reader's own cast, required here (listed under assumptions: the domain of a real parameter may exceed it). */
#define NV_READ_REQ(PRE) __CPROVER_requires(!nv_thrown && __CPROVER_is_fresh(self, sizeof(*self)) && NV_ST_WF(self->m_storage) && (PRE)) \
__CPROVER_assigns(nv_thrown)
#define NV_RET __CPROVER_return_value
#define NV_CONTRACT_value_i64 \
NV_READ_REQ(self->m_storage.index != 3 || NV_F2I_DEFINED(self->m_storage.a3.m_value)) \
__CPROVER_ensures(self->m_storage.index == 2 ==> (!nv_thrown && NV_RET == self->m_storage.a2.m_value)) \
__CPROVER_ensures(self->m_storage.index == 3 ==> (!nv_thrown && NV_RET == NV_CONV_int64_t(self->m_storage.a3.m_value))) \
__CPROVER_ensures((self->m_storage.index != 2 && self->m_storage.index != 3) ==> nv_thrown)
#define NV_CONTRACT_value_f64 \
NV_READ_REQ(1) \
__CPROVER_ensures(self->m_storage.index == 2 ==> (!nv_thrown && NV_RET == (double)self->m_storage.a2.m_value)) \
__CPROVER_ensures(self->m_storage.index == 3 ==> (!nv_thrown && NV_SAME(NV_RET, self->m_storage.a3.m_value))) \
__CPROVER_ensures((self->m_storage.index != 2 && self->m_storage.index != 3) ==> nv_thrown)
#define NV_CONTRACT_pair_i64 \
NV_READ_REQ(self->m_storage.index != 5 || (NV_F2I_DEFINED(self->m_storage.a5.m_value1) && NV_F2I_DEFINED(self->m_storage.a5.m_value2))) \
__CPROVER_ensures(self->m_storage.index == 4 ==> (!nv_thrown && NV_RET._0 == self->m_storage.a4.m_value1 && NV_RET._1 == self->m_storage.a4.m_value2)) \
__CPROVER_ensures(self->m_storage.index == 5 ==> (!nv_thrown && NV_RET._0 == NV_CONV_int64_t(self->m_storage.a5.m_value1) && NV_RET._1 == NV_CONV_int64_t(self->m_storage.a5.m_value2))) \
__CPROVER_ensures((self->m_storage.index != 4 && self->m_storage.index != 5) ==> nv_thrown)
#define NV_CONTRACT_pair_f64 \
NV_READ_REQ(1) \
__CPROVER_ensures(self->m_storage.index == 4 ==> (!nv_thrown && NV_RET._0 == (double)self->m_storage.a4.m_value1 && NV_RET._1 == (double)self->m_storage.a4.m_value2)) \
__CPROVER_ensures(self->m_storage.index == 5 ==> (!nv_thrown && NV_SAME(NV_RET._0, self->m_storage.a5.m_value1) && NV_SAME(NV_RET._1, self->m_storage.a5.m_value2))) \
__CPROVER_ensures((self->m_storage.index != 4 && self->m_storage.index != 5) ==> nv_thrown)
#define NV_CONTRACT_value_str \
NV_READ_REQ(1) \
__CPROVER_ensures(self->m_storage.index == 6 ==> (!nv_thrown && NV_RET.id == self->m_storage.a6.id)) \
__CPROVER_ensures(self->m_storage.index != 6 ==> nv_thrown)

/* ------------------------------------------------------------------ src/configurable.cpp
 * "unknown parameter names throw" (mandatory lookup), optional lookup returns null, "duplicate-name rejection":
 * register_parameter with a name already present throws and leaves the list unchanged, else appends exactly it.
 * parameters_t = std::vector<parameter_t> as pointer + length (one slot of spare capacity for emplace_back);
 * std::string_view and std::string share the id space (equality of contents). */
struct nv_params { struct nv_parameter* p; int64_t n; };
struct nv_configurable { int32_t m_major_version, m_minor_version, m_patch_version; struct nv_params m_parameters; };
#define NV_PARAMS_OK(v) ((v).n >= 0 && (v).n <= NV_MAXN && __CPROVER_is_fresh((v).p, ((v).n + 1) * sizeof(struct nv_parameter)))
int64_t nv_g_par;        /* ghost: an arbitrary position of the parameter list, fixed before the call */
int64_t nv_w_find_par;   /* witness: the position std::find_if returned */
_Bool find_param_pred(struct nv_parameter* param, struct nv_str name);   /* the extracted lambda of ::find_param */
/* ASSUMED contract of std::find_if(first, last, pred): the first position whose element satisfies pred, else last
 * (pred is the real lambda; stated at the ghost index) */
static struct nv_parameter* nv_find_if_param(struct nv_parameter* begin, struct nv_parameter* end, struct nv_str name)
{
  int64_t n = end - begin, idx = nv_nondet_int64_t();
  __CPROVER_assume(0 <= idx && idx <= n);
  if (idx < n) __CPROVER_assume(find_param_pred(&begin[idx], name));
  if (0 <= nv_g_par && nv_g_par < idx) __CPROVER_assume(!find_param_pred(&begin[nv_g_par], name));
  nv_w_find_par = idx;
  return begin + idx;
}
/* ASSUMED contract of std::vector::emplace_back(T&&): appends one element equal to the argument, keeps the others
 * (reallocation is not modelled: element addresses are not part of any contract here) */
static void nv_params_emplace_back(struct nv_params* v, struct nv_parameter* x) { v->p[v->n] = *x; v->n = v->n + 1; }

#define NV_NAME_AT(v, j) ((v).p[j].m_name.id)
#define NV_G_IN(v) (0 <= nv_g_par && nv_g_par < (v).n)
#define NV_POST_LOOKUP(v, MAND) \
__CPROVER_ensures(NV_RET != NULL ==> (!nv_thrown && 0 <= nv_w_find_par && nv_w_find_par < (v).n && NV_RET == (v).p + nv_w_find_par && NV_RET->m_name.id == name.id)) \
__CPROVER_ensures((NV_RET == NULL && !nv_thrown) ==> !(MAND)) \
__CPROVER_ensures(nv_thrown ==> (MAND)) \
__CPROVER_ensures(((NV_RET == NULL || nv_thrown) && NV_G_IN(v)) ==> NV_NAME_AT(v, nv_g_par) != name.id) \
__CPROVER_ensures((NV_RET != NULL && 0 <= nv_g_par && nv_g_par < nv_w_find_par) ==> NV_NAME_AT(v, nv_g_par) != name.id)
#define NV_CONTRACT_FIND_PARAM \
__CPROVER_requires(!nv_thrown && __CPROVER_is_fresh(parameters, sizeof(*parameters)) && NV_PARAMS_OK(*parameters)) \
__CPROVER_assigns(nv_thrown, nv_w_find_par) \
NV_POST_LOOKUP(*parameters, mandatory)
#define NV_CONTRACT_find_param NV_CONTRACT_FIND_PARAM
#define NV_CONTRACT_find_param_c NV_CONTRACT_FIND_PARAM
#define NV_CONF_REQ __CPROVER_requires(!nv_thrown && __CPROVER_is_fresh(self, sizeof(*self)) && NV_PARAMS_OK(self->m_parameters))
#define NV_CONTRACT_LOOKUP(MAND) NV_CONF_REQ __CPROVER_assigns(nv_thrown, nv_w_find_par) NV_POST_LOOKUP(self->m_parameters, MAND)
#define NV_CONTRACT_configurable_parameter NV_CONTRACT_LOOKUP(1)
#define NV_CONTRACT_configurable_parameter_c NV_CONTRACT_LOOKUP(1)
#define NV_CONTRACT_configurable_parameter_if NV_CONTRACT_LOOKUP(0)
#define NV_CONTRACT_configurable_parameter_if_c NV_CONTRACT_LOOKUP(0)

#define NV_RANGE_EQ(EQ, a, b) (EQ((a).m_value, (b).m_value) && EQ((a).m_min, (b).m_min) && EQ((a).m_max, (b).m_max) && \
                               (a).m_mincomp.index == (b).m_mincomp.index && (a).m_maxcomp.index == (b).m_maxcomp.index)
#define NV_PAIR_EQ(EQ, a, b) (EQ((a).m_value1, (b).m_value1) && EQ((a).m_value2, (b).m_value2) && EQ((a).m_min, (b).m_min) && EQ((a).m_max, (b).m_max) && \
                              (a).m_mincomp.index == (b).m_mincomp.index && (a).m_valcomp.index == (b).m_valcomp.index && (a).m_maxcomp.index == (b).m_maxcomp.index)
#define NV_PARAM_EQ(a, b) ((a).m_name.id == (b).m_name.id && (a).m_storage.index == (b).m_storage.index && \
    (a).m_storage.a1.m_value.id == (b).m_storage.a1.m_value.id && (a).m_storage.a1.m_domain.p == (b).m_storage.a1.m_domain.p && \
    (a).m_storage.a1.m_domain.n == (b).m_storage.a1.m_domain.n && NV_RANGE_EQ(NV_EQ_I, (a).m_storage.a2, (b).m_storage.a2) && \
    NV_RANGE_EQ(NV_EQ_F, (a).m_storage.a3, (b).m_storage.a3) && NV_PAIR_EQ(NV_EQ_I, (a).m_storage.a4, (b).m_storage.a4) && \
    NV_PAIR_EQ(NV_EQ_F, (a).m_storage.a5, (b).m_storage.a5) && (a).m_storage.a6.id == (b).m_storage.a6.id)
/* (a predicate function, not a macro: the expanded comparison at a symbolic index stalls cbmc's symbolic execution) */
static _Bool nv_param_eq(const struct nv_parameter* a, const struct nv_parameter* b) { return NV_PARAM_EQ(*a, *b); }
#define NV_CONTRACT_configurable_register_parameter \
NV_CONF_REQ \
__CPROVER_assigns(nv_thrown, nv_w_find_par, self->m_parameters.n, self->m_parameters.p[self->m_parameters.n]) \
__CPROVER_ensures(nv_thrown ==> (self->m_parameters.n == NV_OLD(self->m_parameters.n) && 0 <= nv_w_find_par && nv_w_find_par < self->m_parameters.n && \
                                 NV_NAME_AT(self->m_parameters, nv_w_find_par) == parameter.m_name.id)) \
__CPROVER_ensures(!nv_thrown ==> (self->m_parameters.n == NV_OLD(self->m_parameters.n) + 1 && \
                                  nv_param_eq(&self->m_parameters.p[self->m_parameters.n - 1], &parameter))) \
__CPROVER_ensures((!nv_thrown && 0 <= nv_g_par && nv_g_par < self->m_parameters.n - 1) ==> NV_NAME_AT(self->m_parameters, nv_g_par) != parameter.m_name.id) \
__CPROVER_ensures(self->m_parameters.p == NV_OLD(self->m_parameters.p))

/* ------------------------------------------------------------------ parameter_t::operator=(tenum)  (header template)
 * an enumeration parameter takes the enum's name (scat(value): ASSUMED a deterministic function of the enumerator,
 * uninterpreted) through operator=(string) -- replaced by its contract proved above; any other kind throws. */
int64_t __CPROVER_uninterpreted_scat_enum(int64_t);
static struct nv_str nv_scat_enum(int64_t v) { struct nv_str s; s.id = __CPROVER_uninterpreted_scat_enum(v); return s; }
#define NV_SCAT(v) ((struct nv_str){__CPROVER_uninterpreted_scat_enum((int64_t)(v))})
#define NV_CONTRACT_parameter_assign_enum \
__CPROVER_requires(!nv_thrown && __CPROVER_is_fresh(self, sizeof(*self)) && NV_ST_WF(self->m_storage)) \
__CPROVER_requires(self->m_storage.index != 1 || NV_STRS_OK(self->m_storage.a1.m_domain)) \
__CPROVER_assigns(nv_thrown, nv_w_find, self->m_storage.a1.m_value, self->m_storage.a2.m_value, self->m_storage.a3.m_value, \
                  self->m_storage.a4.m_value1, self->m_storage.a4.m_value2, self->m_storage.a5.m_value1, self->m_storage.a5.m_value2, \
                  self->m_storage.a6) \
__CPROVER_ensures(self->m_storage.index == NV_OLD(self->m_storage.index) && self->m_name.id == NV_OLD(self->m_name.id)) \
__CPROVER_ensures(!nv_thrown ==> __CPROVER_return_value == self) \
NV_POST_ENUM(self->m_storage.index == 1, self->m_storage.a1, NV_SCAT(value)) \
__CPROVER_ensures(self->m_storage.index != 1 ==> (nv_thrown && self->m_storage.a1.m_value.id == NV_OLD(self->m_storage.a1.m_value.id))) \
__CPROVER_ensures(NV_SAME_R(NV_EQ_I, self->m_storage.a2) && NV_SAME_R(NV_EQ_F, self->m_storage.a3) && NV_SAME_P(NV_EQ_I, self->m_storage.a4) && \
                  NV_SAME_P(NV_EQ_F, self->m_storage.a5) && self->m_storage.a6.id == NV_OLD(self->m_storage.a6.id))

#endif
