"""C19: the hand-written copy constructors are proved against C models of their classes (specs/C19/clone.h); a data member that the
model does not have could be forgotten by the copy constructor without any obligation noticing.  Here the list of user-provided copy
constructors is found in /repo (text scan `X::X(const X&`), the data members of each class are read from clang's CXXRecordDecl, and one
named obligation per class says: every data member of the class is a member of the model its copy contract speaks about.  A class
with a user-provided copy constructor that has no contract at all fails its obligation as well."""
import os
import re

import astload
from astload import ExtractionError
from core import VC

# class -> (C model in specs/C19/clone.h, contract that proves "every model member is copied")
MODELS = {'solver_t': ('nv_solver', 'solver_copy'), 'params_t': ('nv_mlparams', 'mlparams_copy'), 'functional_t': ('nv_functional', 'functional_copy'),
          'gboost_model_t': ('nv_gboost', 'gboost_copy'), 'result_t': ('nv_gbresult', 'gbresult_copy')}
# user-provided copy constructors of classes that are neither configurable nor clonable (no parameters, not obtainable from a factory)
OUTSIDE = {'logger_t': 'pimpl handle of the logging stream: not a configurable, not clonable, carries no parameter'}


def copy_ctors():
    """[(class short name, file)] of the out-of-line user-provided copy constructors `X::X(const X& ..)` in /repo/src (text scan)"""
    out = []
    for root, _, files in os.walk(os.path.join(astload.REPO, 'src')):
        for fn in sorted(files):
            if not fn.endswith('.cpp'):
                continue
            p = os.path.join(root, fn)
            txt = open(p, errors='replace').read()
            for m in re.finditer(r'^(?:[\w:]+::)?(\w+)::\1\(const (?:[\w:]+::)?\1\s*&', txt, re.M):
                out.append((m.group(1), os.path.relpath(p, astload.REPO)))
    return sorted(set(out))


def record_fields(tu, cls):
    """names of the non-static data members of class `cls` (the complete definition clang sees in `tu`)"""
    found = {}
    for d in astload.dump(tu, '::' + cls):
        for n in astload.walk(d):
            if n.get('kind') == 'CXXRecordDecl' and n.get('name') == cls and n.get('completeDefinition'):
                found[n.get('id')] = [f['name'] for f in n.get('inner', []) if f.get('kind') == 'FieldDecl' and f.get('name')]
    if len(found) != 1:
        raise ExtractionError(f'{len(found)} complete definitions of class {cls} in {tu}')
    return list(found.values())[0]


def model_fields(struct):
    txt = open(os.path.join(astload.VERIF, 'specs/C19/clone.h')).read()
    m = re.search(r'struct ' + re.escape(struct) + r'\s*\{([^}]*)\}', txt)
    if not m:
        raise ExtractionError(f'struct {struct} not found in specs/C19/clone.h')
    names = []
    for decl in m.group(1).split(';'):
        decl = decl.strip()
        if not decl:
            continue
        for part in decl.split(','):
            w = re.findall(r'(\w+)\s*$', part.strip())
            if w:
                names.append(w[0])
    return names


class FieldsVC(VC):
    def __init__(self, cls, tu):
        super().__init__(f'copy_fields/{cls}', '(assert true)', about=f'{cls}: every data member of the class (clang RecordDecl) is a member of the C model its copy contract speaks about',
                         source={'file': tu}, group='copy_fields')
        self.cls, self.tu = cls, tu

    def verify(self, cross=False):
        try:
            if self.cls not in MODELS:
                self.about = f'{self.cls} ({self.tu}) has a user-provided copy constructor but no copy contract in specs/C19'
                missing = ['<no contract>']
            else:
                struct, contract = MODELS[self.cls]
                have = set(model_fields(struct))
                missing = [f for f in record_fields(self.tu, self.cls) if f not in have]
                self.about += f' (model struct {struct}, contract {contract}' + (f'; MISSING in the model: {missing}' if missing else '') + ')'
        except ExtractionError as e:
            return {'id': self.name, 'description': self.about + f' -- extraction: {e}', 'target': self.group, 'status': 'UNKNOWN', 'backend': None,
                    'location': self.source or {}, 'answers': {}, 'seconds': {}}
        # a syntactic comparison, reported through the VC channel: unsat (discharged) iff nothing is missing
        self.smt = '(assert false)' if not missing else '(assert true)'
        return super().verify(cross)


def vcs():
    return [FieldsVC(cls, tu) for cls, tu in copy_ctors() if cls not in OUTSIDE]
