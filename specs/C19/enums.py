"""C19, enumeration parameters: the enum <-> string tables and the functions that read / write through them.

Every `enum_string<T>()` specialisation that a header of /repo defines is found through clang (text prefilter: headers that
mention `enum_string`; the specialisations themselves, their enumerators and their strings are read from the AST), and for
each T the REAL template instantiations `from_string<T>`, `detail::scat<T>`, `parameter_t::value<T>()`,
`parameter_t::operator=(T)`, `parameter_t::make_enum_<T>` are extracted from an instantiation-only driver that is GENERATED
from that list (it includes the headers and names the instantiations, no logic).

The contracts are generated per table (specs/C19/enumtab.h holds the fixed part):
  * from_string<T>(str): the first entry whose name EQUALS str wins, else the first entry whose name is a PREFIX of str
    (what the header documents), else it throws -- for every string (unbounded length: only the first maxlen characters and
    the length are ever inspected); hence from_string(name_k) == value_k for every k iff the names are pairwise distinct,
    which is a separate named obligation over the real table (and is exactly what fails when the exact pass is dropped and
    name_j is a proper prefix of name_k, j < k);
  * detail::scat<T>(stream, v): appends the name of the first entry whose value is v, throws (and appends nothing) when v
    is not in the table;
  * table facts: names pairwise distinct, values pairwise distinct (=> bijection), from_string(scat(value_k)) == value_k.
"""
import os
import re
import threading

import astload
from astload import ExtractionError
from core import Fn, Target
import hooks

HE = 'specs/C19/enumtab.h'


def _gen_dir():
    d = os.path.join(astload.SCRATCH, 'gen')
    os.makedirs(d, exist_ok=True)
    return d


_write_lock = threading.Lock()


def _write(path, text):
    """(re)write a generated file atomically; the targets' worker threads ask for the same file concurrently"""
    with _write_lock:
        try:
            if open(path).read() == text:
                return
        except OSError:
            pass
        tmp = f'{path}.{os.getpid()}.{threading.get_ident()}'
        with open(tmp, 'w') as f:
            f.write(text)
        os.replace(tmp, path)


def enum_headers():
    """text prefilter: headers of /repo that mention enum_string (the specialisations are then found by clang); .cpp files
    that define a specialisation cannot be included by a driver and are reported"""
    hs, cpps = [], []
    for sub in ('include', 'src'):
        for root, _, files in os.walk(os.path.join(astload.REPO, sub)):
            for fn in sorted(files):
                p = os.path.join(root, fn)
                if not fn.endswith(('.h', '.hpp', '.cpp')):
                    continue
                try:
                    txt = open(p, errors='replace').read()
                except OSError:
                    continue
                if not re.search(r'enum_map_t\s*<[^>]*>\s*(nano::)?enum_string\b', txt):
                    continue
                rel = os.path.relpath(p, os.path.join(astload.REPO, sub))
                if rel in ('nano/enum.h',):
                    continue
                (cpps if fn.endswith('.cpp') else hs).append((sub, rel))
    return sorted(hs), sorted(cpps)


def driver1():
    hs, _ = enum_headers()
    path = os.path.join(_gen_dir(), 'c19_enum_tables.cpp')
    _write(path, '// GENERATED (specs/C19/enums.py): includes every header of the library that defines an enum_string<T>() specialisation\n'
           '#include <nano/parameter.h>\n' + ''.join(f'#include <{rel}>\n' for _, rel in hs))
    return path


def _unwrap(n):
    while n.get('kind') in ('ExprWithCleanups', 'MaterializeTemporaryExpr', 'ImplicitCastExpr', 'CXXBindTemporaryExpr', 'CXXFunctionalCastExpr',
                            'ConstantExpr', 'ParenExpr', 'CXXStdInitializerListExpr') and len(n.get('inner', [])) >= 1:
        n = n['inner'][0]
    return n


_tables = {}


def tables():
    """{qualified enum type: dict(entries=[(enumerator, string)], file, line)} read from the AST of every enum_string<T>()
    specialisation; the body must be `return {{E::a, "a"}, ...};` (closed shape, anything else is an extraction error)"""
    if _tables:
        return _tables
    tu = driver1()
    out = {}
    for d in astload.instantiations(tu, 'enum_string', 'enum_string'):
        ta = astload.template_args(d)
        if len(ta) != 1:
            continue
        body = [c for c in d['inner'] if c.get('kind') == 'CompoundStmt'][0]
        st = body.get('inner', [])
        if len(st) != 1 or st[0].get('kind') != 'ReturnStmt':
            raise ExtractionError(f'enum_string<{ta[0]}>: body is not a single return statement')
        ctor = _unwrap(st[0]['inner'][0])
        if ctor.get('kind') != 'CXXConstructExpr' or not ctor.get('inner'):
            raise ExtractionError(f'enum_string<{ta[0]}>: not a vector construction from an initializer list')
        il = _unwrap(ctor['inner'][0])
        if il.get('kind') != 'InitListExpr':
            raise ExtractionError(f'enum_string<{ta[0]}>: not an initializer list ({il.get("kind")})')
        entries = []
        for e in il.get('inner', []):
            e = _unwrap(e)
            if e.get('kind') not in ('CXXConstructExpr', 'InitListExpr') or len(e.get('inner', [])) != 2:
                raise ExtractionError(f'enum_string<{ta[0]}>: entry is not a (value, name) pair')
            a, b = _unwrap(e['inner'][0]), _unwrap(e['inner'][1])
            rd = a.get('referencedDecl') or {}
            if a.get('kind') != 'DeclRefExpr' or rd.get('kind') != 'EnumConstantDecl' or b.get('kind') != 'StringLiteral':
                raise ExtractionError(f'enum_string<{ta[0]}>: entry is not (enumerator, string literal)')
            s = b['value']
            if not (s.startswith('"') and s.endswith('"')) or '\\' in s:
                raise ExtractionError(f'enum_string<{ta[0]}>: string literal {s} with an escape / prefix is not supported')
            entries.append((rd['name'], s[1:-1]))
        if not entries:
            raise ExtractionError(f'enum_string<{ta[0]}>: empty table')
        out[ta[0]] = {'entries': entries, 'file': d.get('_file'), 'line': (d.get('loc') or {}).get('line')}
    if not out:
        raise ExtractionError('no enum_string<T>() specialisation found in the headers of the library')
    _tables.update(out)
    return _tables


def short(q):
    return q.split('::')[-1]


TIER = ['thorough']


def driver2():
    """instantiation-only driver generated from the table list: names from_string<T>, scat(T), make_enum(.., T), value<T>(),
    operator=(T) for every T, and spells every enumerator that occurs in a table as a constant (so that clang prints its value)"""
    tabs = {q: tables()[q] for q in quick_enums(TIER[0])}
    incl = sorted({t['file'] for t in tabs.values() if t['file']})
    lines = ['// GENERATED (specs/C19/enums.py): instantiation-only driver, no logic', '#include <nano/parameter.h>']
    lines += [f'#include "{f}"' for f in incl]
    lines += ['namespace nvdrv_from_string_vals', '{']
    for q, t in sorted(tabs.items()):
        names = []
        for en, _ in t['entries']:
            if en not in names:
                names.append(en)
        lines.append(f'enum class {short(q)} : long long {{ ' + ', '.join(f'{en} = static_cast<long long>({q}::{en})' for en in names) + ' };')
    lines += ['} // namespace', 'namespace nvdrv', '{', 'using namespace nano;', 'template <class E> struct enum_probe', '{',
              '    static E read(const std::string_view& s) { return from_string<E>(s); }',
              '    static string_t write(E v) { return scat(v); }',
              '    static parameter_t make(string_t n, E v) { return parameter_t::make_enum(std::move(n), v); }',
              '    static E value(const parameter_t& p) { return p.value<E>(); }',
              '    static parameter_t& assign(parameter_t& p, E v) { return p = v; }', '};']
    lines += [f'template struct enum_probe<{q}>;' for q in sorted(tabs)]
    lines += ['} // namespace nvdrv', '']
    path = os.path.join(_gen_dir(), f'c19_enum_driver_{TIER[0]}.cpp')
    _write(path, '\n'.join(lines))
    return path


def values(q):
    """{enumerator: integer value} of the enumerators of T that occur in its table (evaluated by clang)"""
    tu = driver2()
    name = short(q)
    for d in astload.dump(tu, 'from_string'):
        for n in astload.walk(d):
            if n.get('kind') == 'EnumDecl' and n.get('name') == name and '_vals' in str(d.get('name', '')) + 'nvdrv_from_string_vals':
                out = {}
                for c in n.get('inner', []):
                    if c.get('kind') != 'EnumConstantDecl':
                        continue
                    vals = [x.get('value') for x in astload.walk(c) if x.get('kind') == 'ConstantExpr' and 'value' in x]
                    if not vals:
                        raise ExtractionError(f'{q}::{c.get("name")}: clang printed no value')
                    out[c['name']] = int(vals[0])
                if out:
                    return out
    raise ExtractionError(f'values of {q} not found in the generated driver')


def cstr(s):
    return '"' + s + '"'


def pre_text(q):
    """the generated part of the prelude for enum T: the table read from the AST as constant data, and the pure expressions
    `name_i equals s` / `name_i is a prefix of s` over a string_view model"""
    t = tables()[q]
    vals = values(q)
    ent = [(vals[en], s, en) for en, s in t['entries']]
    n = len(ent)
    maxlen = max(len(s) for _, s, _ in ent)
    L = [f'/* enum_string<{q}>() as read from {os.path.relpath(t["file"], astload.REPO) if t["file"] else "?"}:{t["line"]} */',
         f'#define NV_TABLE_N {n}', f'#define NV_SVCAP {maxlen + 1}',
         'struct nv_eopt { int64_t first; const char* second; };   /* std::pair<T, const char*> */',
         f'static const struct nv_eopt nv_table[{n}] = {{' + ', '.join(f'{{{v}, {cstr(s)}}}' for v, s, _ in ent) + '};']

    def pref(i, sv):
        s = ent[i][1]
        return '(' + ' && '.join([f'({sv}).n >= {len(s)}'] + [f"({sv}).p[{j}] == {ord(ch)}" for j, ch in enumerate(s)]) + ')'
    for i in range(n):
        L.append(f'#define NV_PRE_{i}(s) {pref(i, "s")}')
        L.append(f'#define NV_EQ_{i}(s) (({"s"}).n == {len(ent[i][1])} && NV_PRE_{i}(s))')

    def chain(kind, sv):
        e = '(-1)'
        for i in reversed(range(n)):
            e = f'(NV_{kind}_{i}({sv}) ? {i} : {e})'
        return e
    L.append(f'#define NV_FIRST_EQ(s) {chain("EQ", "s")}')
    L.append(f'#define NV_FIRST_PRE(s) {chain("PRE", "s")}')

    def vchain():
        e = '(-1)'
        for i in reversed(range(n)):
            e = f'((v) == {ent[i][0]} ? {i} : {e})'
        return e
    L.append(f'#define NV_FIRST_VAL(v) {vchain()}')
    info = {'enum': q, 'table': [{'enumerator': en, 'value': v, 'name': s} for v, s, en in ent]}
    return '\n'.join(L) + '\n', info


def table_rx(q):
    e = re.escape(q)
    return e


def enum_types(q):
    """regexes on cv-stripped type spellings (the printer strips const / volatile before matching)"""
    e = re.escape(q)
    pair = r'std::pair<' + e + r', char \*>'
    return [(r'^(nano::)?enum_map_t<' + e + r'>$|^std::vector<' + pair + r'\s*(, std::allocator<.*)?>$', 'struct nv_etab'),
            (r'__normal_iterator<\s*' + pair + r'|^std::vector<' + pair + r'.*>::const_iterator$', 'const struct nv_eopt*'),
            (r'^' + pair + r'$', 'struct nv_eopt'),
            (r'^(std::)?(string_view|basic_string_view<char(, std::char_traits<char>\s*)?>)$|__type_identity_t<basic_string_view<char', 'struct nv_sv'),
            (r'^' + e + r'$', 'int64_t')]


ENUM_CALLS = [(r'^operator!=\|.*__normal_iterator<const std::pair<', '({0} != {1})'),
              (r'^operator\+\+\|.*__normal_iterator<const std::pair<', '(++{0})'),
              (r'^operator\*\|.*__normal_iterator<const std::pair<', '(*{0})'),
              (r'^operator->\|.*__normal_iterator<const std::pair<', '{0}'),
              (r'^operator==\|bool \(__type_identity_t<basic_string_view<char', 'nv_sv_eq({0}, {1})'),
              (r'^operator==\|bool \(basic_string_view<char', 'nv_sv_eq({0}, {1})'),
              (r'^ctor\|[^|]*basic_string_view<char[^|]*\|void \(const char \*\)', 'nv_sv_from_cstr({0})'),
              (r'^ctor\|[^|]*basic_string_view<char[^|]*\|void \(const (std::)?basic_string_view<char[^|]*&\)', '{0}')]
ENUM_MEMBERS = [(r'^begin\|(const )?(nano::)?(enum_map_t|std::vector<std::pair)<', '{*self}.p'),
                (r'^end\|(const )?(nano::)?(enum_map_t|std::vector<std::pair)<', '({*self}.p + {*self}.n)'),
                (r'^find\|(const )?std::basic_string_view<char', 'nv_sv_find_cstr({*self}, {0})')]


def _check_static_init(tu, flt, name, select, q, var):
    """the function-local `static const auto <var> = enum_string<T>();` prints as a global that the contract REQUIRES to hold the
    table: check on the AST that its initialiser really is the call enum_string<T>()"""
    d = astload.find_definition(tu, flt, name, select)
    hits = []
    for n in astload.walk(d):
        if n.get('kind') == 'VarDecl' and n.get('storageClass') == 'static':
            calls = [c for c in astload.walk(n) if c.get('kind') == 'DeclRefExpr' and (c.get('referencedDecl') or {}).get('name') == 'enum_string']
            hits.append((n.get('name'), [c['referencedDecl'].get('type', {}).get('qualType', '') for c in calls]))
    ok = [h for h in hits if h[1] and all(re.fullmatch(r'enum_map_t<' + re.escape(q) + r'> \(\)', t) for t in h[1])]
    if len(hits) != 1 or len(ok) != 1:
        raise ExtractionError(f'{name}<{q}>: expected exactly one function-local static initialised by enum_string<{q}>(), found {hits}')
    return hits[0][0]


def from_string_fn(q, cname='from_string'):
    tu = driver2()
    sel = lambda d: astload.template_args(d) == [q] and len(astload.param_types(d)) == 1
    return Fn(cname, tu, 'from_string', flt='from_string', select=sel, types=enum_types(q), calls=ENUM_CALLS, members=ENUM_MEMBERS, uf_float=False)


def scat_fn(q, cname='scat_enum'):
    tu = driver2()
    sel = lambda d: astload.template_args(d) == [q] and len(astload.param_types(d)) == 2 and 'ostringstream' in astload.param_types(d)[0]
    types = enum_types(q) + [(r'^std::ostringstream$|^std::basic_ostringstream<char', 'struct nv_oss')]
    calls = ENUM_CALLS + [(r'^operator<<\|.*basic_ostream<char.*const char \*\)', 'nv_oss_put({&0}, {1})')]
    # the message of the exception (std::to_string, string concatenation) is erased: it only feeds the throw
    return Fn(cname, tu, 'scat', flt='nano::detail::scat', select=sel, types=types, calls=calls, members=ENUM_MEMBERS, uf_float=False,
              opaque=[r'^(nano::string_t|std::string|std::basic_string<char>)$'])


def registered_names():
    """short names of the enumeration types that some `parameter_t::make_enum("..", T::x)` call site of /repo/src names (TEXT scan).
    Used ONLY to schedule: tables of registered enumerations are checked in the quick tier, all tables in the thorough tier."""
    out = set()
    for root, _, files in os.walk(os.path.join(astload.REPO, 'src')):
        for fn in files:
            if fn.endswith(('.cpp', '.h')):
                try:
                    txt = open(os.path.join(root, fn), errors='replace').read()
                except OSError:
                    continue
                for m in re.finditer(r'make_enum\(\s*"[^"]*"\s*,\s*([\w:]+)::\w+\s*\)', txt):
                    out.add(m.group(1).split('::')[-1])
    return out


QUICK_TABLE = 'wlearner_criterion'


def quick_enums(tier):
    """thorough tier: every table.  Quick tier: ONE representative table -- wlearner_criterion (the registered enumeration with a name
    that is a proper prefix of a later one: aic / aicc), else the first table with such a prefix pair, else the first registered one;
    the function templates are the same for every T, the other tables differ in their data only"""
    tabs = sorted(tables())
    if tier == 'thorough':
        return tabs
    pick = [q for q in tabs if short(q) == QUICK_TABLE]
    if not pick:
        def prefixed(q):
            names = [s for _, s in tables()[q]['entries']]
            return any(a != b and b.startswith(a) for a in names for b in names)
        reg = registered_names()
        pick = [q for q in tabs if prefixed(q) and short(q) in reg] or [q for q in tabs if short(q) in reg] or tabs
    return pick[:1]


def targets(tier='thorough'):
    TIER[0] = tier
    out = []
    for q in quick_enums(tier):
        sn = short(q)
        n = len(tables()[q]['entries'])
        maxlen = max(len(s) for _, s in tables()[q]['entries'])
        unw = max(n, maxlen) + 2

        def fs(q=q):
            v = _check_static_init(driver2(), 'from_string', 'from_string', lambda d: astload.template_args(d) == [q] and len(astload.param_types(d)) == 1, q, 'options')
            return [from_string_fn(q)], v

        f, dfn = (lambda fs=fs: fs()[0]), [lambda fs=fs: 'NV_STATIC=nv_static_from_string_' + fs()[1]]
        out.append(Target(f'enum_{sn}_from_string', f, HE, enforce_none=True, pre=lambda q=q: pre_text(q), defines=dfn, unwind=unw, loops=0, harness=H_FROM_STRING,
                          note=f'from_string<{q}> against the table of enum_string<{q}>()'))
        # the table facts and the round trip, on the real functions (no contract in between)

        def both(q=q):
            v1 = _check_static_init(driver2(), 'from_string', 'from_string', lambda d: astload.template_args(d) == [q] and len(astload.param_types(d)) == 1, q, 'options')
            sel = lambda d: astload.template_args(d) == [q] and len(astload.param_types(d)) == 2 and 'ostringstream' in astload.param_types(d)[0]
            v2 = _check_static_init(driver2(), 'nano::detail::scat', 'scat', sel, q, 'enum_strings')
            return [scat_fn(q), from_string_fn(q)], (v1, v2)
        out.append(Target(f'enum_{sn}_scat', lambda both=both: [both()[0][0]], HE, enforce='scat_enum', pre=lambda q=q: pre_text(q), harness=H_SCAT,
                          defines=[lambda both=both: 'NV_STATIC_SCAT=nv_static_scat_enum_' + both()[1][1]], unwind=unw, loops=0,
                          note=f'detail::scat<{q}> against the table'))
        out.append(Target(f'enum_{sn}_roundtrip', lambda both=both: both()[0], HE, enforce_none=True, pre=lambda q=q: pre_text(q),
                          defines=[lambda both=both: 'NV_STATIC=nv_static_from_string_' + both()[1][0],
                                   lambda both=both: 'NV_STATIC_SCAT=nv_static_scat_enum_' + both()[1][1], 'NV_ROUNDTRIP=1'],
                          harness=ROUNDTRIP, unwind=unw, loops=0, note=f'bijection and round trip over the table of enum_string<{q}>()'))
    return out


# the function-local statics are REALLY assigned the table before the call (a pointer known only through an equality in a requires
# clause has no points-to set in CBMC)
H_FROM_STRING = r'''
int main(void)
{
  /* EVERY string: unbounded length n, the first min(n, NV_SVCAP) characters arbitrary (no operation looks further: the table
     names are shorter than NV_SVCAP) */
  char buf[NV_SVCAP];
  struct nv_sv s; s.p = buf; s.n = nv_nondet_uint64_t();
  for (int i = 0; i < NV_SVCAP; i++) { char c; buf[i] = c; }
  NV_STATIC.p = nv_table; NV_STATIC.n = NV_TABLE_N;
  nv_thrown = 0;
  int64_t r = from_string(&s);
  int64_t fe = NV_FIRST_EQ(s), fp = NV_FIRST_PRE(s);
  __CPROVER_assert(fe < 0 || (!nv_thrown && r == nv_table[fe].first), "from_string: the first entry whose name equals the string wins");
  __CPROVER_assert(!(fe < 0 && fp >= 0) || (!nv_thrown && r == nv_table[fp].first), "from_string: no exact match => the first entry whose name is a prefix of the string");
  __CPROVER_assert(fp >= 0 || nv_thrown, "from_string: a string that no name is a prefix of throws");
  __CPROVER_assert(NV_STATIC.p == nv_table && NV_STATIC.n == NV_TABLE_N, "from_string: the table is not modified");
  __CPROVER_assert(0, "nv_canary: end of harness reachable");
  return 0;
}
'''
H_SCAT = r'''
int main(void)
{
  struct nv_oss* stream; int64_t* value;
  NV_STATIC_SCAT.p = nv_table; NV_STATIC_SCAT.n = NV_TABLE_N;
  nv_thrown = 0;
  scat_enum(stream, value);
  __CPROVER_assert(0, "nv_canary: end of harness reachable");
  return 0;
}
'''
ROUNDTRIP = r'''
int main(void)
{
  int64_t k, j;
  __CPROVER_assume(0 <= k && k < NV_TABLE_N && 0 <= j && j < NV_TABLE_N && j != k);
  NV_STATIC.p = nv_table; NV_STATIC.n = NV_TABLE_N;
  NV_STATIC_SCAT.p = nv_table; NV_STATIC_SCAT.n = NV_TABLE_N;
  /* table facts: a bijection between the listed enumerators and their names */
  __CPROVER_assert(nv_table[j].first != nv_table[k].first, "table: no enumerator value is listed twice");
  struct nv_sv name_k = nv_sv_from_cstr(nv_table[k].second), name_j = nv_sv_from_cstr(nv_table[j].second);
  __CPROVER_assert(!nv_sv_eq(name_j, name_k), "table: no name is listed twice");
  /* from_string(name_k) == value_k for EVERY k (the real from_string<T>) */
  nv_thrown = 0;
  int64_t r = from_string(&name_k);
  __CPROVER_assert(!nv_thrown, "from_string(name_k) does not throw");
  __CPROVER_assert(r == nv_table[k].first, "from_string(name_k) == value_k for every k");
  /* scat(value_k) writes name_k (the real detail::scat<T>) and the typed read of what was written is value_k again */
  struct nv_oss os; os.count = 0; os.last = NULL;
  int64_t v = nv_table[k].first;
  scat_enum(&os, &v);
  __CPROVER_assert(!nv_thrown && os.count == 1, "scat(value_k) writes exactly one string");
  struct nv_sv w = nv_sv_from_cstr(os.last);
  __CPROVER_assert(nv_sv_eq(w, name_k), "scat(value_k) == name_k for every k");
  int64_t r2 = from_string(&w);
  __CPROVER_assert(!nv_thrown && r2 == v, "from_string(scat(e)) == e for every listed enumerator e");
  __CPROVER_assert(0, "nv_canary: end of harness reachable");
  return 0;
}
'''
