import astload
from core import Fn, Target, VC
import hooks

TU = 'src/parameter.cpp'
H = 'specs/C19/param.h'
TYPES = [(r'LEorLT$|^std::variant<nano::LE_t, nano::LT_t>$', 'struct nv_lelt'),
         (r'(^|::)range_t<long\b|irange_t$', 'struct nv_irange'), (r'(^|::)range_t<double\b|frange_t$', 'struct nv_frange'),
         (r'(^|::)pair_range_t<long\b|iprange_t$', 'struct nv_iprange'), (r'(^|::)pair_range_t<double\b|fprange_t$', 'struct nv_fprange'),
         (r'(^|::)parameter_t::enum_t$', 'struct nv_enum'), (r'(^|::)storage_t$|^std::variant<std::monostate, ', 'struct nv_storage'),
         (r'^(nano::)?parameter_t$', 'struct nv_parameter'),
         (r'^(std::)?tuple<int, int>$', 'struct nv_tup_i32'), (r'^(std::)?tuple<long, long>$', 'struct nv_tup_i64'),
         (r'^(std::)?tuple<double, double>$', 'struct nv_tup_f64'),
         (r'^(nano::string_t|std::string|std::basic_string<char>)$', 'struct nv_str'),
         (r'__normal_iterator<std::basic_string<char> \*, std::vector', 'struct nv_str*'),
         (r'^(nano::strings_t|std::vector<std::basic_string<char>.*)$', 'struct nv_strs'),
         (r'^(std::)?tuple<std::basic_string<char>, std::basic_string<char>>$', 'struct nv_tup_str'),
         (r'std::tuple_element<[01], const std::tuple<std::basic_string<char>, std::basic_string<char>>>::type', 'struct nv_str')]

# ::update instantiations of src/parameter.cpp: C name <- template arguments
RANGE = [('update_ir_i64', ['long', 'long']), ('update_ir_ll', ['long', 'long long']), ('update_ir_f64', ['long', 'double']),
         ('update_fr_f64', ['double', 'double']), ('update_fr_i64', ['double', 'long'])]
PAIR = [('update_ip_i64', ['long', 'long', 'long']), ('update_ip_ll', ['long', 'long long', 'long long']),
        ('update_ip_i32', ['long', 'int', 'int']), ('update_ip_f64', ['long', 'double', 'double']),
        ('update_fp_f64', ['double', 'double', 'double']), ('update_fp_i64', ['double', 'long', 'long']),
        ('update_fp_i32', ['double', 'int', 'int'])]
STORAGE = [('update_st_i64', 'long', False), ('update_st_f64', 'double', False),
           ('update_st_t32', 'int', True), ('update_st_t64', 'long', True), ('update_st_tf', 'double', True)]


def fnty(ts, *tv):
    """regex on the callee's function type: record of tscalar `ts`, value type(s) `tv`"""
    rec = 'pair_range_t' if len(tv) == 2 else 'range_t'
    return r'^update\|parameter_t::%s<%s> &\(const nano::string_t &, parameter_t::%s<%s> &, %s\)' % (
        rec, ts, rec, ts, ', '.join(tv))


CALLS = [(r'^check\|.*long, long\)', 'check_i64'), (r'^check\|.*double, double\)', 'check_f64'),
         (r'^isfinite\|bool \(const long\)', 'isfinite_i64'), (r'^isfinite\|bool \(const double\)', 'isfinite_f64'),
         (r'^isfinite\|bool \(double\)', 'nv_std_isfinite'),
         (r'^get\|__tuple_element_t<0UL', '{0}._0'), (r'^get\|__tuple_element_t<1UL', '{0}._1'),
         (r'^move\|', '{0}'),     # std::move on the value models (strings are ids, records are plain structs): a copy
         (r'^find\|', 'nv_find_str({0}, {1}, {&2})'), (r'^operator==\|.*__normal_iterator<std::basic_string<char> \*', '({0} == {1})'),
         (r'^operator!=\|.*__normal_iterator<std::basic_string<char> \*', '({0} != {1})'),
         (r'^operator=\|.*basic_string<char> &\(', '({0} = {1})'),
         (r'^update\|parameter_t::enum_t &\(', 'update_enum!^'),
         (r'^stoll\|', 'nv_stoll({&0})!^'), (r'^stod\|', 'nv_stod({&0})!^'), (r'^split_pair\|', 'nv_split_pair({&0})')]
STRS = r'std::vector<std::(__cxx11::)?basic_string<char>'
MEMBERS = [(r'^begin\|' + STRS, '{*self}.p'), (r'^end\|' + STRS, '({*self}.p + {*self}.n)')]
CALLS += [(fnty(ta[0], *ta[1:]), cname + '!^') for cname, ta in RANGE + PAIR]
CALLS += [(r'^update\|void \(const nano::string_t &, parameter_t::storage_t &, %s\)' % re_, cname + '!') for cname, re_ in [
    ('update_st_i64', 'long'), ('update_st_f64', 'double'), ('update_st_t32', r'std::tuple<int, int>'),
    ('update_st_t64', r'std::tuple<long, long>'), ('update_st_tf', r'std::tuple<double, double>')]]
HOOKS = [hooks.variant_expr_hook()]
COMMON = dict(types=TYPES, calls=CALLS, members=MEMBERS, hooks=HOOKS, stmt_hooks=[hooks.variant_visit_hook()], uf_float=False)


def targs(*want):
    return lambda d: astload.template_args(d) == list(want)


def helpers():
    return [Fn('check_i64', TU, 'check', select=targs('long'), **COMMON),
            Fn('check_f64', TU, 'check', select=targs('double'), **COMMON),
            Fn('isfinite_i64', TU, 'isfinite', flt='nano::isfinite', select=targs('long', '-1'), **COMMON),
            Fn('isfinite_f64', TU, 'isfinite', flt='nano::isfinite', select=targs('double', '-1'), **COMMON)]


def upd(cname, ta):
    return Fn(cname, TU, 'update', select=targs(*ta), **COMMON)


def upd_storage(cname, tv, tup):
    sel = lambda d: astload.template_args(d) == [tv, '-1'] and ('tuple' in astload.param_types(d)[2]) == tup
    return Fn(cname, TU, 'update', select=sel, **COMMON)


def upd_enum():
    return Fn('update_enum', TU, 'update', select=lambda d: 'enum_t' in astload.param_types(d)[1], **COMMON)


def ctor(cname, pt):
    want = ['nano::string_t', 'nano::parameter_t::' + pt if pt else 'nano::string_t']
    return Fn(cname, TU, 'parameter_t', flt='nano::parameter_t::parameter_t', select=lambda d: astload.param_types(d) == want,
              self_struct='struct nv_parameter', **COMMON)


DRV = 'drivers/inst_param.cpp'


def reader(cname, name, tv):
    """parameter_t::value<tv>() / value_pair<tv>() (header templates, instantiated by the driver) with the record-level
    value<tv>() accessors they dispatch to"""
    sfx = {'long': 'i64', 'double': 'f64'}[tv]
    c = dict(COMMON)
    c['members'] = MEMBERS + [(r'^logical_error\|', '@throw')] + [
        (r'^value\|nano::parameter_t::%s<%s' % (rec, ts), f'{nm}_{sfx}')
        for rec, ts, nm in [('range_t', 'long', 'range_value_ir'), ('range_t', 'double', 'range_value_fr'),
                            ('pair_range_t', 'long', 'pair_value_ip'), ('pair_range_t', 'double', 'pair_value_fp')]]
    tup = 'struct nv_tup_' + sfx
    c['calls'] = CALLS + [(r'^make_tuple\|', '(%s){{0}, {1}}' % tup)]
    fns = [Fn(cname, DRV, name, flt='nano::parameter_t::' + name, select=targs(tv, '-1'), self_struct='struct nv_parameter',
              ret=(tup if name == 'value_pair' else None), **c)]
    if name == 'value':
        recs = [('range_value_ir', 'range_t', 'range_tIl', 'struct nv_irange', None), ('range_value_fr', 'range_t', 'range_tId', 'struct nv_frange', None)]
    else:
        recs = [('pair_value_ip', 'pair_range_t', 'pair_range_tIl', 'struct nv_iprange', tup), ('pair_value_fp', 'pair_range_t', 'pair_range_tId', 'struct nv_fprange', tup)]
    for nm, rec, mang, st, ret in recs:
        sel = lambda d, mang=mang: astload.template_args(d) == [tv] and mang in (d.get('mangledName') or '')
        fns.append(Fn(f'{nm}_{sfx}', DRV, 'value', flt='nano::parameter_t::' + rec, select=sel, self_struct=st, ret=ret, **c))
    return fns


CONF = 'src/configurable.cpp'
PV = r'std::vector<nano::parameter_t'


def conf_fns():
    c = dict(COMMON)
    c['types'] = TYPES + [(r'^(std::)?(string_view|basic_string_view<char>)$', 'struct nv_str'),
                          (r'^(nano::)?parameters_t$|^' + PV, 'struct nv_params'),
                          (r'__normal_iterator<\s*nano::parameter_t \*', 'struct nv_parameter*'),
                          (r'^(nano::)?configurable_t$', 'struct nv_configurable')]
    c['members'] = MEMBERS + [(r'^begin\|' + PV, '{*self}.p'), (r'^end\|' + PV, '({*self}.p + {*self}.n)'),
                              (r'^name\|nano::parameter_t', 'parameter_name'), (r'^operator basic_string_view\|', '{*self}'),
                              (r'^parameter_if\|nano::configurable_t', 'configurable_parameter_if'),
                              (r'^emplace_back\|' + PV, 'nv_params_emplace_back({self}, {&0})')]
    # std::find_if(first, last, lambda): the lambda argument is not translated here; it is extracted as find_param_pred
    # (it captures `name`, the enclosing function's parameter) and called by the stub
    c['calls'] = CALLS + [(r'^find_if\|', 'nv_find_if_param({0}, {1}, name)'), (r'^operator==\|.*basic_string_view', '({0}.id == {1}.id)'),
                          (r'^operator==\|.*__normal_iterator<\s*nano::parameter_t \*', '({0} == {1})'),
                          (r'^operator\*\|.*__normal_iterator<\s*nano::parameter_t', '(*{0})'),
                          (r'^find_param\|nano::parameter_t \*\(', 'find_param!^'), (r'^find_param\|const nano::parameter_t \*\(', 'find_param_c!^')]
    nc = lambda d: 'const' not in astload.param_types(d)[0]
    cq = lambda d: 'const' in astload.param_types(d)[0]
    mnc = lambda d: 'const' not in d['type']['qualType'].split(')')[-1]
    mc = lambda d: 'const' in d['type']['qualType'].split(')')[-1]
    S = 'struct nv_configurable'
    f = {
        'find_param': Fn('find_param', CONF, 'find_param', select=nc, **c),
        'find_param_c': Fn('find_param_c', CONF, 'find_param', select=cq, **c),
        'pred': Fn('find_param_pred', CONF, 'find_param', select=nc, lambda_index=0, extra_params=['struct nv_str name'], **c),
        'name': Fn('parameter_name', DRV, 'name', flt='nano::parameter_t::name', self_struct='struct nv_parameter', **c),
        'register': Fn('configurable_register_parameter', CONF, 'register_parameter', flt='nano::configurable_t::register_parameter', self_struct=S, **c),
        'parameter': Fn('configurable_parameter', CONF, 'parameter', flt='nano::configurable_t::parameter', select=mnc, self_struct=S, **c),
        'parameter_c': Fn('configurable_parameter_c', CONF, 'parameter', flt='nano::configurable_t::parameter', select=mc, self_struct=S, **c),
        'parameter_if': Fn('configurable_parameter_if', CONF, 'parameter_if', flt='nano::configurable_t::parameter_if', select=mnc, self_struct=S, **c),
        'parameter_if_c': Fn('configurable_parameter_if_c', CONF, 'parameter_if', flt='nano::configurable_t::parameter_if', select=mc, self_struct=S, **c),
    }
    return f


def method(cname, name, ptypes=None):
    sel = (lambda d: astload.param_types(d) == ptypes) if ptypes else None
    return Fn(cname, TU, name, flt='nano::parameter_t::' + name, select=sel, self_struct='struct nv_parameter', **COMMON)


def T(name, fns, solver='cadical', **kw):
    # cadical decides the float <-> integer conversion queries of the update targets about 4x faster than minisat;
    # minisat (cbmc's default) is much faster on the string-assignment target (uninterpreted parsing functions)
    return Target(name, fns, H, cbmc_flags=(['--sat-solver', solver] if solver else []), **kw)


def build(tier):
    targets = [T('check_i64', [helpers()[0]]), T('check_f64', [helpers()[1]])]
    # T1: the check-then-assign templates; ::check and nano::isfinite are extracted and inlined (no contract in between)
    for cname, ta in RANGE + PAIR:
        targets.append(T(cname, [upd(cname, ta)] + helpers()))
    # T2: the std::visit dispatch over the storage variant; the record-level updates are replaced by the contracts
    # proved above (so the double -> int64 cast is reported once, where it is)
    callee = {'update_st_i64': ['update_ir_i64', 'update_fr_i64'], 'update_st_f64': ['update_ir_f64', 'update_fr_f64'],
              'update_st_t32': ['update_ip_i32', 'update_fp_i32'], 'update_st_t64': ['update_ip_i64', 'update_fp_i64'],
              'update_st_tf': ['update_ip_f64', 'update_fp_f64']}
    table = dict(RANGE + PAIR)

    def st_fns(cname):
        tv, tup = [(b, c) for a, b, c in STORAGE if a == cname][0]
        return [upd_storage(cname, tv, tup)] + [upd(c, table[c]) for c in callee[cname]] + helpers()
    for cname, tv, tup in STORAGE:
        targets.append(T(cname, st_fns(cname), replace=callee[cname]))
    # parameter_t::seti / setd / operator=(tuple): the storage-level update replaced by the contract proved just above
    for cname, name, pt, st in [('parameter_seti', 'seti', None, 'update_st_i64'), ('parameter_setd', 'setd', None, 'update_st_f64'),
                                ('parameter_assign_t32', 'operator=', ['std::tuple<int32_t, int32_t>'], 'update_st_t32'),
                                ('parameter_assign_t64', 'operator=', ['std::tuple<int64_t, int64_t>'], 'update_st_t64'),
                                ('parameter_assign_tf', 'operator=', ['std::tuple<scalar_t, scalar_t>'], 'update_st_tf')]:
        targets.append(T(cname, [method(cname, name, pt)] + st_fns(st), replace=callee[st] + [st]))
    # T3: enum update and the six constructors (everything inlined down to ::check)
    targets.append(T('update_enum', [upd_enum()]))
    for cname, pt, deps in [('parameter_ctor_ir', 'irange_t', ['update_ir_i64']), ('parameter_ctor_fr', 'frange_t', ['update_fr_f64']),
                            ('parameter_ctor_ip', 'iprange_t', ['update_ip_i64']), ('parameter_ctor_fp', 'fprange_t', ['update_fp_f64']),
                            ('parameter_ctor_enum', 'enum_t', []), ('parameter_ctor_str', None, [])]:
        fns = [ctor(cname, pt)] + [upd(c, table[c]) for c in deps] + ([upd_enum()] if pt == 'enum_t' else []) + helpers()
        targets.append(T(cname, fns))
    # T4: parameter_t::operator=(string): seven visitors, parsing by assumed STL functions, everything else inlined
    for cname in ['parameter_assign_str']:
        targets.append(T(cname, [method(cname, 'operator=', ['nano::string_t']), upd_enum()] +
                         [upd(c, table[c]) for c in ('update_ir_ll', 'update_fr_f64', 'update_ip_ll', 'update_fp_f64')] + helpers(),
                         solver=None))
    # T5: readers (header templates through the instantiation-only driver)
    for cname, name, tv in [('value_i64', 'value', 'long'), ('value_f64', 'value', 'double'),
                            ('pair_i64', 'value_pair', 'long'), ('pair_f64', 'value_pair', 'double')]:
        targets.append(T(cname, reader(cname, name, tv)))
    c = dict(COMMON)
    c['members'] = MEMBERS + [(r'^logical_error\|', '@throw')]
    targets.append(T('value_str', [Fn('value_str', DRV, 'value', flt='nano::parameter_t::value', select=targs('std::basic_string<char>', '-1'),
                                      self_struct='struct nv_parameter', **c)]))
    # T6: configurable_t lookups and registration (std::find_if / emplace_back by assumed contract, the predicate lambda,
    # parameter_t::name() and ::find_param inlined everywhere)
    for top, deps in [('find_param', []), ('find_param_c', []), ('parameter', ['find_param']), ('parameter_c', ['find_param_c']),
                      ('parameter_if', ['find_param']), ('parameter_if_c', ['find_param_c']), ('register', ['parameter_if', 'find_param'])]:
        f = conf_fns()
        fns = [f[top]] + [f[d] for d in deps] + [f['pred'], f['name']]
        targets.append(T(fns[0].cname, fns, solver=None))
    return {
        'targets': targets, 'vcs': [],
        'decided': [],
        'not_decided': [],
        'assumptions': [],
        'trusted': [],
    }
