import re

import astload
from core import Fn, Target, VC
import hooks

TU = 'src/parameter.cpp'
H = 'specs/C19/param.h'
TYPES = [(r'LEorLT$|^std::variant<nano::LE_t, nano::LT_t>$', 'struct nv_lelt'),
         (r'(^|::)range_t<long\b|irange_t$', 'struct nv_irange'), (r'(^|::)range_t<double\b|frange_t$', 'struct nv_frange'),
         (r'(^|::)pair_range_t<long\b|iprange_t$', 'struct nv_iprange'), (r'(^|::)pair_range_t<double\b|fprange_t$', 'struct nv_fprange'),
         (r'(^|::)parameter_t::enum_t$', 'struct nv_enum'), (r'(^|::)storage_t$|^std::variant<std::monostate, ', 'struct nv_storage'),
         (r'^(nano::)?parameter_t$', 'struct nv_parameter'),
         (r'^(std::)?tuple<int, int>$', 'struct nv_tup_i32'), (r'^(std::)?tuple<long, long>$|^(std::)?tuple<long long, long long>$', 'struct nv_tup_i64'),
         (r'^(std::)?tuple<double, double>$', 'struct nv_tup_f64'), (r'^(std::)?tuple<float, float>$', 'struct nv_tup_f32'),
         (r'^(nano::string_t|std::string|std::basic_string<char>)$', 'struct nv_str'),
         (r'__normal_iterator<std::basic_string<char> \*, std::vector', 'struct nv_str*'),
         (r'^(nano::strings_t|std::vector<std::basic_string<char>.*)$', 'struct nv_strs'),
         (r'^(std::)?tuple<std::basic_string<char>, std::basic_string<char>>$', 'struct nv_tup_str'),
         (r'std::tuple_element<[01], const std::tuple<std::basic_string<char>, std::basic_string<char>>>::type', 'struct nv_str')]

# ----------------------------------------------------------------------------- following the call sites
# The record-level ::update templates, ::check and nano::isfinite are instantiated by their call sites; which
# instantiations exist is read from clang on every run (astload.instantiations / astload.callees), so a change that makes a
# call site pass another type is checked against the same contracts instead of ending in an extraction error.
SUF = {'long': 'i64', 'long long': 'll', 'int': 'i32', 'double': 'f64', 'float': 'f32'}


def _fn_params(fnty):
    """parameter types of clang's function-type spelling 'R (A, B, C) noexcept'"""
    i = fnty.index('(')
    depth, j = 0, i
    for j in range(i, len(fnty)):
        depth += fnty[j] in '(<'
        depth -= fnty[j] in ')>'
        if depth == 0 and fnty[j] == ')':
            break
    return [x.strip() for x in hooks.split_top(fnty[i + 1:j])]


def update_cname(d):
    """C name (= contract name) of a record-level ::update instantiation, None for the other overloads"""
    ta, pt = astload.template_args(d), astload.param_types(d)
    if len(pt) < 3 or 'range_t<' not in pt[1]:
        return None
    pair = 'pair_range_t<' in pt[1]
    if ta[0] not in ('long', 'double') or any(t not in SUF for t in ta[1:]) or len(ta) != (3 if pair else 2) or (pair and ta[1] != ta[2]):
        raise astload.ExtractionError(f'::update instantiated for {ta}: no contract is written for this combination of types')
    return f"update_{'i' if ta[0] == 'long' else 'f'}{'p' if pair else 'r'}_{SUF[ta[1]]}"


def update_insts():
    """{function type (clang spelling): (C name, template arguments)} of the record-level ::update instantiations that exist"""
    out = {}
    for d in astload.instantiations(TU, 'update', 'update'):
        c = update_cname(d)
        if c:
            out[d['type']['qualType']] = (c, astload.template_args(d))
    if not out:
        raise astload.ExtractionError('no record-level ::update instantiation found in src/parameter.cpp')
    return out


def storage_insts():
    """{function type: (C name, definition)} of the storage-level ::update(name, storage_t&, number | tuple) instantiations"""
    out = {}
    for d in astload.instantiations(TU, 'update', 'update'):
        ta, pt = astload.template_args(d), astload.param_types(d)
        if len(pt) != 3 or 'storage_t' not in pt[1]:
            continue
        if ta[0] not in SUF:
            raise astload.ExtractionError(f'::update(storage) instantiated for {ta}: no contract is written for this type')
        out[d['type']['qualType']] = ('update_st_' + ('t' if 'tuple' in pt[2] else '') + SUF[ta[0]], d)
    if not out:
        raise astload.ExtractionError('no storage-level ::update instantiation found in src/parameter.cpp')
    return out


def helper_cname(name, fnty):
    ps = [re.sub(r'\bconst\b', '', x).strip() for x in _fn_params(fnty)]
    if name == 'check':
        ps = ps[1:]
    if any(x not in SUF for x in ps):
        raise astload.ExtractionError(f'{name} instantiated for {ps}: no C name for this combination of types')
    return name + '_' + '_'.join(SUF[x] for x in ps)


def key_rx(name, fnty):
    return r'^' + re.escape(name) + r'\|' + re.escape(fnty) + r'(\||$)'


def base_calls():
    """call mappings that depend on the instantiations present: every ::update, ::check, nano::isfinite by its exact type"""
    calls = []
    for fnty, (c, ta) in update_insts().items():
        calls.append((key_rx('update', fnty), c + '!^'))
    for fnty, (c, d) in storage_insts().items():
        calls.append((key_rx('update', fnty), c + '!'))
    for d in astload.instantiations(TU, 'check', 'check'):
        calls.append((key_rx('check', d['type']['qualType']), helper_cname('check', d['type']['qualType'])))
    for d in astload.instantiations(TU, 'nano::isfinite', 'isfinite'):
        calls.append((key_rx('isfinite', d['type']['qualType']), helper_cname('isfinite', d['type']['qualType'])))
    return calls


STATIC_CALLS = [(r'^isfinite\|bool \(double\)', 'nv_std_isfinite'),
         (r'^get\|__tuple_element_t<0UL', '{0}._0'), (r'^get\|__tuple_element_t<1UL', '{0}._1'),
         (r'^move\|', '{0}'),     # std::move on the value models (strings are ids, records are plain structs): a copy
         (r'^find\|', 'nv_find_str({0}, {1}, {&2})'), (r'^operator==\|.*__normal_iterator<std::basic_string<char> \*', '({0} == {1})'),
         (r'^operator!=\|.*__normal_iterator<std::basic_string<char> \*', '({0} != {1})'),
         (r'^operator=\|.*basic_string<char> &\(', '({0} = {1})'),
         (r'^update\|parameter_t::enum_t &\(', 'update_enum!^'),
         (r'^stoll\|', 'nv_stoll({&0})!^'), (r'^stod\|', 'nv_stod({&0})!^'), (r'^split_pair\|', 'nv_split_pair({&0})')]
STRS = r'std::vector<std::(__cxx11::)?basic_string<char>'
MEMBERS = [(r'^begin\|' + STRS, '{*self}.p'), (r'^end\|' + STRS, '({*self}.p + {*self}.n)')]
HOOKS = [hooks.variant_expr_hook()]


_common = {}


def common():
    """Fn keyword arguments shared by every extraction; the call table needs clang (the instantiations present), so it is
    built on first use, inside build()"""
    if not _common:
        _common.update(types=TYPES, calls=STATIC_CALLS + base_calls(), members=MEMBERS, hooks=HOOKS,
                       stmt_hooks=[hooks.variant_visit_hook()], uf_float=False)
    return _common


def targs(*want):
    return lambda d: astload.template_args(d) == list(want)


def by_type(fnty):
    return lambda d: d['type']['qualType'] == fnty


def helpers_of(decls):
    """the ::check / nano::isfinite instantiations the given definitions call (extracted and inlined, no contract in between)"""
    out, seen = [], set()
    for d in decls:
        for name, flt in (('check', 'check'), ('isfinite', 'nano::isfinite')):
            for fnty in astload.callees(d, name):
                if name == 'isfinite' and re.fullmatch(r'bool \((float|double|long double)\)', fnty):
                    continue     # std::isfinite (the repaired guard): exact C equivalent, not a libnano function
                c = helper_cname(name, fnty)
                if c not in seen:
                    seen.add(c)
                    out.append(Fn(c, TU, name, flt=flt, select=by_type(fnty), **common()))
    return out


def upd_fns(fntys):
    """extracted record-level updates for the given function types, with the helpers they call"""
    insts = update_insts()
    fns, decls = [], []
    for t in fntys:
        if t not in insts:
            continue      # another ::update overload (enum, storage)
        c, ta = insts[t]
        if c in [f.cname for f in fns]:
            continue
        fns.append(Fn(c, TU, 'update', select=by_type(t), **common()))
        decls.append(astload.find_definition(TU, 'update', 'update', by_type(t)))
    return fns, decls


def upd_storage(fnty):
    c, d = storage_insts()[fnty]
    return Fn(c, TU, 'update', select=by_type(fnty), **common()), d


def upd_enum():
    return Fn('update_enum', TU, 'update', select=lambda d: 'enum_t' in astload.param_types(d)[1], **common())


def ctor(cname, pt):
    want = ['nano::string_t', 'nano::parameter_t::' + pt if pt else 'nano::string_t']
    return Fn(cname, TU, 'parameter_t', flt='nano::parameter_t::parameter_t', select=lambda d: astload.param_types(d) == want,
              self_struct='struct nv_parameter', **common())


DRV = 'drivers/inst_param.cpp'


def reader(cname, name, tv):
    """parameter_t::value<tv>() / value_pair<tv>() (header templates, instantiated by the driver) with the record-level
    value<tv>() accessors they dispatch to"""
    sfx = {'long': 'i64', 'double': 'f64'}[tv]
    c = dict(common())
    c['members'] = MEMBERS + [(r'^logical_error\|', '@throw')] + [
        (r'^value\|nano::parameter_t::%s<%s' % (rec, ts), f'{nm}_{sfx}')
        for rec, ts, nm in [('range_t', 'long', 'range_value_ir'), ('range_t', 'double', 'range_value_fr'),
                            ('pair_range_t', 'long', 'pair_value_ip'), ('pair_range_t', 'double', 'pair_value_fp')]]
    tup = 'struct nv_tup_' + sfx
    c['calls'] = common()['calls'] + [(r'^make_tuple\|', '(%s){{0}, {1}}' % tup)]
    fns = [Fn(cname, DRV, name, flt='nano::parameter_t::' + name, select=targs(tv, '-1'), self_struct='struct nv_parameter',
              ret=(tup if name == 'value_pair' else None), **c)]
    if name == 'value':
        recs = [('range_value_ir', 'range_t', 'range_tIl', 'struct nv_irange', None), ('range_value_fr', 'range_t', 'range_tId', 'struct nv_frange', None)]
    else:
        recs = [('pair_value_ip', 'pair_range_t', 'pair_range_tIl', 'struct nv_iprange', tup), ('pair_value_fp', 'pair_range_t', 'pair_range_tId', 'struct nv_fprange', tup)]
    for nm, rec, mang, st, ret in recs:
        sel = lambda d, mang=mang: astload.template_args(d) == [tv] and mang in (d.get('mangledName') or '')
        fns.append(Fn(f'{nm}_{sfx}', DRV, 'value', flt='nano::parameter_t::' + rec, select=sel, self_struct=st, ret=ret, **c))
    return fns


CONF = 'src/configurable.cpp'
PV = r'std::vector<nano::parameter_t'


def conf_fns():
    c = dict(common())
    c['types'] = TYPES + [(r'^(std::)?(string_view|basic_string_view<char>)$', 'struct nv_str'),
                          (r'^(nano::)?parameters_t$|^' + PV, 'struct nv_params'),
                          (r'__normal_iterator<\s*nano::parameter_t \*', 'struct nv_parameter*'),
                          (r'^(nano::)?configurable_t$', 'struct nv_configurable')]
    c['members'] = MEMBERS + [(r'^begin\|' + PV, '{*self}.p'), (r'^end\|' + PV, '({*self}.p + {*self}.n)'),
                              (r'^name\|nano::parameter_t', 'parameter_name'), (r'^operator basic_string_view\|', '{*self}'),
                              (r'^parameter_if\|nano::configurable_t', 'configurable_parameter_if'),
                              (r'^emplace_back\|' + PV, 'nv_params_emplace_back({self}, {&0})')]
    # std::find_if(first, last, lambda): the lambda argument is not translated here; it is extracted as find_param_pred
    # (it captures `name`, the enclosing function's parameter) and called by the stub
    c['calls'] = common()['calls'] + [(r'^find_if\|', 'nv_find_if_param({0}, {1}, name)'), (r'^operator==\|.*basic_string_view', '({0}.id == {1}.id)'),
                          (r'^operator!=\|.*basic_string_view', '({0}.id != {1}.id)'),
                          (r'^operator!=\|.*__normal_iterator<\s*nano::parameter_t \*', '({0} != {1})'),
                          (r'^operator==\|.*__normal_iterator<\s*nano::parameter_t \*', '({0} == {1})'),
                          (r'^operator\*\|.*__normal_iterator<\s*nano::parameter_t', '(*{0})'),
                          (r'^find_param\|nano::parameter_t \*\(', 'find_param!^'), (r'^find_param\|const nano::parameter_t \*\(', 'find_param_c!^')]
    nc = lambda d: 'const' not in astload.param_types(d)[0]
    cq = lambda d: 'const' in astload.param_types(d)[0]
    mnc = lambda d: 'const' not in d['type']['qualType'].split(')')[-1]
    mc = lambda d: 'const' in d['type']['qualType'].split(')')[-1]
    S = 'struct nv_configurable'
    f = {
        'find_param': Fn('find_param', CONF, 'find_param', select=nc, **c),
        'find_param_c': Fn('find_param_c', CONF, 'find_param', select=cq, **c),
        'pred': Fn('find_param_pred', CONF, 'find_param', select=nc, lambda_index=0, extra_params=['struct nv_str name'], **c),
        # the const overload has its own (textually identical) lambda: the *_c targets use that one
        'pred_c': Fn('find_param_pred', CONF, 'find_param', select=cq, lambda_index=0, extra_params=['struct nv_str name'], **c),
        'name': Fn('parameter_name', DRV, 'name', flt='nano::parameter_t::name', self_struct='struct nv_parameter', **c),
        'register': Fn('configurable_register_parameter', CONF, 'register_parameter', flt='nano::configurable_t::register_parameter', self_struct=S, **c),
        'parameter': Fn('configurable_parameter', CONF, 'parameter', flt='nano::configurable_t::parameter', select=mnc, self_struct=S, **c),
        'parameter_c': Fn('configurable_parameter_c', CONF, 'parameter', flt='nano::configurable_t::parameter', select=mc, self_struct=S, **c),
        'parameter_if': Fn('configurable_parameter_if', CONF, 'parameter_if', flt='nano::configurable_t::parameter_if', select=mnc, self_struct=S, **c),
        'parameter_if_c': Fn('configurable_parameter_if_c', CONF, 'parameter_if', flt='nano::configurable_t::parameter_if', select=mc, self_struct=S, **c),
    }
    return f


def method(cname, name, ptypes=None):
    sel = (lambda d: astload.param_types(d) == ptypes) if ptypes else None
    return Fn(cname, TU, name, flt='nano::parameter_t::' + name, select=sel, self_struct='struct nv_parameter', **common())


def T(name, fns, solver='cadical', prelude=None, **kw):
    # cadical decides the float <-> integer conversion queries of the update targets about 4x faster than minisat;
    # minisat (cbmc's default) is much faster on the string-assignment target (uninterpreted parsing functions)
    return Target(name, fns, prelude or H, cbmc_flags=(['--sat-solver', solver] if solver else []), **kw)


def check_targets():
    """every ::check instantiation the source contains, against the comparison the flag denotes"""
    out = []
    for d in astload.instantiations(TU, 'check', 'check'):
        t = d['type']['qualType']
        c = helper_cname('check', t)
        out.append(T(c, [Fn(c, TU, 'check', select=by_type(t), **common())]))
    if not out:
        raise astload.ExtractionError('no ::check instantiation found in src/parameter.cpp')
    return out


def with_helpers(fns, decls):
    return fns + helpers_of(decls)


def assign_str_fns(cname='parameter_assign_str'):
    """operator=(string) with the record-level updates its visitors really call (read from the AST), everything inlined"""
    sel = lambda d: astload.param_types(d) == ['nano::string_t']
    d = astload.find_definition(TU, 'nano::parameter_t::operator=', 'operator=', sel)
    ufns, udecls = upd_fns(astload.callees(d, 'update'))
    return [method(cname, 'operator=', ['nano::string_t']), upd_enum()] + with_helpers(ufns, udecls)


HPE = 'specs/C19/param_enum.h'


def enum_param_targets(q, enums):
    sn = q.split('::')[-1]
    e = re.escape(q)

    def assign():
        c = dict(common())
        c['types'] = TYPES + [(r'^' + e + r'$', 'int64_t')]
        c['members'] = MEMBERS + [(r'^logical_error\|', '@throw'), (r'^operator=\|nano::parameter_t', 'parameter_assign_str!')]
        c['calls'] = common()['calls'] + [(r'^scat\|nano::string_t \(const ' + e + r' &\)', 'nv_scat_enum_t((int64_t){0})!^')]
        fe = Fn('parameter_assign_enum_t', enums.driver2(), 'operator=', flt='nano::parameter_t::operator=', select=lambda d: astload.template_args(d)[:1] == [q],
                self_struct='struct nv_parameter', **c)
        return [fe] + assign_str_fns()

    def value():
        c = dict(common())
        c['types'] = TYPES + [(r'^' + e + r'$', 'int64_t'), (r'^(std::)?(string_view|basic_string_view<char(, std::char_traits<char>\s*)?>)$', 'struct nv_str')]
        c['members'] = MEMBERS + [(r'^logical_error\|', '@throw'), (r'^operator basic_string_view\|', '{*self}')]
        c['calls'] = common()['calls'] + [(r'^from_string\|' + e + r' \(const std::string_view &\)', 'nv_from_string_enum({&0})!^'),
                                          (r'^ctor\|[^|]*basic_string_view<char[^|]*\|void \(const (std::)?basic_string_view<char[^|]*&\)', '{0}')]
        return [Fn('parameter_value_enum_t', enums.driver2(), 'value', flt='nano::parameter_t::value', select=lambda d: astload.template_args(d)[:1] == [q],
                   self_struct='struct nv_parameter', **c)]
    def make():
        v = enums._check_static_init(enums.driver2(), 'nano::parameter_t::make_enum', 'make_enum_', lambda d: astload.template_args(d)[:1] == [q], q, 'options')
        c = dict(common())
        pair = r'std::pair<' + e + r', char \*>'
        c['types'] = TYPES + [(r'^' + e + r'$', 'int64_t'),
                              (r'^(nano::)?enum_map_t<' + e + r'>$|^std::vector<' + pair + r'\s*(, std::allocator<.*)?>$', 'struct nv_etab2'),
                              (r'__normal_iterator<\s*' + pair + r'|^std::vector<' + pair + r'.*>::const_iterator$', 'struct nv_eopt2*'),
                              (r'^' + pair + r'$', 'struct nv_eopt2'),
                              (r'__normal_iterator<\s*std::basic_string<char> \*|^std::vector<std::basic_string<char>.*>::iterator$', 'struct nv_str*')]
        VE = r'(const )?(nano::)?(enum_map_t|std::vector<std::pair)<'
        c['members'] = MEMBERS + [(r'^begin\|' + VE, '{*self}.p'), (r'^end\|' + VE, '({*self}.p + {*self}.n)'), (r'^size\|' + VE, '((uint64_t){*self}.n)')]
        c['calls'] = common()['calls'] + [(r'^scat\|nano::string_t \(const ' + e + r' &\)', 'nv_scat_enum_t((int64_t){0})!^'),
                                          (r'^transform\|', 'nv_transform_names({0}, {1}, {2})'),
                                          (r'^ctor\|(nano::strings_t|std::vector<std::basic_string<char>[^|]*)\|void \((std::vector(<[^|]*>)?::)?size_type, ', 'nv_strs_sized({0})'),
                                          (r'^ctor\|[^|]*vector<std::basic_string<char>[^|]*\|void \((std::)?vector<.*&&\)', '{0}'),
                                          (r'^ctor\|[^|]*basic_string<char[^|]*\|void \((std::)?(__cxx11::)?basic_string<char[^|]*&&\)', '{0}'),
                                          (r'^ctor\|nano::parameter_t\|void \(nano::string_t, nano::parameter_t::enum_t\)', 'nv_parameter_make_enum({0}, {1})!')]
        sel = lambda d: astload.template_args(d)[:1] == [q]
        f = Fn('make_enum_', enums.driver2(), 'make_enum_', flt='nano::parameter_t::make_enum', select=sel, aggregates=['struct nv_enum'], **c)
        lam = Fn('make_enum_name', enums.driver2(), 'make_enum_', flt='nano::parameter_t::make_enum', select=sel, lambda_index=0, ret='struct nv_str', **c)
        return [f, lam, ctor('parameter_ctor_enum', 'enum_t'), upd_enum()], v
    mk = [Target(f'enum_{sn}_make', lambda: make()[0], HPE, enforce='make_enum_',
                 defines=['NV_MAKE_ENUM=1', lambda: 'NV_MAKE_ENUM_STATIC=nv_static_make_enum__' + make()[1]],
                 note=f'parameter_t::make_enum_<{q}>: the stored domain list is the list of the table names')]
    return mk + [Target(f'enum_{sn}_assign', assign, HPE, enforce='parameter_assign_enum_t', replace=['parameter_assign_str'],
                   note=f'parameter_t::operator=({q})'),
            T(f'enum_{sn}_value', value, prelude=HPE, enforce='parameter_value_enum_t', note=f'parameter_t::value<{q}>()')]


def build(tier):
    targets = check_targets()
    # T1: the check-then-assign templates, every instantiation present; the ::check / nano::isfinite instantiations each one
    # calls are extracted and inlined (no contract in between)
    insts = update_insts()
    for fnty, (cname, ta) in sorted(insts.items(), key=lambda kv: kv[1][0]):
        fns, decls = upd_fns([fnty])
        targets.append(T(cname, with_helpers(fns, decls)))
    # T2: the std::visit dispatch over the storage variant; the record-level updates it calls (read from the AST) are
    # replaced by the contracts proved above
    for fnty, (cname, d) in sorted(storage_insts().items(), key=lambda kv: kv[1][0]):
        f, d = upd_storage(fnty)
        ufns, udecls = upd_fns(astload.callees(d, 'update'))
        targets.append(T(cname, [f] + with_helpers(ufns, udecls), replace=[u.cname for u in ufns]))
    # parameter_t::seti / setd / operator=(tuple): the storage-level update each one really calls (read from the AST) is
    # replaced by its contract proved just above
    for cname, name, pt in [('parameter_seti', 'seti', None), ('parameter_setd', 'setd', None),
                            ('parameter_assign_t32', 'operator=', ['std::tuple<int32_t, int32_t>']),
                            ('parameter_assign_t64', 'operator=', ['std::tuple<int64_t, int64_t>']),
                            ('parameter_assign_tf', 'operator=', ['std::tuple<scalar_t, scalar_t>'])]:
        mf = method(cname, name, pt)
        md = astload.find_definition(TU, mf.flt, name, mf.select, mf.kinds)
        fns, rep = [mf], []
        for fnty in astload.callees(md, 'update'):
            if fnty not in storage_insts():
                raise astload.ExtractionError(f'{cname} calls ::update of type {fnty}: not a storage-level update')
            f, d = upd_storage(fnty)
            ufns, udecls = upd_fns(astload.callees(d, 'update'))
            fns += [f] + with_helpers(ufns, udecls)
            rep += [u.cname for u in ufns] + [f.cname]
        targets.append(T(cname, fns, replace=rep))
    # T3: enum update and the six constructors (everything inlined down to ::check)
    targets.append(T('update_enum', [upd_enum()]))
    for cname, pt in [('parameter_ctor_ir', 'irange_t'), ('parameter_ctor_fr', 'frange_t'), ('parameter_ctor_ip', 'iprange_t'),
                      ('parameter_ctor_fp', 'fprange_t'), ('parameter_ctor_enum', 'enum_t'), ('parameter_ctor_str', None)]:
        cf = ctor(cname, pt)
        cd = astload.find_definition(TU, 'nano::parameter_t::parameter_t', 'parameter_t', cf.select, cf.kinds)
        ufns, udecls = upd_fns(astload.callees(cd, 'update'))
        targets.append(T(cname, [cf] + ([upd_enum()] if pt == 'enum_t' else []) + with_helpers(ufns, udecls)))
    # T4: parameter_t::operator=(string): seven visitors, parsing by assumed STL functions, everything else inlined
    targets.append(T('parameter_assign_str', assign_str_fns(), solver=None))
    # T5: readers (header templates through the instantiation-only driver)
    for cname, name, tv in [('value_i64', 'value', 'long'), ('value_f64', 'value', 'double'),
                            ('pair_i64', 'value_pair', 'long'), ('pair_f64', 'value_pair', 'double')]:
        targets.append(T(cname, reader(cname, name, tv)))
    c = dict(common())
    c['members'] = MEMBERS + [(r'^logical_error\|', '@throw')]
    targets.append(T('value_str', [Fn('value_str', DRV, 'value', flt='nano::parameter_t::value', select=targs('std::basic_string<char>', '-1'),
                                      self_struct='struct nv_parameter', **c)]))
    # parameter_t::operator=(tenum) (header template, instantiated for nano::solver_status by the driver): operator=(string)
    # replaced by the contract proved above
    c = dict(common())
    c['types'] = TYPES + [(r'^nano::solver_status$', 'int32_t')]
    c['members'] = MEMBERS + [(r'^logical_error\|', '@throw'), (r'^operator=\|nano::parameter_t', 'parameter_assign_str!')]
    c['calls'] = common()['calls'] + [(r'^scat\|nano::string_t \(const nano::solver_status &\)', 'nv_scat_enum((int64_t){0})')]
    fe = Fn('parameter_assign_enum', DRV, 'operator=', flt='nano::parameter_t::operator=', select=targs('nano::solver_status', '-1'),
            self_struct='struct nv_parameter', **c)
    targets.append(T('parameter_assign_enum', [fe] + assign_str_fns(), replace=['parameter_assign_str'], solver=None))
    # T6: configurable_t lookups and registration (std::find_if / emplace_back by assumed contract, the predicate lambda,
    # parameter_t::name() and ::find_param inlined everywhere)
    for top, deps in [('find_param', []), ('find_param_c', []), ('parameter', ['find_param']), ('parameter_c', ['find_param_c']),
                      ('parameter_if', ['find_param']), ('parameter_if_c', ['find_param_c']), ('register', ['parameter_if', 'find_param'])]:
        f = conf_fns()
        fns = [f[top]] + [f[d] for d in deps] + [f['pred_c' if top.endswith('_c') else 'pred'], f['name']]
        targets.append(T(fns[0].cname, fns, solver=None))
    targets += clone_targets()
    import enums
    cpp_tables = [rel for _, rel in enums.enum_headers()[1]]
    targets += enums.targets(tier)
    # parameter_t::operator=(tenum) / value<tenum>() for EVERY enumeration with a table (instantiated by the generated driver)
    for q in enums.quick_enums(tier):      # quick tier: the one representative table; thorough tier: every table
        targets += enum_param_targets(q, enums)
    import clones
    targets += clones.targets(tier)
    import factory
    targets += factory.targets(tier)
    return {
        'targets': targets, 'vcs': __import__('fields').vcs() + clones.vcs(tier),
        'decided': [
            '::check<int64|double>: returns min <= v for LE_t and min < v for LT_t (which variant index is LE_t is read from clang\'s type)',
            '::update(range_t / pair_range_t) for EVERY instantiation present in src/parameter.cpp (read from clang on each run, with the '
            '::check / nano::isfinite instantiations each one calls): with c = (tscalar)x, c in domain <=> accepted; '
            'accepted => stored value(s) == c, nothing thrown, returns the record; rejected => throws and BOTH halves / the value are unchanged; '
            'NaN / inf rejected for real parameters; min, max and the comparison flags never change; the domain predicate is established by every '
            'non-throwing update and preserved by every update',
            '::update(enum_t): accepted <=> the string is in the domain list (witness index / ghost index), rejected => throws, value unchanged',
            '::update(storage, number | tuple) and parameter_t::seti / setd / operator=(tuple<int32|int64|double>): the active alternative decides; '
            'integer / real (pair) parameters behave as above, every other kind (empty, enum, string, pair <-> scalar) throws and nothing changes; '
            'the alternative never changes',
            'parameter_t::operator=(string): enum -> domain check, string -> stored, integer / real (pair) -> as the numeric assignment of the parsed '
            'number(s); unparsable => throws, nothing changes; empty parameter throws',
            'parameter_t::operator=(tenum) (instantiated for nano::solver_status): an enumeration parameter takes scat(value) through '
            'operator=(string) (by its contract), every other kind throws and nothing changes',
            'the six parameter_t constructors: a constructed parameter holds exactly the given record / string, of the given kind, and the record '
            'satisfies its domain predicate (out-of-domain default <=> the constructor throws)',
            'parameter_t::value<int64|double>(), value_pair<int64|double>(), value<string>(): return the stored value converted to the requested kind; '
            'reads of a parameter of another kind throw; nothing is modified',
            'clones of objects with owned sub-objects (ghost: identity of a parameter configuration): solver_t copy constructor (what every '
            'solver clone() runs) and its four line-search setters; ml::params_t copy constructor, copy assignment and twelve setters; '
            'functional_t constructors and copy assignment; wlearner::clone (loop contract), gboost_model_t / gboost::result_t copy '
            'constructor and assignment, gboost_model_t::prototypes(const&): the copy has the same id and equal parameters, EVERY owned '
            'sub-object is an independent clone (same id, equal parameters, another object) of the source\'s, the source is untouched; '
            'setters by id install the factory default of that id, an unknown id / null owner throws and nothing changes',
            'enumeration tables: EVERY enum_string<T>() specialisation defined in a header of the library is found through clang (quick tier: ONE '
            'representative table, wlearner_criterion with its aic / aicc prefix pair; thorough tier: all), its (enumerator, name) list and the '
            'enumerator values are read from the AST, and per table, on the REAL template instantiations: from_string<T>(s) for EVERY string s '
            '(unbounded length) returns the first entry whose name equals s, else the first entry whose name is a prefix of s, else throws; '
            'from_string(name_k) == value_k for EVERY k (fails exactly when a name is listed twice, or -- with the exact pass removed -- when an '
            'earlier name is a proper prefix: aic / aicc); detail::scat<T>(stream, v) appends the name of the first entry listing v, a value the '
            'table does not list throws and appends nothing; no name and no value is listed twice (bijection); from_string(scat(e)) == e',
            'parameter_t::value<T>() for every T of the tier: from_string<T>(stored string) for an enumeration parameter (by the table contract), any other '
            'kind throws, nothing is modified; parameter_t::operator=(T): '
            'a value OUTSIDE the table throws before anything is assigned, otherwise scat(value) goes through operator=(string) (by its contract), '
            'every other kind throws and nothing changes; parameter_t::make_enum_<T>: for ANY table the constructed parameter '
            'holds enum_t{scat(value), domain} with the domain list == the table names, position by position (real constructor and ::update inlined)',
            'EVERY clone() definition of the library (about 135; quick tier: the directories src/loss, src/lsearch0, src/splitter, thorough tier: all; found by clang in generated unity translation units of the directories of src/ and '
            'in the headers, class-template instantiations through the factory files): T::clone() returns a NEW object of the dynamic type T whose '
            'complete member state (every data member, bases and parameters included) is a copy of *this, *this untouched -- '
            'make_unique<T>() / make_unique<other>(..) / a missing *this are refuted; out-of-line clone() of class templates through the explicit '
            'instantiations of their .cpp; every class that a factory file registers (template arguments of its add<T> instantiations; quick '
            'tier: src/lsearch0.cpp, thorough: all eleven) defines clone() ITSELF (an inherited clone() would return a sliced base object)',
            'every class with a user-provided copy constructor (text scan X::X(const X&); solver_t, ml::params_t, functional_t, gboost_model_t, '
            'gboost::result_t): each data member of clang\'s RecordDecl is a member of the C model its copy contract (above) proves copied; a new '
            'class with a hand-written copy constructor and no contract fails its obligation',
            'include/nano/factory.h (instantiated for lsearch0_t; add<T> as instantiated by the real src/lsearch0.cpp, thorough tier: by all eleven '
            'factory files): find = first entry registered under the id, else end; has(id) <=> registered; get(id) = null for an unknown id, else a '
            'NEW object that is a clone of the FIRST prototype registered under exactly that id and reports that id (registration invariant: every '
            'entry is registered under the id its prototype reports, established by add); description(id) likewise, empty for an unknown id; '
            'size(); ids(regex): never more than registered, the id of every matching entry is listed, in registration order; add<T>: a duplicate '
            'id is REJECTED (false, nothing registered, the first registration stays), otherwise exactly one entry (id the new prototype reports, '
            'the prototype, the description) is appended and the earlier entries are untouched',
            '::find_param (both overloads), configurable_t::parameter / parameter_if (both overloads): returns the first parameter with that name; '
            'absent => null (optional) / throws (mandatory); register_parameter: duplicate name => throws and the list is unchanged, else the list '
            'grows by exactly the given parameter',
        ],
        'not_decided': [
            'the double -> int64 conversion in ::update(range_t<int64>, double) / ::update(pair_range_t<int64>, double, double) for x == -2^63 exactly '
            '(defined in C++, rejected by cbmc\'s conversion check)',
            f'enum_string<T>() specialisations defined in a .cpp file (found by the text prefilter of this run: {cpp_tables}; csearch_status is not a parameter) are reported, not '
            'checked (a driver cannot include them); the wrapper nano::scat(v) = detail::scat into an empty std::ostringstream + str() (STL); that '
            'every make_enum call site names an enumeration whose table is checked is established by a TEXT scan of the call sites (scheduling), '
            'not by clang; whether a table lists EVERY enumerator of its enumeration (an unlisted enumerator cannot be assigned: it throws)',
            'make_scalar_ / make_integer_ ... (header factories: casts of min / value / max, then the constructors proved here): their '
            'instantiations are spread over about a hundred translation units; not extracted',
            'which strings std::stoll / std::stod accept and what ::split_pair returns (uninterpreted; DESIGN C19 X)',
            'solver_t::make_lsearch (clones, then overwrites two parameters), ml::params_t::logger, the default constructors, the move '
            'operations (= default), behavioural equality of a clone (trajectories) beyond equal configuration',
            'parameter_t::read / write (serialisation; read() stores the record from the stream WITHOUT the domain check -- see final report), '
            'operator==',
            'clone(): that the IMPLICIT / defaulted copy constructors copy every base and member is C++ semantics (assumed), lambda_function_t '
            '(class template over user lambdas, never instantiated by the library) is not under contract; factory_t for the ten other object '
            'types (same template, not re-extracted), the regular expression semantics of ids(), the T::all() registration functions themselves '
            '(which classes are registered; that no two registered classes report the same id is decided natively by the replay driver only)',
        ],
        'assumptions': [
            'std::variant: index() identifies the active alternative; std::visit(overloaded{...}, v) calls the overload chosen by overload resolution '
            'for the active alternative (the choice is taken from clang: exact-parameter lambdas by type, the generic lambda for exactly the '
            'alternatives it was instantiated with a body for) and throws bad_variant_access when valueless; holds_alternative / get_if / the '
            'converting constructor select the alternative of exactly that type (engine/hooks.py variant hooks)',
            'LEorLT (two empty alternatives) is never valueless: index in {0, 1}',
            'std::isfinite(double) is true exactly for non-NaN, non-infinite values',
            'std::find returns the first position equal to the value, else last; std::find_if the first position satisfying the (real, extracted) '
            'predicate, else last (assumed contracts at a ghost index)',
            'std::vector::emplace_back appends one element equal to its argument and keeps the others (reallocation not modelled)',
            'std::string / std::string_view are values of an uninterpreted sort with equality (ids); std::move of a string or record is a copy of the value',
            'std::stoll / std::stod / ::split_pair are deterministic functions of the string; a string that does not parse throws',
            'scat(enumerator) is a deterministic function of the enumerator (uninterpreted)',
            'value<int64>() / value_pair<int64>() on a REAL parameter: the stored double is representable as int64 (the reader\'s own cast; a real '
            'parameter\'s domain may exceed it -- required as a precondition of those two readers only)',
            'T::clone() as used by the owners (solver_t, ml::params_t, functional_t, gboost) and by factory_t::get: a NEW object with the same '
            'registered id and equal member state -- no longer assumed outright: it is the contract proved for every clone() definition '
            '(targets clones_*), given that std::make_unique<T>(const T&) is new T(copy) and that implicit / defaulted copy constructors copy '
            'every base and member (C++ semantics); factory_t::get(id) as used by the setters: a fresh clone of the prototype registered under id, '
            'or null (proved: factory_get; which ids exist and the prototypes\' configurations are uninterpreted functions of the id)',
            'enumeration tables: std::vector<std::pair<T, const char*>> built from an initializer list holds exactly the listed pairs in order '
            '(the table is read from the AST of enum_string<T>(), whose body must be a single `return {{E::a, "a"}, ...};`); the function-local '
            '`static const auto options = enum_string<T>()` holds that table (checked on the AST: the initialiser is that call); '
            'std::string_view(const char*) = the characters up to the terminator, operator== = same length and characters, '
            'find(const char*) == 0 <=> prefix (any other result non-zero); operator<<(ostream&, const char*) appends the string',
            'clone() targets: the definitions are read from generated unity translation units (one per directory, the real .cpp files included '
            'verbatim); name lookup inside them is that of the single files (a directory that does not compile as a unit falls back to one unit per file)',
            'factory.h: std::find_if returns the first position satisfying the (real, extracted) lambda, else last; emplace_back / push_back append and '
            'keep the others (reallocation not modelled); std::make_unique<T>(args...) yields a new object; typed_t::type_id() returns the stored id; '
            'std::regex_match is a deterministic predicate of (string, regex) (uninterpreted); at most 10^5 registered prototypes',
            'implicit copy constructors / assignments of the bases (typed_t, configurable_t, learner_t) and of plain members (tensors, '
            'logger_t) copy their value; std::unique_ptr move-assignment / std::move transfer the pointer; std::vector::reserve + '
            'emplace_back within the reserved capacity append in order',
            'functional_t copy constructor / assignment: the source owns a function (a functional built from a null rfunction_t&& would '
            'be dereferenced: caller obligation, see final report)',
            'parameter lists have at most 10^6 entries and enum domains at most 10^6 strings (only to keep n * sizeof inside size_t)',
        ],
        'trusted': ['the C models of the records (specs/C19/param.h) have the member names and scalar types of include/nano/parameter.h '
                    '(a wrong member name is an extraction error, a wrong alternative order a C type error)'],
    }


# ----------------------------------------------------------------------------- native replay
REPLAY_KIND = {'update_ir_i64': ('ir', 'i64'), 'update_ir_ll': ('ir', 'str'), 'update_ir_f64': ('ir', 'f64'),
               'update_fr_f64': ('fr', 'f64'), 'update_fr_i64': ('fr', 'i64'),
               'update_ip_i64': ('ip', 'i64'), 'update_ip_ll': ('ip', 'str'), 'update_ip_i32': ('ip', 'i32'), 'update_ip_f64': ('ip', 'f64'),
               'update_fp_f64': ('fp', 'f64'), 'update_fp_i64': ('fp', 'i64'), 'update_fp_i32': ('fp', 'i32')}


def _num(v, integer):
    import re
    if isinstance(v, float):
        return repr(v) if integer is False else str(int(v)) if v == v and abs(v) < 2 ** 63 else repr(v)
    s = str(v).strip()
    if integer:
        m = re.match(r'^[-+]?\d+', s)
        return m.group(0) if m else None
    s = re.sub(r'[fFlL]+$', '', s)
    return {'+NaN': 'nan', '-NaN': 'nan', 'NaN': 'nan', '+INFINITY': 'inf', '-INFINITY': '-inf', 'INFINITY': 'inf'}.get(s, s)


# string assignments: the verifier's counterexample lives in the uninterpreted parsing functions, so it names no string; the
# native scenario assigns a fixed alphabet of numeric strings (boundary values, integers beyond 2^53, fractions, exponents)
# to real parameters through operator=(string) and compares with the reference model of the driver
STRING_SCENARIOS = [
    ('ir', '0', '1', '1', '9223372036854775807', ['7', '9007199254740993', '1234567890123456789', '9223372036854775807', '9223372036854775808', '-1']),
    ('ir', '-9223372036854775807', '1', '1', '10', ['-9223372036854775807', '-9007199254740993', '10', '11']),
    ('ir', '0', '0', '1', '10', ['0', '1', '10', '11']),
    ('fr', '0.0', '0', '1', '1.0', ['0.5', '1', '1.5', '0', '1e-3']),
    ('ip', '0', '1', '1', '9223372036854775807', ['1', '9007199254740993']),
    ('fp', '0.0', '1', '1', '1.0', ['0.25', '0.75']),
]


def replay_strings(rp):
    import os
    import replaylib
    out = {'reproduced': False, 'runs': [], 'note': 'fixed alphabet of numeric strings assigned through parameter_t::operator=(string)'}
    exe = replaylib.build_header_only('replay/C19_replay.cpp', 'C19_replay',
                                      extra=[os.path.join(replaylib.REPO, 'src', 'parameter.cpp'), '-fsanitize=float-cast-overflow'])
    for kind, mn, minle, maxle, mx, strings in STRING_SCENARIOS:
        pair = kind[1] == 'p'
        for i, x in enumerate(strings):
            if pair and i + 1 >= len(strings):
                break
            args = [kind, 'str', mn, minle, maxle, mx] + (['1', x, strings[i + 1]] if pair else [x])
            try:
                rc, so, se = replaylib.run_driver(exe, args)
            except Exception as e:
                out['runs'].append({'error': repr(e)})
                continue
            if rc == 1:
                out['reproduced'] = True
                out['runs'].append({'args': args, 'exit': rc, 'output': so.strip()})
    return out


def replay_clones(mode):
    """copies of real factory objects whose owned sub-objects carry non-default parameters (the verifier's counterexample is
    a ghost configuration identity, so it names no object: the native scenario sweeps every registered id)"""
    import replaylib
    out = {'reproduced': False, 'runs': [], 'note': 'every registered id, owned sub-objects with non-default parameters, real clone / copy / assignment'}
    exe = replaylib.build_with_library('replay/C19_clone_replay.cpp', 'C19_clone_replay')
    rc, so, se = replaylib.run_driver(exe, [mode], timeout=600)
    out['runs'].append({'args': [mode], 'exit': rc, 'output': so.strip()[-2500:]})
    out['reproduced'] = rc == 1
    return out


def replay_enum(rp):
    """table-level counterexamples: the verifier's counterexample is an index of the real table, so the native scenario sweeps the
    table of that enumeration on the REAL headers: from_string(name) == enumerator, scat(enumerator) == name, and the typed read of
    a parameter made from / assigned the enumerator returns it"""
    import os
    import replaylib
    import enums
    sn = re.sub(r'^enum_|_(from_string|scat|roundtrip|assign|value|make)$', '', rp['target'])
    qs = [q for q in enums.tables() if q.split('::')[-1] == sn]
    out = {'reproduced': False, 'runs': [], 'note': 'every entry of the real enum_string<T>() table, through the real from_string / scat / parameter_t'}
    if len(qs) != 1:
        out['note'] = f'no table for {sn}'
        return out
    q, t = qs[0], enums.tables()[qs[0]]
    src = os.path.join(astload.SCRATCH, 'gen', f'c19_enum_replay_{sn}.cpp')
    os.makedirs(os.path.dirname(src), exist_ok=True)
    open(src, 'w').write(f'''// GENERATED native replay for the table of {q}
#include <cstdio>
#include <nano/parameter.h>
#include "{t['file']}"
using T = {q};
int main()
{{
    int bad = 0;
    for (const auto& [value, name] : nano::enum_string<T>())
    {{
        try
        {{
            if (nano::from_string<T>(name) != value) {{ std::printf("FAIL: from_string(\\"%s\\") is another enumerator\\n", name); bad = 1; }}
            if (nano::scat(value) != name) {{ std::printf("FAIL: scat(enumerator of \\"%s\\") = \\"%s\\"\\n", name, nano::scat(value).c_str()); bad = 1; }}
            auto param = nano::parameter_t::make_enum("p", value);
            if (param.value<T>() != value) {{ std::printf("FAIL: make_enum(%s).value<T>() is another enumerator\\n", name); bad = 1; }}
            for (const auto& [other, oname] : nano::enum_string<T>())
            {{
                param = other;
                if (param.value<T>() != other) {{ std::printf("FAIL: assigned %s, read back another enumerator\\n", oname); bad = 1; }}
            }}
        }}
        catch (const std::exception& e) {{ std::printf("FAIL: %s: exception %s\\n", name, e.what()); bad = 1; }}
    }}
    if (!bad) std::printf("OK: every enumerator of the table round-trips\\n");
    return bad;
}}
''')
    exe = replaylib.build_header_only(src, f'C19_enum_replay_{sn}', extra=[os.path.join(replaylib.REPO, 'src', 'parameter.cpp')])
    rc, so, se = replaylib.run_driver(exe, [])
    out['runs'].append({'exit': rc, 'output': so.strip()[-1500:]})
    out['reproduced'] = rc == 1
    return out


def replay(rp):
    """record-level counterexamples (::update on a range / pair record): the counterexample's domain and assigned
    number(s) are driven through the public API of a real parameter_t (make_integer / make_scalar / ..., operator=)
    and compared with the property's reference model; built with -fsanitize=float-cast-overflow so that an undefined
    double -> int64 conversion is reported by the real code itself"""
    import os
    import replaylib
    out = {'reproduced': False, 'runs': []}
    if rp['target'] in ('parameter_assign_str', 'parameter_assign_enum'):
        return replay_strings(rp)
    if rp['target'].startswith('enum_'):
        return replay_enum(rp)
    for prefix, mode in (('clones_', 'factories'), ('factory_', 'factories'), ('solver_', 'solver'), ('mlparams_', 'mlparams'), ('functional_', 'functional'), ('gboost_', 'gboost'),
                         ('gbresult_', 'gboost'), ('wlearners_', 'gboost')):
        if rp['target'].startswith(prefix):
            return replay_clones(mode)
    kt = REPLAY_KIND.get(rp['target'])
    if kt is None:
        out['note'] = 'no native driver for this target: the replay file carries the verifier output only'
        return out
    kind, tv = kt
    integer, pair = kind[0] == 'i', kind[1] == 'p'
    exe = replaylib.build_header_only('replay/C19_replay.cpp', 'C19_replay',
                                      extra=[os.path.join(replaylib.REPO, 'src', 'parameter.cpp'), '-fsanitize=float-cast-overflow'])
    seen = set()
    for fo in rp['failed_obligations']:
        ce = fo.get('counterexample') or {}

        def last(suffix):
            hit = None
            for k, v in ce.items():
                if k.endswith(suffix):
                    hit = v
            return hit
        mn, mx = _num(last('.m_min'), integer), _num(last('.m_max'), integer)
        le = [last('.m_mincomp.index'), last('.m_maxcomp.index'), last('.m_valcomp.index')]
        # the assigned number(s): the harness parameters after (name, param), whatever the source calls them
        hp = [k for k in ce if k.startswith('main::') and not k.endswith('_wrapper') and
              k.split('::')[1] not in ('name', 'param', 'nv_thrown') and not k.split('::')[1].startswith('__')]
        xs = [ce[k] for k in hp[:2 if pair else 1]]
        if len(xs) != (2 if pair else 1):
            continue
        if mn is None or mx is None or any(x is None for x in xs) or le[0] is None or le[1] is None or (pair and le[2] is None):
            continue
        xs = [_num(x, tv != 'f64') for x in xs]
        flag = lambda i: '1' if str(i).strip() in ('0', '0u', '0U') else '0'     # index 0 = LE_t
        args = [kind, tv, mn, flag(le[0]), flag(le[1]), mx] + ([flag(le[2])] if pair else []) + xs
        if tuple(args) in seen:
            continue
        seen.add(tuple(args))
        try:
            rc, so, se = replaylib.run_driver(exe, args)
        except Exception as e:
            out['runs'].append({'error': repr(e)})
            continue
        if 'empty domain' in so and 'overflow' in fo['id']:
            # the conversion precedes every domain check: the counterexample's (empty) domain is immaterial to it
            args = [kind, tv, '0', '1', '1', '10'] + (['1'] if pair else []) + xs
            out['runs'].append({'obligation': fo['id'], 'note': 'counterexample domain is empty; conversion replayed on the domain 0 <= v <= 10'})
            rc, so, se = replaylib.run_driver(exe, args)
        ub = [ln for ln in se.splitlines() if 'runtime error' in ln]
        out['runs'].append({'obligation': fo['id'], 'args': args, 'exit': rc, 'output': so.strip(), 'sanitizer': ub[:2]})
        if rc == 1 or ub:
            out['reproduced'] = True
    return out


# ----------------------------------------------------------------------------- clones of objects with owned sub-objects
HC = 'specs/C19/clone.h'
UP = r'^std::unique_ptr<nano::(lsearch0_t|lsearchk_t|tuner_t|solver_t|splitter_t|function_t|wlearner_t)'
OWNED = r'nano::(lsearch0_t|lsearchk_t|tuner_t|splitter_t|function_t|wlearner_t)'
CLONE_TYPES = [(UP + r'|^(nano::)?r(lsearch0|lsearchk|tuner|splitter|function|wlearner)_t$', 'struct nv_obj*'),
               (r'^' + OWNED + r'$', 'struct nv_obj'),
               (r'^(nano::string_t|std::string|std::basic_string<char>)$|^(std::)?(string_view|basic_string_view<char>)$', 'struct nv_str'),
               (r'^(nano::)?factory_t<nano::\w+>$', 'struct nv_factory'),
               (r'^nano::(typed_t|configurable_t)$|^(nano::)?clonable_t<', 'struct nv_base'), (r'^nano::solver_type$', 'uint8_t'), (r'^nano::solver_t$', 'struct nv_solver')]
CLONE_CALLS = [(r'^move\|', '{0}'),     # std::move of a unique_ptr: the pointer value (the moved-from pointer is not read again)
               (r'^operator=\|.*unique_ptr', '({0} = {1})'), (r'^operator->\|.*unique_ptr', '{0}'), (r'^operator\*\|.*unique_ptr', '(*{0})'),
               (r'^all\|factory_t<', 'nv_the_factory'),
               # implicit copy constructors of the bases (C++ semantics: member-wise), on the flattened model
               (r'^ctor\|nano::typed_t\|void \(const nano::typed_t &\)', '(self->m_type_id = {0}.m_type_id)'),
               (r'^ctor\|nano::configurable_t\|void \(const nano::configurable_t &\)', '(self->m_parameters = {0}.m_parameters)'),
               (r'^ctor\|nano::clonable_t<', '@drop')]
CLONE_MEMBERS = [(r'^clone\|nano::clonable_t<' + OWNED + r'>|^clone\|' + OWNED + r'\b', 'nv_obj_clone'), (r'^get\|nano::factory_t<', 'nv_factory_get({0})'),
                 (r'^operator basic_string_view\|', '{*self}'), (r'^operator bool\|std::unique_ptr', '({*self} != NULL)'),
                 (r'^type_id\|' + OWNED + r'|^type_id\|nano::typed_t', '{*self}.m_type_id'), (r'^get\|std::unique_ptr', '{*self}')]


def solver_fns():
    S = 'src/solver.cpp'
    ov = hooks.member_overload_hook([
        (r'^lsearch0\|nano::solver_t\|\(\)\|', 'solver_get_lsearch0'), (r'^lsearchk\|nano::solver_t\|\(\)\|', 'solver_get_lsearchk'),
        (r'^type\|nano::solver_t\|\(\)\|', 'solver_get_type'),
        (r'^lsearch0\|nano::solver_t\|\(std::basic_string<char>\)\|', 'solver_lsearch0_id!'),
        (r'^lsearchk\|nano::solver_t\|\(std::basic_string<char>\)\|', 'solver_lsearchk_id!'),
        (r'^lsearch0\|nano::solver_t\|\(nano::lsearch0_t\)\|', 'solver_lsearch0_obj!'),
        (r'^lsearchk\|nano::solver_t\|\(nano::lsearchk_t\)\|', 'solver_lsearchk_obj!')])
    c = dict(types=CLONE_TYPES, calls=CLONE_CALLS, members=CLONE_MEMBERS, hooks=[ov], self_struct='struct nv_solver', uf_float=False)
    npar = lambda k, t=None: (lambda d: len(astload.param_types(d)) == k and (t is None or t in astload.param_types(d)[0]))
    f = {
        'copy': Fn('solver_copy', S, 'solver_t', flt='nano::solver_t::solver_t', select=lambda d: astload.param_types(d) == ['const nano::solver_t &'], **c),
        'get0': Fn('solver_get_lsearch0', S, 'lsearch0', flt='nano::solver_t::lsearch0', select=npar(0), **c),
        'getk': Fn('solver_get_lsearchk', S, 'lsearchk', flt='nano::solver_t::lsearchk', select=npar(0), **c),
        'gett': Fn('solver_get_type', S, 'type', flt='nano::solver_t::type', select=npar(0), **c),
        'id0': Fn('solver_lsearch0_id', S, 'lsearch0', flt='nano::solver_t::lsearch0', select=npar(1, 'string_t'), **c),
        'idk': Fn('solver_lsearchk_id', S, 'lsearchk', flt='nano::solver_t::lsearchk', select=npar(1, 'string_t'), **c),
        'obj0': Fn('solver_lsearch0_obj', S, 'lsearch0', flt='nano::solver_t::lsearch0', select=npar(1, 'lsearch0_t'), **c),
        'objk': Fn('solver_lsearchk_obj', S, 'lsearchk', flt='nano::solver_t::lsearchk', select=npar(1, 'lsearchk_t'), **c),
    }
    return f


def mlparams_fns():
    S = 'src/machine/params.cpp'
    UPT = r'std::unique_ptr<nano::%s_t[^)]*'
    table = []
    for m in ('tuner', 'solver', 'splitter'):
        table += [(r'^%s\|nano::ml::params_t\|\(nano::%s_t\)\|' % (m, m), f'mlparams_{m}_obj!'),
                  (r'^%s\|nano::ml::params_t\|\(%s\)\|(xvalue|prvalue)$' % (m, UPT % m), f'mlparams_{m}_move!'),
                  (r'^%s\|nano::ml::params_t\|\(%s\)\|lvalue$' % (m, UPT % m), f'mlparams_{m}_ptr!'),
                  (r'^%s\|nano::ml::params_t\|\(std::basic_string<char>\)\|' % m, f'mlparams_{m}_id!')]
    types = [(r'^std::unique_ptr<nano::(tuner_t|solver_t|splitter_t)|^(nano::)?r(tuner|solver|splitter)_t$', 'struct nv_obj*'),
             (r'^nano::(tuner_t|solver_t|splitter_t)$', 'struct nv_obj'), (r'^nano::ml::params_t$', 'struct nv_mlparams'),
             (r'^nano::logger_t$', 'struct nv_logger')] + CLONE_TYPES
    calls = CLONE_CALLS + [(r'^ctor\|nano::logger_t\|void \(const nano::logger_t &\)', '{0}'),      # logger copy: an opaque value
                           (r'^operator=\|nano::logger_t &\(const nano::logger_t &\)', '({0} = {1})')]
    members = [(r'^clone\|nano::clonable_t<nano::(tuner_t|solver_t|splitter_t)>|^clone\|nano::(tuner_t|solver_t|splitter_t)\b', 'nv_obj_clone')] + CLONE_MEMBERS
    c = dict(types=types, calls=calls, members=members, hooks=[hooks.member_overload_hook(table)], self_struct='struct nv_mlparams', uf_float=False)
    P = 'nano::ml::params_t::'
    f = {'copy': Fn('mlparams_copy', S, 'params_t', flt=P + 'params_t', select=lambda d: astload.param_types(d) == ['const nano::ml::params_t &'], **c),
         'assign': Fn('mlparams_assign', S, 'operator=', flt=P + 'operator=', select=lambda d: astload.param_types(d) == ['const nano::ml::params_t &'], **c)}
    for m in ('tuner', 'solver', 'splitter'):
        one = lambda pred: (lambda d: len(astload.param_types(d)) == 1 and pred(astload.param_types(d)[0]))
        f[m + '_obj'] = Fn(f'mlparams_{m}_obj', S, m, flt=P + m, select=one(lambda t, m=m: t == f'const nano::{m}_t &'), **c)
        f[m + '_move'] = Fn(f'mlparams_{m}_move', S, m, flt=P + m, select=one(lambda t, m=m: t.endswith('&&')), **c)
        f[m + '_ptr'] = Fn(f'mlparams_{m}_ptr', S, m, flt=P + m, select=one(lambda t, m=m: t.startswith('const') and f'r{m}_t' in t), **c)
        f[m + '_id'] = Fn(f'mlparams_{m}_id', S, m, flt=P + m, select=one(lambda t: 'string_t' in t), **c)
    return f


def functional_fns():
    S = 'src/function/constraint.cpp'
    types = [(r'^nano::constraint::functional_t$', 'struct nv_functional')] + CLONE_TYPES
    c = dict(types=types, calls=CLONE_CALLS, members=CLONE_MEMBERS, self_struct='struct nv_functional', uf_float=False)
    P = 'nano::constraint::functional_t::'
    pt = lambda want: (lambda d: astload.param_types(d) == [want])
    return {'from_function': Fn('functional_from_function', S, 'functional_t', flt=P + 'functional_t', select=pt('const nano::function_t &'), **c),
            'from_owner': Fn('functional_from_owner', S, 'functional_t', flt=P + 'functional_t', select=pt('nano::rfunction_t &&'), **c),
            'copy': Fn('functional_copy', S, 'functional_t', flt=P + 'functional_t', select=pt('const nano::constraint::functional_t &'), **c),
            'assign': Fn('functional_assign', S, 'operator=', flt=P + 'operator=', select=pt('const nano::constraint::functional_t &'), **c)}


def gboost_fns():
    WV = r'std::vector<std::unique_ptr<nano::wlearner_t'
    IT = r'__normal_iterator<(const )?std::unique_ptr<nano::wlearner_t'
    types = [(r'^(nano::)?rwlearners_t$|^' + WV + r'.*>$', 'struct nv_objs'), (r'__normal_iterator<\s*std::unique_ptr<nano::wlearner_t', 'struct nv_obj*'),
             (r'^std::unique_ptr<nano::wlearner_t|^(nano::)?rwlearner_t$', 'struct nv_obj'),      # containment model: the owner IS the object
             (r'^nano::gboost_model_t$', 'struct nv_gboost'), (r'^nano::gboost::result_t$', 'struct nv_gbresult'),
             (r'^nano::learner_t$', 'struct nv_base'),
             (r'^nano::(tensor1d_t|tensor2d_t|indices_t)$|^nano::tensor_t<|^const nano::(tensor2d_t|indices_t) \*$', 'struct nv_val')] + CLONE_TYPES
    calls = [(r'^operator!=\|.*' + IT, '({0} != {1})'), (r'^operator\+\+\|.*' + IT, '(++{0})'), (r'^operator\*\|.*' + IT, '(*{0})'),
             (r'^operator->\|.*unique_ptr<nano::wlearner_t', '(&{0})'),
             (r'^clone\|nano::rwlearners_t \(const nano::rwlearners_t &\)', 'wlearners_clone'),
             (r'^operator=\|.*std::vector<std::unique_ptr<nano::wlearner_t', '({0} = {1})'),
             (r'^operator=\|.*(tensor_t<|tensor[12]d_t|learner_t)', '({0} = {1})'),
             (r'^ctor\|nano::learner_t\|void \(const nano::learner_t &\)', '(self->m_learner = {0}.m_learner)')] + CLONE_CALLS
    members = [(r'^begin\|' + WV, '{*self}.p'), (r'^end\|' + WV, '({*self}.p + {*self}.n)'), (r'^size\|' + WV, '((uint64_t){*self}.n)'),
               (r'^reserve\|' + WV, 'nv_objs_reserve({self}, {0})'), (r'^emplace_back\|' + WV, 'nv_objs_emplace_back({self}, {0})'),
               (r'^clone\|nano::clonable_t<nano::wlearner_t>|^clone\|nano::wlearner_t\b', 'nv_obj_clone_val'),
               (r'^operator=\|nano::learner_t', '(self->m_learner = {0}.m_learner)')] + CLONE_MEMBERS
    c = dict(types=types, calls=calls, members=members, uf_float=False)
    G, R = 'src/gboost/model.cpp', 'src/gboost/result.cpp'
    pt = lambda want: (lambda d: astload.param_types(d) == [want])
    return {'clone': Fn('wlearners_clone', 'src/wlearner/util.cpp', 'clone', flt='nano::wlearner::clone', **c),
            'gcopy': Fn('gboost_copy', G, 'gboost_model_t', flt='nano::gboost_model_t::gboost_model_t', select=pt('const nano::gboost_model_t &'), self_struct='struct nv_gboost', **c),
            'gassign': Fn('gboost_assign', G, 'operator=', flt='nano::gboost_model_t::operator=', select=pt('const nano::gboost_model_t &'), self_struct='struct nv_gboost', **c),
            'gproto': Fn('gboost_prototypes_copy', G, 'prototypes', flt='nano::gboost_model_t::prototypes', select=pt('const nano::rwlearners_t &'), self_struct='struct nv_gboost', **c),
            'rcopy': Fn('gbresult_copy', R, 'result_t', flt='nano::gboost::result_t::result_t', select=pt('const nano::gboost::result_t &'), self_struct='struct nv_gbresult', **c),
            'rassign': Fn('gbresult_assign', R, 'operator=', flt='nano::gboost::result_t::operator=', select=pt('const nano::gboost::result_t &'), self_struct='struct nv_gbresult', **c)}


def clone_targets():
    out = []
    # solver_t: the copy constructor with every accessor / setter it may go through inlined (real code, no contract in between)
    f = solver_fns()
    ENUMS = [('src/solver.cpp', 'nano::solver_type')]     # default member initialisers name the enumerators
    out.append(Target('solver_copy', [f[k] for k in ('copy', 'get0', 'getk', 'gett', 'id0', 'idk', 'obj0', 'objk')], HC, enums=ENUMS))
    for k in ('id0', 'idk', 'obj0', 'objk'):
        f = solver_fns()
        out.append(Target(f[k].cname, [f[k]] + [f[x] for x in ('get0', 'getk', 'gett', 'id0', 'idk', 'obj0', 'objk') if x != k], HC, enums=ENUMS))
    # ml::params_t: copy constructor, copy assignment, the twelve setters (sibling setters a function goes through are inlined)
    keys = ['copy', 'assign'] + [f'{m}_{k}' for m in ('tuner', 'solver', 'splitter') for k in ('obj', 'move', 'ptr', 'id')]
    for k in keys:
        f = mlparams_fns()
        out.append(Target(f[k].cname, [f[k]] + [f[x] for x in keys if x != k], HC))
    # functional_t: three constructors and the copy assignment
    for k in ('from_function', 'from_owner', 'copy', 'assign'):
        f = functional_fns()
        out.append(Target(f[k].cname, [f[k]], HC))
    # weak learners: the element-wise vector clone (loop contract), then the owners with the vector clone replaced by its contract
    out.append(Target('wlearners_clone', [gboost_fns()['clone']], HC))
    for k in ('gcopy', 'gassign', 'gproto', 'rcopy', 'rassign'):
        f = gboost_fns()
        out.append(Target(f[k].cname, [f[k], f['clone']], HC, replace=['wlearners_clone']))
    return out
