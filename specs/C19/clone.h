/* C19, second half: "every object obtainable from a factory ... reports the id it was registered under, and its clone has equal
 * parameters ... while being independently modifiable".  For a class WITH owned sub-objects (solver_t owns two line searches,
 * ml::params_t a tuner, a solver and a splitter, functional_t a function, gboost_model_t / gboost::result_t weak learners) the
 * clause is implemented by hand-written copy constructors, copy assignments and setters: these are under contract here.
 *
 * Abstraction (only what the clause speaks about): an owned, clonable, configurable object is its registered type id and the
 * identity `config` of its parameter configuration (ghost: two objects have equal parameters <=> equal config; every
 * assignment to a parameter would produce a new identity).  std::unique_ptr<T> is a pointer to such an object. */
#ifndef NV_C19_CLONE_H
#define NV_C19_CLONE_H
#include <stdlib.h>

struct nv_str { int64_t id; };   /* std::string / std::string_view as a value of an uninterpreted sort: copy and equality */
struct nv_obj { struct nv_str m_type_id; int64_t config; };
#define NV_OBJ_OK(p) __CPROVER_is_fresh(p, sizeof(struct nv_obj))
/* q is a clone of o: another object (independently modifiable), same registered id, equal parameters */
#define NV_IS_CLONE(q, o) ((q) != NULL && (q) != (o) && (q)->m_type_id.id == (o)->m_type_id.id && (q)->config == (o)->config)
#define NV_OBJ_SAME(o) ((o)->m_type_id.id == __CPROVER_old((o)->m_type_id.id) && (o)->config == __CPROVER_old((o)->config))
#define NV_RET __CPROVER_return_value

/* ASSUMED contract of T::clone() for the owned classes (virtual; every implementation is `make_unique<T>(*this)` on a class
 * whose copy constructor is the compiler's member-wise one, or one of the hand-written ones under contract below): a NEW
 * object with the same registered id and equal parameters */
static struct nv_obj* nv_obj_clone(const struct nv_obj* o)
{
  struct nv_obj* r = malloc(sizeof(struct nv_obj));
  __CPROVER_assume(r != NULL);
  *r = *o;
  return r;
}
/* ASSUMED contract of factory_t<T>::get(id) (include/nano/factory.h: clone of the prototype registered under id, or null):
 * which ids are registered and the prototypes' configurations are uninterpreted functions of the id */
_Bool __CPROVER_uninterpreted_factory_has(int64_t);
int64_t __CPROVER_uninterpreted_factory_default_config(int64_t);
#define NV_FACTORY_HAS(s) __CPROVER_uninterpreted_factory_has((s).id)
#define NV_FACTORY_CONFIG(s) __CPROVER_uninterpreted_factory_default_config((s).id)
struct nv_factory { int32_t unused; };
struct nv_base { int32_t unused; };   /* a base-class subobject as a type name only (bases are flattened into the models) */
struct nv_factory nv_the_factory;
static struct nv_obj* nv_factory_get(struct nv_str id)
{
  if (!NV_FACTORY_HAS(id)) return NULL;
  struct nv_obj* r = malloc(sizeof(struct nv_obj));
  __CPROVER_assume(r != NULL);
  r->m_type_id = id;
  r->config = NV_FACTORY_CONFIG(id);
  return r;
}
/* a freshly fetched factory object: registered under `id`, default parameters of that id */
#define NV_IS_DEFAULT_OF(q, id_) ((q) != NULL && (q)->m_type_id.id == (id_).id && (q)->config == NV_FACTORY_CONFIG(id_))

/* ------------------------------------------------------------------ solver_t (src/solver.cpp)
 * bases flattened: typed_t::m_type_id, configurable_t::m_parameters (as the identity of the parameter list) */
struct nv_solver { struct nv_str m_type_id; int64_t m_parameters; struct nv_obj* m_lsearch0; struct nv_obj* m_lsearchk; uint8_t m_type; };
#define NV_SOLVER_OK(s) (__CPROVER_is_fresh(s, sizeof(struct nv_solver)) && NV_OBJ_OK((s)->m_lsearch0) && NV_OBJ_OK((s)->m_lsearchk))
#define NV_SOLVER_SAME(s) ((s)->m_type_id.id == __CPROVER_old((s)->m_type_id.id) && (s)->m_parameters == __CPROVER_old((s)->m_parameters) && \
  (s)->m_lsearch0 == __CPROVER_old((s)->m_lsearch0) && (s)->m_lsearchk == __CPROVER_old((s)->m_lsearchk) && (s)->m_type == __CPROVER_old((s)->m_type) && \
  NV_OBJ_SAME((s)->m_lsearch0) && NV_OBJ_SAME((s)->m_lsearchk))

/* copy constructor (what every solver_*_t::clone() runs): same id, equal solver parameters, same solver type, and BOTH line
 * searches are clones of the source's (equal line-search parameters, independently modifiable); the source is untouched */
#define NV_CONTRACT_solver_copy \
__CPROVER_requires(!nv_thrown && __CPROVER_is_fresh(self, sizeof(*self)) && NV_SOLVER_OK(NV_ARG_solver_copy_1)) \
__CPROVER_assigns(nv_thrown, __CPROVER_object_whole(self)) \
__CPROVER_ensures(!nv_thrown) \
__CPROVER_ensures(self->m_type_id.id == NV_ARG_solver_copy_1->m_type_id.id && self->m_parameters == NV_ARG_solver_copy_1->m_parameters && \
                  self->m_type == NV_ARG_solver_copy_1->m_type) \
__CPROVER_ensures(NV_IS_CLONE(self->m_lsearch0, NV_ARG_solver_copy_1->m_lsearch0)) \
__CPROVER_ensures(NV_IS_CLONE(self->m_lsearchk, NV_ARG_solver_copy_1->m_lsearchk)) \
__CPROVER_ensures(self->m_lsearch0 != self->m_lsearchk) \
__CPROVER_ensures(NV_SOLVER_SAME(NV_ARG_solver_copy_1))

/* setters: by object -> an independent clone of it is installed; by id -> the factory default registered under that id, an
 * unknown id throws and nothing changes; the other line search, the parameters and the id of the solver are framed */
#define NV_SOLVER_SET_REQ(n) __CPROVER_requires(!nv_thrown && NV_SOLVER_OK(self))
#define NV_CONTRACT_SOLVER_SET_OBJ(M, OTHERM, O) \
__CPROVER_requires(!nv_thrown && NV_SOLVER_OK(self) && NV_OBJ_OK(O)) \
__CPROVER_assigns(nv_thrown, self->M) \
__CPROVER_ensures(!nv_thrown && NV_IS_CLONE(self->M, O) && self->M != self->OTHERM && NV_OBJ_SAME(O)) \
__CPROVER_ensures(self->OTHERM == __CPROVER_old(self->OTHERM) && NV_OBJ_SAME(self->OTHERM) && self->m_parameters == __CPROVER_old(self->m_parameters) && \
                  self->m_type_id.id == __CPROVER_old(self->m_type_id.id) && self->m_type == __CPROVER_old(self->m_type))
#define NV_CONTRACT_SOLVER_SET_ID(M, OTHERM, ID) \
__CPROVER_requires(!nv_thrown && NV_SOLVER_OK(self) && __CPROVER_is_fresh(ID, sizeof(*ID))) \
__CPROVER_assigns(nv_thrown, self->M) \
__CPROVER_ensures(NV_FACTORY_HAS(*ID) ==> (!nv_thrown && NV_IS_DEFAULT_OF(self->M, *ID) && self->M != self->OTHERM)) \
__CPROVER_ensures(!NV_FACTORY_HAS(*ID) ==> (nv_thrown && self->M == __CPROVER_old(self->M) && NV_OBJ_SAME(self->M))) \
__CPROVER_ensures(self->OTHERM == __CPROVER_old(self->OTHERM) && NV_OBJ_SAME(self->OTHERM) && self->m_parameters == __CPROVER_old(self->m_parameters) && \
                  self->m_type_id.id == __CPROVER_old(self->m_type_id.id) && self->m_type == __CPROVER_old(self->m_type))
#define NV_CONTRACT_solver_lsearch0_obj NV_CONTRACT_SOLVER_SET_OBJ(m_lsearch0, m_lsearchk, NV_ARG_solver_lsearch0_obj_1)
#define NV_CONTRACT_solver_lsearchk_obj NV_CONTRACT_SOLVER_SET_OBJ(m_lsearchk, m_lsearch0, NV_ARG_solver_lsearchk_obj_1)
#define NV_CONTRACT_solver_lsearch0_id NV_CONTRACT_SOLVER_SET_ID(m_lsearch0, m_lsearchk, NV_ARG_solver_lsearch0_id_1)
#define NV_CONTRACT_solver_lsearchk_id NV_CONTRACT_SOLVER_SET_ID(m_lsearchk, m_lsearch0, NV_ARG_solver_lsearchk_id_1)

/* ------------------------------------------------------------------ ml::params_t (src/machine/params.cpp)
 * owns a tuner, a solver and a splitter (each seen as an owned object: solver_t::clone() is `make_unique<solver_X_t>(*this)`,
 * i.e. the copy constructor under contract above) and a logger (not a configurable: an opaque value) */
struct nv_logger { int64_t id; };
struct nv_mlparams { struct nv_logger m_logger; struct nv_obj* m_tuner; struct nv_obj* m_solver; struct nv_obj* m_splitter; };
#define NV_MLP_OK(s) (__CPROVER_is_fresh(s, sizeof(struct nv_mlparams)) && NV_OBJ_OK((s)->m_tuner) && NV_OBJ_OK((s)->m_solver) && NV_OBJ_OK((s)->m_splitter))
#define NV_MLP_SAME(s) ((s)->m_logger.id == __CPROVER_old((s)->m_logger.id) && (s)->m_tuner == __CPROVER_old((s)->m_tuner) && \
  (s)->m_solver == __CPROVER_old((s)->m_solver) && (s)->m_splitter == __CPROVER_old((s)->m_splitter) && \
  NV_OBJ_SAME((s)->m_tuner) && NV_OBJ_SAME((s)->m_solver) && NV_OBJ_SAME((s)->m_splitter))
#define NV_MLP_IS_COPY(a, b) ((a)->m_logger.id == (b)->m_logger.id && NV_IS_CLONE((a)->m_tuner, (b)->m_tuner) && \
  NV_IS_CLONE((a)->m_solver, (b)->m_solver) && NV_IS_CLONE((a)->m_splitter, (b)->m_splitter) && \
  (a)->m_tuner != (a)->m_solver && (a)->m_tuner != (a)->m_splitter && (a)->m_solver != (a)->m_splitter)
#define NV_CONTRACT_mlparams_copy \
__CPROVER_requires(!nv_thrown && __CPROVER_is_fresh(self, sizeof(*self)) && NV_MLP_OK(NV_ARG_mlparams_copy_1)) \
__CPROVER_assigns(nv_thrown, __CPROVER_object_whole(self)) \
__CPROVER_ensures(!nv_thrown && NV_MLP_IS_COPY(self, NV_ARG_mlparams_copy_1) && NV_MLP_SAME(NV_ARG_mlparams_copy_1))
/* copy assignment: `a = b` makes a a copy of b (b untouched); self-assignment changes nothing */
#define NV_CONTRACT_mlparams_assign \
__CPROVER_requires(!nv_thrown && NV_MLP_OK(self) && (NV_ARG_mlparams_assign_1 == self || NV_MLP_OK(NV_ARG_mlparams_assign_1))) \
__CPROVER_assigns(nv_thrown, self->m_logger, self->m_tuner, self->m_solver, self->m_splitter) \
__CPROVER_ensures(!nv_thrown && NV_RET == self) \
__CPROVER_ensures(NV_ARG_mlparams_assign_1 != self ==> NV_MLP_IS_COPY(self, NV_ARG_mlparams_assign_1)) \
__CPROVER_ensures(NV_ARG_mlparams_assign_1 == self ==> NV_MLP_SAME(self)) \
__CPROVER_ensures(NV_ARG_mlparams_assign_1 != self ==> (NV_ARG_mlparams_assign_1->m_tuner == __CPROVER_old(NV_ARG_mlparams_assign_1->m_tuner) && \
    NV_ARG_mlparams_assign_1->m_solver == __CPROVER_old(NV_ARG_mlparams_assign_1->m_solver) && \
    NV_ARG_mlparams_assign_1->m_splitter == __CPROVER_old(NV_ARG_mlparams_assign_1->m_splitter)))
/* the four setters of each owned object M (A, B: the other two, framed):
 *   by object       -> an independent clone of it
 *   by rvalue owner -> null throws and nothing changes, else that very object is adopted
 *   by const owner  -> null throws and nothing changes, else an independent clone of the pointee
 *   by id           -> the factory default registered under the id; an unknown id throws and nothing changes */
#define NV_MLP_FRAME(A, B) (self->A == __CPROVER_old(self->A) && self->B == __CPROVER_old(self->B) && NV_OBJ_SAME(self->A) && NV_OBJ_SAME(self->B) && \
                            self->m_logger.id == __CPROVER_old(self->m_logger.id))
#define NV_MLP_KEEP(M) (self->M == __CPROVER_old(self->M) && NV_OBJ_SAME(self->M))
#define NV_CONTRACT_MLP_SET_OBJ(M, A, B, O) \
__CPROVER_requires(!nv_thrown && NV_MLP_OK(self) && NV_OBJ_OK(O)) \
__CPROVER_assigns(nv_thrown, self->M) \
__CPROVER_ensures(!nv_thrown && NV_RET == self && NV_IS_CLONE(self->M, O) && self->M != self->A && self->M != self->B && NV_OBJ_SAME(O) && NV_MLP_FRAME(A, B))
#define NV_CONTRACT_MLP_SET_MOVE(M, A, B, PP) \
__CPROVER_requires(!nv_thrown && NV_MLP_OK(self) && __CPROVER_is_fresh(PP, sizeof(*PP)) && (*PP == NULL || NV_OBJ_OK(*PP))) \
__CPROVER_assigns(nv_thrown, self->M) \
__CPROVER_ensures(__CPROVER_old(*PP) == NULL ==> (nv_thrown && NV_MLP_KEEP(M))) \
__CPROVER_ensures(__CPROVER_old(*PP) != NULL ==> (!nv_thrown && NV_RET == self && self->M == __CPROVER_old(*PP))) \
__CPROVER_ensures(NV_MLP_FRAME(A, B))
#define NV_CONTRACT_MLP_SET_PTR(M, A, B, PP) \
__CPROVER_requires(!nv_thrown && NV_MLP_OK(self) && __CPROVER_is_fresh(PP, sizeof(*PP)) && (*PP == NULL || NV_OBJ_OK(*PP))) \
__CPROVER_assigns(nv_thrown, self->M) \
__CPROVER_ensures(*PP == NULL ==> (nv_thrown && NV_MLP_KEEP(M))) \
__CPROVER_ensures(*PP != NULL ==> (!nv_thrown && NV_RET == self && NV_IS_CLONE(self->M, *PP) && self->M != self->A && self->M != self->B && NV_OBJ_SAME(*PP))) \
__CPROVER_ensures(*PP == __CPROVER_old(*PP) && NV_MLP_FRAME(A, B))
#define NV_CONTRACT_MLP_SET_ID(M, A, B, ID) \
__CPROVER_requires(!nv_thrown && NV_MLP_OK(self) && __CPROVER_is_fresh(ID, sizeof(*ID))) \
__CPROVER_assigns(nv_thrown, self->M) \
__CPROVER_ensures(NV_FACTORY_HAS(*ID) ==> (!nv_thrown && NV_RET == self && NV_IS_DEFAULT_OF(self->M, *ID) && self->M != self->A && self->M != self->B)) \
__CPROVER_ensures(!NV_FACTORY_HAS(*ID) ==> (nv_thrown && NV_MLP_KEEP(M))) \
__CPROVER_ensures(NV_MLP_FRAME(A, B))
#define NV_CONTRACT_mlparams_tuner_obj  NV_CONTRACT_MLP_SET_OBJ(m_tuner, m_solver, m_splitter, NV_ARG_mlparams_tuner_obj_1)
#define NV_CONTRACT_mlparams_tuner_move NV_CONTRACT_MLP_SET_MOVE(m_tuner, m_solver, m_splitter, NV_ARG_mlparams_tuner_move_1)
#define NV_CONTRACT_mlparams_tuner_ptr  NV_CONTRACT_MLP_SET_PTR(m_tuner, m_solver, m_splitter, NV_ARG_mlparams_tuner_ptr_1)
#define NV_CONTRACT_mlparams_tuner_id   NV_CONTRACT_MLP_SET_ID(m_tuner, m_solver, m_splitter, NV_ARG_mlparams_tuner_id_1)
#define NV_CONTRACT_mlparams_solver_obj  NV_CONTRACT_MLP_SET_OBJ(m_solver, m_tuner, m_splitter, NV_ARG_mlparams_solver_obj_1)
#define NV_CONTRACT_mlparams_solver_move NV_CONTRACT_MLP_SET_MOVE(m_solver, m_tuner, m_splitter, NV_ARG_mlparams_solver_move_1)
#define NV_CONTRACT_mlparams_solver_ptr  NV_CONTRACT_MLP_SET_PTR(m_solver, m_tuner, m_splitter, NV_ARG_mlparams_solver_ptr_1)
#define NV_CONTRACT_mlparams_solver_id   NV_CONTRACT_MLP_SET_ID(m_solver, m_tuner, m_splitter, NV_ARG_mlparams_solver_id_1)
#define NV_CONTRACT_mlparams_splitter_obj  NV_CONTRACT_MLP_SET_OBJ(m_splitter, m_tuner, m_solver, NV_ARG_mlparams_splitter_obj_1)
#define NV_CONTRACT_mlparams_splitter_move NV_CONTRACT_MLP_SET_MOVE(m_splitter, m_tuner, m_solver, NV_ARG_mlparams_splitter_move_1)
#define NV_CONTRACT_mlparams_splitter_ptr  NV_CONTRACT_MLP_SET_PTR(m_splitter, m_tuner, m_solver, NV_ARG_mlparams_splitter_ptr_1)
#define NV_CONTRACT_mlparams_splitter_id   NV_CONTRACT_MLP_SET_ID(m_splitter, m_tuner, m_solver, NV_ARG_mlparams_splitter_id_1)

/* ------------------------------------------------------------------ functional_t (src/function/constraint.cpp): owns the function */
struct nv_functional { struct nv_obj* m_function; };
#define NV_FUN_OK(s) (__CPROVER_is_fresh(s, sizeof(struct nv_functional)) && NV_OBJ_OK((s)->m_function))
#define NV_CONTRACT_functional_from_function \
__CPROVER_requires(!nv_thrown && __CPROVER_is_fresh(self, sizeof(*self)) && NV_OBJ_OK(NV_ARG_functional_from_function_1)) \
__CPROVER_assigns(nv_thrown, __CPROVER_object_whole(self)) \
__CPROVER_ensures(!nv_thrown && NV_IS_CLONE(self->m_function, NV_ARG_functional_from_function_1) && NV_OBJ_SAME(NV_ARG_functional_from_function_1))
#define NV_CONTRACT_functional_from_owner \
__CPROVER_requires(!nv_thrown && __CPROVER_is_fresh(self, sizeof(*self)) && __CPROVER_is_fresh(NV_ARG_functional_from_owner_1, sizeof(struct nv_obj*))) \
__CPROVER_assigns(nv_thrown, __CPROVER_object_whole(self)) \
__CPROVER_ensures(!nv_thrown && self->m_function == __CPROVER_old(*NV_ARG_functional_from_owner_1))
#define NV_CONTRACT_functional_copy \
__CPROVER_requires(!nv_thrown && __CPROVER_is_fresh(self, sizeof(*self)) && NV_FUN_OK(NV_ARG_functional_copy_1)) \
__CPROVER_assigns(nv_thrown, __CPROVER_object_whole(self)) \
__CPROVER_ensures(!nv_thrown && NV_IS_CLONE(self->m_function, NV_ARG_functional_copy_1->m_function) && \
                  NV_ARG_functional_copy_1->m_function == __CPROVER_old(NV_ARG_functional_copy_1->m_function) && NV_OBJ_SAME(NV_ARG_functional_copy_1->m_function))
#define NV_CONTRACT_functional_assign \
__CPROVER_requires(!nv_thrown && NV_FUN_OK(self) && (NV_ARG_functional_assign_1 == self || NV_FUN_OK(NV_ARG_functional_assign_1))) \
__CPROVER_assigns(nv_thrown, self->m_function) \
__CPROVER_ensures(!nv_thrown && NV_RET == self) \
__CPROVER_ensures(NV_ARG_functional_assign_1 != self ==> (NV_IS_CLONE(self->m_function, NV_ARG_functional_assign_1->m_function) && \
                  NV_ARG_functional_assign_1->m_function == __CPROVER_old(NV_ARG_functional_assign_1->m_function))) \
__CPROVER_ensures(NV_ARG_functional_assign_1 == self ==> (self->m_function == __CPROVER_old(self->m_function) && NV_OBJ_SAME(self->m_function)))

/* ------------------------------------------------------------------ weak learners: wlearner::clone (src/wlearner/util.cpp),
 * gboost_model_t (src/gboost/model.cpp), gboost::result_t (src/gboost/result.cpp)
 * rwlearners_t = std::vector<std::unique_ptr<wlearner_t>>: ownership as containment (the array holds the objects, so two
 * vectors never share a learner); universal statements at the ghost index nv_g_w */
struct nv_objs { struct nv_obj* p; int64_t n; };
struct nv_val { int64_t id; };    /* tensors and other plain values that are copied member-wise: an opaque value */
#define NV_MAXW 1000000
int64_t nv_g_w;
#define NV_OBJS_OK(v) ((v).n >= 0 && (v).n <= NV_MAXW && __CPROVER_is_fresh((v).p, ((v).n > 0 ? (v).n : 1) * sizeof(struct nv_obj)))
#define NV_G_IN(v) (0 <= nv_g_w && nv_g_w < (v).n)
#define NV_EQ_OBJ(a, b) ((a).m_type_id.id == (b).m_type_id.id && (a).config == (b).config)
/* b is an element-wise clone of a (same length, the learner at every (= the ghost) position has the same id and parameters) */
#define NV_OBJS_CLONE(b, a) ((b).n == (a).n && (b).p != (a).p && (NV_G_IN(a) ==> NV_EQ_OBJ((b).p[nv_g_w], (a).p[nv_g_w])))
/* ASSUMED: wlearner_t::clone() (as nv_obj_clone above, by value in this containment model) */
static struct nv_obj nv_obj_clone_val(const struct nv_obj* o) { return *o; }
/* ASSUMED: std::vector::reserve(n) on an empty vector gives capacity n; emplace_back within the capacity appends the element
 * and keeps the others (a push beyond the reserved capacity would be a pointer-check failure of this model, not of libnano) */
static void nv_objs_reserve(struct nv_objs* v, uint64_t n)
{
  __CPROVER_assume(n <= NV_MAXW);
  v->p = malloc((n > 0 ? n : 1) * sizeof(struct nv_obj));
  __CPROVER_assume(v->p != NULL);
}
static void nv_objs_emplace_back(struct nv_objs* v, struct nv_obj x) { v->p[v->n] = x; v->n = v->n + 1; }

#define NV_CONTRACT_wlearners_clone \
__CPROVER_requires(__CPROVER_is_fresh(NV_ARG_wlearners_clone_0, sizeof(struct nv_objs)) && NV_OBJS_OK(*NV_ARG_wlearners_clone_0)) \
__CPROVER_assigns() \
__CPROVER_ensures(NV_RET.n == NV_ARG_wlearners_clone_0->n && __CPROVER_is_fresh(NV_RET.p, (NV_RET.n > 0 ? NV_RET.n : 1) * sizeof(struct nv_obj))) \
__CPROVER_ensures(NV_G_IN(NV_RET) ==> NV_EQ_OBJ(NV_RET.p[nv_g_w], NV_ARG_wlearners_clone_0->p[nv_g_w])) \
__CPROVER_ensures(NV_ARG_wlearners_clone_0->n == __CPROVER_old(NV_ARG_wlearners_clone_0->n) && NV_ARG_wlearners_clone_0->p == __CPROVER_old(NV_ARG_wlearners_clone_0->p))
/* the range-for over the source vector: clones.n elements done, the iterator stands at that position (stated through the
 * integer clones.n: relational operators on a havocked iterator would need it in bounds first) */
#define NV_LOOP_wlearners_clone_1 \
__CPROVER_assigns(__begin1, clones.n, __CPROVER_object_whole(clones.p)) \
__CPROVER_loop_invariant(0 <= clones.n && clones.n <= __range1->n && __begin1 == __range1->p + clones.n && \
                         __end1 == __range1->p + __range1->n && clones.p == __CPROVER_loop_entry(clones.p) && \
                         ((0 <= nv_g_w && nv_g_w < clones.n) ==> NV_EQ_OBJ(clones.p[nv_g_w], __range1->p[nv_g_w]))) \
__CPROVER_decreases(__range1->n - clones.n)

struct nv_gboost { struct nv_val m_learner; struct nv_val m_bias; struct nv_objs m_wlearners; struct nv_objs m_prototypes; };
#define NV_GB_OK(s) (__CPROVER_is_fresh(s, sizeof(struct nv_gboost)) && NV_OBJS_OK((s)->m_wlearners) && NV_OBJS_OK((s)->m_prototypes))
#define NV_GB_IS_COPY(a, b) ((a)->m_learner.id == (b)->m_learner.id && (a)->m_bias.id == (b)->m_bias.id && \
  NV_OBJS_CLONE((a)->m_wlearners, (b)->m_wlearners) && NV_OBJS_CLONE((a)->m_prototypes, (b)->m_prototypes) && (a)->m_wlearners.p != (a)->m_prototypes.p)
#define NV_GB_KEPT(b) ((b)->m_wlearners.p == __CPROVER_old((b)->m_wlearners.p) && (b)->m_wlearners.n == __CPROVER_old((b)->m_wlearners.n) && \
  (b)->m_prototypes.p == __CPROVER_old((b)->m_prototypes.p) && (b)->m_prototypes.n == __CPROVER_old((b)->m_prototypes.n))
#define NV_CONTRACT_gboost_copy \
__CPROVER_requires(!nv_thrown && __CPROVER_is_fresh(self, sizeof(*self)) && NV_GB_OK(NV_ARG_gboost_copy_1)) \
__CPROVER_assigns(nv_thrown, __CPROVER_object_whole(self)) \
__CPROVER_ensures(!nv_thrown && NV_GB_IS_COPY(self, NV_ARG_gboost_copy_1) && NV_GB_KEPT(NV_ARG_gboost_copy_1))
#define NV_CONTRACT_gboost_assign \
__CPROVER_requires(!nv_thrown && NV_GB_OK(self) && (NV_ARG_gboost_assign_1 == self || NV_GB_OK(NV_ARG_gboost_assign_1))) \
__CPROVER_assigns(nv_thrown, self->m_learner, self->m_bias, self->m_wlearners, self->m_prototypes) \
__CPROVER_ensures(!nv_thrown && NV_RET == self) \
__CPROVER_ensures(NV_ARG_gboost_assign_1 != self ==> (NV_GB_IS_COPY(self, NV_ARG_gboost_assign_1) && NV_GB_KEPT(NV_ARG_gboost_assign_1))) \
__CPROVER_ensures(NV_ARG_gboost_assign_1 == self ==> (NV_GB_KEPT(self) && self->m_learner.id == __CPROVER_old(self->m_learner.id) && self->m_bias.id == __CPROVER_old(self->m_bias.id)))
#define NV_CONTRACT_gboost_prototypes_copy \
__CPROVER_requires(!nv_thrown && NV_GB_OK(self) && __CPROVER_is_fresh(NV_ARG_gboost_prototypes_copy_1, sizeof(struct nv_objs)) && NV_OBJS_OK(*NV_ARG_gboost_prototypes_copy_1)) \
__CPROVER_assigns(nv_thrown, self->m_prototypes) \
__CPROVER_ensures(!nv_thrown && NV_OBJS_CLONE(self->m_prototypes, *NV_ARG_gboost_prototypes_copy_1) && self->m_prototypes.p != self->m_wlearners.p) \
__CPROVER_ensures(self->m_wlearners.p == __CPROVER_old(self->m_wlearners.p) && self->m_wlearners.n == __CPROVER_old(self->m_wlearners.n) && \
                  self->m_learner.id == __CPROVER_old(self->m_learner.id) && self->m_bias.id == __CPROVER_old(self->m_bias.id))

struct nv_gbresult { struct nv_val m_errors_values, m_train_samples, m_valid_samples, m_bias; struct nv_objs m_wlearners; struct nv_val m_statistics; };
#define NV_GR_OK(s) (__CPROVER_is_fresh(s, sizeof(struct nv_gbresult)) && NV_OBJS_OK((s)->m_wlearners))
#define NV_GR_IS_COPY(a, b) ((a)->m_errors_values.id == (b)->m_errors_values.id && (a)->m_train_samples.id == (b)->m_train_samples.id && \
  (a)->m_valid_samples.id == (b)->m_valid_samples.id && (a)->m_bias.id == (b)->m_bias.id && (a)->m_statistics.id == (b)->m_statistics.id && \
  NV_OBJS_CLONE((a)->m_wlearners, (b)->m_wlearners))
#define NV_CONTRACT_gbresult_copy \
__CPROVER_requires(!nv_thrown && __CPROVER_is_fresh(self, sizeof(*self)) && NV_GR_OK(NV_ARG_gbresult_copy_1)) \
__CPROVER_assigns(nv_thrown, __CPROVER_object_whole(self)) \
__CPROVER_ensures(!nv_thrown && NV_GR_IS_COPY(self, NV_ARG_gbresult_copy_1) && \
                  NV_ARG_gbresult_copy_1->m_wlearners.p == __CPROVER_old(NV_ARG_gbresult_copy_1->m_wlearners.p))
#define NV_CONTRACT_gbresult_assign \
__CPROVER_requires(!nv_thrown && NV_GR_OK(self) && (NV_ARG_gbresult_assign_1 == self || NV_GR_OK(NV_ARG_gbresult_assign_1))) \
__CPROVER_assigns(nv_thrown, self->m_errors_values, self->m_train_samples, self->m_valid_samples, self->m_bias, self->m_wlearners, self->m_statistics) \
__CPROVER_ensures(!nv_thrown && NV_RET == self) \
__CPROVER_ensures(NV_ARG_gbresult_assign_1 != self ==> NV_GR_IS_COPY(self, NV_ARG_gbresult_assign_1)) \
__CPROVER_ensures(NV_ARG_gbresult_assign_1 == self ==> (self->m_wlearners.p == __CPROVER_old(self->m_wlearners.p) && self->m_wlearners.n == __CPROVER_old(self->m_wlearners.n)))

#endif
