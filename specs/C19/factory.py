"""C19, factory side: "every object obtainable from a factory ... reports the id it was registered under, and its clone has equal
parameters": include/nano/factory.h under contract.

The non-template members (find, has, get, description, size, ids) are extracted from the explicit instantiation
factory_t<lsearch0_t> of drivers/inst_factory.cpp (instantiation-only); every add<T> instantiation that the REAL src/lsearch0.cpp
contains is extracted from there (found through clang).  In the thorough tier the add<T> instantiations of all eleven factory
files are checked as well (same template, other T)."""
import re

import astload
from astload import ExtractionError
from core import Fn, Target

HF = 'specs/C19/factory.h'
DRV = 'drivers/inst_factory.cpp'
FACTORY_TUS = ['src/lsearch0.cpp', 'src/lsearchk.cpp', 'src/solver.cpp', 'src/loss.cpp', 'src/splitter.cpp', 'src/tuner.cpp', 'src/generator.cpp',
               'src/wlearner.cpp', 'src/linear.cpp', 'src/datasource.cpp', 'src/function.cpp']

STR = r'(nano::string_t|std::string|std::basic_string<char>|std::(__cxx11::)?basic_string<char>)'
PAIR = r'std::pair<std::basic_string<char>, nano::factory_t<nano::\w+>::proto_t>'
TYPES = [(r'^(std::)?(string_view|basic_string_view<char(, std::char_traits<char>\s*)?>)$', 'struct nv_str'),
         (r'^' + STR + r'$', 'struct nv_str'),
         (r'^(nano::strings_t|std::vector<std::basic_string<char>.*)$', 'struct nv_ids'),
         (r'__normal_iterator<\s*' + PAIR + r'\s*\*|^std::vector<' + PAIR + r'.*>::const_iterator$', 'struct nv_entry*'),
         (r'^' + PAIR + r'$', 'struct nv_entry'),
         (r'^(nano::factory_t<nano::\w+>::)?protos_t$|^std::vector<' + PAIR + r'\s*(, std::allocator<.*)?>$', 'struct nv_protos'),
         (r'^(nano::factory_t<nano::\w+>::)?proto_t$', 'struct nv_proto'),
         (r'^nano::factory_t<nano::\w+>$', 'struct nv_factory'),
         (r'^(nano::factory_t<nano::\w+>::)?trobject$|^std::unique_ptr<nano::\w+.*>$|__unique_ptr_t<.*>$|^(nano::)?r\w+_t$', 'struct nv_fobj*'),
         (r'^(std::)?(regex|basic_regex<char.*>)$', 'struct nv_regex'),
         (r'^char \(&\)\[\d+\]$', 'const char*'),      # forwarded constructor arguments of add<T>(description, args...): string literals
         (r'^nano::\w+_t$', 'struct nv_fobj')]
IT = r'__normal_iterator<(const )?' + PAIR.replace('std::pair<', r'std::pair<')
CALLS = [(r'^find_if\|', 'nv_find_if_entry({0}, {1}, &type_id)'),
         (r'^operator==\|.*__normal_iterator<const std::pair<', '({0} == {1})'), (r'^operator!=\|.*__normal_iterator<const std::pair<', '({0} != {1})'),
         (r'^operator\+\+\|.*__normal_iterator<const std::pair<', '(++{0})'), (r'^operator\*\|.*__normal_iterator<const std::pair<', '(*{0})'),
         (r'^operator->\|.*__normal_iterator<const std::pair<', '{0}'),
         (r'^operator==\|.*basic_string_view', '({0}.id == {1}.id)'), (r'^operator!=\|.*basic_string_view', '({0}.id != {1}.id)'),
         (r'^operator!=\|bool \(const basic_string<char', '({0}.id != {1}.id)'), (r'^operator==\|bool \(const basic_string<char', '({0}.id == {1}.id)'),
         (r'^operator==\|bool \(const basic_string<char.*__type_identity_t<basic_string_view', '({0}.id == {1}.id)'),
         (r'^ctor\|[^|]*basic_string_view<char[^|]*\|void \(const (std::)?basic_string_view<char[^|]*&\)', '{0}'),
         (r'^ctor\|[^|]*vector<std::(__cxx11::)?basic_string<char[^|]*\|void \(\)', 'nv_ids_new()'),
         (r'^ctor\|(nano::string_t|std::string|std::(__cxx11::)?basic_string<char[^|]*)\|void \(\)', 'nv_empty_string()'),
         (r'^operator->\|std::unique_ptr<', '{0}'),
         (r'^ctor\|[^|]*basic_string<char[^|]*\|void \(const (std::)?(__cxx11::)?basic_string<char[^|]*&\)', '{0}'),
         (r'^ctor\|[^|]*basic_string<char[^|]*\|void \((std::)?(__cxx11::)?basic_string<char[^|]*&&\)', '{0}'),
         (r'^ctor\|[^|]*unique_ptr<[^|]*\|void \((std::)?nullptr_t\)', '((struct nv_fobj*)NULL)'),
         (r'^ctor\|[^|]*unique_ptr<[^|]*\|void \((std::)?unique_ptr<.*&&\)', '{0}'),
         (r'^regex_match\|', 'nv_regex_match({&0}, {&1})'),
         (r'^move\|', '{0}'), (r'^forward\|', '{0}')]
VEC = r'std::vector<std::pair<std::basic_string<char>, nano::factory_t<nano::\w+>::proto_t>'
MEMBERS = [(r'^begin\|(const )?(' + VEC + r'|nano::factory_t<nano::\w+>::protos_t)', '{*self}.p'),
           (r'^end\|(const )?(' + VEC + r'|nano::factory_t<nano::\w+>::protos_t)', '({*self}.p + {*self}.n)'),
           (r'^size\|(const )?(' + VEC + r'|nano::factory_t<nano::\w+>::protos_t)', '((uint64_t){*self}.n)'),
           (r'^emplace_back\|(' + VEC + r'|nano::factory_t<nano::\w+>::protos_t)', 'nv_protos_emplace_back({self}, {0}, {1})'),
           (r'^operator->\|(const )?std::unique_ptr<', '{*self}'),
           (r'^clone\|', 'nv_fobj_clone'), (r'^type_id\|', 'nv_fobj_type_id({self})'),
           (r'^push_back\|std::vector<std::(__cxx11::)?basic_string<char>', 'nv_ids_push_back({self}, {&0})'),
           (r'^operator basic_string_view\|', '{*self}'),
           (r'^find\|(const )?nano::factory_t<', 'factory_find')]


def inst(name):
    return lambda d: bool(d.get('mangledName'))


def fns():
    c = dict(types=TYPES, calls=CALLS, members=MEMBERS, self_struct='struct nv_factory', uf_float=False)
    f = {k: Fn('factory_' + k, DRV, k, flt='factory_t', select=inst(k), **c) for k in ('find', 'has', 'get', 'description', 'size', 'ids')}
    cp = dict(c)
    del cp['self_struct']
    f['pred'] = Fn('factory_find_pred', DRV, 'find', flt='factory_t', select=inst('find'), lambda_index=0, captures=True, **cp)
    return f


def add_insts(tu):
    return [d for d in astload.instantiations(tu, 'factory_t', 'add') if d.get('mangledName')]


def add_fn(tu, d):
    mn = d['mangledName']
    made = astload.template_args(d)[0]
    e = re.escape(made)
    calls = [(r'^make_unique\|', 'nv_make_prototype()')] + CALLS
    types = [(r'^' + e + r'$', 'struct nv_fobj')] + TYPES
    ty2 = [(r'^std::unique_ptr<' + e + r'.*>$', 'struct nv_fobj*')] + types
    calls = [(r'^ctor\|[^|]*proto_t\|', '(struct nv_proto){{0}, {1}}')] + calls
    return Fn('factory_add', tu, 'add', flt='factory_t', select=lambda x: x.get('mangledName') == mn, types=ty2, calls=calls, members=MEMBERS,
              self_struct='struct nv_factory', uf_float=False, aggregates=['struct nv_proto'],
              # the constructor arguments `args...` are only forwarded to std::make_unique<T> (whose result is an unknown new object): their
              # types, whatever a registration passes (string literals, vectors of csv_t, ...), are erased
              opaque=[r'^(?!bool$)'])


def targets(tier):
    out = []
    for top, deps in [('find', []), ('has', ['find']), ('get', ['find']), ('description', ['find']), ('size', []), ('ids', [])]:
        def mk(top=top, deps=deps):
            f = fns()
            return [f[top]] + [f[d] for d in deps] + ([f['pred']] if top == 'find' or 'find' in deps else [])
        out.append(Target('factory_' + top, mk, HF, enforce='factory_' + top, note='include/nano/factory.h, instantiated for lsearch0_t'))
    tus = FACTORY_TUS if tier == 'thorough' else FACTORY_TUS[:1]
    for tu in tus:
        def mk(tu=tu):
            ds = add_insts(tu)
            if not ds:
                raise ExtractionError(f'no factory_t<..>::add<T> instantiation found in {tu}')
            return ds
        # one target per add<T> instantiation: the list is only known inside the worker, so the first instantiation is the target of
        # the quick tier and the others follow in the thorough tier (same template body, another T)
        def first(tu=tu, mk=mk):
            f = fns()
            return [add_fn(tu, mk()[0]), f['find'], f['pred']]
        out.append(Target('factory_add_' + re.sub(r'\W+', '_', tu), first, HF, enforce='factory_add', note=f'factory_t::add<T> as instantiated by {tu}'))
    return out
