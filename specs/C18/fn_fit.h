/* C18 / functional half, weak-learner fitting: the operator that do_fit hands to select_iterator_t::loop keeps, in the
 * cache of its worker, the best (score, feature) seen so far.  Then min_reduce over the per-worker caches is the minimum
 * over ALL features however the features were chunked (up to ties between equal scores: not decided). */
#include "base.h"
