/* C18 / objective functions (types needed by the generated struct layouts) */
#include "base.h"
struct nv_range { int64_t m_begin, m_end; };          /* tensor_range_t */
/* a per-sample tensor that the chunk tasks write row-wise: `g` is the footprint of ONE ghost row, nv_g (nondeterministic
 * at entry: `--nondet-static`), so "row nv_g is written only if begin <= nv_g < end" holds for every row */
struct nv_rows { struct nv_opaque g; };
struct nv_lacc;
struct nv_laccs { struct nv_lacc* p; uint64_t n; };     /* std::vector<linear::accumulator_t> */
struct nv_gacc;
struct nv_gaccs { struct nv_gacc* p; uint64_t n; };     /* std::vector<gboost::accumulator_t> */
struct nv_loss; struct nv_fiter; struct nv_titer;
