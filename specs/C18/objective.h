/* C18 / objective functions (types needed by the generated struct layouts) */
#include "base.h"
struct nv_range { int64_t m_begin, m_end; };          /* tensor_range_t */
/* a per-sample tensor that the chunk tasks write row-wise: `g` is the footprint of ONE ghost row, nv_g (nondeterministic
 * at entry: `--nondet-static`), so "row nv_g is written only if begin <= nv_g < end" holds for every row */
struct nv_rows { struct nv_opaque g; };
/* std::vector<accumulator_t>: the footprint of ONE ghost element, index nv_gs (emitted after the generated accumulator structs) */
#define NV_ACCS struct nv_laccs { struct nv_lacc g; uint64_t n; }; struct nv_gaccs { struct nv_gacc g; uint64_t n; };
struct nv_loss; struct nv_fiter; struct nv_titer;
