/* C18 / dataset iterators: objects that ARE written concurrently by design -- the per-thread buffers of the iterators.
 * Every task writes only slot [tnum]; specs/C17 proves that tnum < pool size and (with monitor semantics) that a worker
 * runs one task at a time, so two tasks that run at the same time have different tnum.  Struct layouts (nv_dataset,
 * nv_titer, nv_fiter, nv_siter, nv_selbuf) are generated from the class definitions. */
#include "base.h"

/* std::vector<T> of per-thread buffers: `g` is the footprint of ONE ghost element, index nv_gs (nondeterministic at entry),
 * so "element nv_gs is written only if nv_gs == tnum" holds for every element; n = size() */
struct nv_slots { struct nv_opaque g; uint64_t n; };
#define NV_SELBUFS struct nv_selbufs { struct nv_selbuf g; uint64_t n; };    /* (emitted after the generated struct nv_selbuf) */
struct nv_generator;
struct nv_gens { struct nv_generator** p; uint64_t n; };
struct nv_cb { char unused; };          /* std::function<...>: the caller's operator, opaque */
struct nv_pool { char unused; };
struct nv_datasource { char unused; };
