/* C18 / solver: the shared solver object is only read by minimize(); the line-search objects that carry history are
 * clones made per call.  Struct layouts (nv_solver, nv_ls0, nv_lsk, nv_lsearch, nv_function) are generated from the
 * class definitions of /repo (specs/C18/frame.py Layout) and emitted in front of this file. */
#include "base.h"

/* ---- assumed contracts of callees that are not libnano functions under contract here ---------------------------------
 * lsearch0_t::clone() / lsearchk_t::clone() const (virtual; every implementation is `std::make_unique<T>(*this)`): a NEW
 * object, copy of the prototype; the prototype is only read. */
static struct nv_ls0* nv_ls0_clone(const struct nv_ls0* proto)
{ struct nv_ls0* c = malloc(sizeof(*c)); __CPROVER_assume(c != NULL); *c = *proto; return c; }
static struct nv_lsk* nv_lsk_clone(const struct nv_lsk* proto)
{ struct nv_lsk* c = malloc(sizeof(*c)); __CPROVER_assume(c != NULL); *c = *proto; return c; }

/* lsearch_t{std::move(lsearch0), std::move(lsearchk)}: the real constructor (extracted: lsearch_ctor) */
void lsearch_ctor(struct nv_lsearch* self, struct nv_ls0** lsearch0, struct nv_lsk** lsearchk);
static struct nv_lsearch nv_lsearch_make(struct nv_ls0** a, struct nv_lsk** b)
{ struct nv_lsearch l; lsearch_ctor(&l, a, b); return l; }
#define NV_CONTRACT_lsearch_ctor \
__CPROVER_requires(__CPROVER_is_fresh(self, sizeof(*self)) && __CPROVER_is_fresh(lsearch0, sizeof(*lsearch0)) && __CPROVER_is_fresh(lsearchk, sizeof(*lsearchk))) \
__CPROVER_assigns(*self) \
__CPROVER_ensures(self->m_lsearch0 == *lsearch0 && self->m_lsearchk == *lsearchk)

#define NV_SOLVER_FRESH(s) (__CPROVER_is_fresh(s, sizeof(*(s))) && __CPROVER_is_fresh((s)->m_lsearch0, sizeof(*(s)->m_lsearch0)) && __CPROVER_is_fresh((s)->m_lsearchk, sizeof(*(s)->m_lsearchk)))

/* ---- solver_t::make_lsearch() const: NOTHING of the solver and NOTHING of its two prototype objects is written; the
 * returned line-search pair are fresh objects, different from the prototypes */
#define NV_CONTRACT_solver_make_lsearch \
__CPROVER_requires(NV_SOLVER_FRESH(self)) \
__CPROVER_assigns(nv_thrown) \
__CPROVER_ensures(NV_RET.m_lsearch0 != self->m_lsearch0 && NV_RET.m_lsearchk != self->m_lsearchk) \
__CPROVER_ensures(NV_RET.m_lsearch0 != NULL && NV_RET.m_lsearchk != NULL)

/* ---- the calling thread's own objects -------------------------------------------------------------------------------
 * The function object, the solver_state_t values, the vectors and the logger belong to the calling thread ("each with its
 * own function object"); they are erased (footprint cells) or assigned wholesale.  What is tracked is the SOLVER object
 * and the two prototype line-search objects it owns: nothing in any contract below lists them as assignable. */
struct nv_logger { char unused; };
struct nv_tuple_b_f64 { _Bool _0; double _1; };

/* lsearch0_t::get / lsearchk_t::get (virtual, NON-const: the objects carry history): assumed to write their own object
 * (the whole footprint) and, for lsearchk, the state handed in by reference */
static double nv_ls0_get(struct nv_ls0* l, const struct nv_opaque* state, const struct nv_opaque* descent, double last)
{ struct nv_ls0 h; *l = h; return nv_nondet_double(); }
static struct nv_tuple_b_f64 nv_lsk_get(struct nv_lsk* l, struct nv_opaque* state, const struct nv_opaque* descent, double t0, const struct nv_logger* logger)
{ struct nv_lsk h; *l = h; nv_touch(state); struct nv_tuple_b_f64 r; r._0 = nv_nondet__Bool(); r._1 = nv_nondet_double(); return r; }

#define NV_LSEARCH_FRESH(s) (__CPROVER_is_fresh(s, sizeof(*(s))) && __CPROVER_is_fresh((s)->m_lsearch0, sizeof(*(s)->m_lsearch0)) && __CPROVER_is_fresh((s)->m_lsearchk, sizeof(*(s)->m_lsearchk)))
/* lsearch_t::get(...) const: `mutable m_last_step_size` and the two owned line-search objects are written -- all three
 * belong to the per-call lsearch_t made by make_lsearch(), never to the solver */
#define NV_CONTRACT_lsearch_get \
__CPROVER_requires(NV_LSEARCH_FRESH(self) && __CPROVER_is_fresh(state, sizeof(*state))) \
__CPROVER_assigns(self->m_last_step_size, *self->m_lsearch0, *self->m_lsearchk, *state, nv_thrown)

/* solver_t::done(state, ...) const: writes the state only */
#define NV_CONTRACT_solver_done \
__CPROVER_requires(NV_SOLVER_FRESH(self) && __CPROVER_is_fresh(state, sizeof(*state))) \
__CPROVER_assigns(*state, nv_thrown)

/* function_t::clear_statistics() const / fcalls / gcalls: the two `mutable` counters of the caller's own function */
#define NV_CONTRACT_function_clear_statistics \
__CPROVER_requires(__CPROVER_is_fresh(self, sizeof(*self))) __CPROVER_assigns(self->m_fcalls, self->m_gcalls) \
__CPROVER_ensures(self->m_fcalls == 0 && self->m_gcalls == 0)

/* do_minimize (virtual): the frame every implementation below is proved against, used by contract in minimize() */
#define NV_MINIMIZE_FRAME(fn) \
__CPROVER_requires(NV_SOLVER_FRESH(self) && __CPROVER_is_fresh(fn, sizeof(*(fn)))) \
__CPROVER_assigns(__CPROVER_object_whole(fn), nv_thrown)
struct nv_opaque nv_do_minimize(struct nv_solver* self, struct nv_function* function, struct nv_opaque* x0, struct nv_logger* logger)
NV_MINIMIZE_FRAME(function);
#define NV_CONTRACT_solver_minimize NV_MINIMIZE_FRAME(function)

/* loops of the solver bodies: everything they change is a local of the call (states, directions, the per-call
 * line-search pair and its two clones) or the caller's function object */
#define NV_LS_LOOP_ASSIGNS lsearch.m_last_step_size, __CPROVER_object_whole(lsearch.m_lsearch0), __CPROVER_object_whole(lsearch.m_lsearchk), __CPROVER_object_whole(function), nv_thrown
#define NV_LS_LOOP_INV __CPROVER_loop_invariant(lsearch.m_lsearch0 != self->m_lsearch0 && lsearch.m_lsearchk != self->m_lsearchk)

#define NV_CONTRACT_gd_do_minimize NV_MINIMIZE_FRAME(function)
#define NV_LOOP_gd_do_minimize_1 __CPROVER_assigns(state, descent, NV_LS_LOOP_ASSIGNS) NV_LS_LOOP_INV
#define NV_CONTRACT_cgd_do_minimize NV_MINIMIZE_FRAME(function)
#define NV_LOOP_cgd_do_minimize_1 __CPROVER_assigns(cstate, pstate, cdescent, pdescent, NV_LS_LOOP_ASSIGNS) NV_LS_LOOP_INV
#define NV_CONTRACT_lbfgs_do_minimize NV_MINIMIZE_FRAME(function)
#define NV_LOOP_lbfgs_do_minimize_1 __CPROVER_assigns(cstate, pstate, q, r, ss, ys, NV_LS_LOOP_ASSIGNS) NV_LS_LOOP_INV
#define NV_LOOP_lbfgs_do_minimize_2 __CPROVER_assigns(j, q, alphas, ss, ys) __CPROVER_loop_invariant(j <= hsize) __CPROVER_decreases(hsize - j)
#define NV_LOOP_lbfgs_do_minimize_3 __CPROVER_assigns(j, r, alphas, ss, ys) __CPROVER_loop_invariant(j <= hsize) __CPROVER_decreases(hsize - j)
#define NV_CONTRACT_quasi_do_minimize NV_MINIMIZE_FRAME(function)
#define NV_LOOP_quasi_do_minimize_1 __CPROVER_assigns(cstate, pstate, descent, H, first_iteration, NV_LS_LOOP_ASSIGNS) NV_LS_LOOP_INV

/* virtual const helpers of the bodies (cgd: beta, quasi: update): frame = nothing of the solver; proved for every
 * implementation in targets cgd_beta_* / quasi_update_* */
#define NV_BETA_FRAME __CPROVER_requires(NV_SOLVER_FRESH(self)) __CPROVER_assigns(nv_thrown)
double nv_cgd_beta(struct nv_solver* self, const struct nv_opaque* pg, const struct nv_opaque* pd, const struct nv_opaque* cg) NV_BETA_FRAME;
#define NV_UPDATE_FRAME __CPROVER_requires(NV_SOLVER_FRESH(self) && __CPROVER_is_fresh(H, sizeof(*H))) __CPROVER_assigns(*H, nv_thrown)
void nv_quasi_update(struct nv_solver* self, const struct nv_opaque* prev, const struct nv_opaque* curr, struct nv_opaque* H) NV_UPDATE_FRAME;

#define NV_CONTRACT_cgd_beta_hs NV_BETA_FRAME
#define NV_CONTRACT_cgd_beta_fr NV_BETA_FRAME
#define NV_CONTRACT_cgd_beta_pr NV_BETA_FRAME
#define NV_CONTRACT_cgd_beta_cd NV_BETA_FRAME
#define NV_CONTRACT_cgd_beta_ls NV_BETA_FRAME
#define NV_CONTRACT_cgd_beta_dy NV_BETA_FRAME
#define NV_CONTRACT_cgd_beta_n NV_BETA_FRAME
#define NV_CONTRACT_cgd_beta_dycd NV_BETA_FRAME
#define NV_CONTRACT_cgd_beta_dyhs NV_BETA_FRAME
#define NV_CONTRACT_cgd_beta_frpr NV_BETA_FRAME
#define NV_CONTRACT_quasi_update_sr1 NV_UPDATE_FRAME
#define NV_CONTRACT_quasi_update_dfp NV_UPDATE_FRAME
#define NV_CONTRACT_quasi_update_bfgs NV_UPDATE_FRAME
#define NV_CONTRACT_quasi_update_hoshino NV_UPDATE_FRAME
#define NV_CONTRACT_quasi_update_fletcher NV_UPDATE_FRAME

/* non line-search bodies: function.vgrad(x, g) const evaluates the caller's own function object (mutable counters) */
static double nv_fn_vgrad(struct nv_function* f) { f->m_fcalls = nv_nondet_int64_t(); f->m_gcalls = nv_nondet_int64_t(); return nv_nondet_double(); }
#define nv_fn_vgrad2(f, x, g) ((void)(x), (void)(g), nv_fn_vgrad(f))
#define NV_FN_LOOP_ASSIGNS __CPROVER_object_whole(function), nv_thrown
#define NV_CONTRACT_sgm_do_minimize NV_MINIMIZE_FRAME(function)
#define NV_LOOP_sgm_do_minimize_1 __CPROVER_assigns(state, x, g, iteration, NV_FN_LOOP_ASSIGNS) __CPROVER_loop_invariant(1)
#define NV_CONTRACT_cocob_do_minimize NV_MINIMIZE_FRAME(function)
#define NV_LOOP_cocob_do_minimize_1 __CPROVER_assigns(state, x, gx, L, G, theta, reward, NV_FN_LOOP_ASSIGNS) __CPROVER_loop_invariant(1)
