static struct nv_dbuf nv_dbuf_elem;
static struct nv_dbuf* nv_dbuf_at(const struct nv_dbufs* v, uint64_t i)
{ __CPROVER_assert(i < v->n, "per-thread buffer index (tnum) is within the buffers vector"); nv_dbuf_elem.slot = i; nv_dbuf_elem.cached = 0; return &nv_dbuf_elem; }
static struct nv_slice nv_slice_of(const struct nv_idx* samples, struct nv_range r) { struct nv_slice s; s.id = samples->id; s.b = r.m_begin; s.e = r.m_end; return s; }
/* ASSUMED (frames: dataset group): dataset_t::flatten / targets(samples, buffer): the values of exactly those samples, in that buffer, unscaled */
static struct nv_dview nv_ds_dense(const struct nv_fdataset* d, struct nv_slice samples, const struct nv_dbuf* buffer)
{ struct nv_dview v; v.s = samples; v.slot = buffer->slot; v.cached = buffer->cached; v.scaled = 0; return v; }
/* scalar_stats_t::scale(scaling, data): scales the data the view `data` denotes, in place (C14): a view is a handle, so the
 * named view (and every copy made of it afterwards) denotes scaled values from here on */
static void nv_stats_scale(const struct nv_stats* st, struct nv_dview* data) { data->scaled = 1; }
/* the cached tensor: row r holds the scaled values of position r of m_samples (established by cache_flatten / cache_targets:
 * targets fcache_*_task); a slice of it is a view of those positions */
static struct nv_dview nv_cache_slice(const struct nv_dbuf* cache, struct nv_range r, uint64_t samples_id)
{ struct nv_dview v; v.s.id = samples_id; v.s.b = r.m_begin; v.s.e = r.m_end; v.slot = cache->slot; v.cached = cache->cached; v.scaled = 1; return v; }

#define NV_DVIEW_OF(v, sid, bb, ee) ((v).s.id == (sid) && (v).s.b == (bb) && (v).s.e == (ee) && (v).scaled == 1)
#define NV_FI_FRESH(s) (__CPROVER_is_fresh(s, sizeof(*(s))) && __CPROVER_is_fresh((s)->m_dataset, sizeof(*(s)->m_dataset)) && (s)->m_targets.cached == 1 && 1 <= (s)->m_targets_buffers.n)
#define NV_FF_FRESH(s) (NV_FI_FRESH(s) && (s)->m_flatten.cached == 1 && 1 <= (s)->m_flatten_buffers.n)

/* flatten(tnum, range) / targets(tnum, range): the (scaled) values of positions [range.begin, range.end) of m_samples, cached or
 * not; when not cached they sit in per-thread buffer tnum */
#define NV_CONTRACT_ffn_flatten \
__CPROVER_requires(NV_FF_FRESH(self) && tnum < self->m_flatten_buffers.n && __CPROVER_is_fresh(range, sizeof(*range))) \
__CPROVER_assigns(nv_dbuf_elem, nv_thrown) \
__CPROVER_ensures(NV_DVIEW_OF(__CPROVER_return_value, self->m_samples.id, range->m_begin, range->m_end) && (__CPROVER_return_value.cached || __CPROVER_return_value.slot == tnum))
#define NV_CONTRACT_ffn_flatten_map __CPROVER_requires(NV_FF_FRESH(self)) __CPROVER_assigns() \
__CPROVER_ensures(__CPROVER_return_value.scaled == 1 && __CPROVER_return_value.s.id == data.s.id && __CPROVER_return_value.s.b == data.s.b && __CPROVER_return_value.s.e == data.s.e && __CPROVER_return_value.slot == data.slot && __CPROVER_return_value.cached == data.cached)
#define NV_CONTRACT_ffn_targets \
__CPROVER_requires(NV_FI_FRESH(self) && tnum < self->m_targets_buffers.n && __CPROVER_is_fresh(range, sizeof(*range))) \
__CPROVER_assigns(nv_dbuf_elem, nv_thrown) \
__CPROVER_ensures(NV_DVIEW_OF(__CPROVER_return_value, self->m_samples.id, range->m_begin, range->m_end) && (__CPROVER_return_value.cached || __CPROVER_return_value.slot == tnum))
#define NV_CONTRACT_ffn_targets_map __CPROVER_requires(NV_FI_FRESH(self)) __CPROVER_assigns() \
__CPROVER_ensures(__CPROVER_return_value.scaled == 1 && __CPROVER_return_value.s.id == data.s.id && __CPROVER_return_value.s.b == data.s.b && __CPROVER_return_value.s.e == data.s.e && __CPROVER_return_value.slot == data.slot && __CPROVER_return_value.cached == data.cached)

/* the chunk tasks of loop(op): exactly one invocation, with range [begin, end), this task's tnum and the inputs / targets of
 * exactly positions [begin, end) of m_samples */
int64_t nv_cb_calls;
static struct nv_range nv_make_range(int64_t b, int64_t e) { struct nv_range r; r.m_begin = b; r.m_end = e; return r; }
int64_t nv_exp_b, nv_exp_e; uint64_t nv_exp_tnum, nv_exp_samples;
static void nv_dcb_check(struct nv_range r, uint64_t tnum)
{
  __CPROVER_assert(r.m_begin == nv_exp_b && r.m_end == nv_exp_e, "chunk task [begin, end): the operator gets exactly the range [begin, end)");
  __CPROVER_assert(tnum == nv_exp_tnum, "chunk task: the operator gets the worker id of this task");
  nv_cb_calls = nv_cb_calls + 1;
}
static void nv_dcb_view(struct nv_dview v, const char* what)
{ __CPROVER_assert(NV_DVIEW_OF(v, nv_exp_samples, nv_exp_b, nv_exp_e) && (v.cached || v.slot == nv_exp_tnum), "chunk task: the inputs / targets handed to the operator are those of positions [begin, end) of the iterator's samples (scaled; from the cache or from this task's buffer)"); }
static void nv_dcb3(const struct nv_cb* cb, struct nv_range r, uint64_t tnum, struct nv_dview a) { nv_dcb_check(r, tnum); nv_dcb_view(a, "a"); }
static void nv_dcb4(const struct nv_cb* cb, struct nv_range r, uint64_t tnum, struct nv_dview a, struct nv_dview b) { nv_dcb_check(r, tnum); nv_dcb_view(a, "a"); nv_dcb_view(b, "b"); }
#define NV_DTASK(fresh, extra) \
__CPROVER_requires(fresh(self) && extra && __CPROVER_is_fresh(callback, sizeof(*callback)) && nv_cb_calls == 0) \
__CPROVER_requires(nv_exp_b == begin && nv_exp_e == end && nv_exp_tnum == tnum && nv_exp_samples == self->m_samples.id) \
__CPROVER_assigns(nv_cb_calls, nv_dbuf_elem, nv_thrown) \
__CPROVER_ensures(nv_cb_calls == 1)
#define NV_CONTRACT_ffn_loop_ft_task NV_DTASK(NV_FF_FRESH, (tnum < self->m_flatten_buffers.n && tnum < self->m_targets_buffers.n))
#define NV_CONTRACT_ffn_loop_f_task NV_DTASK(NV_FF_FRESH, (tnum < self->m_flatten_buffers.n))
#define NV_CONTRACT_ffn_loop_t_task NV_DTASK(NV_FI_FRESH, (tnum < self->m_targets_buffers.n))

/* loop(op): one map over [0, samples().size()) in chunks of batch() */
int64_t __CPROVER_uninterpreted_idxsize(uint64_t);
int64_t nv_map_calls, nv_map_elements, nv_map_chunk;
#define nv_iter_map(it, elements, chunk) (nv_map_calls = nv_map_calls + 1, nv_map_elements = (elements), nv_map_chunk = (chunk), (void)0)
#define NV_DLOOP(fresh) \
__CPROVER_requires(fresh(self) && nv_map_calls == 0) \
__CPROVER_assigns(nv_map_calls, nv_map_elements, nv_map_chunk, nv_thrown) \
__CPROVER_ensures(nv_map_calls == 1 && nv_map_elements == __CPROVER_uninterpreted_idxsize(self->m_samples.id) && nv_map_chunk == self->m_batch)
#define NV_CONTRACT_ffn_loop_ft NV_DLOOP(NV_FF_FRESH)
#define NV_CONTRACT_ffn_loop_f NV_DLOOP(NV_FF_FRESH)
#define NV_CONTRACT_ffn_loop_t NV_DLOOP(NV_FI_FRESH)

/* cache_flatten / cache_targets chunk tasks: rows [begin, end) of the cache receive the scaled values of positions [begin, end) */
struct nv_range nv_st_rows; struct nv_dview nv_st_data; int64_t nv_st_calls;
static void nv_cache_store(struct nv_dbuf* cache, struct nv_range rows, struct nv_dview data) { nv_st_calls = nv_st_calls + 1; nv_st_rows = rows; nv_st_data = data; }
#define NV_DCACHE(fresh, bufs) \
__CPROVER_requires(fresh(self) && tnum < self->bufs.n && nv_st_calls == 0) \
__CPROVER_assigns(nv_st_calls, nv_st_rows, nv_st_data, nv_dbuf_elem, nv_thrown) \
__CPROVER_ensures(nv_st_calls == 1 && nv_st_rows.m_begin == begin && nv_st_rows.m_end == end && NV_DVIEW_OF(nv_st_data, self->m_samples.id, begin, end) && nv_st_data.slot == tnum && !nv_st_data.cached)
/* (the lambda of cache_flatten captures the references `samples = this->samples()`, `dataset = this->dataset()` of its function) */
#define NV_CONTRACT_fcache_flatten_task NV_DCACHE(NV_FF_FRESH, m_flatten_buffers) __CPROVER_requires(samples == &self->m_samples && dataset == self->m_dataset)
#define NV_CONTRACT_fcache_targets_task NV_DCACHE(NV_FI_FRESH, m_targets_buffers)
