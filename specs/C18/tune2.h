/* integer * / % of the extracted code: uninterpreted (specs/C18/frame.py uf_int_hook) */
int64_t __CPROVER_uninterpreted_imul(int64_t, int64_t);
int64_t __CPROVER_uninterpreted_idiv(int64_t, int64_t);
int64_t __CPROVER_uninterpreted_imod(int64_t, int64_t);
#define NV_IMUL(a, b) __CPROVER_uninterpreted_imul(a, b)
#define NV_IDIV(a, b) __CPROVER_uninterpreted_idiv(a, b)
#define NV_IMOD(a, b) __CPROVER_uninterpreted_imod(a, b)
int64_t nv_gt, nv_gf; uint64_t nv_gi;             /* ghost slot: any (nondeterministic at entry) */
struct nv_opaque nv_other_cell;                    /* stands for every index other than the ghost one */
static struct nv_opaque nv_grid_cell(struct nv_grid* t, int64_t trial, int64_t fold)
{ if (trial == nv_gt && fold == nv_gf) nv_touch(&t->g); return nv_opaque_value(); }
#define nv_rows_touch_all(t) nv_touch(&(t)->g)
/* non-const v[i]: the ghost cell iff i is the ghost index */
static struct nv_opaque* nv_cell_at(struct nv_cells* v, uint64_t i) { return i == nv_gi ? &v->g : &nv_other_cell; }
/* const v[i] (a read): recorded, so that the read set of a task can be stated */
_Bool nv_rd_any; uint64_t nv_rd_index;
static const struct nv_opaque* nv_cell_rd(const struct nv_cells* v, uint64_t i) { nv_rd_any = 1; nv_rd_index = i; return i == nv_gi ? &v->g : &nv_other_cell; }

#define NV_SLOT(trial, fold) ((uint64_t)(((int64_t)NV_IMUL((int64_t)(trial), (int64_t)(self->m_values.folds))) + (fold)))
/* result_t::store(trial, fold, ...): only cell (trial, fold) of m_values and index trial * folds + fold of m_extras */
#define NV_CONTRACT_result_store \
__CPROVER_requires(__CPROVER_is_fresh(self, sizeof(*self))) \
__CPROVER_assigns(nv_other_cell, nv_thrown; (trial == nv_gt && fold == nv_gf): self->m_values.g; NV_SLOT(trial, fold) == nv_gi: self->m_extras.g)
/* the const accessors the tasks use on the shared result: no write; extra / log_path read index trial * folds + fold */
#define NV_RESULT_CONST(extra) __CPROVER_requires(__CPROVER_is_fresh(self, sizeof(*self)) extra) __CPROVER_assigns(nv_thrown, nv_rd_any, nv_rd_index)
#define NV_CONTRACT_result_extra NV_RESULT_CONST() __CPROVER_ensures(nv_rd_any && nv_rd_index == NV_SLOT(trial, fold))
#define NV_CONTRACT_result_log_path __CPROVER_requires(__CPROVER_is_fresh(self, sizeof(*self))) __CPROVER_assigns(nv_thrown)   /* (m_log_paths is written by add() only) */
#define NV_CONTRACT_result_closest_trial __CPROVER_requires(__CPROVER_is_fresh(self, sizeof(*self))) __CPROVER_assigns(nv_thrown)
#define NV_LOOP_result_closest_trial_1 __CPROVER_assigns(trial, best_trial, best_distance) __CPROVER_loop_invariant(1)
static const struct nv_opaque* nv_path_rd(const struct nv_cells* v, uint64_t i) { return i == nv_gi ? &v->g : &nv_other_cell; }

/* ---- the (trial, fold) task of ml::tune (thread_callback) ------------------------------------------------------------
 * closest_trial(params, max_trials): frame proved here (result_closest_trial); its value 0 <= r && (r < max_trials || r == 0)
 * is C13's contract (specs/C13/result.h NV_ARGMIN, first conjunct), used by reference; C13's precondition is asserted */
int64_t nv_closest;
static int64_t nv_closest_trial(const struct nv_result* r, int64_t max_trials)
{
  __CPROVER_assert(0 <= max_trials && max_trials <= r->m_values.trials, "closest_trial(params, max_trials): 0 <= max_trials <= trials() (C13 precondition)");
  int64_t t = nv_nondet_int64_t();
  __CPROVER_assume(0 <= t && (t < max_trials || t == 0));
  nv_closest = t;
  return t;
}
/* the user's fit callback (linear_t::fit / gboost_model_t::fit lambda): runs on the task's own objects and on the shared
 * const solver / loss / dataset (their frames: the other groups of this spec) */
struct nv_opaque nv_cb_effects;
static struct nv_opaque nv_user_fit(const struct nv_cb* cb) { nv_touch(&nv_cb_effects); return nv_opaque_value(); }
#define nv_user_callback(cb, a, b, c, d, e) ((void)(a), (void)(b), (void)(c), (void)(d), (void)(e), nv_user_fit(cb))
#define nv_make_logger(path) ((void)(path), nv_opaque_value())

int64_t nv_new_trials;       /* ghost: number of trials of this batch (new_params.size<0>()) */
#define NV_TASK_TRIAL (*old_trials + ((int64_t)NV_IDIV((int64_t)(index), (int64_t)(*folds))))
#define NV_TASK_FOLD ((int64_t)NV_IMOD((int64_t)(index), (int64_t)(*folds)))
#define NV_TSLOT(t) ((uint64_t)(((int64_t)NV_IMUL((int64_t)(t), (int64_t)(*folds))) + NV_TASK_FOLD))
#define NV_CONTRACT_tune_task \
__CPROVER_requires(__CPROVER_is_fresh(result, sizeof(*result)) && __CPROVER_is_fresh(folds, sizeof(*folds)) && __CPROVER_is_fresh(old_trials, sizeof(*old_trials))) \
/* ml::tune: result_t{spaces, folds}; result.add(new_params) precedes the map (C13: tune::tuner_callback) */ \
__CPROVER_requires(1 <= *folds && *folds <= 1024 && result->m_values.folds == *folds && 0 <= *old_trials && *old_trials <= 1000000 && 1 <= nv_new_trials && nv_new_trials <= 1000000 \
                   && result->m_values.trials == *old_trials + nv_new_trials) \
/* pool_t::map(folds * new_trials, op): indices 0 .. elements - 1 (C17: map_index); for such an index the decoded pair is \
   trial = index / folds in [0, new_trials), fold = index % folds in [0, folds) (C13: tune::thread_callback, SMT over Int) */ \
__CPROVER_requires(0 <= index && 0 <= NV_IDIV(index, *folds) && NV_IDIV(index, *folds) < nv_new_trials && 0 <= NV_IMOD(index, *folds) && NV_IMOD(index, *folds) < *folds) \
/* the first batch of every tuning run has ONE trial: tuner_t::optimize (non-virtual, src/tuner.cpp) starts with \
   evaluate(.., igrids_t{avg_igrid}, ..); without parameter spaces ml::tune calls the lambda with tensor2d_t{1, 0} */ \
__CPROVER_requires(*old_trials >= 1 || nv_new_trials == 1) \
__CPROVER_requires(!nv_rd_any) \
__CPROVER_assigns(nv_other_cell, nv_thrown, nv_rd_any, nv_rd_index, nv_closest, nv_cb_effects; \
                  (NV_TASK_TRIAL == nv_gt && NV_TASK_FOLD == nv_gf): result->m_values.g; \
                  (NV_TSLOT(NV_TASK_TRIAL) == nv_gi): result->m_extras.g) \
/* read set: the only m_extras slot a task reads belongs to a COMPLETED batch (trial < old_trials) or is its own */ \
__CPROVER_ensures(nv_thrown || !nv_rd_any ||  (nv_rd_index == NV_TSLOT(nv_closest) && (nv_closest < *old_trials || nv_closest == NV_TASK_TRIAL)))
