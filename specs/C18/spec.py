"""C18 -- shared const objects: frame conditions ("who may be written") of the const interface the library shares across
threads.  See DESIGN.md C18 and the module docstring of frame.py for the method."""
import astload
from core import Fn, Target, VC
import frame

SOLVER_H = 'specs/C18/solver.h'


CLONABLE = {f'{ns}clonable_t<nano::{c}>': None for ns in ('', 'nano::') for c in
            ('lsearch0_t', 'lsearchk_t', 'solver_t', 'function_t', 'loss_t', 'wlearner_t', 'generator_t', 'splitter_t', 'tuner_t', 'datasource_t')}
LS_PTR = [(r'^nano::lsearch0_t$', 'struct nv_ls0'), (r'^nano::lsearchk_t$', 'struct nv_lsk')]


def solver_layout(types, tu='src/solver.cpp', solver_cls='nano::solver_t'):
    """struct nv_solver is read from the class the target is about (solver_t, or the derived solver whose body is checked:
    base-class fields first, so a member added anywhere in the hierarchy is part of the frame)"""
    base = 'src/solver.cpp'
    return frame.Layout([
        dict(tu=base, cls='nano::lsearch0_t', cname='struct nv_ls0', bases=CLONABLE),
        dict(tu=base, cls='nano::lsearchk_t', cname='struct nv_lsk', bases=CLONABLE),
        dict(tu=base, cls='nano::lsearch_t', cname='struct nv_lsearch', bases=CLONABLE, ptr=LS_PTR),
        dict(tu=base, cls='nano::function_t', cname='struct nv_function', bases=CLONABLE),
        dict(tu=tu, cls=solver_cls, cname='struct nv_solver', bases=CLONABLE, ptr=LS_PTR)], types=types, base_tu=base)


STYPES = [(r'^nano::solver_t$|^nano::solver_(gd|cgd|lbfgs|quasi)\w*_t$', 'struct nv_solver'), (r'^nano::lsearch_t$', 'struct nv_lsearch'),
          (r'^nano::function_t$', 'struct nv_function'),
          (r'^(nano::)?rlsearch0_t$|^std::unique_ptr<nano::lsearch0_t', 'struct nv_ls0*'),
          (r'^(nano::)?rlsearchk_t$|^std::unique_ptr<nano::lsearchk_t', 'struct nv_lsk*'),
          (r'^(nano::)?lsearch0_t$', 'struct nv_ls0'), (r'^(nano::)?lsearchk_t$', 'struct nv_lsk'),
          (r'^nano::logger_t$', 'struct nv_logger'), (r'^nano::quasi_initialization$', 'int32_t'),
          (r'^std::tuple<bool, double>$|lsearchk_t::result_t$', 'struct nv_tuple_b_f64'),
          (r'std::tuple_element<0, (const )?std::tuple<bool, double>>::type', '_Bool'),
          (r'std::tuple_element<1, (const )?std::tuple<bool, double>>::type', 'double')]
SOLVER_ERASED = frame.ERASED + [r'^(nano::)?solver_state_t$', r'^std::deque<', r'^std::vector<', r'__alloc_traits<.*::value_type$']
SCALLS = [(r'^operator->\|', '{0}'), (r'^move\|', '{0}'), (r'^ctor\|nano::lsearch_t\|', 'nv_lsearch_make({&0}, {&1})'),
          (r'^(fabs|abs|sqrt|exp|log)\|', 'nv_pure1({0})'), (r'^(max|min|pow)\|', 'nv_pure2({0}, {1})'), (r'^clamp\|', 'nv_pure3({0}, {1}, {2})')]
SMEMBERS = [(r'^clone\|.*lsearch0_t', 'nv_ls0_clone'), (r'^clone\|.*lsearchk_t', 'nv_lsk_clone'),
            (r'^size\|nano::function_t', '{self}->m_size'), (r'^fcalls\|nano::function_t', '{self}->m_fcalls'),
            (r'^gcalls\|nano::function_t', '{self}->m_gcalls'), (r'^clear_statistics\|nano::function_t', 'function_clear_statistics'),
            (r'^(info|warn|error)\|nano::logger_t', '@drop'), (r'^done\|nano::solver_t', 'solver_done'),
            (r'^make_lsearch\|', 'solver_make_lsearch'), (r'^get\|nano::lsearch_t', 'lsearch_get'),
            (r'^get\|.*lsearch0_t', 'nv_ls0_get({self}, {&0}, {&1}, {2})'), (r'^get\|.*lsearchk_t', 'nv_lsk_get({self}, {&0}, {&1}, {2}, {&3})'),
            (r'^do_minimize\|', 'nv_do_minimize'), (r'^beta\|', 'nv_cgd_beta'), (r'^update\|nano::solver_quasi_t', 'nv_quasi_update')]

BODIES = [('gd_do_minimize', 'src/solver/gd.cpp', 'solver_gd_t'), ('cgd_do_minimize', 'src/solver/cgd.cpp', 'solver_cgd_t'),
          ('lbfgs_do_minimize', 'src/solver/lbfgs.cpp', 'solver_lbfgs_t'), ('quasi_do_minimize', 'src/solver/quasi.cpp', 'solver_quasi_t')]
CGD_BETAS = ['hs', 'fr', 'pr', 'cd', 'ls', 'dy', 'n', 'dycd', 'dyhs', 'frpr']
QUASI_UPDATES = ['sr1', 'dfp', 'bfgs', 'hoshino', 'fletcher']


def solver_targets():
    def common():
        track = frame.make_track(lvalue_hooks=[frame.param_ref_hook()])
        return dict(types=STYPES, opaque=SOLVER_ERASED, hooks=[frame.param_ref_hook()], stmt_hooks=[track.stmt_hook], uf_float=False,
                    calls=SCALLS, members=SMEMBERS, aggregates=['struct nv_tuple_b_f64'])
    ctor = lambda: Fn('lsearch_ctor', 'src/solver/lsearch.cpp', 'lsearch_t', flt='nano::lsearch_t::lsearch_t', kinds=('CXXConstructorDecl',),
                      self_struct='struct nv_lsearch', **common())
    mk = lambda: Fn('solver_make_lsearch', 'src/solver.cpp', 'make_lsearch', flt='nano::solver_t::make_lsearch', self_struct='struct nv_solver', **common())
    done = lambda: Fn('solver_done', 'src/solver.cpp', 'done', flt='nano::solver_t::done', self_struct='struct nv_solver', **common())
    lsget = lambda: Fn('lsearch_get', 'src/solver/lsearch.cpp', 'get', flt='nano::lsearch_t::get', self_struct='struct nv_lsearch', **common())
    clr = lambda: Fn('function_clear_statistics', 'src/function.cpp', 'clear_statistics', flt='nano::function_t::clear_statistics',
                     self_struct='struct nv_function', **common())
    mini = Fn('solver_minimize', 'src/solver.cpp', 'minimize', flt='nano::solver_t::minimize', self_struct='struct nv_solver', **common())
    pre = solver_layout(STYPES).text
    T = lambda *a, **k: Target(*a, checks=frame.CHECKS, **k)
    ts = [T('solver_make_lsearch', [mk(), ctor()], SOLVER_H, pre=pre),
          T('lsearch_ctor', [ctor()], SOLVER_H, pre=pre),
          T('lsearch_get', [lsget()], SOLVER_H, pre=pre),
          T('solver_done', [done()], SOLVER_H, pre=pre),
          T('function_clear_statistics', [clr()], SOLVER_H, pre=pre),
          T('solver_minimize', [mini, clr()], SOLVER_H, pre=pre, replace=['nv_do_minimize'])]
    for cname, tu, cls in BODIES:
        body = Fn(cname, tu, 'do_minimize', flt=f'nano::{cls}::do_minimize', self_struct='struct nv_solver', **common())
        ts.append(T(cname, [body, done(), mk(), ctor(), lsget()], SOLVER_H, pre=solver_layout(STYPES, tu, f'nano::{cls}').text,
                         replace=['nv_cgd_beta', 'nv_quasi_update'], enums=[(tu, 'nano::quasi_initialization')] if 'quasi' in cname else []))
    # virtual const helpers used by contract in the bodies above: every implementation against the same frame
    for k in CGD_BETAS:
        f = Fn(f'cgd_beta_{k}', 'src/solver/cgd.cpp', 'beta', flt=f'nano::solver_cgd_{k}_t::beta', self_struct='struct nv_solver', **common())
        ts.append(T(f'cgd_beta_{k}', [f], SOLVER_H, pre=solver_layout(STYPES, 'src/solver/cgd.cpp', f'nano::solver_cgd_{k}_t').text))
    for k in QUASI_UPDATES:
        f = Fn(f'quasi_update_{k}', 'src/solver/quasi.cpp', 'update', flt=f'nano::solver_quasi_{k}_t::update', self_struct='struct nv_solver', **common())
        ts.append(T(f'quasi_update_{k}', [f], SOLVER_H, pre=solver_layout(STYPES, 'src/solver/quasi.cpp', f'nano::solver_quasi_{k}_t').text))
    return ts


def build(tier):
    targets = solver_targets()
    return {'targets': targets, 'vcs': [], 'decided': [], 'not_decided': [], 'assumptions': [], 'trusted': []}
