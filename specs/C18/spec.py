"""C18 -- shared const objects: frame conditions ("who may be written") of the const interface the library shares across
threads.  See DESIGN.md C18 and the module docstring of frame.py for the method.

Two kinds of targets:
  (1) SHARED, READ-ONLY: a function of the const interface of an object that several fold / trial / chunk tasks use at the
      same time (solver, loss, dataset, iterators' cached parts, fitted weak learners) is put under a DFCC contract whose
      assigns clause contains nothing of that object (and nothing of the objects it owns through pointers);
  (2) WRITTEN BY DESIGN, DISJOINTLY: a task body writes only slot [tnum] of the per-thread buffers / accumulators, or only
      rows [begin, end) of a per-sample tensor (stated at a ghost row), or only slot (trial, fold) of the tuning result.
Everything about interleavings themselves (the pool's synchronisation, "two running tasks have different tnum") is C17's
sequential protocol view and stays not_decided here.
"""
import astload
from core import Fn, Target, VC
import frame
import functional
import generators
import learners


def T(*a, **k):
    return Target(*a, checks=frame.CHECKS, **k)


def mg(*parts):
    """select a definition by (parts of) its mangled name: coarse ast-dump filters keep the number of clang runs small"""
    return lambda d: all(p in (d.get('mangledName') or '') for p in parts)


def nparams(k):
    return lambda d: len(astload.param_types(d)) == k


CLONABLE = {f'{ns}clonable_t<nano::{c}>': None for ns in ('', 'nano::') for c in
            ('lsearch0_t', 'lsearchk_t', 'solver_t', 'function_t', 'loss_t', 'wlearner_t', 'generator_t', 'splitter_t', 'tuner_t', 'datasource_t')}

# ------------------------------------------------------------------------------------------ solver
SOLVER_H = 'specs/C18/solver.h'
STU = 'src/solver.cpp'
LS_PTR = [(r'^nano::lsearch0_t$', 'struct nv_ls0'), (r'^nano::lsearchk_t$', 'struct nv_lsk')]
STYPES = [(r'^nano::solver_t$|^nano::solver_(gd|cgd|lbfgs|quasi|sgm|cocob|osga|ellipsoid|pgm|dgm|fgm|asga|pdsgm|universal)\w*_t$', 'struct nv_solver'), (r'^nano::lsearch_t$', 'struct nv_lsearch'),
          (r'^nano::function_t$', 'struct nv_function'),
          (r'^(nano::)?rlsearch0_t$|^std::unique_ptr<nano::lsearch0_t', 'struct nv_ls0*'),
          (r'^(nano::)?rlsearchk_t$|^std::unique_ptr<nano::lsearchk_t', 'struct nv_lsk*'),
          (r'^(nano::)?lsearch0_t$', 'struct nv_ls0'), (r'^(nano::)?lsearchk_t$', 'struct nv_lsk'),
          (r'^nano::logger_t$', 'struct nv_logger'), (r'^nano::quasi_initialization$', 'int32_t'),
          (r'^std::tuple<bool, double>$|lsearchk_t::result_t$', 'struct nv_tuple_b_f64'),
          (r'std::tuple_element<0, (const )?std::tuple<bool, double>>::type', '_Bool'),
          (r'std::tuple_element<1, (const )?std::tuple<bool, double>>::type', 'double')]
SOLVER_ERASED = frame.ERASED + [r'^(nano::)?solver_state_t$', r'^std::deque<', r'^std::vector<', r'__alloc_traits<.*::value_type$']
PURE = [(r'^(fabs|abs|sqrt|exp|log|isfinite)\|.*#1$', 'nv_pure1({0})'), (r'^(max|min|pow)\|.*#2$', 'nv_pure2({0}, {1})'), (r'^clamp\|.*#3$', 'nv_pure3({0}, {1}, {2})'),
        (r'^(max|min|lowest|epsilon|quiet_NaN|infinity)\|[^|]*\(\) noexcept', '@nondet')]
# scalar helper functions of the solver TUs (pure functions of doubles: src/solver/asga.cpp solve_sk1, nano::epsilon0 ..)
SCALLS = [(r'^operator->\|', '{0}'), (r'^move\|', '{0}'), (r'^ctor\|nano::lsearch_t\|', 'nv_lsearch_make({&0}, {&1})'),
          (r'^solve_sk1\|double \(', 'nv_pure3({0}, {1}, {2})'), (r'^epsilon[0-3]\|double \(\)', '@nondet')] + PURE
SMEMBERS = [(r'^clone\|.*lsearch0_t', 'nv_ls0_clone'), (r'^clone\|.*lsearchk_t', 'nv_lsk_clone'),
            (r'^size\|nano::function_t', '{self}->m_size'), (r'^fcalls\|nano::function_t', '{self}->m_fcalls'),
            (r'^gcalls\|nano::function_t', '{self}->m_gcalls'), (r'^vgrad\|nano::function_t\|#2', 'nv_fn_vgrad2({self}, {0}, {1})'),
            (r'^smooth\|nano::function_t', '@nondet'), (r'^strong_convexity\|nano::function_t', '{self}->m_strong_convexity'), (r'^clear_statistics\|nano::function_t', 'function_clear_statistics'),
            (r'^(info|warn|error)\|nano::logger_t', '@drop'), (r'^done\|nano::solver_t', 'solver_done'),
            (r'^make_lsearch\|', 'solver_make_lsearch'), (r'^get\|nano::lsearch_t', 'lsearch_get'),
            (r'^get\|(const )?std::unique_ptr<', '(*{self})'),
            (r'^get\|.*lsearch0_t', 'nv_ls0_get({self}, {&0}, {&1}, {2})'), (r'^get\|.*lsearchk_t', 'nv_lsk_get({self}, {&0}, {&1}, {2}, {&3})'),
            (r'^do_minimize\|', 'nv_do_minimize'), (r'^beta\|', 'nv_cgd_beta'), (r'^update\|nano::solver_quasi_t', 'nv_quasi_update')]
# (c name, TU, ast-dump filter, class of the body, base classes that live in that TU)
BODIES = [('gd_do_minimize', 'src/solver/gd.cpp', 'nano::solver_gd_t', 'nano::solver_gd_t', ()),
          ('cgd_do_minimize', 'src/solver/cgd.cpp', 'nano::solver_cgd_', 'nano::solver_cgd_t', ()),
          ('lbfgs_do_minimize', 'src/solver/lbfgs.cpp', 'nano::solver_lbfgs_t', 'nano::solver_lbfgs_t', ()),
          ('quasi_do_minimize', 'src/solver/quasi.cpp', 'nano::solver_quasi_', 'nano::solver_quasi_t', ()),
          ('sgm_do_minimize', 'src/solver/sgm.cpp', 'nano::solver_sgm_t', 'nano::solver_sgm_t', ()),
          ('cocob_do_minimize', 'src/solver/cocob.cpp', 'nano::solver_cocob_t', 'nano::solver_cocob_t', ())]
# bodies whose loop frames are generated (frame.auto_loop_frames): every local in scope + the caller's function object
AUTO_BODIES = [('osga_do_minimize', 'src/solver/osga.cpp', 'nano::solver_osga_t', 'nano::solver_osga_t'),
               ('ellipsoid_do_minimize', 'src/solver/ellipsoid.cpp', 'nano::solver_ellipsoid_t', 'nano::solver_ellipsoid_t'),
               ('pgm_do_minimize', 'src/solver/universal.cpp', 'nano::solver_', 'nano::solver_pgm_t'),
               ('dgm_do_minimize', 'src/solver/universal.cpp', 'nano::solver_', 'nano::solver_dgm_t'),
               ('fgm_do_minimize', 'src/solver/universal.cpp', 'nano::solver_', 'nano::solver_fgm_t'),
               ('asga2_do_minimize', 'src/solver/asga.cpp', 'nano::solver_asga', 'nano::solver_asga2_t'),
               ('asga4_do_minimize', 'src/solver/asga.cpp', 'nano::solver_asga', 'nano::solver_asga4_t'),
               ('pdsgm_do_minimize', 'src/solver/pdsgm.cpp', 'nano::solver_pdsgm_t', 'nano::solver_pdsgm_t')]
CGD_BETAS = ['hs', 'fr', 'pr', 'cd', 'ls', 'dy', 'n', 'dycd', 'dyhs', 'frpr']
QUASI_UPDATES = ['sr1', 'dfp', 'bfgs', 'hoshino', 'fletcher']


def solver_layout(tu=STU, flt='nano::solver_t', solver_cls='nano::solver_t', local_bases=()):
    """struct nv_solver is read from the class the target is about (solver_t, or the derived solver whose body is checked:
    base-class fields first, so a member added anywhere in the hierarchy is part of the frame)"""
    bases = dict(CLONABLE)
    for b in local_bases:
        bases[b] = (tu, flt)
    return frame.Layout([
        dict(tu=STU, cls='nano::lsearch0_t', flt='nano::lsearch', cname='struct nv_ls0', bases=bases),
        dict(tu=STU, cls='nano::lsearchk_t', flt='nano::lsearch', cname='struct nv_lsk', bases=bases),
        dict(tu=STU, cls='nano::lsearch_t', flt='nano::lsearch', cname='struct nv_lsearch', bases=bases, ptr=LS_PTR),
        dict(tu=STU, cls='nano::function_t', cname='struct nv_function', bases=bases),
        dict(tu=tu, cls=solver_cls, flt=flt, cname='struct nv_solver', bases=bases, ptr=LS_PTR)], types=STYPES, base_tu=STU).text


def solver_targets():
    def common():
        track = frame.make_track(lvalue_hooks=[frame.param_ref_hook()])
        return dict(types=STYPES, opaque=SOLVER_ERASED, hooks=[frame.param_ref_hook(), track.expr_hook], stmt_hooks=[track.stmt_hook], uf_float=True,
                    calls=SCALLS, members=SMEMBERS, aggregates=['struct nv_tuple_b_f64'])
    LTU = 'src/solver/lsearch.cpp'
    ctor = lambda: Fn('lsearch_ctor', LTU, 'lsearch_t', flt='nano::lsearch_t', kinds=('CXXConstructorDecl',), self_struct='struct nv_lsearch', **common())
    lsget = lambda: Fn('lsearch_get', LTU, 'get', flt='nano::lsearch_t', self_struct='struct nv_lsearch', **common())
    mk = lambda: Fn('solver_make_lsearch', STU, 'make_lsearch', flt='nano::solver_t', self_struct='struct nv_solver', **common())
    done = lambda: Fn('solver_done', STU, 'done', flt='nano::solver_t', self_struct='struct nv_solver', **common())
    clr = lambda: Fn('function_clear_statistics', 'src/function.cpp', 'clear_statistics', flt='nano::function_t::clear_statistics',
                     self_struct='struct nv_function', **common())
    mini = Fn('solver_minimize', STU, 'minimize', flt='nano::solver_t', self_struct='struct nv_solver', **common())
    pre = solver_layout()
    ts = [T('solver_make_lsearch', [mk(), ctor()], SOLVER_H, pre=pre),
          T('lsearch_ctor', [ctor()], SOLVER_H, pre=pre),
          T('lsearch_get', [lsget()], SOLVER_H, pre=pre),
          T('solver_done', [done()], SOLVER_H, pre=pre),
          T('function_clear_statistics', [clr()], SOLVER_H, pre=pre),
          T('solver_minimize', [mini, clr()], SOLVER_H, pre=pre, replace=['nv_do_minimize'])]
    for cname, tu, flt, cls, lb in BODIES:
        body = Fn(cname, tu, 'do_minimize', flt=flt, self_struct='struct nv_solver', **common())
        ts.append(T(cname, [body, done(), mk(), ctor(), lsget()], SOLVER_H, pre=solver_layout(tu, flt, cls, lb),
                    replace=['nv_cgd_beta', 'nv_quasi_update'], enums=[(tu, 'nano::quasi_initialization')] if 'quasi' in cname else []))
    for cname, tu, flt, cls in AUTO_BODIES:
        c = common()
        c['hooks'] = c['hooks'][:-1] + [c['stmt_hooks'][0].__self__.field_hook] + c['hooks'][-1:]
        c['opaque'] = SOLVER_ERASED + [r'proxy_t$', r'model_t$', r'^(nano::)?universal']
        short = cls.split('::')[-1]
        body = Fn(cname, tu, 'do_minimize', flt=flt, select=mg(f'{short}11do_minimize'), self_struct='struct nv_solver', **c)
        local_bases = {'src/solver/universal.cpp': ('nano::solver_universal_t',), 'src/solver/asga.cpp': ('nano::solver_asga_t',)}.get(tu, ())
        base_pre = solver_layout(tu, flt, cls, local_bases)

        def pre(bp=base_pre, body=body, cname=cname):
            text, info = bp()
            loops = frame.auto_loop_frames(body, extra='NV_FN_LOOP_ASSIGNS')
            return text + f'#define NV_CONTRACT_{cname} NV_MINIMIZE_FRAME(function)\n' + loops, info
        ts.append(T(cname, [body, done()], SOLVER_H, pre=pre))
    # virtual const helpers used by contract in the bodies above: every implementation against the same frame
    for k in CGD_BETAS:
        f = Fn(f'cgd_beta_{k}', 'src/solver/cgd.cpp', 'beta', flt='nano::solver_cgd_', select=mg(f'solver_cgd_{k}_t4beta'), self_struct='struct nv_solver', **common())
        ts.append(T(f'cgd_beta_{k}', [f], SOLVER_H,
                    pre=solver_layout('src/solver/cgd.cpp', 'nano::solver_cgd_', f'nano::solver_cgd_{k}_t', ('nano::solver_cgd_t',))))
    for k in QUASI_UPDATES:
        f = Fn(f'quasi_update_{k}', 'src/solver/quasi.cpp', 'update', flt='nano::solver_quasi_', select=mg(f'solver_quasi_{k}_t6update'), self_struct='struct nv_solver', **common())
        ts.append(T(f'quasi_update_{k}', [f], SOLVER_H,
                    pre=solver_layout('src/solver/quasi.cpp', 'nano::solver_quasi_', f'nano::solver_quasi_{k}_t', ('nano::solver_quasi_t',))))
    return ts


# ------------------------------------------------------------------------------------------ dataset iterators
ITU = 'src/dataset/iterator.cpp'
IFLT = 'iterator_t'
DS_H = 'specs/C18/dataset2.h'
DTYPES = [(r'^nano::dataset_t$', 'struct nv_dataset'), (r'^nano::targets_iterator_t$', 'struct nv_titer'),
          (r'^nano::flatten_iterator_t$', 'struct nv_fiter'), (r'^nano::select_iterator_t$', 'struct nv_siter'),
          (r'^nano::select_iterator_t::buffer_t$|^buffer_t$', 'struct nv_selbuf'),
          (r'^std::vector<nano::tensor_t<nano::tensor_vector_storage_t, double, \d', 'struct nv_slots'),
          (r'^std::vector<nano::select_iterator_t::buffer_t', 'struct nv_selbufs'),
          (r'^std::vector<std::unique_ptr<nano::generator_t', 'struct nv_gens'),
          (r'^std::unique_ptr<nano::generator_t|^(nano::)?rgenerator_t$', 'struct nv_generator*'), (r'^nano::generator_t$', 'struct nv_generator'),
          (r'^std::function<|_callback_t$', 'struct nv_cb'), (r'^nano::parallel::pool_t$', 'struct nv_pool'),
          (r'^nano::datasource_t$', 'struct nv_datasource')]
DPTR = [(r'^nano::dataset_t$', 'struct nv_dataset'), (r'^nano::datasource_t$', 'struct nv_datasource'),
        (r'^nano::parallel::pool_t$', 'struct nv_pool'), (r'^nano::generator_t$', 'struct nv_generator')]


def dataset_layout(tu=ITU, iterators=True):
    cl = [dict(tu=tu, cls='nano::generator_t', cname='struct nv_generator', bases=CLONABLE, ptr=DPTR),
          dict(tu=tu, cls='nano::dataset_t', cname='struct nv_dataset', bases=CLONABLE, ptr=DPTR)]
    if iterators:
        cl += [dict(tu=tu, cls='nano::select_iterator_t::buffer_t', cname='struct nv_selbuf', flt=IFLT, bases=CLONABLE, ptr=DPTR),
               dict(text='NV_SELBUFS'),
               dict(tu=tu, cls='nano::targets_iterator_t', cname='struct nv_titer', flt=IFLT, bases=CLONABLE, ptr=DPTR),
               dict(tu=tu, cls='nano::flatten_iterator_t', cname='struct nv_fiter', flt=IFLT, bases=CLONABLE, ptr=DPTR),
               dict(tu=tu, cls='nano::select_iterator_t', cname='struct nv_siter', flt=IFLT, bases=CLONABLE, ptr=DPTR)]
    bases = dict(CLONABLE)
    bases.update({'nano::base_dataset_iterator_t': IFLT, 'nano::targets_iterator_t': IFLT})
    for c in cl:
        if 'text' not in c:
            c['bases'] = bases
    lay = frame.Layout(cl, types=DTYPES, base_tu=tu)

    def pre():
        text, info = lay.text()
        return f'#include "{astload.VERIF}/specs/C18/dataset.h"\n' + text, info
    return pre


ICALLS = [(r'^operator\[\]\|.*\|std::vector<nano::tensor_t<', '(*nv_slot_at({&0}, {1}))'),
          (r'^operator\[\]\|.*\|std::vector<nano::select_iterator_t::buffer_t', '(*nv_selbuf_at({&0}, {1}))'),
          (r'^operator\(\)\|.*\|(const )?std::function<.*#4$', 'nv_callback3({&0}, {1}, {2}, {3})'),
          (r'^operator\(\)\|.*\|(const )?std::function<.*#5$', 'nv_callback4({&0}, {1}, {2}, {3}, {4})')]
IMEMBERS = [(r'^dataset\|nano::base_dataset_iterator_t', '(*{self}->m_dataset)'),
            (r'^targets\|nano::dataset_t', 'nv_dataset_targets({self}, {0}, {&1})'),
            (r'^flatten\|nano::dataset_t', 'nv_dataset_flatten({self}, {0}, {&1})'),
            (r'^select\|nano::dataset_t', 'nv_dataset_select({self}, {0}, {1}, {&2})'),
            (r'^targets\|nano::targets_iterator_t \*\|#1', 'titer_targets_map((struct nv_titer*){self}, {0})'),
            (r'^targets\|nano::targets_iterator_t \*\|#2', 'titer_targets((struct nv_titer*){self}, {0}, {&1})'),
            (r'^flatten\|nano::flatten_iterator_t \*\|#1', 'fiter_flatten_map({self}, {0})'),
            (r'^flatten\|nano::flatten_iterator_t \*\|#2', 'fiter_flatten({self}, {0}, {&1})'),
            (r'^samples\|nano::targets_iterator_t \*', '{self}->m_samples'),
            (r'^size\|std::vector<nano::(tensor_t<|select_iterator_t::buffer_t)', '{self}->n'),
            (r'^scaling\|nano::targets_iterator_t \*', '{self}->m_scaling')]
SELECT_KINDS = ['sclass', 'mclass', 'scalar', 'struct']


def iterator_targets():
    pre = dataset_layout()

    def common(self_struct):
        track = frame.make_track()
        return dict(types=DTYPES, opaque=frame.ERASED, stmt_hooks=[track.stmt_hook], hooks=[track.expr_hook], uf_float=True, self_struct=self_struct,
                    calls=ICALLS, members=IMEMBERS)
    tmap = lambda: Fn('titer_targets_map', ITU, 'targets', flt=IFLT, select=lambda d: mg('targets_iterator_t7targets')(d) and nparams(1)(d), **common('struct nv_titer'))
    tget = lambda: Fn('titer_targets', ITU, 'targets', flt=IFLT, select=lambda d: mg('targets_iterator_t7targets')(d) and nparams(2)(d), **common('struct nv_titer'))
    fmap = lambda: Fn('fiter_flatten_map', ITU, 'flatten', flt=IFLT, select=lambda d: mg('flatten_iterator_t7flatten')(d) and nparams(1)(d), **common('struct nv_fiter'))
    fget = lambda: Fn('fiter_flatten', ITU, 'flatten', flt=IFLT, select=lambda d: mg('flatten_iterator_t7flatten')(d) and nparams(2)(d), **common('struct nv_fiter'))
    ts = [T('titer_targets', [tget(), tmap()], DS_H, pre=pre), T('titer_targets_map', [tmap()], DS_H, pre=pre),
          T('fiter_flatten', [fget(), fmap()], DS_H, pre=pre), T('fiter_flatten_map', [fmap()], DS_H, pre=pre)]
    loops = [('fiter_loop_ft_task', lambda d: mg('flatten_iterator_t4loop')(d) and 'flatten_targets_callback_t' in astload.param_types(d)[0], 'struct nv_fiter'),
             ('fiter_loop_f_task', lambda d: mg('flatten_iterator_t4loop')(d) and 'flatten_callback_t' in astload.param_types(d)[0], 'struct nv_fiter'),
             ('titer_loop_task', mg('targets_iterator_t4loop'), 'struct nv_titer')]
    for cname, sel, st in loops:
        task = Fn(cname, ITU, 'loop', flt=IFLT, select=sel, lambda_index=0, captures=True, **common(st))
        ts.append(T(cname, [task, tget(), tmap()] + ([fget(), fmap()] if 'fiter' in cname else []), DS_H, pre=pre))
    # select_iterator_t: loop(samples, features, callback) chunk tasks and loop(samples, ifeature, callback) (tnum = 0 on the
    # caller's own iterator)
    for kind in SELECT_KINDS:
        cb = f'{kind}_callback_t'
        par = lambda d, cb=cb: mg('select_iterator_t4loop')(d) and len(astload.param_types(d)) == 3 and cb in astload.param_types(d)[2] \
            and 'indices_cmap_t' in astload.param_types(d)[1]
        one = lambda d, cb=cb: mg('select_iterator_t4loop')(d) and len(astload.param_types(d)) == 3 and cb in astload.param_types(d)[2] \
            and 'tensor_size_t' in astload.param_types(d)[1]
        task = Fn(f'siter_loop_{kind}_task', ITU, 'loop', flt=IFLT, select=par, lambda_index=0, captures=True, **common('struct nv_siter'))
        single = Fn(f'siter_loop1_{kind}', ITU, 'loop', flt=IFLT, select=one, **common('struct nv_siter'))
        ts += [T(f'siter_loop_{kind}_task', [task], DS_H, pre=pre), T(f'siter_loop1_{kind}', [single], DS_H, pre=pre)]
    return ts


# ------------------------------------------------------------------------------------------ objective functions (chunk tasks)
OBJ_H = 'specs/C18/objective2.h'
OTYPES = [(r'__alloc_traits<std::allocator<nano::linear::accumulator_t>.*::value_type$', 'struct nv_lacc'),
          (r'__alloc_traits<std::allocator<nano::gboost::accumulator_t>.*::value_type$', 'struct nv_gacc'),
          (r'^nano::linear::function_t$', 'struct nv_lfun'), (r'^nano::gboost::(scale|bias|grads)_function_t$', 'struct nv_gfun'),
          (r'^nano::linear::accumulator_t$', 'struct nv_lacc'), (r'^nano::gboost::accumulator_t$', 'struct nv_gacc'),
          (r'^std::vector<nano::linear::accumulator_t', 'struct nv_laccs'), (r'^std::vector<nano::gboost::accumulator_t', 'struct nv_gaccs'),
          (r'^(nano::)?tensor_range_t$', 'struct nv_range'), (r'^nano::loss_t$', 'struct nv_loss'),
          (r'^nano::flatten_iterator_t$', 'struct nv_fiter'), (r'^nano::targets_iterator_t$', 'struct nv_titer')]
OPTR = [(r'^nano::loss_t$', 'struct nv_loss'), (r'^nano::flatten_iterator_t$', 'struct nv_fiter'), (r'^nano::targets_iterator_t$', 'struct nv_titer')]
ROWS = {'m_values': 'struct nv_rows', 'm_vgrads': 'struct nv_rows', 'm_outputs': 'struct nv_rows'}
OBJ_ERASED = [r for r in frame.ERASED if 'tensor_range_t' not in r]


def objective_layout(tu, flt, fun_cls, fun_cname, acc_cls, acc_cname):
    bases = dict(CLONABLE)
    bases.update({'nano::function_t': (STU, 'nano::function_t'), 'nano::typed_t': (STU, 'nano::typed_t')})
    lay = frame.Layout([
        dict(tu='src/loss.cpp', cls='nano::loss_t', cname='struct nv_loss', bases=CLONABLE),
        dict(tu='src/linear/function.cpp', cls='nano::linear::accumulator_t', cname='struct nv_lacc', bases=bases),
        dict(tu='src/gboost/function.cpp', cls='nano::gboost::accumulator_t', cname='struct nv_gacc', bases=bases),
        dict(text='NV_ACCS'),
        dict(tu=tu, cls=fun_cls, flt=flt, cname=fun_cname, bases=bases, ptr=OPTR, fields=ROWS if 'gboost' in fun_cls else {})],
        types=OTYPES, base_tu='src/loss.cpp')

    def pre():
        text, info = lay.text()
        return f'#include "{astload.VERIF}/specs/C18/objective.h"\n' + text, info
    return pre, lay


def objective_targets():
    ts = []

    def common(lay, self_struct, rows=()):
        rsh = frame.rows_slice_hook(set(rows))
        track = frame.make_track(rows_fields=rows, effect_hooks=[rsh])
        return dict(types=OTYPES, opaque=OBJ_ERASED, stmt_hooks=[track.stmt_hook], uf_float=True, self_struct=self_struct,
                    hooks=[rsh, frame.ref_member_hook(lay.ref_fields), track.expr_hook],
                    calls=[(r'^operator\[\]\|.*\|std::vector<nano::linear::accumulator_t', '(*nv_lacc_at({&0}, {1}))'),
                           (r'^operator\[\]\|.*\|std::vector<nano::gboost::accumulator_t', '(*nv_gacc_at({&0}, {1}))')] + PURE,
                    members=[(r'^(value|vgrad|error)\|nano::loss_t\|#3', 'nv_loss_call({self}, {0}, {1}, {&2})'),
                             (r'^update\|nano::gboost::accumulator_t', 'nv_gacc_update({self}, {0})'),
                             (r'^begin\|nano::tensor_range_t', '{self}->m_begin'), (r'^end\|nano::tensor_range_t', '{self}->m_end'),
                             (r'^size\|nano::tensor_range_t', '({self}->m_end - {self}->m_begin)')])
    LTU, GTU = 'src/linear/function.cpp', 'src/gboost/function.cpp'
    pre, lay = objective_layout(LTU, 'nano::linear::function_t', 'nano::linear::function_t', 'struct nv_lfun', 'nano::linear::accumulator_t', 'struct nv_lacc')
    f = Fn('linear_vgrad_task', LTU, 'do_vgrad', flt='nano::linear::function_t', lambda_index=0, captures=True, **common(lay, 'struct nv_lfun'))
    ts.append(T('linear_vgrad_task', [f], OBJ_H, pre=pre))
    for kind, name, li in (('scale', 'do_vgrad', 0), ('bias', 'do_vgrad', 0), ('grads', 'gradients', 0)):
        cls = f'nano::gboost::{kind}_function_t'
        pre, lay = objective_layout(GTU, 'nano::gboost::', cls, 'struct nv_gfun', 'nano::gboost::accumulator_t', 'struct nv_gacc')
        f = Fn(f'gboost_{kind}_task', GTU, name, flt='nano::gboost::', select=mg(f'{kind}_function_t'), lambda_index=li, captures=True,
               **common(lay, 'struct nv_gfun', rows=tuple(ROWS)))
        ts.append(T(f'gboost_{kind}_task', [f], OBJ_H, pre=pre))
    return ts


# ------------------------------------------------------------------------------------------ loss
LOSS_H = 'specs/C18/loss2.h'
LOSS_TU = 'src/loss.cpp'
LTYPES = [(r'^nano::flatten_loss_t<|^nano::pinball_loss_t$|^nano::loss_t$', 'struct nv_loss')]
LOSS_OUT = {'error': 'errors', 'value': 'values', 'vgrad': 'vgrads'}


QUICK_LOSSES = ('mse_absdiff', 'classnll_sclass', 'hinge_mclass')


def loss_targets(tier='quick'):
    import re
    ts = []

    def common():
        track = frame.make_track(lvalue_hooks=[frame.param_ref_hook()])
        return dict(types=LTYPES, opaque=frame.ERASED, hooks=[frame.param_ref_hook(), track.expr_hook], stmt_hooks=[track.stmt_hook], uf_float=True,
                    self_struct='struct nv_loss', calls=PURE,
                    members=[(r'^(error|value|vgrad)\|nano::(pinball_)?loss_t \*\|#3', 'nv_loss_virtual({self}, {0}, {1}, {2})')])

    def layout(tu, cls, flt, contracts):
        lay = frame.Layout([dict(tu=tu, cls=cls, flt=flt, cname='struct nv_loss', bases=dict(CLONABLE, **{'nano::loss_t': (LOSS_TU, 'nano::loss_t')}))],
                           types=LTYPES, base_tu=LOSS_TU)

        def pre():
            text, info = lay.text()
            return f'#include "{astload.VERIF}/specs/C18/loss.h"\n' + text + contracts, info
        return pre
    # every instantiation of flatten_loss_t<...>::{error, value, vgrad} that src/loss.cpp registers, read from the AST
    docs = astload.dump(LOSS_TU, 'flatten_loss_t')
    seen = set()
    for name in ('error', 'value', 'vgrad'):
        for d in astload.find_definitions(docs, name):
            m = re.search(r'flatten_loss_tINS_6detail\d+(\w+?)_tINS_4loss6detail\d+(\w+?)_tEEEE\d+' + name, d.get('mangledName') or '')
            if not m or (m.group(0)) in seen:
                continue
            seen.add(m.group(0))
            if tier != 'thorough' and f'{m.group(1)}_{m.group(2)}' not in QUICK_LOSSES:
                continue        # quick tier: one instantiation per kernel family (the template text is the same for all 16)
            cname = f'loss_{m.group(1)}_{m.group(2)}_{name}'
            f = Fn(cname, LOSS_TU, name, flt='flatten_loss_t', select=mg(m.group(0)), **common())
            contracts = f'#define NV_CONTRACT_{cname} NV_LOSS_FRAME\n#define NV_LOOP_{cname}_1 NV_LOSS_LOOP({LOSS_OUT[name]})\n'
            ts.append(T(cname, [f], LOSS_H, pre=layout(LOSS_TU, 'nano::flatten_loss_t', 'flatten_loss_t', contracts)))
    PTU = 'src/loss/pinball.cpp'
    for name in ('error', 'value', 'vgrad'):
        cname = f'loss_pinball_{name}'
        f = Fn(cname, PTU, name, flt='nano::pinball_loss_t', **common())
        contracts = f'#define NV_CONTRACT_{cname} NV_LOSS_FRAME\n#define NV_LOOP_{cname}_1 NV_LOSS_LOOP({LOSS_OUT[name]})\n'
        ts.append(T(cname, [f], LOSS_H, pre=layout(PTU, 'nano::pinball_loss_t', 'nano::pinball_loss_t', contracts), replace=['nv_loss_virtual']))
        w = Fn(f'loss_wrap_{name}', LOSS_TU, name, flt='nano::loss_t', select=lambda d: len(astload.param_types(d)) == 3 and astload.param_types(d)[2].rstrip().endswith('&'), **common())
        ts.append(T(f'loss_wrap_{name}', [w], LOSS_H, pre=layout(LOSS_TU, 'nano::loss_t', 'nano::loss_t', ''), replace=['nv_loss_virtual']))
    return ts


# ------------------------------------------------------------------------------------------ ml::tune / ml::result_t
TUNE_H = 'specs/C18/tune2.h'
RTU = 'src/machine/result.cpp'
TTU = 'src/machine/tune.cpp'
TTYPES = [(r'^nano::ml::result_t$', 'struct nv_result'), (r'^std::vector<std::any', 'struct nv_cells'),
          (r'^(nano::)?strings_t$|^std::vector<std::(__cxx11::)?basic_string', 'struct nv_cells'),
          (r'^std::function<|(^|::)tune_callback_t$', 'struct nv_cb')]
TUNE_ERASED = frame.ERASED + [r'^std::vector<std::pair<', r'^(nano::)?logger_t$', r'^(nano::)?tensor5d_t$',
                                                                   r'^(nano::)?param_spaces_t$', r'^std::vector<nano::param_space_t', r'^(nano::ml::)?stats_t$',
                                                                   r'^(nano::)?splitter_t::splits_t$', r'::value_type$']
GRID = {'m_values': 'struct nv_grid'}


def tune_targets():
    lay = frame.Layout([dict(tu=RTU, cls='nano::ml::result_t', cname='struct nv_result', bases=CLONABLE, fields=GRID)], types=TTYPES, base_tu=RTU)

    def pre():
        text, info = lay.text()
        return f'#include "{astload.VERIF}/specs/C18/tune.h"\n' + text, info

    def common(**kw):
        gh = frame.grid_cell_hook(set(GRID))
        track = frame.make_track(rows_fields=tuple(GRID), effect_hooks=[gh])
        d = dict(types=TTYPES, opaque=TUNE_ERASED, hooks=[gh, frame.uf_int_hook, track.expr_hook], stmt_hooks=[track.stmt_hook], uf_float=True,
                 calls=[(r'^operator\[\]\|[^|]*const_reference[^|]*\|.*std::vector<std::any', '(*nv_cell_rd({&0}, {1}))'),
                        (r'^operator\[\]\|[^|]*\|.*std::vector<std::any', '(*nv_cell_at({&0}, {1}))'),
                        (r'^operator\[\]\|[^|]*const_reference[^|]*\|.*(strings_t|std::vector<std::(__cxx11::)?basic_string)', '(*nv_path_rd({&0}, {1}))'),
                        (r'^operator\(\)\|.*\|(const )?(std::function<|nano::ml::tune_callback_t).*#6$', 'nv_user_callback({&0}, {1}, {2}, {3}, {4}, {5})'),
                        (r'^make_file_logger\|', 'nv_make_logger({0})'), (r'^move\|', '{0}')] + PURE,
                 members=[(r'^folds\|nano::ml::result_t', '{self}->m_values.folds'), (r'^trials\|nano::ml::result_t', '{self}->m_values.trials'),
                          (r'^closest_trial\|nano::ml::result_t', 'nv_closest_trial({self}, {1})'),
                          (r'^log_path\|nano::ml::result_t', 'result_log_path'), (r'^extra\|nano::ml::result_t\|#2', 'result_extra'),
                          (r'^store\|nano::ml::result_t\|#5', 'result_store')])
        d.update(kw)
        return d
    store = lambda: Fn('result_store', RTU, 'store', flt='nano::ml::result_t', select=nparams(5), self_struct='struct nv_result', **common())
    extra = lambda: Fn('result_extra', RTU, 'extra', flt='nano::ml::result_t', select=nparams(2), self_struct='struct nv_result', **common())
    lpath = lambda: Fn('result_log_path', RTU, 'log_path', flt='nano::ml::result_t', select=nparams(2), self_struct='struct nv_result', **common())
    closest = Fn('result_closest_trial', RTU, 'closest_trial', flt='nano::ml::result_t', self_struct='struct nv_result', **common())
    task = Fn('tune_task', TTU, 'tune', flt='nano::ml::tune', lambda_index=1, captures=True, **common())
    return [T('result_store', [store()], TUNE_H, pre=pre), T('result_extra', [extra()], TUNE_H, pre=pre),
            T('result_log_path', [lpath()], TUNE_H, pre=pre), T('result_closest_trial', [closest], TUNE_H, pre=pre),
            T('tune_task', [task, store(), extra(), lpath()], TUNE_H, pre=pre)]


# ------------------------------------------------------------------------------------------ fitted weak learners: predict
WL_H = 'specs/C18/wlearner2.h'
WTYPES = [(r'^nano::(stump|affine|hinge|table|dense_table|dtree|single_feature)_wlearner_t$|^nano::wlearner_t$', 'struct nv_wl'),
          (r'^nano::dataset_t$', 'struct nv_dataset_o'), (r'^nano::hinge_type$', 'int32_t')]
WL_ERASED = frame.ERASED + [r'^(nano::)?dtree_nodes_t$', r'^std::vector<nano::dtree_node_t', r'^(nano::)?hashes_t$', r'^(nano::)?logger_t$']


def wlearner_targets():
    ts = []

    def layout(tu, cls):
        short = cls.split('::')[-1]
        bases = dict(CLONABLE)
        lay = frame.Layout([dict(tu=tu, cls=cls, cname='struct nv_wl', bases=bases)], types=WTYPES, base_tu=tu)

        def pre():
            text, info = lay.text()
            return f'#include "{astload.VERIF}/specs/C18/wlearner.h"\n' + text, info
        return pre

    def common():
        track = frame.make_track()
        return dict(types=WTYPES, opaque=WL_ERASED, hooks=[track.field_hook, track.expr_hook], stmt_hooks=[track.stmt_hook], uf_float=True, self_struct='struct nv_wl',
                    calls=PURE, members=[(r'^split\|nano::wlearner_t', 'nv_wl_split({self}, {&0}, {1})'),
                                         (r'^scale\|nano::\w*wlearner_t', 'nv_wl_scale({self}, {0})'),
                                         (r'^size\|std::vector<((\(anonymous namespace\)|nano::table_wlearner_t)::)?cache_t', '{self}->n')])
    ops = [('stump_predict_op', 'src/wlearner/stump.cpp', 'nano::stump_wlearner_t', 0), ('affine_predict_op', 'src/wlearner/affine.cpp', 'nano::affine_wlearner_t', 0),
           ('hinge_predict_op_left', 'src/wlearner/hinge.cpp', 'nano::hinge_wlearner_t', 0), ('hinge_predict_op_right', 'src/wlearner/hinge.cpp', 'nano::hinge_wlearner_t', 1),
           ('table_predict_op', 'src/wlearner/table.cpp', 'nano::table_wlearner_t', 0)]
    for cname, tu, cls, li in ops:
        f = Fn(cname, tu, 'do_predict', flt=cls, lambda_index=li, captures=True, **common())
        ts.append(T(cname, [f], WL_H, pre=layout(tu, cls), enums=[(tu, 'nano::hinge_type')] if 'hinge' in cname else []))
    # do_fit chunk tasks: caches[tnum]
    fit_types = WTYPES + [(r'^std::vector<((\(anonymous namespace\)|nano::table_wlearner_t)::)?cache_t', 'struct nv_slots'), (r'^nano::wlearner_criterion$', 'int32_t')]
    fit_erased = WL_ERASED + [r'(\(anonymous namespace\)|nano::table_wlearner_t)::cache_t$', r'^std::vector<', r'::value_type$', r'^(nano::wlearner::)?accumulator_t$']
    fits = [('stump_fit_task', 'src/wlearner/stump.cpp', 'nano::stump_wlearner_t', 0, 'iv NV_COMMA sv'), ('affine_fit_task', 'src/wlearner/affine.cpp', 'nano::affine_wlearner_t', 0, 'i'),
            ('hinge_fit_task', 'src/wlearner/hinge.cpp', 'nano::hinge_wlearner_t', 0, 'iv NV_COMMA sv')]
    for k, cls in enumerate(('dense_table', 'kbest_table', 'ksplit_table', 'dstep_table')):
        fits += [(f'{cls}_fit_task_sclass', 'src/wlearner/table.cpp', f'nano::{cls}_wlearner_t', 0, None), (f'{cls}_fit_task_mclass', 'src/wlearner/table.cpp', f'nano::{cls}_wlearner_t', 1, None)]
    for cname, tu, cls, li, loopvars in fits:
        c = common()
        c.update(types=fit_types, opaque=fit_erased)
        c['calls'] = c['calls'] + [(r'^operator\[\]\|[^|]*\|std::vector<((\(anonymous namespace\)|nano::table_wlearner_t)::)?cache_t', '(*nv_slot_at({&0}, {1}))'),
                                   (r'^isfinite\|', 'nv_pure1({0})')]
        f = Fn(cname, tu, 'do_fit', flt=cls, lambda_index=li, captures=True, **c)
        contracts = f'#define NV_CONTRACT_{cname} NV_WL_FIT_TASK\n' + (f'#define NV_LOOP_{cname}_1 NV_WL_FIT_LOOP({loopvars})\n' if loopvars else '')
        base_pre = layout(tu, cls)
        ts.append(T(cname, [f], WL_H, pre=(lambda bp=base_pre, ct=contracts: (lambda r: (r[0] + ct, r[1]))(bp())),
                    enums=[(tu, 'nano::hinge_type')] if 'hinge' in cname else []))
    f = Fn('dtree_do_predict', 'src/wlearner/dtree.cpp', 'do_predict', flt='nano::dtree_wlearner_t', **common())
    ts.append(T('dtree_do_predict', [f], WL_H, pre=layout('src/wlearner/dtree.cpp', 'nano::dtree_wlearner_t'), replace=['nv_wl_split']))
    return ts


# ------------------------------------------------------------------------------------------ dataset_t const interface
DSC_H = 'specs/C18/dsconst2.h'
DSTU = 'src/dataset.cpp'
GITER = r'__normal_iterator<(const )?std::unique_ptr<nano::generator_t|^std::vector<std::unique_ptr<nano::generator_t.*::const_iterator$'
DSTYPES = [(GITER, 'uint64_t'), (r'^nano::dataset_t$', 'struct nv_dataset'), (r'^std::vector<std::unique_ptr<nano::generator_t|^(nano::)?rgenerators_t$', 'struct nv_gens'),
           (r'^std::unique_ptr<nano::generator_t|^(nano::)?rgenerator_t$', 'struct nv_generator*'), (r'^nano::generator_t$', 'struct nv_generator'),
           (r'^nano::parallel::pool_t$', 'struct nv_pool'), (r'^nano::datasource_t$', 'struct nv_datasource')]


def dataset_const_targets():
    lay = frame.Layout([dict(tu=DSTU, cls='nano::generator_t', cname='struct nv_generator', bases=CLONABLE, ptr=DPTR),
                        dict(tu=DSTU, cls='nano::dataset_t', cname='struct nv_dataset', bases=CLONABLE, ptr=DPTR)], types=DSTYPES, base_tu=DSTU)

    def pre():
        text, info = lay.text()
        return f'#include "{astload.VERIF}/specs/C18/dsconst.h"\n' + text, info

    def common():
        track = frame.make_track()
        return dict(types=DSTYPES, opaque=frame.ERASED, hooks=[track.expr_hook], stmt_hooks=[track.stmt_hook], uf_float=True, self_struct='struct nv_dataset',
                    calls=[(r'^operator->\|', '{0}'), (r'^operator!=\|.*__normal_iterator', '({0} != {1})'), (r'^operator\+\+\|.*__normal_iterator', '(++{0})'),
                           (r'^operator\*\|.*__normal_iterator', '(*nv_gen_at(&self->m_generators, {0}))'),
                           (r'^operator\[\]\|.*\|(const )?std::vector<std::unique_ptr<nano::generator_t', '(*nv_gen_at({&0}, {1}))'),
                           (r'^operator\(\)\|.*\|(const )?nano::tensor_t<nano::tensor_vector_storage_t, long, 2>.*#3$', 'nv_elem_i64({1}, {2})')] + PURE,
                    members=[(r'^check\|nano::dataset_t', 'nv_dataset_check({self}, {0})!'), (r'^byfeature\|nano::dataset_t', 'dataset_byfeature!^'),
                             (r'^(flatten|select)\|nano::generator_t \*\|#3', 'nv_gen_call3({self}, {0}, {1}, {2})'),
                             (r'^fit\|nano::generator_t', 'nv_gen_fit({self})'),
                             (r'^begin\|.*std::vector<std::unique_ptr<nano::generator_t', '((uint64_t)0)'),
                             (r'^end\|.*std::vector<std::unique_ptr<nano::generator_t', '{self}->n')])
    byf = lambda: Fn('dataset_byfeature', DSTU, 'byfeature', flt='nano::dataset_t', **common())
    ts = [T('dataset_flatten', [Fn('dataset_flatten', DSTU, 'flatten', flt='nano::dataset_t', **common())], DSC_H, pre=pre),
          T('dataset_byfeature', [byf()], DSC_H, pre=pre)]
    for kind in SELECT_KINDS:
        sel = lambda d, kind=kind: len(astload.param_types(d)) == 3 and f'{kind}_mem_t' in astload.param_types(d)[2]
        ts.append(T(f'dataset_select_{kind}', [Fn(f'dataset_select_{kind}', DSTU, 'select', flt='nano::dataset_t', select=sel, **common()), byf()], DSC_H, pre=pre))
    return ts


class LintVC(VC):
    """the static scan as a bounded stand-in (a lint: run, reported, never counted as proof).  It cannot refute anything: every hit
    classified -> the (trivial) obligation is discharged; a hit the allow-list does not know, or a translation unit clang-query
    could not read -> UNKNOWN = undecided (exit 2, "unclassified shared mutable state: <where>"), never a pass.  The scan runs inside
    verify(), i.e. in a worker next to the CBMC targets, not while the spec is built."""

    def __init__(self, tier):
        super().__init__('static_scan/shared_mutable_state_classified', '(assert false)', solvers=['z3-new', 'z3'],
                         about='LINT (not a proof): every `mutable` member, non-constexpr function-local static, non-constexpr namespace-scope variable / static data '
                               'member and const_cast of include/ + src/ (clang-query over clang\'s AST) is in the classified allow-list of specs/C18/scan.py')
        self.tier = tier
        self.bound = ('AST scan (clang-query) of the library sources: supporting fact, not a proof; quick tier: src TUs pre-filtered by the tokens mutable / static / '
                      'thread_local, thorough tier: every TU')

    def verify(self, cross=False):
        import scan
        from collections import Counter
        try:
            hits, problems = scan.scan_ast(self.tier)
        except Exception as e:      # noqa (a lint must not crash the check: undecided)
            hits, problems = [], [f'scan failed: {e}']
        recs, unknown = scan.classify_ast(hits)
        self.about += ': ' + ', '.join(f'{n} x {k[0]} [{k[1]}]' for k, n in sorted(Counter((r['kind'], r['class']) for r in recs).items()))
        self.note = '; '.join(f'{r["file"]}:{r["line"]} {r["name"]} [{r["class"]}] {r["why"]}' for r in recs if r['kind'] == 'mutable member')
        problem = ''
        if unknown:
            problem = 'unclassified shared mutable state: ' + '; '.join(f'{r["file"]}:{r["line"]} {r["kind"]} {r["name"]}' for r in unknown[:8])
        elif problems:
            problem = 'translation units the scan could not read: ' + '; '.join(problems[:4])
        elif not hits:
            problem = 'the scan found nothing at all (vacuous)'
        if not problem:
            return super().verify(cross=False)
        return {'id': self.name, 'description': self.about + ' -- ' + problem, 'target': self.group, 'status': 'UNKNOWN', 'backend': 'clang-query', 'location': {},
                'answers': {'static scan': problem}, 'seconds': {}}


def lint_vcs(tier='quick'):
    return [LintVC(tier)]


def build(tier):
    gen_targets, gen_info = generators.targets(tier)
    targets = (solver_targets() + iterator_targets() + objective_targets() + loss_targets(tier) + tune_targets() + wlearner_targets()
               + dataset_const_targets() + functional.targets() + gen_targets + learners.targets())
    return {
        'targets': targets, 'vcs': [], 'bounded': lint_vcs(tier),
        'decided': functional.DECIDED + [
            'METHOD: two threads race on an object only if at least one of them writes it.  Every target is the REAL function (clang AST -> C) under a DFCC contract whose assigns clause is the complete list of what it may write; CBMC checks every store of the extracted text and every footprint write (one per possibly-mutating mention of an erased object, read off clang\'s const analysis) against it, on every path, for all inputs.  C struct layouts are generated from the class definitions on every run (bases flattened, `mutable` recorded), so a member added to a class is part of the frame without touching the spec; pointer / unique_ptr / reference members are C pointers to separate objects (C++ constness does not reach through them, the frame proof does)',
            'SOLVER shared by all fold / trial tasks: solver_t::minimize() const, solver_t::done() const, solver_t::make_lsearch() const and the bodies do_minimize() const of gd, cgd (all 10 beta formulas), lbfgs (the default solver of ml::params_t), quasi (all 5 update formulas), sgm, cocob, osga, ellipsoid, pgm / dgm / fgm, asga2 / asga4, pdsgm (sda / wda) -- 30 of the 37 registered solver ids -- write NOTHING of the solver object and NOTHING of the two line-search prototypes it owns (m_lsearch0 / m_lsearchk: unique_ptr members, writable through a const solver as far as C++ is concerned); make_lsearch() returns two fresh clones, different from the prototypes, and sets the parameters on the clones; the history-carrying state (lsearch_t::m_last_step_size [mutable], the lsearch0 / lsearchk objects\' own members) that lsearch_t::get() const writes belongs to that per-call pair; what else is written is the caller\'s function object (mutable evaluation counters), states and vectors',
            'LOSS shared by every task: error / value / vgrad const of every registered loss (16 flatten_loss_t instantiations [quick tier: 3 of them, one per kernel family; thorough tier: all] + pinball) and the three resizing wrappers write nothing of the loss object (only the caller\'s output)',
            'DATASET shared by every task: dataset_t::flatten(samples, buffer) const, select(samples, feature, buffer) const (4 buffer kinds), byfeature() const write only the caller\'s buffer: nothing of the dataset and nothing of the generators it owns through unique_ptr',
            'DATASET ITERATORS shared by the chunk tasks of one loop(): targets_iterator_t::targets(tnum, range) const / flatten_iterator_t::flatten(tnum, range) const and the three loop(callback) chunk tasks write only m_targets_buffers[tnum] / m_flatten_buffers[tnum] [mutable]; the four select_iterator_t::loop(samples, features, callback) chunk tasks write only m_buffers[tnum].m_<kind>; the four loop(samples, ifeature, callback) write only m_buffers[0].m_<kind> of the (caller-local) iterator; the cached tensors, statistics, sample indices and the dataset are only read; tnum < size of the buffers vector is a checked obligation of every access (precondition: tnum < concurrency(), C17)',
            'OBJECTIVE FUNCTIONS (one per (trial, fold) task, shared by its chunk tasks): the chunk task of linear::function_t::do_vgrad writes only m_accumulators[tnum] [mutable]; the chunk tasks of gboost scale_function_t / bias_function_t::do_vgrad write only m_accumulators[tnum] and rows [begin, end) of m_values / m_vgrads / m_outputs [mutable], grads_function_t::gradients only rows [begin, end) of m_values / m_vgrads (stated at a ghost row: a row outside the task\'s range is not written); loss, iterator, cluster, outputs of the other learners are only read',
            'TUNING RESULT shared by the (trial, fold) tasks of ml::tune: result_t::store(trial, fold, ..) writes only cell (trial, fold) of m_values and index trial * folds + fold of m_extras (ghost cell / ghost index; the index arithmetic is uninterpreted, injectivity of (trial, fold) -> index is C13); closest_trial / extra / log_path const write nothing; the task lambda writes the result only through store at its own slot (old_trials + index / folds, index % folds), and the only m_extras slot it READS is (closest_trial, fold) with closest_trial < old_trials (a completed batch) or its own slot -- so no task reads a slot another running task writes',
            'FITTED WEAK LEARNERS: the per-sample predict operators of stump / affine / hinge (both sides) / table and dtree_wlearner_t::do_predict const write only the caller\'s outputs view, nothing of the learner',
            'WEAK LEARNER FITTING (runs on a per-task clone; its select_iterator_t::loop chunk tasks share the local vector `caches`): the chunk tasks of stump / affine / hinge do_fit and of the four table learners (dense, kbest, ksplit, dstep; sclass and mclass loops) write only caches[tnum], nothing of the learner; gradients and samples are only read',
            'GENERATOR STACK (every generator a dataset owns is shared by all tasks): the classes of the generator_t hierarchy, their const / static member functions with a body and every lambda written inside one are ENUMERATED FROM THE AST on every run (specs/C18/generators.py: src/generator.cpp + src/generator/*.cpp; currently 20 classes -- generator_t, base_elemwise / base_pairwise, elemwise_generator_t<gradient | sclass / mclass / scalar / struct identity>, pairwise_generator_t<product>, their computers and input bases -- 100 const functions in 369 instantiations); each is put under a GENERATED frame contract: nothing of *this (struct layout flattened from the class definitions), nothing of the datasource it points to, no global and no function-local static -- INCLUDING the dynamic initialisation of one (`static const auto kernel = make_kernel3x3(m_type)`) -- is written; assigns = parameters handed by non-const reference (+ for a closure run synchronously inside the call: its by-reference captures of non-const locals, e.g. `column` of flatten).  Member calls on a generator through a const access path are reads (the callee is in the enumerated set), through a non-const path writes; an unmapped call on a modelled object is exit 2, so the induction over the call tree is closed.  QUICK tier: one family representative each (gradient: process + closure, do_select(struct) + closure, flatten + closure, select_struct<>, flatten<>; pairwise product: the same six; generator_t: iterate + closure, select, should_drop) = 20 targets; THOROUGH tier: every (class, source location) = 135 targets (all extract and prove; `--tier thorough --only gen_` 96 s on a loaded machine) (one instantiation per member template / generic closure: the other instantiations differ only in erased scalar types)',
            'FITTED MODELS: learner_t::predict (both overloads) const, learner_t::evaluate const, linear_t::do_predict const, gboost_model_t::do_predict const write nothing of the model (layout from the class definitions, bases flattened); the CHUNK TASKS evaluate / linear do_predict hand to iterator.loop (run by the workers of the dataset pool) are under the "concurrent writers write disjoint slots" contract GENERATED FROM THE CAPTURE LIST of the current source (specs/C18/learners.py): a by-reference capture may be written only at element nv_g (ghost, any) with begin <= nv_g < end of the task\'s own tensor_range_t parameter (`<capture>.slice(range)`, `<capture>.tensor(k).slice(range)`); any other possibly-mutating mention of a by-reference capture (assignment, resize, a slice of another range, a non-const call) is an unconditional write and is refuted; const captures and views of const data get no assigns entry at all; the enclosing function calls the extracted task through a stub generated from the same capture list (hooks.lambda_stub_hook), so a newly captured variable is decided',
            'LEMMA ("bit-identical to the same call executed alone", reduced to the frames above; not a separate proof): let f be one of the const functions above, called on a shared object S with its own arguments A.  By the frame of f (and of everything else the library runs concurrently on S: the targets of this spec), no concurrently running call writes S or A\'s inputs; the callees f reaches are the same sequential code; therefore every read f performs returns the value it would return if f ran alone, and f -- sequential, deterministic C++ without reads of clocks, random devices or addresses -- computes the same outputs bit for bit.  Assumes: (a) the frame proofs cover every function that runs concurrently on S (they cover the library\'s own sharing listed here, not arbitrary user code); (b) the erased callees write only what they are handed (assumption list); (c) the disjointly written slots really are used by one running task at a time (C17, monitor semantics); (d) no data-dependent non-determinism inside f (uninitialised reads, iteration over pointer-keyed containers): not checked',
        ],
        'not_decided': [
            'interleaving semantics itself: the pool\'s mutex / condition-variable protocol, that two tasks running at the same time have different tnum, that map() returns only after every task finished (C17 proves the sequential protocol under monitor semantics; the schedule quantifier stays open)',
            'schedule independence of the REDUCTION: sum_reduce adds the per-thread accumulators in index order, but which samples went into which accumulator depends on the schedule: floating-point re-association (the property\'s 1e-5 clause) is not decided',
            'the remaining solver bodies (gradient sampling x4, rqb, fpba1 / fpba2, the penalty / augmented-Lagrangian wrappers), lsearch0 / lsearchk implementations (they run on the per-call clones), program::solver_t (NOT added in this round: the specs/C02 / C03 / C07 / C04 extraction tables were not re-used for frame targets); dataset_t::targets / select(target) (generic visitor lambdas, not extractable), datasource_t, scalar_stats_t::scale, splitter_t::split and tuner_t::optimize (run on the calling thread, before / around the parallel section), the sequential parts of wlearner fit (run on per-task clones), cache_flatten / cache_targets (non-const, run before sharing), linear::evaluate / gboost::evaluate free functions (src/linear/util.cpp, src/gboost/util.cpp: rows of caller-local tensors)',
            'generator stack: the other instantiations of each member template / generic closure (quick AND thorough tier verify one instantiation per source location; they differ in the scalar type of the erased sample iterator only -- not checked mechanically); the non-const members (fit, do_fit, drop / undrop, shuffle / unshuffle, allocate: outside the const interface, run before sharing); generator_t::all() (init-once factory singleton: the lint) and base_pairwise_generator_t::make_pairwise (static helper of the non-const fit): skipped by name in generators.SKIP; datasource_t::visit_inputs / loop_samples / the sample iterators (erased higher-order callees: assumed to call only the closure they are handed); user-defined generators',
            'loggers: every logger call is dropped from the extracted text (per-task file loggers are made inside the task; what a shared std::ostream does under concurrent writes is outside the model)',
            'user code: function objects, callbacks and custom tuners / generators supplied by a caller',
            'determinism clause (d) of the lemma; ThreadSanitizer-style dynamic evidence',
        ],
        'assumptions': functional.ASSUMPTIONS + [
            'erased callees: a function that only receives objects of owner / view types (tensors, Eigen, std::vector / string / map / any, feature_t, scalar_stats_t, cluster_t, parameter_t ...: value semantics, deep constness) writes only what it is handed by non-const reference or pointer (charged at the call) or state with static storage duration (the lint: only init-once factory singletons exist); this covers Eigen, the STL, tensor_t members, linear::predict, store_stats, resize_and_map, the loss kernels tloss::value / vgrad / error, make_range, make_file_logger',
            'a write is charged where the mutable access path is created (non-const member call, binding to a non-const reference, address-of, assignment, ++, a cast that drops const); a view of const data (tensor_cmap_t, Eigen::Map<const T>) cannot be written through whatever overload clang picked; the view object itself only changes by an assignment written in the function',
            'virtual const callees used through an assumed frame: lsearch0_t::clone / lsearchk_t::clone return a new object (every implementation is std::make_unique<T>(*this)); generator_t::flatten / select const read the generator (no longer only assumed for the library\'s own generators: targets gen_*); wlearner_t::split const (do_split of the learner) reads the learner; dataset_t::check throws or returns; dataset_t::targets / flatten / select as used by the iterators write only the buffer handed in (flatten and select(feature) are proved here, targets and select(target) are assumed)',
            'virtual NON-const callees lsearch0_t::get / lsearchk_t::get write their own object (whole footprint) and the state handed in; gboost::accumulator_t::update writes its own object',
            'the function object, solver_state_t values, vectors and loggers of a minimize() call belong to the calling thread (property: "each with its own function object"): erased or assigned wholesale',
            'generator targets: erased higher-order callees (datasource_t::visit_inputs, loop_samples, std::make_tuple of a closure) invoke only the closure they are handed, on the calling thread; every closure written in a generator method is a target of its own; a closure object called as `op(values, storage)` writes only through what it is handed (charged at the mention); the datasource a generator points to is only read by the const members called on it (datasource_t is not under contract); a dynamic initialisation of a function-local static counts as a write whenever its initialiser is not a constant expression BY SYNTAX (literals, enumerators, operators): an init-once table with an input-free initialiser would have to be listed in the assigns clause explicitly (none exists in the targets)',
            'learner targets: learner_t::do_predict (virtual) / critical_compatible / predict called on the learner are reads of the model (do_predict of linear_t and gboost_model_t: proved here); loss_t::error / value read the loss (targets loss_*); wlearner_t::predict const through the unique_ptr reads the weak learner (targets *_predict_op, dtree_do_predict); the targets / flatten iterator is a local of the call; that two running chunk tasks have disjoint ranges is C17 (tiling) -- the contract is per task',
            'std::function callbacks (loop callbacks, the fit callback of ml::tune) are opaque: their effects go to a ghost cell; the library\'s own callbacks are the objective-function / wlearner tasks proved separately',
            'PRECONDITIONS with their guarantors: tnum < size of every per-thread buffers vector (vectors are sized with concurrency() == pool size in the constructors; C17: tnum < pool size); 1 <= pool size <= 4096 (bound of the symbolic buffers vector in the harness; pool_t clamps to hardware_concurrency); for ml::tune\'s task: folds == result.folds() >= 1, result.add() ran before the map (C13), 0 <= index < folds * new_trials decodes to trial in [0, new_trials), fold in [0, folds) (C13 tune::thread_callback, C17 map_index), closest_trial(params, m) in [0, m) or 0 (C13 result_closest_trial), and THE FIRST BATCH OF A TUNING RUN HAS ONE TRIAL (tuner_t::optimize -- non-virtual -- starts with evaluate(.., igrids_t{avg_igrid}, ..), src/tuner.cpp; without parameter spaces ml::tune passes tensor2d_t{1, 0}): with two or more trials in a first batch every task (t >= 1, f) would read m_extras[f] while task (0, f) writes it',
            'integer * / % in the tune / result targets are uninterpreted functions (congruence only); double arithmetic is erased; arithmetic overflow is not an obligation of the frame targets (C02 / C13 / C16 / C17 own it)',
        ],
        'trusted': ['specs/C18/generators.py: the enumeration (class hierarchy by base-class closure from clang\'s records, const / static member functions with bodies, LambdaExpr nodes) and its on-disk cache keyed by a content hash of include/ + src/generator*; clang-query-14 for the lint', 'specs/C18/frame.py: the possibly-mutating-mention analysis over clang\'s AST (const-qualification of expression types, implicit NoOp casts to const, lvalue-to-rvalue conversions) and the struct layouts generated from FieldDecls'],
    }


def replay(rp):
    """functional select_iterator_t targets (fsel_*): the REAL select_iterator_t::loop on the real library of the working tree
    with dataset pools of 1..4 threads; the operator must see every feature of its kind exactly once, with the values of that
    feature, for every pool size (replay/C18_replay.cpp).  Frame targets: a write that breaks a frame has no sequential
    failing input (it needs a second thread and a race detector); the replay file carries the verifier output only."""
    import re
    import replaylib
    out = {'reproduced': False, 'runs': []}
    if not re.match(r'fsel_|features_per_thread', rp['target']):
        out['note'] = 'no native driver for this target: the replay file carries the verifier output only'
        return out
    exe = replaylib.build_with_library('replay/C18_replay.cpp', 'C18_replay')
    rc, so, se = replaylib.run_driver(exe, [], timeout=300)
    out['runs'].append({'exit': rc, 'output': so.strip()[-3000:]})
    out['reproduced'] = (rc == 1)
    return out
