/* C18 / ml::tune: the (trial, fold) tasks share ONE result_t; each task writes only its own (trial, fold) slot */
#include "base.h"
/* m_values (trial, fold, ...): the footprint of ONE ghost cell (nv_gt, nv_gf) + the two leading dimensions */
struct nv_grid { struct nv_opaque g; int64_t trials, folds; };
/* m_extras / m_log_paths (index trial * folds + fold): the footprint of ONE ghost index nv_gi */
struct nv_cells { struct nv_opaque g; };
struct nv_cb { char unused; };
