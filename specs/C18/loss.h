/* C18 / loss: loss_t::error / value / vgrad (const) of every implementation write only the caller's output (a view passed
 * by value, or the caller's tensor for the resizing wrappers); the loss object itself -- shared by every fold, trial and
 * chunk task of a fit -- is only read.  struct nv_loss is generated from the class definitions (loss_t and the
 * implementation under check, bases flattened). */
#include "base.h"
