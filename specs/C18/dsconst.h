/* C18 / dataset_t const interface: flatten(samples, buffer) and select(samples, feature, buffer) write only the caller's
 * buffer; the dataset and the generators it owns (through unique_ptr: C++ constness does NOT reach them) are only read */
#include "base.h"
struct nv_generator;
/* std::vector<rgenerator_t>: one representative element (any generator; every element is treated alike) */
struct nv_gens { struct nv_generator* one; uint64_t n; };
struct nv_pool { char unused; };
struct nv_datasource { char unused; };
