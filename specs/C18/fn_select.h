/* C18 / functional half of schedule independence, select_iterator_t: what a chunk task hands to the operator.
 * With C17 (the chunks [begin, end) tile [0, features.size()) for every pool size) the statements below say that the
 * multiset of operator invocations (feature, values of that feature for the given samples) does not depend on the pool
 * size; only tnum (which buffer was used) does.  (types needed by the generated struct layouts) */
#include "base.h"
struct nv_idx { uint64_t id; };                 /* an index list (indices_t / indices_cmap_t): ghost identity; element k is NV_IDX(id, k) */
struct nv_tagbuf { uint64_t slot; int32_t kind; };   /* a per-thread buffer: which element of m_buffers, which member */
enum { NV_K_SCLASS = 1, NV_K_MCLASS = 2, NV_K_SCALAR = 3, NV_K_STRUCT = 4 };
struct nv_selview { uint64_t samples; int64_t feature; struct nv_tagbuf buf; };   /* what dataset_t::select(samples, feature, buffer) was asked */
struct nv_cb { char unused; };
struct nv_fdataset { char unused; };
#define NV_FBUFS struct nv_fbufs { uint64_t n; };
