/* C18 / objective functions: the chunk tasks of linear::function_t::do_vgrad, gboost::{scale,bias}_function_t::do_vgrad,
 * gboost::grads_function_t::gradients.  One function object per (trial, fold) task, shared by the chunk tasks of that
 * task's dataset-pool section: each chunk task writes only accumulator [tnum] and rows [begin, end) of the per-sample
 * buffers; the loss, the iterator, the cluster and the outputs of the other learners are only read. */
int64_t nv_g;
static struct nv_opaque nv_rows_slice(struct nv_rows* t, int64_t begin, int64_t end)
{ if (begin <= nv_g && nv_g < end) nv_touch(&t->g); return nv_opaque_value(); }
#define nv_rows_touch_all(t) nv_touch(&(t)->g)
#define NV_IN(r) ((r).m_begin <= nv_g && nv_g < (r).m_end)
#ifndef NV_MAX_THREADS
#define NV_MAX_THREADS 4096
#endif
uint64_t nv_gs;                                  /* ghost accumulator index: any */
struct nv_lacc nv_other_lacc; struct nv_gacc nv_other_gacc;       /* stand for every accumulator other than the ghost one */
static struct nv_lacc* nv_lacc_at(struct nv_laccs* v, uint64_t i)
{ __CPROVER_assert(i < v->n, "accumulator index (tnum) is within the accumulators vector"); return i == nv_gs ? &v->g : &nv_other_lacc; }
static struct nv_gacc* nv_gacc_at(struct nv_gaccs* v, uint64_t i)
{ __CPROVER_assert(i < v->n, "accumulator index (tnum) is within the accumulators vector"); return i == nv_gs ? &v->g : &nv_other_gacc; }

/* loss_t::value / vgrad / error (const, virtual + the resizing wrappers): the loss is read, the caller's output written.
 * Frame of every implementation: targets loss_* below. */
static void nv_loss_eval(const struct nv_loss* loss, struct nv_opaque* out) { nv_touch(out); }
#define nv_loss_call(loss, targets, outputs, out) ((void)(targets), (void)(outputs), nv_loss_eval(loss, out))
/* gboost::accumulator_t::update(values) (non-const): writes its own object */
static void nv_gacc_update(struct nv_gacc* a, struct nv_opaque values) { a->m_vm1 = nv_nondet_double(); nv_touch(&a->m_gb1); }

#define NV_ACCS_FRESH(v, T) (1 <= (v).n)
#define NV_LFUN_FRESH(s) (__CPROVER_is_fresh(s, sizeof(*(s))) && __CPROVER_is_fresh((s)->m_loss, sizeof(*(s)->m_loss)) && NV_ACCS_FRESH((s)->m_accumulators, struct nv_lacc))
#define NV_CONTRACT_linear_vgrad_task \
__CPROVER_requires(NV_LFUN_FRESH(self) && tnum < self->m_accumulators.n) \
__CPROVER_assigns(nv_other_lacc, nv_thrown; tnum == nv_gs: self->m_accumulators.g)

#define NV_GFUN_FRESH(s) (__CPROVER_is_fresh(s, sizeof(*(s))) && __CPROVER_is_fresh((s)->m_loss, sizeof(*(s)->m_loss)) && NV_ACCS_FRESH((s)->m_accumulators, struct nv_gacc))
#define NV_GFUN_TASK \
__CPROVER_requires(NV_GFUN_FRESH(self) && tnum < self->m_accumulators.n && __CPROVER_is_fresh(range, sizeof(*range))) \
__CPROVER_assigns(nv_other_gacc, nv_thrown; tnum == nv_gs: self->m_accumulators.g; NV_IN(*range): self->m_values.g, self->m_vgrads.g, self->m_outputs.g)
#define NV_CONTRACT_gboost_scale_task NV_GFUN_TASK
#define NV_LOOP_gboost_scale_task_1 __CPROVER_assigns(i, outputs) __CPROVER_loop_invariant(1)
#define NV_LOOP_gboost_scale_task_2 __CPROVER_assigns(i, vgrads, nv_other_gacc; tnum == nv_gs: self->m_accumulators.g) __CPROVER_loop_invariant(1)
#define NV_CONTRACT_gboost_bias_task NV_GFUN_TASK
#define NV_CONTRACT_gboost_grads_task \
__CPROVER_requires(__CPROVER_is_fresh(self, sizeof(*self)) && __CPROVER_is_fresh(self->m_loss, sizeof(*self->m_loss)) && __CPROVER_is_fresh(range, sizeof(*range))) \
__CPROVER_assigns(nv_thrown; NV_IN(*range): self->m_values.g, self->m_vgrads.g)
