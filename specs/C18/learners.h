/* C18 / fitted models: learner_t::evaluate / predict, linear_t::do_predict, gboost_model_t::do_predict and their chunk tasks
 * (specs/C18/learners.py generates `struct nv_learner` from the class definitions and the contracts from the capture lists) */
#include "base.h"
struct nv_range { int64_t m_begin, m_end; };          /* tensor_range_t */
struct nv_dataset_o { char nv_unit; };      /* the dataset (its own frames: dataset_* / *iter_* / gen_* targets): handed on, read */
struct nv_loss_o { char nv_unit; };         /* the loss (its own frames: loss_* targets) */
struct nv_iter_o { char nv_unit; };         /* a targets / flatten iterator LOCAL to the call (its loop: C17 / *iter_loop_* targets) */
#ifndef NV_WLS_DEFINED      /* (the generated layout of gboost_model_t needs these two ahead of it: learners.py gpre) */
struct nv_wl_o { char nv_unit; };           /* a fitted weak learner (its predict: *_predict_op / dtree_do_predict targets) */
struct nv_wls { struct nv_wl_o* one; uint64_t n; };   /* std::vector<rwlearner_t>: one representative element */
#endif
static struct nv_wl_o** nv_wl_at(const struct nv_wls* v, uint64_t i) { return (struct nv_wl_o**)&v->one; }
int64_t nv_g;                               /* the ghost sample index: any */
/* `<capture>.slice(range)` / `<capture>.tensor(k).slice(range)` in a chunk task: element nv_g of the captured per-sample object
 * is written iff it lies in the task's range */
static struct nv_opaque nv_cap_rows_slice(struct nv_opaque* t, int64_t begin, int64_t end)
{ if (begin <= nv_g && nv_g < end) nv_touch(t); return nv_opaque_value(); }
/* loss_t::error / value / vgrad const (frames: loss_* targets): reads the loss; the output view it is handed is charged at the mention */
static void nv_loss_call_o_(const struct nv_loss_o* l) { (void)l->nv_unit; }
#define nv_loss_call_o(l, out) ((void)(out), nv_loss_call_o_(l))
struct nv_learner;
/* virtual / other const members of the learner (do_predict: linear_do_predict, gboost_do_predict here; critical_compatible):
 * a read of the object; may throw */
static void nv_learner_const_call(const struct nv_learner* s) { (void)*(const char*)s; if (nv_nondet__Bool()) nv_thrown = 1; }
#define nv_learner_predict3(s) nv_learner_const_call(s)
/* learner_t::predict(dataset, samples) const -> a new tensor (target learner_predict2) */
static struct nv_opaque nv_learner_predict2(const struct nv_learner* s) { nv_learner_const_call(s); return nv_opaque_value(); }
static void nv_iter_set(struct nv_iter_o* it) { it->nv_unit = nv_nondet_char(); }
/* wlearner_t::predict const through the unique_ptr: reads the learner */
static void nv_wl_predict(const struct nv_wl_o* w) { (void)w->nv_unit; }
/* targets_iterator_t{dataset, samples} / flatten_iterator_t(dataset, samples): a new iterator; reads the dataset */
static struct nv_iter_o nv_iter_make(const struct nv_dataset_o* d) { struct nv_iter_o it; (void)d->nv_unit; return it; }
#define NV_ANY_U64 nv_nondet_uint64_t()
#define NV_ANY_OPAQUE nv_opaque_value()
static struct nv_range nv_pure_range(int64_t b, int64_t e) { struct nv_range r; r.m_begin = b; r.m_end = e; return r; }
