/* the per-sample operator handed to loop_scalar / process (util.h templates: a local select_iterator_t, proved in
 * siter_loop1_*): reads the learner (threshold, tables), accumulates into the caller's outputs view */
#define NV_WL_OP __CPROVER_requires(__CPROVER_is_fresh(self, sizeof(*self)) && __CPROVER_is_fresh(outputs, sizeof(*outputs))) __CPROVER_assigns(*outputs, nv_thrown)
#define NV_CONTRACT_stump_predict_op NV_WL_OP
#define NV_CONTRACT_affine_predict_op NV_WL_OP
#define NV_CONTRACT_hinge_predict_op_left NV_WL_OP
#define NV_CONTRACT_hinge_predict_op_right NV_WL_OP
#define NV_CONTRACT_table_predict_op NV_WL_OP
/* dtree_wlearner_t::do_predict(dataset, samples, outputs) const: outputs is a view passed by value */
struct nv_opaque nv_wl_split(const struct nv_wl* self, const struct nv_dataset_o* dataset, struct nv_opaque samples)
__CPROVER_requires(__CPROVER_is_fresh(self, sizeof(*self))) __CPROVER_assigns(nv_thrown);
#define NV_CONTRACT_dtree_do_predict __CPROVER_requires(__CPROVER_is_fresh(self, sizeof(*self))) __CPROVER_assigns(nv_thrown)
#define NV_LOOP_dtree_do_predict_1 __CPROVER_assigns(i, size, outputs, nv_thrown) __CPROVER_loop_invariant(1)
