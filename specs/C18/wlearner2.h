/* the per-sample operator handed to loop_scalar / process (util.h templates: a local select_iterator_t, proved in
 * siter_loop1_*): reads the learner (threshold, tables), accumulates into the caller's outputs view */
#define NV_WL_OP __CPROVER_requires(__CPROVER_is_fresh(self, sizeof(*self)) && __CPROVER_is_fresh(outputs, sizeof(*outputs))) __CPROVER_assigns(*outputs, nv_thrown)
#define NV_CONTRACT_stump_predict_op NV_WL_OP
#define NV_CONTRACT_affine_predict_op NV_WL_OP
#define NV_CONTRACT_hinge_predict_op_left NV_WL_OP
#define NV_CONTRACT_hinge_predict_op_right NV_WL_OP
#define NV_CONTRACT_table_predict_op NV_WL_OP
/* dtree_wlearner_t::do_predict(dataset, samples, outputs) const: outputs is a view passed by value */
struct nv_opaque nv_wl_split(const struct nv_wl* self, const struct nv_dataset_o* dataset, struct nv_opaque samples)
__CPROVER_requires(__CPROVER_is_fresh(self, sizeof(*self))) __CPROVER_assigns(nv_thrown);
#define NV_CONTRACT_dtree_do_predict __CPROVER_requires(__CPROVER_is_fresh(self, sizeof(*self))) __CPROVER_assigns(nv_thrown)
#define NV_LOOP_dtree_do_predict_1 __CPROVER_assigns(i, size, outputs, nv_thrown) __CPROVER_loop_invariant(1)

/* ---- do_fit chunk tasks (the fit itself runs on a per-task clone of the prototype learner; what the chunk tasks of its
 * select_iterator_t::loop share is the local vector `caches`): each task writes only caches[tnum] */
struct nv_slots { struct nv_opaque g; uint64_t n; };      /* the footprint of ONE ghost element, index nv_gs */
uint64_t nv_gs; struct nv_opaque nv_other_slot;
static struct nv_opaque* nv_slot_at(struct nv_slots* v, uint64_t i)
{ __CPROVER_assert(i < v->n, "per-thread cache index (tnum) is within the caches vector"); return i == nv_gs ? &v->g : &nv_other_slot; }
#define NV_WL_FIT_TASK \
__CPROVER_requires(__CPROVER_is_fresh(caches, sizeof(*caches)) && 1 <= caches->n && tnum < caches->n) \
__CPROVER_assigns(nv_other_slot, nv_thrown; tnum == nv_gs: caches->g)
#define NV_WL_FIT_LOOP(vars) __CPROVER_assigns(vars, nv_other_slot, nv_thrown; tnum == nv_gs: caches->g) __CPROVER_loop_invariant(1)
#define NV_COMMA ,
/* wlearner_t::scale (NON-const): writes the learner (so that calling it from a const / chunk-task context is refuted) */
static void nv_wl_scale_(struct nv_wl* self) { nv_touch(&self->m_tables); }
#define nv_wl_scale(self, v) ((void)(v), nv_wl_scale_(self))
