"""C18 supporting static facts (a LINT, not a proof; reported under `bounded`, never counted as discharged).

Token-level scan of every file under include/ and src/ of the library for the four ways a C++ const member function can
write without the compiler objecting (besides pointer / reference members, which the frame proofs model explicitly):
  * `mutable` data members,
  * variables with static storage duration (function-local statics, static / namespace-scope variables, thread_local),
  * `const_cast`,
and a list of the class members of pointer / reference / view type of the classes under contract (from the generated
struct layouts, i.e. from clang's AST).  Each hit must be classified in CLASSIFIED below: covered by a frame proof of this
spec, an object that is not shared (made per call / per task), synchronisation, or named as unchecked.  A hit that the
table does not know makes the lint obligation fail: nobody can add shared mutable state unnoticed."""
import os
import re

import astload

# (file, name) -> (class, why).  class: covered | per-call | per-task | sync | init-once | not-shared | unchecked
CLASSIFIED = {
    ('include/nano/function.h', 'm_fcalls'): ('per-task', 'evaluation counters of the function object; the property gives every thread its own function object; written by function_t::operator() / clear_statistics (target function_clear_statistics)'),
    ('include/nano/function.h', 'm_gcalls'): ('per-task', 'same as m_fcalls'),
    ('include/nano/solver/lsearch.h', 'm_last_step_size'): ('per-call', 'lsearch_t is made by make_lsearch() inside every minimize(): targets lsearch_get, solver_make_lsearch, *_do_minimize'),
    ('include/nano/gboost/function.h', 'm_values'): ('covered', 'rows [begin, end) per chunk task: targets gboost_scale_task / gboost_bias_task / gboost_grads_task; one function object per (trial, fold) task'),
    ('include/nano/gboost/function.h', 'm_vgrads'): ('covered', 'same as m_values'),
    ('include/nano/gboost/function.h', 'm_outputs'): ('covered', 'same as m_values'),
    ('include/nano/gboost/function.h', 'm_accumulators'): ('covered', 'slot [tnum] per chunk task: targets gboost_scale_task / gboost_bias_task'),
    ('include/nano/linear/function.h', 'm_accumulators'): ('covered', 'slot [tnum] per chunk task: target linear_vgrad_task'),
    ('include/nano/feature.h', 'm_labels'): ('not-shared', 'feature_t::set_label() const fills in labels while a datasource is LOADED (include/nano/datasource/storage.h feature_storage_t::set); not reachable from dataset_t / generator_t / iterator const interfaces (no caller outside datasource/storage.h); UNCHECKED beyond this textual fact'),
    ('include/nano/core/parallel.h', 'm_mutex'): ('sync', 'the pool\'s own mutex (C17)'),
    ('include/nano/core/parallel.h', 'm_condition'): ('sync', 'the pool\'s own condition variable (C17)'),
    ('include/nano/dataset/iterator.h', 'm_targets_buffers'): ('covered', 'slot [tnum]: targets titer_targets, *_loop_*task'),
    ('include/nano/dataset/iterator.h', 'm_flatten_buffers'): ('covered', 'slot [tnum]: targets fiter_flatten, fiter_loop_*task'),
    ('include/nano/dataset/iterator.h', 'm_buffers'): ('covered', 'slot [tnum].m_<kind>: targets siter_loop_*_task, siter_loop1_*'),
    ('include/nano/tuner/surrogate.h', 'm_loss_outputs'): ('per-call', 'surrogate fit function objects are locals of surrogate_tuner_t::do_optimize, which runs on the thread that called ml::tune (not inside the parallel section); UNCHECKED by a frame proof'),
    ('include/nano/tuner/surrogate.h', 'm_loss_values'): ('per-call', 'same as m_loss_outputs'),
    ('include/nano/tuner/surrogate.h', 'm_loss_vgrads'): ('per-call', 'same as m_loss_outputs'),
    ('src/lsearchk/cgdescent.cpp', 'm_max_iterations'): ('per-call', 'member of the params_t value made inside every lsearchk_cgdescent_t::do_get call (a local)'),
    ('src/program/solver.cpp', 'm_ldlt'): ('per-call', 'buffers of a program (LP/QP) object local to program::solver_t::solve; the interior-point solver is not part of the shared-object story (C04); UNCHECKED by a frame proof'),
    ('src/program/solver.cpp', 'm_lmat'): ('per-call', 'same as m_ldlt'),
    ('src/program/solver.cpp', 'm_lvec'): ('per-call', 'same as m_ldlt'),
    ('src/program/solver.cpp', 'm_lsol'): ('per-call', 'same as m_ldlt'),
}
STATIC_OK = {
    'manager': ('init-once', 'factory singletons (loss_t::all(), solver_t::all(), ...): function-local static filled under std::call_once, read-only afterwards (factory_t::get clones); registering new prototypes at run time (factory_t::add) while fitting is outside the property'),
    'flag': ('init-once', 'the std::once_flag guarding a factory singleton'),
}


def files(repo):
    for sub in ('include', 'src'):
        for root, _, names in os.walk(os.path.join(repo, sub)):
            for nm in sorted(names):
                if nm.endswith(('.h', '.hpp', '.cpp')):
                    yield os.path.join(root, nm)


def strip_comments(text):
    text = re.sub(r'/\*.*?\*/', lambda m: re.sub(r'[^\n]', ' ', m.group(0)), text, flags=re.S)
    return re.sub(r'//[^\n]*', '', text)


def scan(repo=None):
    repo = repo or astload.REPO
    hits = []
    for f in files(repo):
        rel = os.path.relpath(f, repo)
        try:
            text = strip_comments(open(f, errors='replace').read())
        except OSError:
            continue
        for i, ln in enumerate(text.split('\n'), 1):
            s = ln.strip()
            m = re.match(r'^mutable\s+([^;=(]*?)\b(\w+)\s*(\{[^;]*\})?\s*(=[^;]*)?;', s)
            if m:
                hits.append(('mutable member', rel, i, m.group(2), s[:100]))
            elif re.search(r'\bmutable\b', s) and not re.search(r'\)\s*mutable\b', s):
                hits.append(('mutable (unparsed)', rel, i, '?', s[:100]))
            m = re.match(r'^(static|thread_local)\s+(?!constexpr\b|const\b|inline\s+constexpr\b)([^;=(){}]*?)\b(\w+)\s*(=|\{|;)', s)
            if m and not s.startswith('static_assert'):
                hits.append(('static storage', rel, i, m.group(3), s[:100]))
            if re.search(r'\bthread_local\b', s) and not s.startswith('thread_local'):
                hits.append(('static storage', rel, i, '?', s[:100]))
            if 'const_cast' in s:
                hits.append(('const_cast', rel, i, '?', s[:100]))
            # a variable defined at namespace scope (column 0, no parameter list, not const / constexpr / a declaration keyword)
            m = re.match(r'^([A-Za-z_:][\w:<>, \*&]*?)\s+(\w+)\s*(=[^;()]*|\{[^;()]*\})?;\s*$', ln)
            if m and not re.match(r'^(using|namespace|template|class|struct|enum|return|typedef|extern|friend|static_assert|constexpr|inline|static|const|break|continue|else|goto|public|private|protected)\b', ln) \
                    and not re.search(r'\bconst\b|\bconstexpr\b', m.group(1)):
                hits.append(('static storage', rel, i, m.group(2), s[:100]))
    return hits


def classify(hits):
    out, unknown = [], []
    for kind, rel, line, name, text in hits:
        c = None
        if kind == 'mutable member':
            c = CLASSIFIED.get((rel, name))
        elif kind == 'static storage':
            c = STATIC_OK.get(name)
        rec = {'kind': kind, 'file': rel, 'line': line, 'name': name, 'text': text,
               'class': c[0] if c else 'UNCLASSIFIED', 'why': c[1] if c else ''}
        out.append(rec)
        if c is None:
            unknown.append(rec)
    return out, unknown


# ===================================================================================================== AST scan (clang-query)
"""The same supporting fact read off clang's AST instead of tokens (clang-query-14, matchers over every translation unit):
  * every `mutable` FieldDecl,
  * every VarDecl with static storage duration that is not constexpr: function-local statics (`local`) and namespace-scope
    variables / static data members (`global`), const ones included (their dynamic initialisation is a write as well),
declared in a file under include/ or src/ of the library.  Translation units: one generated umbrella TU that includes every header
of include/ (so a header nobody includes yet is scanned too) and the .cpp files of src/ -- quick tier: those whose text contains one
of the tokens `mutable`, `static`, `thread_local` (a pre-filter for which TUs clang is asked about; a keyword-free namespace-scope
variable of a .cpp is then found by the thorough tier only, which scans every TU).  The result is cached under a content hash of
include/ + src/.  A hit that AST_CLASSIFIED does not know makes the lint UNDECIDED (exit 2): a lint cannot refute, but it does not pass."""
import hashlib
import json
import subprocess
import concurrent.futures as _cf

QUERY = '''set bind-root true
set output diag
enable output dump
match fieldDecl(isExpansionInFileMatching("{root}/(include|src)/")).bind("field")
match varDecl(isExpansionInFileMatching("{root}/(include|src)/"), hasStaticStorageDuration(), unless(isConstexpr()), unless(parmVarDecl()), hasParent(declStmt())).bind("local")
match varDecl(isExpansionInFileMatching("{root}/(include|src)/"), hasStaticStorageDuration(), unless(isConstexpr()), unless(parmVarDecl()), unless(hasParent(declStmt()))).bind("global")
match cxxConstCastExpr(isExpansionInFileMatching("{root}/(include|src)/")).bind("constcast")
'''
# (file, name) -> (class, why); statics by name where the same idiom repeats in every factory
AST_STATIC_OK = {
    'manager': ('init-once', 'factory singletons (loss_t::all(), solver_t::all(), generator_t::all() ...): function-local static filled under std::call_once, read-only afterwards (factory_t::get clones)'),
    'flag': ('init-once', 'the std::once_flag guarding a factory singleton'),
    'enum_strings': ('init-once', 'function-local `static const auto` table of enum names: the initialiser enum_string<tenum>() has no inputs (no parameter, no member, no other variable), so every thread that could win the initialisation race stores the same value; read-only afterwards'),
    'options': ('init-once', 'same idiom as enum_strings (include/nano/core/strutil.h, include/nano/parameter.h)'),
}
AST_GLOBAL_OK = {
    ('include/nano/parameter.h', 'LE'): ('init-once', 'namespace-scope `static const` tag object without state (LE_t{})'),
    ('include/nano/parameter.h', 'LT'): ('init-once', 'namespace-scope `static const` tag object without state (LT_t{})'),
}


def _content_key(repo, tier):
    h = hashlib.sha256(tier.encode() + open(os.path.abspath(__file__), 'rb').read())
    for f in files(repo):
        h.update(f.encode() + b'\0' + open(f, 'rb').read())
    return h.hexdigest()[:24]


def _run_query(tu, qfile):
    cmd = ['clang-query-14', '-f', qfile, tu, '--'] + [x for x in astload.clang_flags() if x != '-fsyntax-only']
    try:
        r = subprocess.run(cmd, capture_output=True, text=True, timeout=280)
    except (subprocess.TimeoutExpired, OSError) as e:
        return tu, None, f'clang-query failed: {e}'
    errs = [ln for ln in r.stderr.split('\n') if ' error: ' in ln]
    if errs or 'Error parsing' in r.stdout or 'Matcher not found' in r.stdout:
        return tu, None, (errs or [r.stdout[:300]])[0][:300]
    return tu, r.stdout, None


def scan_ast(tier='quick', repo=None):
    """-> (hits [(kind, file, line, name, declaration line of clang's dump)], problems [str])"""
    repo = repo or astload.REPO
    cdir = os.path.join(astload.SCRATCH, 'cache')
    cpath = os.path.join(cdir, f'C18_scan_{_content_key(repo, tier)}.json')
    if os.path.exists(cpath):
        try:
            d = json.load(open(cpath))
            return [tuple(x) for x in d['hits']], d['problems']
        except (OSError, ValueError):
            pass
    wdir = os.path.join(astload.SCRATCH, 'scan')
    os.makedirs(wdir, exist_ok=True)
    astload.version_include_dir()
    umbrella = os.path.join(wdir, f'nv_all_headers_{os.getpid()}.cpp')
    hdrs = sorted(os.path.relpath(f, os.path.join(repo, 'include')) for f in files(repo) if f.startswith(os.path.join(repo, 'include') + os.sep))
    open(umbrella, 'w').write(''.join(f'#include <{h}>\n' for h in hdrs))
    qfile = os.path.join(wdir, f'query_{os.getpid()}.txt')
    open(qfile, 'w').write(QUERY.format(root=re.escape(os.path.realpath(repo)).replace('\\/', '/')))
    tus = [umbrella]
    token_files = {os.path.join(repo, h[1]) for h in scan(repo) if h[0] == 'static storage'}      # token-level candidates (column-0 definitions)
    for f in files(repo):
        if f.endswith('.cpp') and f.startswith(os.path.join(repo, 'src') + os.sep):
            if tier == 'thorough' or f in token_files or re.search(r'\b(mutable|static|thread_local)\b', strip_comments(open(f, errors='replace').read())):
                tus.append(f)
    hits, problems = {}, []
    with _cf.ThreadPoolExecutor(max_workers=8) as ex:
        for tu, out, err in ex.map(lambda t: _run_query(t, qfile), tus):
            if err:
                problems.append(f'{os.path.relpath(tu, repo) if tu != umbrella else "<all headers>"}: {err}')
                continue
            cur = None
            for ln in out.split('\n'):
                m = re.match(r'^(/[^:]+):(\d+):\d+: note: "(field|local|global|constcast)" binds here', ln)
                if m:
                    cur = (m.group(3), os.path.relpath(m.group(1), os.path.realpath(repo)), int(m.group(2)))
                    if cur[0] == 'constcast':
                        if not cur[1].startswith('..'):
                            hits.setdefault(('const_cast', cur[1], cur[2], '?'), 'const_cast expression')
                        cur = None
                    continue
                m = re.match(r'^(FieldDecl|VarDecl) 0x[0-9a-f]+ <[^>]*> \S+( implicit)?( referenced| used)* (\w+) \'', ln)
                if m and cur:
                    kind, rel, line = cur
                    cur = None
                    if kind == 'field' and not re.search(r"' mutable\b", ln):
                        continue
                    if rel.startswith('..'):
                        continue
                    k = {'field': 'mutable member', 'local': 'function-local static', 'global': 'namespace-scope / static member variable'}[kind]
                    hits.setdefault((k, rel, line, m.group(4)), re.sub(r'0x[0-9a-f]+ ', '', ln)[:160])
    for f in (umbrella, qfile):
        try:
            os.remove(f)
        except OSError:
            pass
    res = sorted((k[0], k[1], k[2], k[3], v) for k, v in hits.items())
    if not problems:
        try:
            os.makedirs(cdir, exist_ok=True)
            json.dump({'hits': res, 'problems': problems}, open(cpath + f'.{os.getpid()}', 'w'))
            os.replace(cpath + f'.{os.getpid()}', cpath)
        except OSError:
            pass
    return res, problems


def classify_ast(hits):
    out, unknown = [], []
    for kind, rel, line, name, text in hits:
        if kind == 'mutable member':
            c = CLASSIFIED.get((rel, name))
        elif kind == 'function-local static':
            c = AST_STATIC_OK.get(name)
        else:
            c = AST_GLOBAL_OK.get((rel, name)) or AST_STATIC_OK.get(name)
        rec = {'kind': kind, 'file': rel, 'line': line, 'name': name, 'text': text, 'class': c[0] if c else 'UNCLASSIFIED', 'why': c[1] if c else ''}
        out.append(rec)
        if c is None:
            unknown.append(rec)
    return out, unknown


if __name__ == '__main__':
    import sys
    import time
    t0 = time.time()
    hits, problems = scan_ast(sys.argv[1] if len(sys.argv) > 1 else 'quick')
    print('seconds', round(time.time() - t0, 1), 'hits', len(hits), 'problems', problems)
    recs, unknown = classify_ast(hits)
    for r in recs:
        print(r['class'], r['kind'], r['file'], r['line'], r['name'])
