"""C18 supporting static facts (a LINT, not a proof; reported under `bounded`, never counted as discharged).

Token-level scan of every file under include/ and src/ of the library for the four ways a C++ const member function can
write without the compiler objecting (besides pointer / reference members, which the frame proofs model explicitly):
  * `mutable` data members,
  * variables with static storage duration (function-local statics, static / namespace-scope variables, thread_local),
  * `const_cast`,
and a list of the class members of pointer / reference / view type of the classes under contract (from the generated
struct layouts, i.e. from clang's AST).  Each hit must be classified in CLASSIFIED below: covered by a frame proof of this
spec, an object that is not shared (made per call / per task), synchronisation, or named as unchecked.  A hit that the
table does not know makes the lint obligation fail: nobody can add shared mutable state unnoticed."""
import os
import re

import astload

# (file, name) -> (class, why).  class: covered | per-call | per-task | sync | init-once | not-shared | unchecked
CLASSIFIED = {
    ('include/nano/function.h', 'm_fcalls'): ('per-task', 'evaluation counters of the function object; the property gives every thread its own function object; written by function_t::operator() / clear_statistics (target function_clear_statistics)'),
    ('include/nano/function.h', 'm_gcalls'): ('per-task', 'same as m_fcalls'),
    ('include/nano/solver/lsearch.h', 'm_last_step_size'): ('per-call', 'lsearch_t is made by make_lsearch() inside every minimize(): targets lsearch_get, solver_make_lsearch, *_do_minimize'),
    ('include/nano/gboost/function.h', 'm_values'): ('covered', 'rows [begin, end) per chunk task: targets gboost_scale_task / gboost_bias_task / gboost_grads_task; one function object per (trial, fold) task'),
    ('include/nano/gboost/function.h', 'm_vgrads'): ('covered', 'same as m_values'),
    ('include/nano/gboost/function.h', 'm_outputs'): ('covered', 'same as m_values'),
    ('include/nano/gboost/function.h', 'm_accumulators'): ('covered', 'slot [tnum] per chunk task: targets gboost_scale_task / gboost_bias_task'),
    ('include/nano/linear/function.h', 'm_accumulators'): ('covered', 'slot [tnum] per chunk task: target linear_vgrad_task'),
    ('include/nano/feature.h', 'm_labels'): ('not-shared', 'feature_t::set_label() const fills in labels while a datasource is LOADED (include/nano/datasource/storage.h feature_storage_t::set); not reachable from dataset_t / generator_t / iterator const interfaces (no caller outside datasource/storage.h); UNCHECKED beyond this textual fact'),
    ('include/nano/core/parallel.h', 'm_mutex'): ('sync', 'the pool\'s own mutex (C17)'),
    ('include/nano/core/parallel.h', 'm_condition'): ('sync', 'the pool\'s own condition variable (C17)'),
    ('include/nano/dataset/iterator.h', 'm_targets_buffers'): ('covered', 'slot [tnum]: targets titer_targets, *_loop_*task'),
    ('include/nano/dataset/iterator.h', 'm_flatten_buffers'): ('covered', 'slot [tnum]: targets fiter_flatten, fiter_loop_*task'),
    ('include/nano/dataset/iterator.h', 'm_buffers'): ('covered', 'slot [tnum].m_<kind>: targets siter_loop_*_task, siter_loop1_*'),
    ('include/nano/tuner/surrogate.h', 'm_loss_outputs'): ('per-call', 'surrogate fit function objects are locals of surrogate_tuner_t::do_optimize, which runs on the thread that called ml::tune (not inside the parallel section); UNCHECKED by a frame proof'),
    ('include/nano/tuner/surrogate.h', 'm_loss_values'): ('per-call', 'same as m_loss_outputs'),
    ('include/nano/tuner/surrogate.h', 'm_loss_vgrads'): ('per-call', 'same as m_loss_outputs'),
    ('src/lsearchk/cgdescent.cpp', 'm_max_iterations'): ('per-call', 'member of the params_t value made inside every lsearchk_cgdescent_t::do_get call (a local)'),
    ('src/program/solver.cpp', 'm_ldlt'): ('per-call', 'buffers of a program (LP/QP) object local to program::solver_t::solve; the interior-point solver is not part of the shared-object story (C04); UNCHECKED by a frame proof'),
    ('src/program/solver.cpp', 'm_lmat'): ('per-call', 'same as m_ldlt'),
    ('src/program/solver.cpp', 'm_lvec'): ('per-call', 'same as m_ldlt'),
    ('src/program/solver.cpp', 'm_lsol'): ('per-call', 'same as m_ldlt'),
}
STATIC_OK = {
    'manager': ('init-once', 'factory singletons (loss_t::all(), solver_t::all(), ...): function-local static filled under std::call_once, read-only afterwards (factory_t::get clones); registering new prototypes at run time (factory_t::add) while fitting is outside the property'),
    'flag': ('init-once', 'the std::once_flag guarding a factory singleton'),
}


def files(repo):
    for sub in ('include', 'src'):
        for root, _, names in os.walk(os.path.join(repo, sub)):
            for nm in sorted(names):
                if nm.endswith(('.h', '.hpp', '.cpp')):
                    yield os.path.join(root, nm)


def strip_comments(text):
    text = re.sub(r'/\*.*?\*/', lambda m: re.sub(r'[^\n]', ' ', m.group(0)), text, flags=re.S)
    return re.sub(r'//[^\n]*', '', text)


def scan(repo=None):
    repo = repo or astload.REPO
    hits = []
    for f in files(repo):
        rel = os.path.relpath(f, repo)
        try:
            text = strip_comments(open(f, errors='replace').read())
        except OSError:
            continue
        for i, ln in enumerate(text.split('\n'), 1):
            s = ln.strip()
            m = re.match(r'^mutable\s+([^;=(]*?)\b(\w+)\s*(\{[^;]*\})?\s*(=[^;]*)?;', s)
            if m:
                hits.append(('mutable member', rel, i, m.group(2), s[:100]))
            elif re.search(r'\bmutable\b', s) and not re.search(r'\)\s*mutable\b', s):
                hits.append(('mutable (unparsed)', rel, i, '?', s[:100]))
            m = re.match(r'^(static|thread_local)\s+(?!constexpr\b|const\b|inline\s+constexpr\b)([^;=(){}]*?)\b(\w+)\s*(=|\{|;)', s)
            if m and not s.startswith('static_assert'):
                hits.append(('static storage', rel, i, m.group(3), s[:100]))
            if re.search(r'\bthread_local\b', s) and not s.startswith('thread_local'):
                hits.append(('static storage', rel, i, '?', s[:100]))
            if 'const_cast' in s:
                hits.append(('const_cast', rel, i, '?', s[:100]))
            # a variable defined at namespace scope (column 0, no parameter list, not const / constexpr / a declaration keyword)
            m = re.match(r'^([A-Za-z_:][\w:<>, \*&]*?)\s+(\w+)\s*(=[^;()]*|\{[^;()]*\})?;\s*$', ln)
            if m and not re.match(r'^(using|namespace|template|class|struct|enum|return|typedef|extern|friend|static_assert|constexpr|inline|static|const|break|continue|else|goto|public|private|protected)\b', ln) \
                    and not re.search(r'\bconst\b|\bconstexpr\b', m.group(1)):
                hits.append(('static storage', rel, i, m.group(2), s[:100]))
    return hits


def classify(hits):
    out, unknown = [], []
    for kind, rel, line, name, text in hits:
        c = None
        if kind == 'mutable member':
            c = CLASSIFIED.get((rel, name))
        elif kind == 'static storage':
            c = STATIC_OK.get(name)
        rec = {'kind': kind, 'file': rel, 'line': line, 'name': name, 'text': text,
               'class': c[0] if c else 'UNCLASSIFIED', 'why': c[1] if c else ''}
        out.append(rec)
        if c is None:
            unknown.append(rec)
    return out, unknown
