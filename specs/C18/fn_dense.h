/* C18 / functional half, flatten_iterator_t / targets_iterator_t: which samples a chunk task hands to the operator */
#include "base.h"
struct nv_idx { uint64_t id; };                               /* indices_t: ghost identity of the sample list */
struct nv_range { int64_t m_begin, m_end; };                  /* tensor_range_t */
struct nv_slice { uint64_t id; int64_t b, e; };               /* samples.slice(range): positions [b, e) of list id */
struct nv_dbuf { uint64_t slot; int32_t cached; };            /* a dense tensor: per-thread buffer `slot`, or the cache */
/* a view of flatten inputs (rank 2) / targets (rank 4): the values of positions [b, e) of sample list id, where they are stored, scaled or not */
struct nv_dview { struct nv_slice s; uint64_t slot; int32_t cached; int32_t scaled; };
struct nv_stats { char unused; };
struct nv_cb { char unused; };
struct nv_fdataset { char unused; };
struct nv_dbufs { uint64_t n; };
