int64_t __CPROVER_uninterpreted_idx(uint64_t, int64_t);     /* element k of the index list with identity id */
int64_t __CPROVER_uninterpreted_idxsize(uint64_t);
#define NV_IDX(id, k) __CPROVER_uninterpreted_idx(id, k)
static int64_t nv_idx_at(struct nv_idx v, int64_t k) { return NV_IDX(v.id, k); }
static int64_t nv_idx_size(struct nv_idx v) { return __CPROVER_uninterpreted_idxsize(v.id); }

/* m_buffers[i]: element i, every member tagged with (i, kind) */
struct nv_fbuf nv_elem;
static struct nv_fbuf* nv_fbuf_at(const struct nv_fbufs* v, uint64_t i)
{
  __CPROVER_assert(i < v->n, "per-thread buffer index (tnum) is within the buffers vector");
  nv_elem.m_sclass.slot = i; nv_elem.m_sclass.kind = NV_K_SCLASS; nv_elem.m_mclass.slot = i; nv_elem.m_mclass.kind = NV_K_MCLASS;
  nv_elem.m_scalar.slot = i; nv_elem.m_scalar.kind = NV_K_SCALAR; nv_elem.m_struct.slot = i; nv_elem.m_struct.kind = NV_K_STRUCT;
  return &nv_elem;
}
/* ASSUMED (frame: dataset group): dataset_t::select(samples, feature, buffer) returns the values of `feature` for `samples`,
 * stored in `buffer`: identified by exactly these three */
static struct nv_selview nv_fselect(const struct nv_fdataset* d, struct nv_idx samples, int64_t feature, const struct nv_tagbuf* buffer)
{ struct nv_selview v; v.samples = samples.id; v.feature = feature; v.buf = *buffer; return v; }

/* the operator: invocation number nv_k (ghost, any) is checked against what the contract of the caller expects for it
 * (ghosts nv_exp_*, fixed in the requires clause of the task: no uninterpreted function inside a loop invariant) */
int64_t nv_k; int64_t nv_cb_calls;
int64_t nv_exp_feature; uint64_t nv_exp_tnum, nv_exp_samples; int32_t nv_exp_kind;
#define NV_VIEW_IS(v, smp, f, t, k) ((v).samples == (smp) && (v).feature == (f) && (v).buf.slot == (t) && (v).buf.kind == (k))
static void nv_fcallback(const struct nv_cb* cb, int64_t feature, uint64_t tnum, struct nv_selview v)
{
  if (nv_cb_calls == nv_k)
  {
    __CPROVER_assert(feature == nv_exp_feature, "chunk task [begin, end): invocation k of the operator is for the feature AT POSITION begin + k of the feature list (every feature of the chunk once, none twice)");
    __CPROVER_assert(tnum == nv_exp_tnum, "chunk task: the operator gets the worker id of this task");
    __CPROVER_assert(NV_VIEW_IS(v, nv_exp_samples, nv_exp_feature, nv_exp_tnum, nv_exp_kind),
                     "chunk task: the values handed to the operator are dataset().select(samples, THAT feature, m_buffers[tnum].m_<kind of the operator>)");
  }
  nv_cb_calls = nv_cb_calls + 1;
}

#define NV_FS_FRESH(s) (__CPROVER_is_fresh(s, sizeof(*(s))) && __CPROVER_is_fresh((s)->m_dataset, sizeof(*(s)->m_dataset)) && 1 <= (s)->m_buffers.n)

/* chunk task of loop(samples, features, op): for [begin, end) the operator runs exactly end - begin times; invocation k is
 * for the feature AT POSITION begin + k of `features`, with this task's tnum and the values dataset().select(samples, that
 * feature, m_buffers[tnum].m_<kind>) */
#define NV_FS_TASK(kind) \
__CPROVER_requires(NV_FS_FRESH(self) && tnum < self->m_buffers.n && __CPROVER_is_fresh(features, sizeof(*features)) && __CPROVER_is_fresh(samples, sizeof(*samples)) \
                   && __CPROVER_is_fresh(callback, sizeof(*callback))) \
__CPROVER_requires(0 <= begin && begin <= end && end <= 4611686018427387904 && nv_cb_calls == 0 && 0 <= nv_k && nv_k <= 4611686018427387904) \
__CPROVER_requires(nv_exp_feature == NV_IDX(features->id, begin + nv_k) && nv_exp_tnum == tnum && nv_exp_samples == samples->id && nv_exp_kind == kind) \
__CPROVER_assigns(nv_cb_calls, nv_elem, nv_thrown) \
__CPROVER_ensures(nv_cb_calls == end - begin)
/* the loop counter is named through NV_LOOPVAR_<fn>_1 (found by its role): a renamed counter does not break the invariant */
#define NV_ELEM_KEEPS(f, K) ((nv_elem.f.slot == __CPROVER_loop_entry(nv_elem.f.slot) && nv_elem.f.kind == __CPROVER_loop_entry(nv_elem.f.kind)) \
  || (nv_elem.f.slot == tnum && nv_elem.f.kind == (K)))
#define NV_FS_TASK_LOOP(kind, index) \
__CPROVER_assigns(index, nv_cb_calls, nv_elem, nv_thrown) \
__CPROVER_loop_invariant(begin <= index && index <= end && nv_cb_calls == index - begin) \
/* the tags of the per-thread buffer element are either still what they were at loop entry (the buffer reference was taken BEFORE the \
 * loop: a maintainer may hoist `m_buffers[tnum].m_<kind>` into a local) or what the accessor writes for THIS worker (taken inside) */ \
__CPROVER_loop_invariant(NV_ELEM_KEEPS(m_sclass, NV_K_SCLASS) && NV_ELEM_KEEPS(m_mclass, NV_K_MCLASS) && NV_ELEM_KEEPS(m_scalar, NV_K_SCALAR) && NV_ELEM_KEEPS(m_struct, NV_K_STRUCT)) \
__CPROVER_decreases(end - index)
#define NV_CONTRACT_fsel_task_sclass NV_FS_TASK(NV_K_SCLASS)
#define NV_LOOP_fsel_task_sclass_1 NV_FS_TASK_LOOP(NV_K_SCLASS, NV_LOOPVAR_fsel_task_sclass_1)
#define NV_CONTRACT_fsel_task_mclass NV_FS_TASK(NV_K_MCLASS)
#define NV_LOOP_fsel_task_mclass_1 NV_FS_TASK_LOOP(NV_K_MCLASS, NV_LOOPVAR_fsel_task_mclass_1)
#define NV_CONTRACT_fsel_task_scalar NV_FS_TASK(NV_K_SCALAR)
#define NV_LOOP_fsel_task_scalar_1 NV_FS_TASK_LOOP(NV_K_SCALAR, NV_LOOPVAR_fsel_task_scalar_1)
#define NV_CONTRACT_fsel_task_struct NV_FS_TASK(NV_K_STRUCT)
#define NV_LOOP_fsel_task_struct_1 NV_FS_TASK_LOOP(NV_K_STRUCT, NV_LOOPVAR_fsel_task_struct_1)

/* loop(samples, ifeature, op): exactly one invocation, for that feature, tnum 0, values select(samples, ifeature, m_buffers[0].m_<kind>) */
#define NV_FS_ONE(kind) \
__CPROVER_requires(NV_FS_FRESH(self) && __CPROVER_is_fresh(callback, sizeof(*callback)) && nv_cb_calls == 0 && nv_k == 0) \
__CPROVER_requires(nv_exp_feature == ifeature && nv_exp_tnum == 0 && nv_exp_samples == samples.id && nv_exp_kind == kind) \
__CPROVER_assigns(nv_cb_calls, nv_elem, nv_thrown) \
__CPROVER_ensures(nv_cb_calls == 1)
#define NV_CONTRACT_fsel_one_sclass NV_FS_ONE(NV_K_SCLASS)
#define NV_CONTRACT_fsel_one_mclass NV_FS_ONE(NV_K_MCLASS)
#define NV_CONTRACT_fsel_one_scalar NV_FS_ONE(NV_K_SCALAR)
#define NV_CONTRACT_fsel_one_struct NV_FS_ONE(NV_K_STRUCT)

/* loop(samples, features, op): one map over [0, features.size()) in chunks of features_per_thread(..) >= 1 (C17's
 * precondition), running the chunk task above (pairing: the lambda of this very function) */
int64_t nv_map_calls, nv_map_elements, nv_map_chunk;
static void nv_iter_map(const struct nv_fsiter* it, int64_t elements, int64_t chunksize)
{ nv_map_calls = nv_map_calls + 1; nv_map_elements = elements; nv_map_chunk = chunksize; }
static uint64_t nv_concurrency(const struct nv_fsiter* it) { uint64_t c = nv_nondet_uint64_t(); __CPROVER_assume(c >= 1); return c; }   /* pool size >= 1 (C17 constructor) */
/* nano::idiv(n, d): rounded division (include/nano/core/numeric.h); only its sign matters here: n >= 0, d >= 1 => result >= 0 */
static int64_t nv_idiv(int64_t n, uint64_t d) { int64_t r = nv_nondet_int64_t(); __CPROVER_assume(n < 0 || d < 1 || r >= 0); return r; }
static int64_t nv_max_i64(int64_t a, int64_t b) { return a < b ? b : a; }
int64_t features_per_thread(struct nv_idx* features, uint64_t concurrency);
#define NV_CONTRACT_features_per_thread __CPROVER_requires(__CPROVER_is_fresh(features, sizeof(*features))) __CPROVER_assigns() __CPROVER_ensures(__CPROVER_return_value >= 1)
#define NV_FS_LOOP \
__CPROVER_requires(NV_FS_FRESH(self) && nv_map_calls == 0) \
__CPROVER_assigns(nv_map_calls, nv_map_elements, nv_map_chunk, nv_thrown) \
__CPROVER_ensures(nv_map_calls == 1 && nv_map_elements == __CPROVER_uninterpreted_idxsize(features.id) && nv_map_chunk >= 1)
#define NV_CONTRACT_fsel_loop_sclass NV_FS_LOOP
#define NV_CONTRACT_fsel_loop_mclass NV_FS_LOOP
#define NV_CONTRACT_fsel_loop_scalar NV_FS_LOOP
#define NV_CONTRACT_fsel_loop_struct NV_FS_LOOP

/* loop(samples, op): the list of features OF THE OPERATOR'S KIND, the caller's samples */
int64_t nv_in_calls; uint64_t nv_in_samples, nv_in_features;
static void nv_loop3(const struct nv_fsiter* it, struct nv_idx samples, struct nv_idx features, const struct nv_cb* cb)
{ nv_in_calls = nv_in_calls + 1; nv_in_samples = samples.id; nv_in_features = features.id; }
#define NV_FS_ALL(member) \
__CPROVER_requires(NV_FS_FRESH(self) && nv_in_calls == 0) \
__CPROVER_assigns(nv_in_calls, nv_in_samples, nv_in_features, nv_thrown) \
__CPROVER_ensures(nv_in_calls == 1 && nv_in_samples == samples.id && nv_in_features == self->member.id)
#define NV_CONTRACT_fsel_all_sclass NV_FS_ALL(m_sclass_features)
#define NV_CONTRACT_fsel_all_mclass NV_FS_ALL(m_mclass_features)
#define NV_CONTRACT_fsel_all_scalar NV_FS_ALL(m_scalar_features)
#define NV_CONTRACT_fsel_all_struct NV_FS_ALL(m_struct_features)
