"""C18, functional half of schedule independence for the chunked loops the library shares work through.

The frames (spec.py) say WHERE a chunk task may write.  They cannot see a task that does the wrong work inside its own
slot: scoring the first feature of its chunk end - begin times is frame-clean, yet which features the weak learners get
to see then depends on the chunk boundaries, i.e. on the pool size.  Here every chunk task is put under a contract that
says WHAT it hands to the operator: for [begin, end) exactly one invocation per index, in order, with the element AT that
index (ghost invocation number nv_k: invocation k is for index begin + k), this task's tnum, and the data of exactly that
element.  With C17 (the chunks tile [0, elements) for every pool size; tnum < pool size) the multiset of operator
invocations is independent of the pool size.  Plain extraction (no erasure): every call is mapped, closed list.
"""
import astload
from core import Fn, Target
import frame

ITU = 'src/dataset/iterator.cpp'
IFLT = 'iterator_t'
CHECKS = frame.CHECKS
KINDS = ['sclass', 'mclass', 'scalar', 'struct']


def T(*a, **k):
    return Target(*a, checks=CHECKS, **k)


def mg(*parts):
    return lambda d: all(p in (d.get('mangledName') or '') for p in parts)


# ------------------------------------------------------------------------------------------ select_iterator_t
SEL_H = 'specs/C18/fn_select2.h'
IDX = r'^(nano::)?indices_c?map_t$|^(nano::)?indices_t$|^(nano::)?tensor_t<nano::tensor_(carray|vector)_storage_t, long, 1>$'
SEL_TYPES = [(r'^nano::select_iterator_t$', 'struct nv_fsiter'), (r'^nano::select_iterator_t::buffer_t$|^buffer_t$|::value_type$', 'struct nv_fbuf'),
             (r'^std::vector<nano::select_iterator_t::buffer_t', 'struct nv_fbufs'), (IDX, 'struct nv_idx'),
             (r'^(nano::)?(sclass|mclass|scalar|struct)_mem_t$|^(nano::)?tensor_t<nano::tensor_vector_storage_t, (int|signed char|double), [124]>$', 'struct nv_tagbuf'),
             (r'^(nano::)?(sclass|mclass|scalar|struct)_cmap_t$|^(nano::)?tensor_t<nano::tensor_carray_storage_t, (int|signed char|double), [124]>$', 'struct nv_selview'),
             (r'^nano::dataset_t$', 'struct nv_fdataset'), (r'^std::function<|_callback_t$', 'struct nv_cb')]
SEL_PTR = [(r'^nano::dataset_t$', 'struct nv_fdataset')]


def select_layout():
    bases = {'nano::base_dataset_iterator_t': IFLT}
    lay = frame.Layout([dict(tu=ITU, cls='nano::select_iterator_t::buffer_t', cname='struct nv_fbuf', flt=IFLT, bases=bases),
                        dict(text='NV_FBUFS'),
                        dict(tu=ITU, cls='nano::select_iterator_t', cname='struct nv_fsiter', flt=IFLT, bases=bases, ptr=SEL_PTR)],
                       types=SEL_TYPES, base_tu=ITU)

    def pre():
        text, info = lay.text()
        return f'#include "{astload.VERIF}/specs/C18/fn_select.h"\n' + text, info
    return pre


def select_targets():
    pre = select_layout()
    common = lambda: dict(
        types=SEL_TYPES, uf_float=False, self_struct='struct nv_fsiter',
        calls=[(r'^operator\(\)\|[^|]*\|(nano::indices_cmap_t|nano::tensor_t<nano::tensor_carray_storage_t, long, 1>)', 'nv_idx_at({0}, {1})'),
               (r'^operator\[\]\|.*\|std::vector<nano::select_iterator_t::buffer_t', '(*nv_fbuf_at({&0}, {1}))'),
               (r'^operator\(\)\|.*\|(const )?std::function<.*#4$', 'nv_fcallback({&0}, {1}, {2}, {3})'),
               # indices_cmap_t made from an indices_t: a view of the same list
               (r'^ctor\|nano::tensor_t<nano::tensor_carray_storage_t, long, 1>\|void \(const tensor_t<nano::tensor_vector_storage_t, long', '{0}'),
               (r'^features_per_thread\|', 'features_per_thread'), (r'^idiv\|', 'nv_idiv({0}, {1})'), (r'^max\|', 'nv_max_i64({0}, {1})')],
        members=[(r'^dataset\|nano::base_dataset_iterator_t', '(*{self}->m_dataset)'), (r'^select\|nano::dataset_t\|#3', 'nv_fselect({self}, {0}, {1}, {&2})'),
                 (r'^size\|nano::tensor_base_t<long, 1', 'nv_idx_size({*self})'), (r'^concurrency\|nano::base_dataset_iterator_t', 'nv_concurrency'),
                 (r'^map\|nano::base_dataset_iterator_t \*\|#3', 'nv_iter_map({self}, {0}, {1})'),
                 (r'^loop\|nano::select_iterator_t \*\|#3', 'nv_loop3({self}, {0}, {1}, {&2})')])
    fpt = lambda: Fn('features_per_thread', ITU, 'features_per_thread', flt='features_per_thread', types=SEL_TYPES, uf_float=False,
                     calls=common()['calls'], members=common()['members'])
    ts = [T('features_per_thread', [fpt()], SEL_H, pre=pre)]
    for kind in KINDS:
        cb = f'{kind}_callback_t'
        sel3 = lambda d, cb=cb, what='indices_cmap_t': mg('select_iterator_t4loop')(d) and len(astload.param_types(d)) == 3 \
            and cb in astload.param_types(d)[2] and what in astload.param_types(d)[1]
        byf = lambda d, cb=cb: sel3(d, cb, 'indices_cmap_t')
        one = lambda d, cb=cb: sel3(d, cb, 'tensor_size_t')
        allf = lambda d, cb=cb: mg('select_iterator_t4loop')(d) and len(astload.param_types(d)) == 2 and cb in astload.param_types(d)[1]
        ts += [T(f'fsel_task_{kind}', [Fn(f'fsel_task_{kind}', ITU, 'loop', flt=IFLT, select=byf, lambda_index=0, captures=True, **common())], SEL_H, pre=pre),
               T(f'fsel_loop_{kind}', [Fn(f'fsel_loop_{kind}', ITU, 'loop', flt=IFLT, select=byf, **common()), fpt()], SEL_H, pre=pre, replace=['features_per_thread']),
               T(f'fsel_one_{kind}', [Fn(f'fsel_one_{kind}', ITU, 'loop', flt=IFLT, select=one, **common())], SEL_H, pre=pre),
               T(f'fsel_all_{kind}', [Fn(f'fsel_all_{kind}', ITU, 'loop', flt=IFLT, select=allf, **common())], SEL_H, pre=pre)]
    return ts


def targets():
    return select_targets()


DECIDED = [
    'FUNCTIONAL HALF (what a chunk task does, not only where it writes) -- select_iterator_t: the chunk task of loop(samples, features, op) [sclass / mclass / scalar / struct] invokes the operator exactly end - begin times; invocation k is for the feature AT POSITION begin + k of `features` (ghost k), with this task\'s tnum and the values dataset().select(samples, that feature, m_buffers[tnum].m_<kind of the operator>); loop(samples, features, op) maps [0, features.size()) once, in chunks of features_per_thread(..) >= 1; loop(samples, op) passes the caller\'s samples and the feature list of the operator\'s own kind; loop(samples, ifeature, op) invokes the operator once with that feature, tnum 0 and select(samples, ifeature, m_buffers[0].m_<kind>).  With C17 (chunks tile [0, elements) for every pool size) the multiset of (feature, values) the operator sees is the same for every pool size',
]
ASSUMPTIONS = [
    'functional targets: an index list is a ghost identity with uninterpreted elements NV_IDX(id, k) and size; dataset_t::select(samples, feature, buffer) is identified by (samples, feature, buffer); nano::idiv(n, d) >= 0 for n >= 0, d >= 1; concurrency() >= 1 (C17); std::max is max',
]
