"""C18, functional half of schedule independence for the chunked loops the library shares work through.

The frames (spec.py) say WHERE a chunk task may write.  They cannot see a task that does the wrong work inside its own
slot: scoring the first feature of its chunk end - begin times is frame-clean, yet which features the weak learners get
to see then depends on the chunk boundaries, i.e. on the pool size.  Here every chunk task is put under a contract that
says WHAT it hands to the operator: for [begin, end) exactly one invocation per index, in order, with the element AT that
index (ghost invocation number nv_k: invocation k is for index begin + k), this task's tnum, and the data of exactly that
element.  With C17 (the chunks tile [0, elements) for every pool size; tnum < pool size) the multiset of operator
invocations is independent of the pool size.  Plain extraction (no erasure): every call is mapped, closed list.
"""
import astload
from core import Fn, Target
import frame

ITU = 'src/dataset/iterator.cpp'
IFLT = 'iterator_t'
CHECKS = frame.CHECKS
KINDS = ['sclass', 'mclass', 'scalar', 'struct']


def T(*a, **k):
    return Target(*a, checks=CHECKS, **k)


def mg(*parts):
    return lambda d: all(p in (d.get('mangledName') or '') for p in parts)


# ------------------------------------------------------------------------------------------ select_iterator_t
SEL_H = 'specs/C18/fn_select2.h'
IDX = r'^(nano::)?indices_c?map_t$|^(nano::)?indices_t$|^(nano::)?tensor_t<nano::tensor_(carray|vector)_storage_t, long, 1>$'
SEL_TYPES = [(r'^nano::select_iterator_t$', 'struct nv_fsiter'), (r'^nano::select_iterator_t::buffer_t$|^buffer_t$|::value_type$', 'struct nv_fbuf'),
             (r'^std::vector<nano::select_iterator_t::buffer_t', 'struct nv_fbufs'), (IDX, 'struct nv_idx'),
             (r'^(nano::)?(sclass|mclass|scalar|struct)_mem_t$|^(nano::)?tensor_t<nano::tensor_vector_storage_t, (int|signed char|double), [124]>$', 'struct nv_tagbuf'),
             (r'^(nano::)?(sclass|mclass|scalar|struct)_cmap_t$|^(nano::)?tensor_t<nano::tensor_carray_storage_t, (int|signed char|double), [124]>$', 'struct nv_selview'),
             (r'^nano::dataset_t$', 'struct nv_fdataset'), (r'^std::function<|_callback_t$', 'struct nv_cb')]
SEL_PTR = [(r'^nano::dataset_t$', 'struct nv_fdataset')]


def select_layout():
    bases = {'nano::base_dataset_iterator_t': IFLT}
    lay = frame.Layout([dict(tu=ITU, cls='nano::select_iterator_t::buffer_t', cname='struct nv_fbuf', flt=IFLT, bases=bases),
                        dict(text='NV_FBUFS'),
                        dict(tu=ITU, cls='nano::select_iterator_t', cname='struct nv_fsiter', flt=IFLT, bases=bases, ptr=SEL_PTR)],
                       types=SEL_TYPES, base_tu=ITU)

    def pre():
        text, info = lay.text()
        return f'#include "{astload.VERIF}/specs/C18/fn_select.h"\n' + text, info
    return pre


def select_targets():
    pre = select_layout()
    common = lambda: dict(
        types=SEL_TYPES, uf_float=False, self_struct='struct nv_fsiter',
        calls=[(r'^operator\(\)\|[^|]*\|(nano::indices_cmap_t|nano::tensor_t<nano::tensor_carray_storage_t, long, 1>)', 'nv_idx_at({0}, {1})'),
               (r'^operator\[\]\|.*\|std::vector<nano::select_iterator_t::buffer_t', '(*nv_fbuf_at({&0}, {1}))'),
               (r'^operator\(\)\|.*\|(const )?std::function<.*#4$', 'nv_fcallback({&0}, {1}, {2}, {3})'),
               # indices_cmap_t made from an indices_t: a view of the same list
               (r'^ctor\|nano::tensor_t<nano::tensor_carray_storage_t, long, 1>\|void \(const tensor_t<nano::tensor_vector_storage_t, long', '{0}'),
               (r'^features_per_thread\|', 'features_per_thread'), (r'^idiv\|', 'nv_idiv({0}, {1})'), (r'^max\|', 'nv_max_i64({0}, {1})')],
        members=[(r'^dataset\|nano::base_dataset_iterator_t', '(*{self}->m_dataset)'), (r'^select\|nano::dataset_t\|#3', 'nv_fselect({self}, {0}, {1}, {&2})'),
                 (r'^size\|nano::tensor_base_t<long, 1', 'nv_idx_size({*self})'), (r'^concurrency\|nano::base_dataset_iterator_t', 'nv_concurrency'),
                 (r'^map\|nano::base_dataset_iterator_t \*\|#3', 'nv_iter_map({self}, {0}, {1})'),
                 (r'^loop\|nano::select_iterator_t \*\|#3', 'nv_loop3({self}, {0}, {1}, {&2})')])
    fpt = lambda: Fn('features_per_thread', ITU, 'features_per_thread', flt='features_per_thread', types=SEL_TYPES, uf_float=False,
                     calls=common()['calls'], members=common()['members'])
    ts = [T('features_per_thread', [fpt()], SEL_H, pre=pre)]
    for kind in KINDS:
        cb = f'{kind}_callback_t'
        sel3 = lambda d, cb=cb, what='indices_cmap_t': mg('select_iterator_t4loop')(d) and len(astload.param_types(d)) == 3 \
            and cb in astload.param_types(d)[2] and what in astload.param_types(d)[1]
        byf = lambda d, cb=cb: sel3(d, cb, 'indices_cmap_t')
        one = lambda d, cb=cb: sel3(d, cb, 'tensor_size_t')
        allf = lambda d, cb=cb: mg('select_iterator_t4loop')(d) and len(astload.param_types(d)) == 2 and cb in astload.param_types(d)[1]
        ts += [T(f'fsel_task_{kind}', [Fn(f'fsel_task_{kind}', ITU, 'loop', flt=IFLT, select=byf, lambda_index=0, captures=True, **common())], SEL_H, pre=pre),
               T(f'fsel_loop_{kind}', [Fn(f'fsel_loop_{kind}', ITU, 'loop', flt=IFLT, select=byf, **common()), fpt()], SEL_H, pre=pre, replace=['features_per_thread']),
               T(f'fsel_one_{kind}', [Fn(f'fsel_one_{kind}', ITU, 'loop', flt=IFLT, select=one, **common())], SEL_H, pre=pre),
               T(f'fsel_all_{kind}', [Fn(f'fsel_all_{kind}', ITU, 'loop', flt=IFLT, select=allf, **common())], SEL_H, pre=pre)]
    return ts



# ------------------------------------------------------------------------------------------ flatten / targets iterators
DEN_H = 'specs/C18/fn_dense2.h'
DEN_TYPES = [(r'^nano::targets_iterator_t$', 'struct nv_ftiter'), (r'^nano::flatten_iterator_t$', 'struct nv_ffiter'),
             (r'^std::vector<nano::tensor_t<nano::tensor_vector_storage_t, double, [24]>', 'struct nv_dbufs'),
             (r'^(nano::)?tensor[24]d_t$|^(nano::)?tensor_t<nano::tensor_vector_storage_t, double, [24]>$|::value_type$', 'struct nv_dbuf'),
             (r'^(nano::)?tensor[24]d_c?map_t$|^(nano::)?tensor_t<nano::tensor_(c|m)array_storage_t, double, [24]>$', 'struct nv_dview'),
             (r'^(nano::)?indices_t$|^(nano::)?tensor_t<nano::tensor_vector_storage_t, long, 1>$', 'struct nv_idx'),
             (r'^(nano::)?indices_c?map_t$|^(nano::)?tensor_t<nano::tensor_(c|m)array_storage_t, long, 1>$|^(nano::)?tensor_c?map_t<long, 1', 'struct nv_slice'),
             (r'^(nano::)?scalar_stats_t$', 'struct nv_stats'), (r'^(nano::)?scaling_type$', 'int32_t'), (r'^(nano::)?tensor_range_t$', 'struct nv_range'),
             (r'^nano::dataset_t$', 'struct nv_fdataset'), (r'^std::function<|_callback_t$', 'struct nv_cb')]


def cache_store_hook(P, n):
    """`m_flatten.slice(range) = <values>` (cache_flatten / cache_targets): nv_cache_store(&self->m_flatten, range, values)"""
    from cxx2c import unwrap
    if n.get('kind') != 'CXXOperatorCallExpr' or len(n.get('inner', [])) != 3:
        return None
    if unwrap(n['inner'][0]).get('referencedDecl', {}).get('name') != 'operator=':
        return None
    lhs = unwrap(n['inner'][1])
    if lhs.get('kind') != 'CXXMemberCallExpr' or lhs['inner'][0].get('name') != 'slice':
        return None
    obj = unwrap(lhs['inner'][0]['inner'][0])
    if obj.get('kind') != 'MemberExpr' or obj.get('name') not in ('m_flatten', 'm_targets'):
        return None
    P.note('cache.slice(range) = values -> nv_cache_store')
    return f'nv_cache_store({P.addr(obj)}, {P.expr(lhs["inner"][1])}, {P.expr(n["inner"][2])})'


def dense_targets():
    bases = {'nano::base_dataset_iterator_t': IFLT, 'nano::targets_iterator_t': IFLT}
    ptr = [(r'^nano::dataset_t$', 'struct nv_fdataset')]
    lay = frame.Layout([dict(tu=ITU, cls='nano::targets_iterator_t', cname='struct nv_ftiter', flt=IFLT, bases=bases, ptr=ptr),
                        dict(tu=ITU, cls='nano::flatten_iterator_t', cname='struct nv_ffiter', flt=IFLT, bases=bases, ptr=ptr)],
                       types=DEN_TYPES, base_tu=ITU)

    def pre():
        text, info = lay.text()
        return f'#include "{astload.VERIF}/specs/C18/fn_dense.h"\n' + text, info
    DENSE = r'(nano::tensor[24]d_t|nano::tensor_t<nano::tensor_vector_storage_t, double, [24]>|nano::tensor_base_t<double, [24])'
    common = lambda st: dict(
        types=DEN_TYPES, uf_float=False, self_struct=st, hooks=[cache_store_hook],
        calls=[(r'^operator\[\]\|.*\|std::vector<nano::tensor_t<nano::tensor_vector_storage_t, double', '(*nv_dbuf_at({&0}, {1}))'),
               (r'^make_range\|', 'nv_make_range({0}, {1})'),
               (r'^operator\(\)\|.*\|(const )?std::function<.*#4$', 'nv_dcb3({&0}, {1}, {2}, {3})'),
               (r'^operator\(\)\|.*\|(const )?std::function<.*#5$', 'nv_dcb4({&0}, {1}, {2}, {3}, {4})'),
               (r'^ctor\|nano::tensor_t<nano::tensor_carray_storage_t, (double, [24]|long, 1)>\|void \((const )?tensor_t<nano::tensor_marray_storage_t', '{0}')],
        members=[(r'^dataset\|nano::base_dataset_iterator_t', '(*{self}->m_dataset)'),
                 (r'^(flatten|targets)\|nano::dataset_t\|#2', 'nv_ds_dense({self}, {0}, {&1})'),
                 (r'^samples\|nano::targets_iterator_t', '{self}->m_samples'), (r'^scaling\|nano::targets_iterator_t', '{self}->m_scaling'),
                 (r'^batch\|nano::targets_iterator_t', '{self}->m_batch'),
                 (r'^begin\|nano::tensor_range_t', '{self}->m_begin'), (r'^end\|nano::tensor_range_t', '{self}->m_end'),
                 (r'^size\|nano::tensor_range_t', '({self}->m_end - {self}->m_begin)'),
                 (r'^slice\|(nano::indices_t|nano::tensor_t<nano::tensor_vector_storage_t, long, 1>)\|#1', 'nv_slice_of({self}, {0})'),
                 (r'^slice\|' + DENSE + r'.*\|#1', 'nv_cache_slice({self}, {0}, self->m_samples.id)'),
                 (r'^size\|nano::tensor_base_t<double, [24]', '@nondet'), (r'^size\|nano::tensor_base_t<long, 1', '__CPROVER_uninterpreted_idxsize({self}->id)'),
                 (r'^scale\|nano::scalar_stats_t', 'nv_stats_scale({self}, &({1}))'),
                 (r'^targets\|nano::targets_iterator_t \*\|#1', 'ffn_targets_map((struct nv_ftiter*){self}, {0})'),
                 (r'^targets\|nano::targets_iterator_t \*\|#2', 'ffn_targets((struct nv_ftiter*){self}, {0}, {&1})'),
                 (r'^flatten\|nano::flatten_iterator_t \*\|#1', 'ffn_flatten_map({self}, {0})'),
                 (r'^flatten\|nano::flatten_iterator_t \*\|#2', 'ffn_flatten({self}, {0}, {&1})'),
                 (r'^map\|nano::base_dataset_iterator_t \*\|#3', 'nv_iter_map({self}, {0}, {1})')])
    np_ = lambda k: (lambda d: len(astload.param_types(d)) == k)
    both = lambda a, b: (lambda d: a(d) and b(d))
    tmap = lambda: Fn('ffn_targets_map', ITU, 'targets', flt=IFLT, select=both(mg('targets_iterator_t7targets'), np_(1)), **common('struct nv_ftiter'))
    tget = lambda: Fn('ffn_targets', ITU, 'targets', flt=IFLT, select=both(mg('targets_iterator_t7targets'), np_(2)), **common('struct nv_ftiter'))
    fmap = lambda: Fn('ffn_flatten_map', ITU, 'flatten', flt=IFLT, select=both(mg('flatten_iterator_t7flatten'), np_(1)), **common('struct nv_ffiter'))
    fget = lambda: Fn('ffn_flatten', ITU, 'flatten', flt=IFLT, select=both(mg('flatten_iterator_t7flatten'), np_(2)), **common('struct nv_ffiter'))
    ts = [T('ffn_targets', [tget(), tmap()], DEN_H, pre=pre), T('ffn_targets_map', [tmap()], DEN_H, pre=pre),
          T('ffn_flatten', [fget(), fmap()], DEN_H, pre=pre), T('ffn_flatten_map', [fmap()], DEN_H, pre=pre)]
    loops = [('ffn_loop_ft', both(mg('flatten_iterator_t4loop'), lambda d: 'flatten_targets_callback_t' in astload.param_types(d)[0]), 'struct nv_ffiter'),
             ('ffn_loop_f', both(mg('flatten_iterator_t4loop'), lambda d: 'flatten_callback_t' in astload.param_types(d)[0]), 'struct nv_ffiter'),
             ('ffn_loop_t', mg('targets_iterator_t4loop'), 'struct nv_ftiter')]
    for cname, sel, st in loops:
        deps = [tget(), tmap()] + ([fget(), fmap()] if st == 'struct nv_ffiter' else [])
        ts.append(T(cname + '_task', [Fn(cname + '_task', ITU, 'loop', flt=IFLT, select=sel, lambda_index=0, captures=True, **common(st))] + deps, DEN_H, pre=pre))
        ts.append(T(cname, [Fn(cname, ITU, 'loop', flt=IFLT, select=sel, **common(st))], DEN_H, pre=pre))
    ts.append(T('fcache_flatten_task', [Fn('fcache_flatten_task', ITU, 'cache_flatten', flt=IFLT, lambda_index=0, captures=True, **common('struct nv_ffiter')), fget(), fmap()], DEN_H, pre=pre))
    ts.append(T('fcache_targets_task', [Fn('fcache_targets_task', ITU, 'cache_targets', flt=IFLT, lambda_index=0, captures=True, **common('struct nv_ftiter')), tget(), tmap()], DEN_H, pre=pre))
    return ts


# ------------------------------------------------------------------------------------------ weak-learner fit operators
FIT_H = 'specs/C18/fn_fit2.h'


def fit_targets():
    ts = []
    for name, tu, cls in (('affine', 'src/wlearner/affine.cpp', 'nano::affine_wlearner_t'), ('stump', 'src/wlearner/stump.cpp', 'nano::stump_wlearner_t'),
                          ('hinge', 'src/wlearner/hinge.cpp', 'nano::hinge_wlearner_t')):
        types = [(r'^std::vector<(\(anonymous namespace\)::)?cache_t', 'struct nv_caches'), (r'^(\(anonymous namespace\)::)?cache_t$|__alloc_traits<std::allocator<\(anonymous namespace\)::cache_t>.*::value_type$', 'struct nv_cache'),
                 (r'^nano::wlearner_criterion$', 'int32_t'), (r'^nano::hinge_type$', 'int32_t'), (r'^nano::\w+_wlearner_t$', 'struct nv_wlo'),
                 (r'^std::tuple<double, double>$', 'struct nv_tuple_f64_f64'), (r'std::tuple_element<[01], (const )?std::tuple<double, double>>::type', 'double')]
        if name == 'affine':
            types = types + [(r'^nano::wlearner::accumulator_t$', 'struct nv_cache')]
        erased = frame.ERASED + [r'^std::vector<std::pair<', r'::value_type$'] + ([] if name == 'affine' else [r'^(nano::wlearner::)?accumulator_t$'])
        lay = frame.Layout([dict(tu=tu, cls='(anonymous namespace)::cache_t', flt='cache_t', cname='struct nv_cache',
                                 bases={'nano::wlearner::accumulator_t': None, 'accumulator_t': None})], types=types, base_tu=tu)

        def pre(lay=lay):
            text, info = lay.text()
            return f'#include "{astload.VERIF}/specs/C18/fn_fit.h"\nstruct nv_wlo {{ char unused; }};\nstruct nv_tuple_f64_f64 {{ double _0, _1; }};\n' + text, info
        track = frame.make_track()
        f = Fn(f'ffit_{name}', tu, 'do_fit', flt=cls, lambda_index=0, captures=True, self_struct='struct nv_wlo', types=types, opaque=erased,
               hooks=[track.field_hook, track.expr_hook], stmt_hooks=[track.stmt_hook], aggregates=['struct nv_tuple_f64_f64'],
               calls=[(r'^operator\[\]\|[^|]*\|std::vector<(\(anonymous namespace\)::)?cache_t', '(*nv_cache_at({&0}, {1}))'),
                      (r'^isfinite\|', 'nv_isfinite({0})')],
               members=[(r'^clear\|\(anonymous namespace\)::cache_t\|#3', 'nv_cache_clear3({self})'),
                        (r'^score(_neg|_pos)?\|\(anonymous namespace\)::cache_t', 'nv_cache_score({self})')] +
               # affine: cache_t IS an accumulator_t (base class): clear(bins) / update(.., bin) are calls on the cache itself
               ([(r'^clear\|nano::wlearner::accumulator_t\|#1', 'nv_cache_acc1((struct nv_cache*){self}, {0})'),
                 (r'^update\|nano::wlearner::accumulator_t\|#2', 'nv_cache_acc1((struct nv_cache*){self}, {0})'),
                 (r'^update\|nano::wlearner::accumulator_t\|#3', 'nv_cache_acc2((struct nv_cache*){self}, {0}, {1})')] if name == 'affine' else []))
        ts.append(T(f'ffit_{name}', [f], FIT_H, pre=pre, enums=[(tu, 'nano::hinge_type')] if name == 'hinge' else []))
    return ts


def targets():
    return select_targets() + dense_targets() + fit_targets()


DECIDED = [
    'FUNCTIONAL HALF of schedule independence (what a chunk task does, not only where it writes) -- select_iterator_t: the chunk task of loop(samples, features, op) [sclass / mclass / scalar / struct] invokes the operator exactly end - begin times; invocation k is for the feature AT POSITION begin + k of `features` (ghost k), with this task\'s tnum and the values dataset().select(samples, that feature, m_buffers[tnum].m_<kind of the operator>); loop(samples, features, op) maps [0, features.size()) once, in chunks of features_per_thread(..) >= 1; loop(samples, op) passes the caller\'s samples and the feature list of the operator\'s own kind; loop(samples, ifeature, op) invokes the operator once with that feature, tnum 0 and select(samples, ifeature, m_buffers[0].m_<kind>).  With C17 (chunks tile [0, elements) for every pool size) the multiset of (feature, values) the operator sees is the same for every pool size',
    'FUNCTIONAL HALF -- flatten_iterator_t / targets_iterator_t: the chunk tasks of the three loop(op) invoke the operator exactly once with the range [begin, end), this task\'s tnum and the (scaled) inputs / targets of exactly positions [begin, end) of the iterator\'s samples, from the cache or from per-thread buffer tnum; flatten(tnum, range) / targets(tnum, range) return those values in both branches (cached: rows [begin, end) of the cache; uncached: dataset values of samples.slice(range), scaled); loop(op) maps [0, samples().size()) once in chunks of batch(); the chunk tasks of cache_flatten / cache_targets store into rows [begin, end) of the cache the scaled values of positions [begin, end), computed in buffer tnum',
    'FUNCTIONAL HALF -- weak-learner fitting through select_iterator_t::loop: the fit operators of affine / stump / hinge keep in caches[tnum] the best-so-far record: after the operator ran for a feature, (m_score, m_feature) is unchanged or a strictly smaller, finite score attributed to THIS feature (loop invariant over the thresholds for stump / hinge); so every per-worker cache holds the minimum over the features that worker saw, and min_reduce (C09) over the caches is the minimum over all features however they were chunked (ties between equal scores: not decided)',
]
ASSUMPTIONS = [
    'functional targets: an index list is a ghost identity with uninterpreted elements NV_IDX(id, k) and size; dataset_t::select(samples, feature, buffer) / flatten / targets(samples, buffer) are identified by (samples, feature, buffer); scalar_stats_t::scale(scaling, view) scales what the view denotes (C14); the cached tensor holds in row r the scaled values of position r of m_samples (class invariant, established by the cache tasks proved here); nano::idiv(n, d) >= 0 for n >= 0, d >= 1; concurrency() >= 1 (C17); std::max is max; the accumulator part of a wlearner cache (clear / update / score) does not write the best-so-far record (m_score, m_feature, ..); m_score is not NaN at entry (initialised to no_fit_score(), only finite scores are stored: the proved step preserves it)',
]
