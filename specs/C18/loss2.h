#define NV_LOSS_FRAME __CPROVER_requires(__CPROVER_is_fresh(self, sizeof(*self))) __CPROVER_assigns(nv_thrown)
#define NV_LOSS_LOOP(out) __CPROVER_assigns(i, samples, out) __CPROVER_loop_invariant(1)
/* the resizing wrappers: loss_t::error/value/vgrad(targets, outputs, tensor&): resize the caller's tensor, then the virtual
 * call (by contract: NV_LOSS_FRAME, proved for every implementation) */
void nv_loss_virtual(struct nv_loss* self, struct nv_opaque targets, struct nv_opaque outputs, struct nv_opaque out) NV_LOSS_FRAME;
#define NV_LOSS_WRAPPER(out) __CPROVER_requires(__CPROVER_is_fresh(self, sizeof(*self)) && __CPROVER_is_fresh(out, sizeof(*out))) __CPROVER_assigns(*out, nv_thrown)
#define NV_CONTRACT_loss_wrap_error NV_LOSS_WRAPPER(errors)
#define NV_CONTRACT_loss_wrap_value NV_LOSS_WRAPPER(values)
#define NV_CONTRACT_loss_wrap_vgrad NV_LOSS_WRAPPER(vgrads)
