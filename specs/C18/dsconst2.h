static struct nv_generator** nv_gen_at(const struct nv_gens* v, uint64_t i) { return (struct nv_generator**)&v->one; }
/* ASSUMED: generator_t::flatten / select (const, virtual; ~10 implementations in src/generator, templates over the feature
 * kind) read the generator and write through the storage view they are handed */
static void nv_gen_read(const struct nv_generator* g) { (void)*g; }
#define nv_gen_call3(g, a, b, c) ((void)(a), (void)(b), (void)(c), nv_gen_read(g))
/* non-const generator_t::fit: writes the generator (so that calling it from the const interface is refuted, not unsupported) */
static void nv_gen_fit(struct nv_generator* g) { struct nv_generator h; *g = h; }
/* dataset_t::check(samples) const: throws or returns (C08 proves what it checks); reads only */
static void nv_dataset_check_(const struct nv_dataset* d) { if (nv_nondet__Bool()) nv_thrown = 1; }
#define nv_dataset_check(d, x) ((void)(x), nv_dataset_check_(d))
static int64_t nv_elem_i64(int64_t i, int64_t j) { return nv_nondet_int64_t(); }

#define NV_DATASET_FRESH(s) (__CPROVER_is_fresh(s, sizeof(*(s))) && __CPROVER_is_fresh((s)->m_generators.one, sizeof(*(s)->m_generators.one)))
#define NV_DS_FRAME __CPROVER_requires(NV_DATASET_FRESH(self) && __CPROVER_is_fresh(buffer, sizeof(*buffer))) __CPROVER_assigns(*buffer, nv_thrown)
#define NV_CONTRACT_dataset_flatten NV_DS_FRAME
#define NV_LOOP_dataset_flatten_1 __CPROVER_assigns(nv_thrown, index, offset, __begin1) __CPROVER_loop_invariant(1)
#define NV_CONTRACT_dataset_select_sclass NV_DS_FRAME
#define NV_CONTRACT_dataset_select_mclass NV_DS_FRAME
#define NV_CONTRACT_dataset_select_scalar NV_DS_FRAME
#define NV_CONTRACT_dataset_select_struct NV_DS_FRAME
#define NV_CONTRACT_dataset_byfeature __CPROVER_requires(NV_DATASET_FRESH(self)) __CPROVER_assigns(nv_thrown)
