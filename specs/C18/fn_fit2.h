struct nv_caches { struct nv_cache g; uint64_t n; };     /* std::vector<cache_t>: ONE ghost element, index nv_gs */
uint64_t nv_gs; struct nv_cache nv_other_cache;
static struct nv_cache* nv_cache_at(struct nv_caches* v, uint64_t i)
{ __CPROVER_assert(i < v->n, "per-thread cache index (tnum) is within the caches vector"); return i == nv_gs ? &v->g : &nv_other_cache; }
/* ASSUMED: the accumulator part of a cache (clear / update: sums over the samples) and its score are separate from the
 * best-so-far record (m_score, m_feature, m_threshold, m_hinge, m_tables), which only the operator itself writes */
static void nv_cache_accumulate(struct nv_cache* c) { (void)*c; }
#define nv_cache_acc1(c, a) ((void)(a), nv_cache_accumulate(c))
#define nv_cache_acc2(c, a, b) ((void)(a), (void)(b), nv_cache_accumulate(c))
#define nv_cache_acc3(c, a, b, d) ((void)(a), (void)(b), (void)(d), nv_cache_accumulate(c))
static struct nv_tuple_f64_f64 nv_cache_clear3(struct nv_cache* c) { struct nv_tuple_f64_f64 t; t._0 = nv_nondet_double(); t._1 = nv_nondet_double(); return t; }
static double nv_cache_score(const struct nv_cache* c) { return nv_nondet_double(); }
static _Bool nv_isfinite(double x) { return NV_FINITE(x); }

double nv_old_score; int64_t nv_old_feature;
/* the best-so-far step, relative to the record at entry: unchanged, or a strictly better score attributed to THIS feature */
#define NV_BEST(c) (((c)->m_score == nv_old_score && (c)->m_feature == nv_old_feature) || ((c)->m_score < nv_old_score && (c)->m_feature == feature))
#define NV_FIT_STEP \
__CPROVER_requires(__CPROVER_is_fresh(caches, sizeof(*caches)) && tnum < caches->n && tnum == nv_gs) \
__CPROVER_requires(caches->g.m_score == caches->g.m_score && nv_old_score == caches->g.m_score && nv_old_feature == caches->g.m_feature) \
__CPROVER_assigns(caches->g, nv_thrown) \
__CPROVER_ensures(NV_BEST(&caches->g))
#define NV_FIT_STEP_LOOP(vars) __CPROVER_assigns(vars, caches->g, nv_thrown) __CPROVER_loop_invariant(cache == &caches->g && NV_BEST(cache))
#define NV_COMMA ,
#define NV_CONTRACT_ffit_affine NV_FIT_STEP
#define NV_LOOP_ffit_affine_1 NV_FIT_STEP_LOOP(i)
#define NV_CONTRACT_ffit_stump NV_FIT_STEP
#define NV_LOOP_ffit_stump_1 NV_FIT_STEP_LOOP(iv NV_COMMA sv)
#define NV_CONTRACT_ffit_hinge NV_FIT_STEP
#define NV_LOOP_ffit_hinge_1 NV_FIT_STEP_LOOP(iv NV_COMMA sv)
