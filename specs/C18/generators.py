"""C18 / generator stack: frame targets for EVERY const method (and every lambda inside one) of every class of the
generator_t hierarchy, enumerated from clang's AST on every run.

What is enumerated (nothing is hand-picked):
  * translation units: src/generator.cpp + every src/generator/*.cpp of the working tree;
  * classes: nano::generator_t and every class / class template specialisation of those TUs that derives from it
    (elemwise_generator_t<X> / pairwise_generator_t<X> as explicitly instantiated, their computers X, the bases of X);
  * functions: every const or static member function of these classes that has a body (inline in a header, out of line in
    the TU, member-template instantiations such as select_struct<datasource_iterator_t<double, 4>>), and every lambda
    written inside one (generic lambdas: every instantiated operator()).
Non-const members (fit, do_fit, drop, shuffle, allocate, constructors) are outside the const interface.

Contract of a METHOD: nothing of `*this` (all bases flattened, layout read from the class definitions), nothing of the
datasource it points to, no global, no function-local static (the engine prints those as globals; their dynamic
initialisation is a write, see frame.FrameTrack.decl_stmt) may be written: assigns = nv_thrown + what the method is handed by
non-const reference (the caller's output buffers; views handed by value are locals of the call).
Contract of a LAMBDA inside a method: the same, plus its by-reference captures of non-const locals of the enclosing call
(`column` of flatten): these closures are run synchronously by visit_inputs / loop_samples on the calling thread.

Composition: a member call on a generator object is printed by `gen_call_hook`: through a CONST access path it is a read of
the object (the callee is a const member: it is in the enumerated set and carries the same frame, or it is pure virtual and
its overriders are), through a non-const path it is a write of the object.  An unmapped call on anything that is neither
erased nor a generator is `Unsupported` (exit 2), so the induction over the call tree is closed mechanically.
"""
import glob
import hashlib
import json
import os
import re

import astload
import cxx2c
from cxx2c import unwrap, strip_cv, qual, Unsupported
from core import Fn, Target, parallel
import frame

GEN_H = 'specs/C18/generators.h'
ROOT = 'nano::generator_t'
# marker bases without state (static constexpr members only) need no clang run of their own
RECORD_KINDS = ('CXXRecordDecl', 'ClassTemplateSpecializationDecl')


def gen_tus():
    repo = astload.REPO
    # (src/generator.cpp -- the factory: it sees every generator class -- comes last: the TUs that instantiate a template
    # explicitly give much smaller dumps for the same definitions)
    tus = sorted(os.path.relpath(p, repo) for p in glob.glob(os.path.join(repo, 'src', 'generator', '*.cpp'))) + ['src/generator.cpp']
    return [t for t in tus if os.path.exists(os.path.join(repo, t))]


def _qualified(parents, n):
    names = [p.get('name') for p in parents if p.get('kind') in ('NamespaceDecl',) + RECORD_KINDS and p.get('name')]
    return '::'.join(names + [n.get('name') or ''])


def _base_names(rec):
    out = []
    for b in rec.get('bases', []):
        q = b['type'].get('desugaredQualType', b['type'].get('qualType', ''))
        q = re.sub(r'^(class|struct) ', '', strip_cv(q))
        out.append(q if q.startswith('nano::') or '::' in q else 'nano::' + q)
    return out


def _spec_name(rec):
    """nano::elemwise_generator_t<nano::elemwise_gradient_t, true> -> printed name of a class template specialisation"""
    args = astload.template_args(rec)
    return f'nano::{rec.get("name")}<' + ', '.join(args) + '>'


def _records(docs):
    """complete class definitions of a dump, keyed by printed name"""
    out = {}

    def visit(n, parents):
        k = n.get('kind')
        if k in RECORD_KINDS and n.get('completeDefinition') and n.get('name'):
            nm = _spec_name(n) if k == 'ClassTemplateSpecializationDecl' else _qualified(parents, n)
            if not nm.startswith('nano::'):
                nm = 'nano::' + nm
            out.setdefault(nm, n)
        if k == 'ClassTemplateDecl':
            # the pattern itself is skipped, its specialisations are visited
            for c in n.get('inner', []):
                if c.get('kind') == 'ClassTemplateSpecializationDecl':
                    visit(c, parents)
            return
        if k in ('TranslationUnitDecl', 'NamespaceDecl') + RECORD_KINDS or k is None:
            for c in n.get('inner', []):
                if isinstance(c, dict):
                    visit(c, parents + [n])
    for d in docs:
        visit(d, [])
    return out


def _short(q):
    return re.sub(r'<.*$', '', q.split('<')[0].split('::')[-1])


def _is_const_method(m):
    q = m.get('type', {}).get('qualType', '')
    return bool(re.search(r'\)\s*const\b', q)) or m.get('storageClass') == 'static'


def _methods_of(n, cls, out, seen):
    """const / static member functions with a body declared inside the record `n` (member templates: every instantiation)"""
    for c in n.get('inner', []):
        k = c.get('kind')
        if k == 'CXXMethodDecl' and astload.has_body(c) and not c.get('isImplicit') and c.get('mangledName'):
            if c['mangledName'] not in seen:
                seen.add(c['mangledName'])
                out.append((cls, c))
        elif k == 'FunctionTemplateDecl':
            for s in c.get('inner', []):
                if s.get('kind') == 'CXXMethodDecl' and astload.has_body(s) and s.get('mangledName') \
                        and any(x.get('kind') == 'TemplateArgument' for x in s.get('inner', [])):
                    if s['mangledName'] not in seen:
                        seen.add(s['mangledName'])
                        out.append((cls, s))


def _source_key():
    """content hash of everything the enumeration depends on (library headers + generator TUs + this module + clang)"""
    h = hashlib.sha256()
    repo = astload.REPO
    files = [os.path.abspath(__file__)]
    for sub in ('include', os.path.join('src', 'generator')):
        for root, _, names in os.walk(os.path.join(repo, sub)):
            files += [os.path.join(root, nm) for nm in names]
    files.append(os.path.join(repo, 'src', 'generator.cpp'))
    for f in sorted(files):
        try:
            h.update(f.encode() + b'\0' + open(f, 'rb').read())
        except OSError:
            pass
    return h.hexdigest()[:24]


def _lambda_info(m):
    lams = []
    for i, lam in enumerate(astload.find_lambdas(m)):
        own = []
        for rec in lam.get('inner', []):
            if rec.get('kind') != 'CXXRecordDecl':
                continue
            for c in rec.get('inner', []):
                if c.get('kind') == 'CXXMethodDecl' and c.get('name') == 'operator()' and astload.has_body(c) and c.get('mangledName') \
                        and not any('auto' in p for p in astload.param_types(c)):
                    own.append(c['mangledName'])
                if c.get('kind') == 'FunctionTemplateDecl' and c.get('name') == 'operator()':
                    own += [x['mangledName'] for x in c.get('inner', []) if x.get('kind') == 'CXXMethodDecl' and astload.has_body(x) and x.get('mangledName')]
        try:
            caps = astload.lambda_captures(lam)
        except astload.ExtractionError:
            caps = []
        lams.append({'index': i, 'line': lam.get('_line') or (lam.get('range', {}).get('begin', {}).get('line')), 'mangled': list(dict.fromkeys(own)),
                     'captures': [{'name': c['name'], 'byref': bool(c.get('byref')), 'this': bool(c['this']),
                                   'type': (c.get('var_type') or {}).get('qualType', '')} for c in caps]})
    return lams


def scan_tu(job):
    """(worker process) one clang dump -> the small facts the enumeration needs: complete classes (bases, fields with their
    types, static member names) and member-function definitions with their lambdas"""
    t, flt = job
    try:
        docs = astload.dump(t, flt)
    except astload.ExtractionError as e:
        return {'tu': t, 'flt': flt, 'classes': {}, 'functions': [], 'error': str(e)}
    recs = _records(docs)
    byid = {r.get('id'): nm for nm, r in recs.items()}
    classes = {}
    for nm, r in recs.items():
        classes[nm] = {'bases': _base_names(r),
                       'fields': [{'name': f.get('name'), 'type': {k: v for k, v in f['type'].items() if k in ('qualType', 'desugaredQualType')},
                                   'mutable': bool(f.get('mutable'))} for f in r.get('inner', []) if f.get('kind') == 'FieldDecl'],
                       'statics': [c.get('name') for c in r.get('inner', []) if c.get('kind') == 'CXXMethodDecl' and c.get('storageClass') == 'static']}
    found, seen = [], set()
    for nm, r in recs.items():
        _methods_of(r, nm, found, seen)
    for d in docs:
        if d.get('kind') == 'CXXMethodDecl' and astload.has_body(d) and d.get('mangledName') and d['mangledName'] not in seen and not d.get('isImplicit'):
            par = d.get('parentDeclContextId')
            if par in byid:
                seen.add(d['mangledName'])
                found.append((byid[par], d))
    fns = []
    for cls, m in found:
        static = m.get('storageClass') == 'static' or m.get('name') in classes.get(cls, {}).get('statics', [])
        fns.append({'tu': t, 'flt': flt, 'cls': cls, 'name': m.get('name'), 'mangled': m['mangledName'], 'type': m['type']['qualType'],
                    'const': _is_const_method(m) or static, 'static': static, 'virtual': bool(m.get('virtual')),
                    'file': os.path.relpath(m.get('_file') or '', astload.REPO) if m.get('_file') else None, 'line': m.get('_line'),
                    'params': astload.param_types(m), 'lambdas': _lambda_info(m)})
    return {'tu': t, 'flt': flt, 'classes': classes, 'functions': fns}


def _scan_all(jobs):
    import concurrent.futures as cf
    if not jobs:
        return []
    with cf.ProcessPoolExecutor(max_workers=min(8, len(jobs))) as ex:
        return list(ex.map(scan_tu, jobs))


def enumerate_generators(use_cache=True):
    """-> dict(classes={name: {tu, flt, bases, fields}}, functions=[{tu, flt, cls, name, mangled, const, static, file, line, params,
    lambdas: [{index, mangled: [..], captures: [..]}]}])
    clang runs and the parsing of their (large) JSON dumps happen in worker processes; the small result is cached on disk under
    a content hash of every source file it depends on: a changed header or TU is a different key, so a mutated tree is always
    re-enumerated."""
    cdir = os.path.join(astload.SCRATCH, 'cache')
    cpath = os.path.join(cdir, f'C18_generators_{_source_key()}.json')
    if use_cache and os.path.exists(cpath):
        try:
            return json.load(open(cpath))
        except (OSError, ValueError):
            pass
    tus = gen_tus()
    texts = {t: open(os.path.join(astload.REPO, t), errors='replace').read() for t in tus}
    results = _scan_all([(t, 'generator_t') for t in tus])
    classes, fns, seen = {}, [], set()

    def merge(res):
        for r in res:
            for nm, c in r['classes'].items():
                classes.setdefault(nm, dict(c, tu=r['tu'], flt=r['flt']))
            for f in r['functions']:
                if f['mangled'] not in seen:
                    seen.add(f['mangled'])
                    fns.append(f)
    merge(results)
    # follow the bases (computers, input markers: names without `generator_t`) -- one clang run per (TU that knows the derived
    # class, base), plus every TU whose text names `<base>::` (out-of-line member definitions)
    asked = set()
    while True:
        todo = []
        for nm, c in list(classes.items()):
            for b in c['bases']:
                if b in classes or b.startswith('nano::clonable_t'):
                    continue
                s = _short(b)
                for t in [c['tu']] + [t for t in tus if re.search(r'\b' + re.escape(s) + r'\s*::', texts[t])]:
                    if (t, s) not in asked:
                        asked.add((t, s))
                        todo.append((t, s))
        if not todo:
            break
        merge(_scan_all(todo))
        for nm, c in list(classes.items()):
            for b in c['bases']:
                if b not in classes and not b.startswith('nano::clonable_t') and all((t, _short(b)) in asked for t in [c['tu']]):
                    classes[b] = {'bases': [], 'fields': [], 'statics': [], 'tu': c['tu'], 'flt': _short(b), 'missing': True}
    derives = {}

    def reach(nm, stack=()):
        if nm == ROOT:
            return True
        if nm in derives:
            return derives[nm]
        if nm not in classes or nm in stack:
            return False
        derives[nm] = any(reach(b, stack + (nm,)) for b in classes[nm]['bases'])
        return derives[nm]
    hier = [nm for nm in classes if reach(nm)]
    # every base of a hierarchy class contributes fields to the flattened layout (typed_t, markers)
    layout_classes = set(hier)
    grow = True
    while grow:
        grow = False
        for nm in list(layout_classes):
            for b in classes.get(nm, {}).get('bases', []):
                if b in classes and b not in layout_classes:
                    layout_classes.add(b)
                    grow = True
    out = {'classes': {nm: classes[nm] for nm in hier}, 'layout_classes': {nm: classes[nm] for nm in layout_classes},
           'functions': [f for f in fns if f['cls'] in hier], 'tus': tus}
    try:
        os.makedirs(cdir, exist_ok=True)
        tmp = cpath + f'.{os.getpid()}'
        json.dump(out, open(tmp, 'w'))
        os.replace(tmp, cpath)
    except OSError:
        pass
    return out


# ----------------------------------------------------------------------------------------------------- targets
CHECKS = frame.CHECKS
GEN_ERASED = frame.ERASED + [r'^(nano::)?feature_mapping_t$',
                             r'^(nano::)?kernel3x3_t<|^std::array<', r'^(nano::)?tensor\dd_dims_t$', r'^std::unordered_map<', r'::const_iterator$|::iterator$',
                             r'^std::__detail::', r'^(nano::)?generator_t::feature_(infos|shuffles)_t$', r'^(nano::)?task_type$|^(nano::)?feature_type$']
PTR = [(r'^nano::datasource_t$', 'struct nv_datasource')]
CLONABLE = {f'{ns}clonable_t<nano::generator_t>': None for ns in ('', 'nano::')}


def mg(*parts):
    return lambda d: all(p in (d.get('mangledName') or '') for p in parts)


def _cname(s):
    return re.sub(r'_+', '_', re.sub(r'\W', '_', s)).strip('_')


def class_types(en):
    """every class of the enumerated hierarchy is the ONE C struct of the target (bases flattened): `this` of a base-class
    method is the same object"""
    names = sorted(en['classes'], key=len, reverse=True)
    rx = '|'.join('^' + re.escape(n).replace(r'\ ', ' ') + '$' for n in names)
    short = '|'.join('^' + re.escape(n.replace('nano::', '', 1)).replace(r'\ ', ' ') + '$' for n in names)
    tmpl = r'^(nano::)?(elemwise|pairwise)_generator_t<'
    return [(rx + '|' + short + '|' + tmpl, 'struct nv_generator'), (r'^(nano::)?datasource_t$', 'struct nv_datasource'),
            (r'^std::unique_ptr<nano::generator_t|^(nano::)?rgenerator_t$', 'struct nv_generator*'),
            (r'^(nano::)?(gradient3x3_mode|kernel3x3_type|generator_type)$', 'int32_t'),
            # the sample iterators handed to the closures BY VALUE (include/nano/datasource/iterator.h): position + views of const data
            (r'^(nano::)?(base_)?datasource_(pairwise_)?iterator_t<|^(nano::)?(base_)?datasource_(pairwise_)?iterator_t$', 'struct nv_dsiter')]


def layout_class(en, cls):
    """the class whose definition gives the struct layout: a class template specialisation without fields of its own is laid
    out as its computer base"""
    c = en['classes'][cls]
    if '<' in cls:
        if c['fields']:
            raise astload.ExtractionError(f'{cls} has data members of its own: {[f["name"] for f in c["fields"]]}')
        nb = [b for b in c['bases'] if b in en['classes']]
        if len(nb) != 1:
            raise astload.ExtractionError(f'{cls}: {len(nb)} generator bases')
        return nb[0]
    return cls


class EnumLayout(frame.Layout):
    """struct layout from the class facts of the enumeration (fields with clang's types, bases flattened): no further clang run"""

    def __init__(self, en, cls, types):
        super().__init__([dict(tu=None, cls=cls, cname='struct nv_generator', ptr=PTR)], types=types)
        self.en = en

    def _fields(self, tu, cls, flt, bases_of, seen):
        c = self.en['layout_classes'].get(cls)
        if c is None:
            if cls.startswith('nano::clonable_t'):
                return []
            raise astload.ExtractionError(f'class definition {cls} not enumerated')
        if c.get('missing'):
            raise astload.ExtractionError(f'class definition {cls} not found')
        out = []
        for b in c['bases']:
            if b in seen:
                continue
            seen.add(b)
            out += self._fields(None, b, None, bases_of, seen)
        for f in c['fields']:
            out.append((f['name'], f['type'], f['mutable'], cls))
        return out


def gen_layout(en, cls, types):
    return EnumLayout(en, layout_class(en, cls), types)


def gen_call_hook(types_rx):
    """member call on a generator object (every class of the hierarchy is `struct nv_generator`): through a const access path
    -> a read of the object (nv_gen_const_call); through a non-const one -> a write of the object (nv_gen_mutating_call).
    Arguments are evaluated for their own effects; possibly-mutating mentions of erased arguments are charged by FrameTrack."""
    def h(P, n):
        if n.get('kind') == 'CallExpr' and n.get('inner') and unwrap(n['inner'][0]).get('kind') == 'MemberExpr':
            # a STATIC member function called through an object expression (`this->flatten_dropped(..)`): no object is accessed;
            # the callee is one of the enumerated targets; what it is handed is charged at the mentions
            me = unwrap(n['inner'][0])
            try:
                c = P.ctype(me['inner'][0]['type'])
            except (Unsupported, KeyError, IndexError):
                return None
            if c not in ('struct nv_generator', 'struct nv_generator*'):
                return None
            for a in n['inner'][1:]:
                if not P.is_opaque(a.get('type')):
                    try:
                        if P.ctype(a['type']).startswith('struct '):
                            raise Unsupported(f'static member call {me.get("name")} is handed a modelled object')
                    except Unsupported:
                        raise
            P.note(f'static member call {me.get("name")} through an object expression')
            try:
                rc = P.ctype(n['type'])
            except Unsupported:
                rc = 'struct nv_opaque'
            return {'void': '((void)0)', 'struct nv_opaque': 'nv_opaque_value()'}.get(rc) or P.nondet(rc)
        if n.get('kind') != 'CXXMemberCallExpr' or not n.get('inner') or n['inner'][0].get('kind') != 'MemberExpr':
            return None
        me = n['inner'][0]
        obj = me['inner'][0]
        try:
            c = P.ctype(obj['type'])
        except Unsupported:
            return None
        if c not in ('struct nv_generator', 'struct nv_generator*', 'struct nv_datasource', 'struct nv_datasource*'):
            return None
        key = f'{me["name"]}|{strip_cv(qual(obj["type"]))}|#{len(n["inner"]) - 1}'
        if P.lookup(P.members, key) is not None:
            return None
        q = obj.get('type', {}).get('qualType', '')
        const = frame._is_const_q(q.rstrip('*').rstrip()) if q.rstrip().endswith('*') else frame._is_const_q(q)
        who = 'gen' if 'generator' in c else 'ds'
        base = P.expr(obj) if me.get('isArrow') else P.addr(obj)
        args = []
        for a in n['inner'][1:]:
            u = unwrap(a)
            if u.get('kind') == 'LambdaExpr' or P.is_opaque(a.get('type')):
                continue        # closures are targets of their own; erased arguments are charged by the statement hook
            try:
                ct = P.ctype(a['type'])
            except Unsupported:
                continue        # a closure object handed on (`op`)
            if ct.startswith('struct '):
                continue
            args.append(f'(void)({P.expr(a)})')
        P.note(f'generator member call {me["name"]} -> {"read" if const else "WRITE"} of the object')
        call = f'nv_{who}_{"const" if const else "mutating"}_call({base})'
        try:
            rc = P.ctype(n['type'])
        except Unsupported:
            rc = 'struct nv_opaque'
        val = {'void': '(void)0', 'struct nv_opaque': 'nv_opaque_value()', 'struct nv_generator*': 'nv_gen_fresh()',
               'struct nv_datasource*': f'nv_gen_datasource({base})'}.get(rc)
        if rc in ('struct nv_datasource',):
            return f'(*({", ".join(args + [call])}, nv_gen_datasource({base})))'
        if val is None:
            val = P.nondet(rc)
        return '(' + ', '.join(args + [call, val]) + ')'
    return h


def closure_call_hook(P, n):
    """`op(values)` / `op(values, storage.vector(index))`: a call of a closure object (the operator made by process()).  Every
    closure written in a generator method is a target of its own; the call reads the closure, writes through what it is
    handed (charged by FrameTrack at the mention) and nothing else"""
    if n.get('kind') != 'CXXOperatorCallExpr' or len(n.get('inner', [])) < 2:
        return None
    rd = unwrap(n['inner'][0]).get('referencedDecl', {})
    if rd.get('name') != 'operator()':
        return None
    q = qual(n['inner'][1].get('type', {}))
    if '(lambda at ' not in q:
        return None
    P.note('call of a closure object -> nv_closure_call')
    try:
        rc = P.ctype(n['type'])
    except Unsupported:
        rc = 'struct nv_opaque'
    val = {'void': '(void)0', 'struct nv_opaque': 'nv_opaque_value()'}.get(rc) or P.nondet(rc)
    return f'(nv_closure_call(), {val})'


def closure_type_hook(P, n):
    """a variable / structured binding of closure type is not a C object: uses that are not calls are reads"""
    if n.get('kind') == 'DeclRefExpr' and '(lambda at ' in qual(n.get('type', {})):
        return 'nv_opaque_value()'
    return None


def common(en, types):
    track = frame.make_track()
    calls = [(r'^make_unique\|', 'nv_gen_clone({0})'), (r'^operator\+\+\|[^|]*\|(nano::)?(base_)?datasource_', 'nv_dsiter_next({&0})'),
             (r'^operator\*\|[^|]*\|(const )?(nano::)?(base_)?datasource_', 'nv_dsiter_get({&0})'), (r'^(forward|move)\|', '{0}'),
             (r'^make_kernel3x3\|', 'nv_opaque_value()'), (r'^make_tuple\|', 'nv_opaque_value()'),
             (r'^critical0?\|', '@throw'), (r'^operator(==|!=|<|>|<=|>=)\|', '@nondet')] + PURE
    members = [(r'^datasource\|', '(*{self}->m_datasource)'), (r'^operator bool\|(nano::)?(base_)?datasource_', 'nv_dsiter_valid({self})')]
    return dict(types=types, opaque=GEN_ERASED + [r'\(lambda at '], uf_float=True, self_struct='struct nv_generator',
                hooks=[gen_call_hook(None), closure_call_hook, track.field_hook, track.expr_hook], stmt_hooks=[track.stmt_hook],
                calls=calls, members=members)


PURE = [(r'^(fabs|abs|sqrt|exp|log|isfinite|atan2|floor|ceil)\|.*#[12]$', '@nondet'), (r'^(max|min|pow)\|.*#2$', '@nondet'), (r'^clamp\|.*#3$', '@nondet'),
        (r'^(max|min|lowest|epsilon|quiet_NaN|infinity)\|[^|]*\(\) noexcept', '@nondet')]


def _decl_of(f):
    """the definition an Fn prints (method, or the selected operator() of its k-th lambda) and the lambda node"""
    d = astload.find_definition(f.tu, f.flt, f.name, f.select, f.kinds)
    if f.lambda_index is None:
        return d, None
    lam = astload.find_lambdas(d)[f.lambda_index]
    ops = [m for m in astload.walk(lam) if m.get('kind') == 'CXXMethodDecl' and m.get('name') == 'operator()' and astload.has_body(m)
           and (f.lambda_select is None or f.lambda_select(m))]
    if not ops:
        raise astload.ExtractionError(f'{f.cname}: lambda instantiation not found')
    return ops[0], lam


def _outputs(f, static):
    """C names of what the function may write besides its locals: parameters handed by non-const reference (`T&`, `T&&`: the
    caller's output buffers; views handed BY VALUE are locals of the call) and, for a lambda run synchronously inside the
    enclosing call, its by-reference captures of non-const variables.  Read from the CURRENT parameter / capture list."""
    d, lam = _decl_of(f)
    outs, fresh = [], []
    for prm in [c for c in d.get('inner', []) if c.get('kind') == 'ParmVarDecl']:
        q = prm['type'].get('qualType', '').strip()
        if not (q.endswith('&') or q.endswith('*')) or not prm.get('name'):
            continue
        fresh.append(prm['name'])
        if not frame._is_const_q(q.rstrip('&*').strip()):
            outs.append(prm['name'])
    has_self = not static
    if lam is not None:
        caps = astload.lambda_captures(lam)
        has_self = any(c['this'] for c in caps)
        for c in caps:
            if c['this'] or not c['byref']:
                continue
            fresh.append(c['name'])
            if not frame._is_const_q(c['var_type'].get('qualType', '').strip().rstrip('&').strip()):
                outs.append(c['name'])
    return outs, fresh, has_self


def contract_for(f, static):
    """the frame contract, generated from the parameter list / capture list of the CURRENT source"""
    outs, fresh, has_self = _outputs(f, static)
    req = ['__CPROVER_is_fresh(self, sizeof(*self))', '__CPROVER_is_fresh(self->m_datasource, sizeof(*self->m_datasource))'] if has_self else []
    req += [f'__CPROVER_is_fresh({x}, sizeof(*{x}))' for x in fresh]
    items = ['nv_thrown'] + [f'*{x}' for x in outs]
    return (f'#define NV_CONTRACT_{f.cname} ' + (f'__CPROVER_requires({" && ".join(req)}) ' if req else '') + f'__CPROVER_assigns({", ".join(items)})\n',
            ''.join(f', *{x}' for x in outs))


def make_target(en, rec, types, lam=None, lam_mangled=None, tag=''):
    cls, name = rec['cls'], rec['name']
    short = _cname(cls.replace('nano::', '').replace(', -1', ''))
    cname = _cname(f'gen_{short}_{name}_L{rec["line"]}{tag}' + (f'_lambda{lam["index"]}' if lam else ''))
    kw = common(en, types)
    static = bool(rec.get('static'))
    if (static and lam is None) or (lam is not None and not any(c['this'] for c in lam['captures'])):
        kw['self_struct'] = None
    sel_exact = lambda d, m=rec['mangled']: d.get('mangledName') == m
    if lam is None:
        f = Fn(cname, rec['tu'], name, flt=rec['flt'], select=sel_exact, **kw)
    else:
        f = Fn(cname, rec['tu'], name, flt=rec['flt'], select=sel_exact, lambda_index=lam['index'], captures=True,
               lambda_select=(lambda m, lm=lam_mangled: m.get('mangledName') == lm), **kw)
    lay = gen_layout(en, cls, types)

    def pre(lay=lay, f=f, static=static):
        text, info = lay.text()
        contract, extra = contract_for(f, static)
        # by-value parameters (the sample iterator `it`) are locals of the call: a loop may change them
        for prm in f.printer.params:
            m = re.match(r'^(.*?)(\w+)$', prm.strip())
            if m and not m.group(1).strip().endswith('*') and m.group(2) != 'self':
                extra += f', {m.group(2)}'
        loops = frame.auto_loop_frames(_LoopFn(f), extra='nv_thrown' + extra)
        return text + contract + loops, info
    # enumerations a `switch` of the gradient generator names (NVE_<enum>_<enumerator> constants are generated from the AST)
    enums = [(rec['tu'], 'nano::gradient3x3_mode'), (rec['tu'], 'nano::kernel3x3_type')] if 'gradient' in cls else []
    return Target(cname, [f], GEN_H, pre=pre, checks=CHECKS, enums=enums,
                  source=f'{rec["file"]}:{rec["line"]} {cls}::{name}' + (f' lambda #{lam["index"]}' if lam else ''))


class _LoopFn:
    """adapter: frame.auto_loop_frames looks the definition up again; for a lambda it must take the SAME instantiation"""
    def __init__(self, f):
        self.__dict__.update(f.__dict__)


# one representative per generator family in the quick tier (thorough: every (class, source location))
QUICK = [r'^nano::elemwise_gradient_t$', r'^nano::elemwise_generator_t<nano::elemwise_gradient_t', r'^nano::pairwise_product_t$',
         r'^nano::pairwise_generator_t<nano::pairwise_product_t', r'^nano::generator_t$']
QUICK_NAMES = {'process', 'select_struct', 'select_scalar', 'flatten', 'do_select', 'select', 'iterate', 'should_drop'}
# enumerated functions that are deliberately NOT put under a frame target (with the reason: they go to not_decided)
SKIP = {('nano::base_pairwise_generator_t', 'make_pairwise'): 'static helper of the NON-const fit (builds the feature mapping before the generator is shared): outside the const interface; its std::map iterators are not in the printer\'s vocabulary',
        ('nano::generator_t', 'all'): 'static factory accessor: an init-once singleton (function-local static filled under std::call_once), classified by the lint, not part of the const interface of a generator object'}


def targets(tier='quick'):
    en = enumerate_generators()
    types = class_types(en)
    out, skipped, nonconst = [], [], []
    seen_loc = {}
    quick_names = set()
    for rec in en['functions']:
        if not rec['const']:
            nonconst.append(f'{rec["cls"]}::{rec["name"]}')
            continue
        if (rec['cls'], rec['name']) in SKIP:
            skipped.append(f'{rec["cls"]}::{rec["name"]}: {SKIP[(rec["cls"], rec["name"])]}')
            continue
        key = (rec['cls'], rec['name'], rec['file'], rec['line'])
        if key in seen_loc:
            seen_loc[key] += 1
            continue        # further instantiations of the same member template (same source text, other erased scalar types)
        seen_loc[key] = 1
        if tier != 'thorough':
            if not any(re.search(rx, rec['cls']) for rx in QUICK) or rec['name'] not in QUICK_NAMES:
                continue
            # do_select: only the overload that is live for the family (has a lambda instantiation)
            if rec['name'] == 'do_select' and not any(l['mangled'] for l in rec['lambdas']):
                continue
        if tier != 'thorough' and rec['cls'] == ROOT:
            if (rec['cls'], rec['name']) in quick_names:
                continue        # quick tier: one overload / instantiation per name of the base class
            quick_names.add((rec['cls'], rec['name']))
        out.append(make_target(en, rec, types))
        lam_lines = set()
        for lam in rec['lambdas']:
            if not lam['mangled']:
                continue
            # a lambda nested in a generic lambda exists once per instantiation of the outer one: one target per source line
            # (thorough tier: every LambdaExpr node, first instantiation of its operator())
            if tier != 'thorough' and lam.get('line') in lam_lines:
                continue
            lam_lines.add(lam.get('line'))
            out.append(make_target(en, rec, types, lam=lam, lam_mangled=lam['mangled'][0]))
    info = {'classes': sorted(en['classes']), 'const_functions': len(seen_loc), 'instantiations': sum(seen_loc.values()),
            'non_const_members_outside_the_const_interface': sorted(set(nonconst)), 'skipped': skipped}
    return out, info

if __name__ == '__main__':
    import sys
    import time
    t0 = time.time()
    e = enumerate_generators(use_cache='--no-cache' not in sys.argv)
    print('seconds', round(time.time() - t0, 1))
    for nm, c in e['classes'].items():
        print('class', nm, c['tu'], c['bases'], [f['name'] for f in c['fields']])
    for f in e['functions']:
        print('const ' if f['const'] else 'MUT   ', f['cls'], f['name'], f['tu'], f['file'], f['line'], f['mangled'][:90], [(l['index'], len(l['mangled']), [(c['name'], c['byref']) for c in l['captures']]) for l in f['lambdas']])
