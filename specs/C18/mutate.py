#!/usr/bin/env python3
"""hand-mutation helper (development tool, not part of the check): applies edits to the scratch library tree ($NV_REPO),
runs ./check C18 --no-evidence [--only x], prints the refuted obligations, restores the tree with git checkout.
usage: mutate.py <name> <only> file find replace [file find replace ...]"""
import os
import subprocess
import sys

repo = os.environ['NV_REPO']
assert '/nv_agents/' in repo
name, only, rest = sys.argv[1], sys.argv[2], sys.argv[3:]
try:
    for i in range(0, len(rest), 3):
        f, find, repl = rest[i:i + 3]
        p = os.path.join(repo, f)
        s = open(p).read()
        if s.count(find) != 1:
            print(f'{name}: pattern matches {s.count(find)} times in {f}: {find!r}')
            sys.exit(3)
        open(p, 'w').write(s.replace(find, repl))
    here = os.path.dirname(os.path.dirname(os.path.dirname(os.path.abspath(__file__))))
    cmd = [os.path.join(here, 'check'), 'C18', '--no-evidence'] + (['--only', only] if only != '-' else [])
    r = subprocess.run(cmd, capture_output=True, text=True)
    lines = [ln for ln in r.stdout.split('\n') if 'refuted:' in ln or ln.startswith('UNDECIDED') or ln.startswith('C18:')]
    print(f'== {name}: exit {r.returncode}')
    for ln in lines[:6]:
        print('   ', ln.strip()[:230])
finally:
    subprocess.run(['git', '-C', repo, 'checkout', '--', '.'])
