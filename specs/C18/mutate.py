#!/usr/bin/env python3
"""hand-mutation helper (development tool, not part of the check).  Every mutation of specs/C18/hand_mutations.json
(list of {name, only, edits: [[file, find, replace], ...], expect}) is applied to its own scratch copy of the library
sources (never to $NV_REPO), `./check C18 --no-evidence --only <only>` runs against the copy, and the refuted obligations
are matched against `expect`.  usage: mutate.py [name-substring] [-j N]"""
import json
import os
import re
import shutil
import subprocess
import sys
import concurrent.futures as cf

HERE = os.path.dirname(os.path.dirname(os.path.dirname(os.path.abspath(__file__))))
REPO = os.environ['NV_REPO']
SCR = os.environ['NV_SCRATCH']


def run(m):
    tag = re.sub(r'\W+', '_', m['name'])[:60]
    root = os.path.join(SCR, 'hand_mut', tag)
    shutil.rmtree(root, ignore_errors=True)
    for sub in ('include', 'src', 'cmake'):
        if os.path.isdir(os.path.join(REPO, sub)):
            shutil.copytree(os.path.join(REPO, sub), os.path.join(root, 'repo', sub))
    for f, find, repl in m['edits']:
        p = os.path.join(root, 'repo', f)
        s = open(p).read()
        if s.count(find) != 1:
            return m, f'pattern-matches-{s.count(find)}-times in {f}', []
        open(p, 'w').write(s.replace(find, repl))
    env = dict(os.environ, NV_REPO=os.path.join(root, 'repo'), NV_SCRATCH=os.path.join(root, 'work'))
    cmd = [os.path.join(HERE, 'check'), 'C18', '--no-evidence'] + (['--only', m['only']] if m.get('only') else [])
    r = subprocess.run(cmd, capture_output=True, text=True, env=env)
    refuted = re.findall(r'^\s+refuted: (\S+): (.*)$', r.stdout, re.M)
    und = re.findall(r'^UNDECIDED .*$', r.stdout, re.M)
    hit = [x for x in refuted if re.search(m['expect'], x[0] + ' ' + x[1])]
    res = 'caught' if (r.returncode == 1 and hit) else ('wrong-obligation' if r.returncode == 1 else f'exit-{r.returncode}')
    shutil.rmtree(root, ignore_errors=True)
    return m, res, [f'{a}: {b}' for a, b in (hit or refuted)[:3]] + und[:2]


def main():
    muts = json.load(open(os.path.join(HERE, 'specs', 'C18', 'hand_mutations.json')))
    args = [a for a in sys.argv[1:]]
    j = 3
    if '-j' in args:
        j = int(args[args.index('-j') + 1])
        del args[args.index('-j'):args.index('-j') + 2]
    if args:
        muts = [m for m in muts if args[0] in m['name']]
    with cf.ThreadPoolExecutor(max_workers=j) as ex:
        for m, res, lines in ex.map(run, muts):
            print(f'== {res:16s} {m["name"]}')
            for ln in lines:
                print('      ', ln[:200])
            sys.stdout.flush()


if __name__ == '__main__':
    main()
