/* C18 / generator stack (specs/C18/generators.py generates the struct layout `struct nv_generator`, one frame contract per
 * enumerated method / lambda, and the loop frames).  This file: the stubs the generated calls go to. */
#include "base.h"
struct nv_datasource { char nv_unit; };     /* the datasource a fitted generator points to: read-only for the whole const interface */
struct nv_generator;
/* a member call on the generator / datasource through a CONST access path: the callee is a const member function -- for a
 * generator it is one of the enumerated targets (or pure virtual with enumerated overriders) and carries the same frame: a read */
static void nv_gen_const_call(const struct nv_generator* g) { (void)*(const char*)g; }
static void nv_ds_const_call(const struct nv_datasource* d) { (void)d->nv_unit; }
/* ... through a NON-const access path (const_cast, a non-const member): the object is written */
static void nv_gen_mutating_call_(char* g) { *g = nv_nondet_char(); }
#define nv_gen_mutating_call(g) nv_gen_mutating_call_((char*)(g))
static void nv_ds_mutating_call(struct nv_datasource* d) { d->nv_unit = nv_nondet_char(); }
/* clone() const: std::make_unique<T>(*this) reads the object and returns a new one */
static struct nv_generator* nv_gen_fresh(void) { return (struct nv_generator*)malloc(1); }
#define nv_gen_clone(src) ((void)(src), nv_gen_fresh())
/* a closure made by process() is called: every closure written inside a generator method is a frame target of its own */
static void nv_closure_call(void) {}
#define nv_gen_datasource(g) ((g)->m_datasource)
/* datasource_iterator_t / datasource_pairwise_iterator_t (include/nano/datasource/iterator.h), handed to the closures BY VALUE: a
 * position over views of const data; `*it` yields (index, given, values) -- erased; nothing is written through it */
struct nv_dsiter { int64_t m_index; };
static _Bool nv_dsiter_valid(const struct nv_dsiter* it) { (void)it->m_index; return nv_nondet__Bool(); }
static struct nv_dsiter* nv_dsiter_next(struct nv_dsiter* it) { it->m_index = nv_nondet_int64_t(); return it; }
static struct nv_opaque nv_dsiter_get(const struct nv_dsiter* it) { (void)it->m_index; return nv_opaque_value(); }
