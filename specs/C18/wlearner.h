/* C18 / fitted weak learners: predict() const on a shared fitted model writes only the caller's outputs */
#include "base.h"
struct nv_dataset_o { char unused; };      /* the dataset: only handed on (its own frames: the dataset / iterator groups) */
