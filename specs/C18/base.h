/* C18 frame models: common part.
 * Every erased object (tensor, vector, string, parameter list, ...) is a footprint cell `struct nv_opaque` (one byte,
 * models/nv_base.h); `nv_touch` is the write of that byte that specs/C18/frame.py prints for every possibly-mutating
 * mention.  DFCC checks each such write (and every ordinary store of the extracted code) against the assigns clause. */
#include <stdlib.h>
static char nv_nondet_char(void) { char x; return x; }
/* a macro, so that the failing `assigns` obligation is reported inside the extracted function and names the object */
#define nv_touch(p) ((p)->nv_unit = nv_nondet_char())
#define NV_RET __CPROVER_return_value
/* libm / <algorithm> scalar functions (std::max, std::fabs, ...): pure, the value is irrelevant to a frame; the arguments
 * are evaluated (their side effects, if any, stay in the extracted text) */
static double nv_pure1(double a) { return nv_nondet_double(); }
static double nv_pure2(double a, double b) { return nv_nondet_double(); }
static double nv_pure3(double a, double b, double c) { return nv_nondet_double(); }
