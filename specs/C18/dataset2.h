/* (second part, after the generated struct layouts) */
uint64_t nv_gs;                                  /* ghost element index: any */
struct nv_opaque nv_other_slot; struct nv_selbuf nv_other_selbuf;      /* stand for every element other than the ghost one */
static struct nv_opaque* nv_slot_at(struct nv_slots* v, uint64_t i)
{ __CPROVER_assert(i < v->n, "per-thread buffer index (tnum) is within the buffers vector"); return i == nv_gs ? &v->g : &nv_other_slot; }
static struct nv_selbuf* nv_selbuf_at(struct nv_selbufs* v, uint64_t i)
{ __CPROVER_assert(i < v->n, "per-thread buffer index (tnum) is within the buffers vector"); return i == nv_gs ? &v->g : &nv_other_selbuf; }

#define NV_SLOTS_FRESH(v, T) (1 <= (v).n)

/* ---- ASSUMED contracts of the dataset's const interface as used by the iterators (frame proofs of flatten / select:
 * targets dataset_flatten, dataset_select_*; `targets` and the target-`select`s go through generic visitor lambdas and
 * are assumed): the dataset is read, the caller's buffer is written */
static struct nv_opaque nv_dataset_fill(const struct nv_dataset* d, struct nv_opaque* buffer) { nv_touch(buffer); return nv_opaque_value(); }
#define nv_dataset_targets(d, samples, buffer) ((void)(samples), nv_dataset_fill(d, buffer))
#define nv_dataset_flatten(d, samples, buffer) ((void)(samples), nv_dataset_fill(d, buffer))
#define nv_dataset_select(d, samples, feature, buffer) ((void)(samples), (void)(feature), nv_dataset_fill(d, buffer))

/* the user callback handed to loop(): opaque; its effects are its own (ghost cell), it gets the views by value */
struct nv_opaque nv_cb_effects;
static void nv_callback(const struct nv_cb* cb) { nv_touch(&nv_cb_effects); }
#define nv_callback3(cb, a, b, c) ((void)(a), (void)(b), (void)(c), nv_callback(cb))
#define nv_callback4(cb, a, b, c, d) ((void)(a), (void)(b), (void)(c), (void)(d), nv_callback(cb))

#define NV_TITER_FRESH(s) (__CPROVER_is_fresh(s, sizeof(*(s))) && __CPROVER_is_fresh((s)->m_dataset, sizeof(*(s)->m_dataset)) && NV_SLOTS_FRESH((s)->m_targets_buffers, struct nv_opaque))
#define NV_FITER_FRESH(s) (NV_TITER_FRESH(s) && NV_SLOTS_FRESH((s)->m_flatten_buffers, struct nv_opaque))
#define NV_SITER_FRESH(s) (__CPROVER_is_fresh(s, sizeof(*(s))) && __CPROVER_is_fresh((s)->m_dataset, sizeof(*(s)->m_dataset)) && NV_SLOTS_FRESH((s)->m_buffers, struct nv_selbuf))

/* targets_iterator_t::targets(tnum, range) const / flatten_iterator_t::flatten(tnum, range) const: slot [tnum] only */
#define NV_CONTRACT_titer_targets \
__CPROVER_requires(NV_TITER_FRESH(self) && tnum < self->m_targets_buffers.n && __CPROVER_is_fresh(range, sizeof(*range))) \
__CPROVER_assigns(nv_other_slot, nv_thrown; tnum == nv_gs: self->m_targets_buffers.g)
#define NV_CONTRACT_titer_targets_map __CPROVER_requires(NV_TITER_FRESH(self)) __CPROVER_assigns(nv_thrown)
#define NV_CONTRACT_fiter_flatten \
__CPROVER_requires(NV_FITER_FRESH(self) && tnum < self->m_flatten_buffers.n && __CPROVER_is_fresh(range, sizeof(*range))) \
__CPROVER_assigns(nv_other_slot, nv_thrown; tnum == nv_gs: self->m_flatten_buffers.g)
#define NV_CONTRACT_fiter_flatten_map __CPROVER_requires(NV_FITER_FRESH(self)) __CPROVER_assigns(nv_thrown)

/* the chunk tasks of loop(callback): slot [tnum] of each buffers vector + whatever the callback does to its own state */
#define NV_CONTRACT_fiter_loop_ft_task \
__CPROVER_requires(NV_FITER_FRESH(self) && tnum < self->m_flatten_buffers.n && tnum < self->m_targets_buffers.n) \
__CPROVER_assigns(nv_other_slot, nv_cb_effects, nv_thrown; tnum == nv_gs: self->m_flatten_buffers.g, self->m_targets_buffers.g)
#define NV_CONTRACT_fiter_loop_f_task \
__CPROVER_requires(NV_FITER_FRESH(self) && tnum < self->m_flatten_buffers.n) \
__CPROVER_assigns(nv_other_slot, nv_cb_effects, nv_thrown; tnum == nv_gs: self->m_flatten_buffers.g)
#define NV_CONTRACT_titer_loop_task \
__CPROVER_requires(NV_TITER_FRESH(self) && tnum < self->m_targets_buffers.n) \
__CPROVER_assigns(nv_other_slot, nv_cb_effects, nv_thrown; tnum == nv_gs: self->m_targets_buffers.g)

/* select_iterator_t: the chunk task of loop(samples, features, callback) writes only its own m_buffers[tnum].m_<kind>;
 * loop(samples, ifeature, callback) runs on the caller's thread with tnum = 0 (every caller in /repo makes a local
 * select_iterator_t for it: include/nano/wlearner/util.h) */
#define NV_SITER_TASK(field) \
__CPROVER_requires(NV_SITER_FRESH(self) && tnum < self->m_buffers.n && __CPROVER_is_fresh(features, sizeof(*features)) && __CPROVER_is_fresh(samples, sizeof(*samples))) \
__CPROVER_assigns(nv_other_selbuf.field, nv_cb_effects, nv_thrown; tnum == nv_gs: self->m_buffers.g.field)
#define NV_SITER_TASK_LOOP(field) __CPROVER_assigns(index, nv_other_selbuf.field, nv_cb_effects, nv_thrown; tnum == nv_gs: self->m_buffers.g.field) __CPROVER_loop_invariant(1)
#define NV_SITER_ONE(field) \
__CPROVER_requires(NV_SITER_FRESH(self)) \
__CPROVER_assigns(nv_other_selbuf.field, nv_cb_effects, nv_thrown; 0 == nv_gs: self->m_buffers.g.field)
#define NV_CONTRACT_siter_loop_sclass_task NV_SITER_TASK(m_sclass)
#define NV_LOOP_siter_loop_sclass_task_1 NV_SITER_TASK_LOOP(m_sclass)
#define NV_CONTRACT_siter_loop_mclass_task NV_SITER_TASK(m_mclass)
#define NV_LOOP_siter_loop_mclass_task_1 NV_SITER_TASK_LOOP(m_mclass)
#define NV_CONTRACT_siter_loop_scalar_task NV_SITER_TASK(m_scalar)
#define NV_LOOP_siter_loop_scalar_task_1 NV_SITER_TASK_LOOP(m_scalar)
#define NV_CONTRACT_siter_loop_struct_task NV_SITER_TASK(m_struct)
#define NV_LOOP_siter_loop_struct_task_1 NV_SITER_TASK_LOOP(m_struct)
#define NV_CONTRACT_siter_loop1_sclass NV_SITER_ONE(m_sclass)
#define NV_CONTRACT_siter_loop1_mclass NV_SITER_ONE(m_mclass)
#define NV_CONTRACT_siter_loop1_scalar NV_SITER_ONE(m_scalar)
#define NV_CONTRACT_siter_loop1_struct NV_SITER_ONE(m_struct)
