"""C18 / fitted models: learner_t::evaluate / predict (src/learner.cpp), linear_t::do_predict (src/linear.cpp),
gboost_model_t::do_predict (src/gboost/model.cpp) and the chunk lambdas they hand to `iterator.loop`.

CHUNK TASK contract ("concurrent writers write disjoint slots"): a lambda handed to `<iterator>.loop(..)` is run by the workers
of the dataset's pool, one call per sample range.  It may write
  * its own locals and by-value parameters,
  * element nv_g (a ghost sample index, any) of an object captured by reference ONLY IF begin <= nv_g < end for its own
    `tensor_range_t` parameter -- printed for `<capture>.slice(range)` / `<capture>.tensor(k).slice(range)` by `capture_rows_hook`;
  * nothing else: ANY other possibly-mutating mention of a by-reference capture (assignment, resize, a non-const call, binding
    to a non-const reference) is an unconditional write of its footprint and is refuted at a ghost index outside the range.
The contract is GENERATED from the capture list of the current source (astload.lambda_captures): every by-reference capture gets
`__CPROVER_is_fresh` and the conditional assigns entry, `this` gets none, so a newly captured variable is decided without a spec change.
The enclosing functions are under the plain frame contract (nothing of `*this`); their `loop(lambda)` call is a generated stub
(hooks.lambda_stub_hook) that runs the extracted lambda body on an arbitrary range with the captures of the CURRENT source.
"""
import re

import astload
import cxx2c
from cxx2c import unwrap, strip_cv, qual, Unsupported
from core import Fn, Target
import frame
import hooks as ehooks

LEARN_H = 'specs/C18/learners.h'
CHECKS = frame.CHECKS
CLONABLE = {f'{ns}clonable_t<nano::{c}>': None for ns in ('', 'nano::') for c in ('learner_t', 'linear_t', 'wlearner_t', 'gboost_model_t')}
TYPES = [(r'__normal_iterator<(const )?std::unique_ptr<nano::wlearner_t|^std::vector<std::unique_ptr<nano::wlearner_t.*::const_iterator$', 'uint64_t'),
         (r'^nano::(learner_t|linear_t|gboost_model_t)$', 'struct nv_learner'), (r'^nano::dataset_t$', 'struct nv_dataset_o'), (r'^nano::loss_t$', 'struct nv_loss_o'),
         (r'^(nano::)?tensor_range_t$', 'struct nv_range'), (r'^nano::(targets|flatten)_iterator_t$', 'struct nv_iter_o'),
         (r'^(nano::)?scaling_type$', 'int32_t'),
         (r'^std::vector<std::unique_ptr<nano::wlearner_t|^(nano::)?rwlearners_t$', 'struct nv_wls'), (r'^std::unique_ptr<nano::wlearner_t|^(nano::)?rwlearner_t$', 'struct nv_wl_o*'),
         (r'^nano::wlearner_t$', 'struct nv_wl_o')]
ERASED = [r for r in frame.ERASED if 'tensor_range_t' not in r] + [r'^(nano::)?logger_t$']


def capture_rows_hook(track):
    """`<by-reference capture>.slice(range)` / `<capture>.tensor(k).slice(range)` inside a chunk task, `range` of type
    tensor_range_t: the write of the ghost element iff it lies in the range (nv_cap_rows_slice); the mention of the capture inside
    it is then not charged again.  Everything else about the capture is charged by FrameTrack as an unconditional write."""
    def h(P, n):
        if n.get('kind') != 'CXXMemberCallExpr' or len(n.get('inner', [])) != 2:
            return None
        me = n['inner'][0]
        if me.get('kind') != 'MemberExpr' or me.get('name') != 'slice':
            return None
        rt = strip_cv(qual(n['inner'][1].get('type', {})))
        if not re.search(r'tensor_range_t$', rt):
            return None
        o = unwrap(me['inner'][0])
        while o.get('kind') == 'CXXMemberCallExpr' and o['inner'][0].get('kind') == 'MemberExpr' and o['inner'][0].get('name') == 'tensor':
            o = unwrap(o['inner'][0]['inner'][0])
        if o.get('kind') != 'DeclRefExpr' or o.get('referencedDecl', {}).get('id') not in P.byref_captures:
            return None
        if frame._is_const_q(o.get('type', {}).get('qualType', '')) or frame._is_const_q(o.get('referencedDecl', {}).get('type', {}).get('qualType', '')) \
                or track.const_view(o):
            return None         # a const object / a view of const data (indices_cmap_t samples): `.slice(range)` reads
        track.row_sliced.add(id(o))
        r = P.expr(n['inner'][1])
        P.note('chunk task: <capture>.slice(range) -> ghost-element write iff in range')
        return f'nv_cap_rows_slice({o["referencedDecl"]["name"]}, ({r}).m_begin, ({r}).m_end)'
    return h


def common(self_struct='struct nv_learner', task=False):
    track = frame.make_track(lvalue_hooks=[frame.param_ref_hook()])
    track.row_sliced = set()
    crh = capture_rows_hook(track)
    if task:
        track.effect_hooks.append(crh)
    hk = ([crh] if task else []) + [frame.param_ref_hook(), track.field_hook, track.expr_hook]
    return dict(types=TYPES, opaque=ERASED, hooks=hk, stmt_hooks=[track.stmt_hook], uf_float=True, self_struct=self_struct,
                calls=[(r'^operator->\|', '{0}'), (r'^make_range\|', 'nv_pure_range({0}, {1})'),
                       (r'^ctor\|nano::tensor_range_t\|void \(const nano::tensor_size_t, const nano::tensor_size_t\)', 'nv_pure_range({0}, {1})'), (r'^ctor\|nano::(targets|flatten)_iterator_t\|', 'nv_iter_make({&0})'), (r'^operator!=\|.*__normal_iterator', '({0} != {1})'), (r'^operator\+\+\|.*__normal_iterator', '(++{0})'),
                       (r'^operator\*\|.*__normal_iterator', '(*nv_wl_at(&self->m_wlearners, {0}))'),
                       (r'^(fabs|abs|sqrt|isfinite)\|.*#1$', '@nondet'), (r'^(max|min)\|.*#2$', '@nondet')],
                members=[(r'^begin\|nano::tensor_range_t', '{self}->m_begin'), (r'^end\|nano::tensor_range_t', '{self}->m_end'),
                         (r'^size\|nano::tensor_range_t', '({self}->m_end - {self}->m_begin)'),
                         (r'^(error|value|vgrad)\|nano::loss_t\|#3', 'nv_loss_call_o({self}, {&2})'),
                         (r'^critical_compatible\|nano::learner_t', 'nv_learner_const_call({self})!'),
                         (r'^do_predict\|nano::learner_t \*\|#3|^do_predict\|nano::learner_t\|#3', 'nv_learner_const_call({self})'),
                         (r'^predict\|nano::learner_t \*\|#2|^predict\|nano::learner_t\|#2', 'nv_learner_predict2({self})!'),
                         (r'^predict\|nano::learner_t \*\|#3|^predict\|nano::learner_t\|#3', 'nv_learner_predict3({self})!'),
                         (r'^target_dims\|nano::dataset_t', '@nondet'),
                         (r'^(scaling|batch)\|nano::(targets|flatten)_iterator_t\|#1', 'nv_iter_set({self})'),
                         (r'^predict\|nano::wlearner_t', 'nv_wl_predict({self})'),
                         (r'^begin\|.*std::vector<std::unique_ptr<nano::wlearner_t', '((uint64_t)0)'),
                         (r'^end\|.*std::vector<std::unique_ptr<nano::wlearner_t', '{self}->n')])


def layout(tu, cls, flt):
    bases = dict(CLONABLE)
    bases.update({'nano::learner_t': ('src/learner.cpp', 'nano::learner_t'), 'nano::typed_t': ('src/learner.cpp', 'nano::typed_t'),
                  'nano::configurable_t': ('src/learner.cpp', 'nano::configurable_t')})
    return frame.Layout([dict(tu=tu, cls=cls, flt=flt, cname='struct nv_learner', bases=bases)], types=TYPES, base_tu='src/learner.cpp')


def task_contract(f):
    """generated from the CURRENT capture list of the lambda: see the module docstring"""
    d = astload.find_definition(f.tu, f.flt, f.name, f.select, f.kinds)
    lam = astload.find_lambdas(d)[f.lambda_index]
    op = astload.lambda_call_operator(lam)
    ranges = [p.get('name') for p in op.get('inner', []) if p.get('kind') == 'ParmVarDecl' and re.search(r'tensor_range_t', p['type'].get('qualType', ''))]
    if len(ranges) != 1:
        raise astload.ExtractionError(f'{f.cname}: a chunk task takes exactly one tensor_range_t ({ranges})')
    rng = ranges[0]
    rq = [p['type'].get('qualType', '') for p in op['inner'] if p.get('kind') == 'ParmVarDecl' and p.get('name') == rng][0].strip()
    rexpr = f'(*{rng})' if rq.endswith('&') else rng
    caps = astload.lambda_captures(lam)
    req = (['__CPROVER_is_fresh(self, sizeof(*self))'] if any(c['this'] for c in caps) else []) + ([f'__CPROVER_is_fresh({rng}, sizeof(*{rng}))'] if rq.endswith('&') else [])
    cond = []
    for c in caps:
        if c['this'] or not c['byref']:
            continue
        req.append(f'__CPROVER_is_fresh({c["name"]}, sizeof(*{c["name"]}))')
        vt = c['var_type']
        if not frame._is_const_q(vt.get('qualType', '').strip().rstrip('&').strip()) \
                and not any(q and re.search(frame.CONST_VIEWS, strip_cv(q)) for q in (vt.get('qualType'), vt.get('desugaredQualType'))):
            cond.append(f'*{c["name"]}')     # (a const object or a view of const data cannot be written: not even at the task's rows)
    text = f'#define NV_CONTRACT_{f.cname} __CPROVER_requires({" && ".join(req) or "1"}) __CPROVER_assigns(nv_thrown' + \
        (f'; {rexpr}.m_begin <= nv_g && nv_g < {rexpr}.m_end: {", ".join(cond)}' if cond else '') + ')\n'
    info = {'chunk_task_captures': [{'name': c['name'], 'by_reference': bool(c.get('byref')), 'this': bool(c['this']),
                                     'type': (c.get('var_type') or {}).get('qualType')} for c in caps], 'range_parameter': rng}
    return text, info


LOOP_BODY = ('struct nv_range nv_r; nv_r.m_begin = nv_nondet_int64_t(); nv_r.m_end = nv_nondet_int64_t(); (void)*nv_obj; '
             '@CALL({RANGE}, NV_ANY_U64, NV_ANY_OPAQUE);')


def targets():
    ts = []
    specs = [  # (c name, TU, filter, class, method, select, range passed by reference?)
        ('learner_evaluate', 'src/learner.cpp', 'nano::learner_t', 'nano::learner_t', 'evaluate', None, True),
        ('linear_do_predict', 'src/linear.cpp', 'nano::linear_t', 'nano::linear_t', 'do_predict', None, False)]
    for cname, tu, flt, cls, name, sel, byref in specs:
        lay = layout(tu, cls, flt)
        task = lambda cname=cname, tu=tu, flt=flt, name=name, sel=sel: Fn(cname + '_task', tu, name, flt=flt, select=sel, lambda_index=0, captures=True, **common(task=True))

        def pre_task(lay=lay, task=task):
            text, info = lay.text()
            c, ci = task_contract(task())
            return text + c, dict(info, **ci)
        ts.append(Target(cname + '_task', [task()], LEARN_H, pre=pre_task, checks=CHECKS,
                         note='chunk task: by-reference captures are written only at rows of the task\'s own range'))
        kw = common()

        def range_arg(tu=tu, flt=flt, name=name, sel=sel):
            d = astload.find_definition(tu, flt, name, sel)
            op = astload.lambda_call_operator(astload.find_lambdas(d)[0])
            q = [p['type'].get('qualType', '') for p in op['inner'] if p.get('kind') == 'ParmVarDecl' and 'tensor_range_t' in p['type'].get('qualType', '')]
            return '&nv_r' if q and q[0].strip().endswith('&') else 'nv_r'

        class LazyHook:
            """(the lambda's range parameter is read from the AST when the hook first runs, not while the spec is built)"""
            def __init__(self, cname, ra):
                self.cname, self.ra, self.h = cname, ra, None

            def __call__(self, P, n):
                if n.get('kind') != 'CXXMemberCallExpr':
                    return None
                if self.h is None:
                    self.h = ehooks.lambda_stub_hook('loop', 'nv_iter_loop', [self.cname + '_task'], LOOP_BODY.replace('{RANGE}', self.ra()), member=True)
                return self.h(P, n)
        kw['hooks'] = [LazyHook(cname, range_arg)] + kw['hooks']
        outer = Fn(cname, tu, name, flt=flt, select=sel, **kw)

        def pre_outer(lay=lay, task=task, cname=cname):
            text, info = lay.text()
            c, ci = task_contract(task())
            return (text + c.replace(f'NV_CONTRACT_{cname}_task', f'NV_UNUSED_{cname}_task') +
                    f'#define NV_CONTRACT_{cname} __CPROVER_requires(__CPROVER_is_fresh(self, sizeof(*self)) && __CPROVER_is_fresh(dataset, sizeof(*dataset))'
                    + (' && __CPROVER_is_fresh(loss, sizeof(*loss))' if cname == 'learner_evaluate' else '') + ') __CPROVER_assigns(nv_thrown)\n'), info
        fns = [outer, task()]
        ts.append(Target(cname, fns, LEARN_H, pre=pre_outer, checks=CHECKS))
    # learner_t::predict (both overloads) and gboost_model_t::do_predict: plain frames
    lay = layout('src/learner.cpp', 'nano::learner_t', 'nano::learner_t')
    for k, cname in ((2, 'learner_predict2'), (3, 'learner_predict3')):
        f = Fn(cname, 'src/learner.cpp', 'predict', flt='nano::learner_t', select=lambda d, k=k: len(astload.param_types(d)) == k, **common())

        def pre(lay=lay, cname=cname):
            text, info = lay.text()
            return text + f'#define NV_CONTRACT_{cname} __CPROVER_requires(__CPROVER_is_fresh(self, sizeof(*self)) && __CPROVER_is_fresh(dataset, sizeof(*dataset))) __CPROVER_assigns(nv_thrown)\n', info
        ts.append(Target(cname, [f], LEARN_H, pre=pre, checks=CHECKS))
    glay = layout('src/gboost/model.cpp', 'nano::gboost_model_t', 'nano::gboost_model_t')
    g = Fn('gboost_do_predict', 'src/gboost/model.cpp', 'do_predict', flt='nano::gboost_model_t', **common())

    def gpre():
        text, info = glay.text()
        extra = 'nv_thrown'
        for prm in g.printer.params:        # by-value parameters (the outputs view) are locals of the call
            m = re.match(r'^(.*?)(\w+)$', prm.strip())
            if m and not m.group(1).strip().endswith('*') and m.group(2) != 'self':
                extra += f', {m.group(2)}'
        loops = frame.auto_loop_frames(g, extra=extra)
        text = '#define NV_WLS_DEFINED 1\nstruct nv_wl_o { char nv_unit; };\nstruct nv_wls { struct nv_wl_o* one; uint64_t n; };\n' + text
        return text + ('#define NV_CONTRACT_gboost_do_predict __CPROVER_requires(__CPROVER_is_fresh(self, sizeof(*self)) && __CPROVER_is_fresh(dataset, sizeof(*dataset)) '
                       '&& __CPROVER_is_fresh(self->m_wlearners.one, sizeof(*self->m_wlearners.one))) __CPROVER_assigns(nv_thrown)\n') + loops, info
    ts.append(Target('gboost_do_predict', [g], LEARN_H, pre=gpre, checks=CHECKS))
    return ts
