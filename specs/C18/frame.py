"""C18 frame machinery: "who may be written" models of the real functions.

A frame proof does not care about values, only about WHICH OBJECT every write goes to.  Two mechanical pieces:

1. `Layout`: C structs generated from the class definitions of /repo (clang's FieldDecls, base classes flattened, the
   `mutable` flag recorded).  A member added to a class shows up in the struct of the next run without anybody touching
   the spec, so a `mutable` cache / counter written by a const method is a write through `self` that DFCC checks against
   the assigns clause.  Field types: scalars and enums as themselves, `std::unique_ptr<T>` / `T*` / `T&` of a modelled
   class as a C pointer to its struct (the pointee is a DIFFERENT object: constness of C++ does not reach through it, the
   frame proof does), everything else as a footprint cell (`struct nv_opaque`, one byte).

2. `FrameTrack`: write accounting for erased ("opaque") objects.  The engine erases all numerics of OWNER types (tensors
   with their own storage, Eigen matrices, std::vector / std::string / std::map of values: value semantics, constness is
   deep) and VIEW types (tensor maps, Eigen maps / blocks / expression templates).  FrameTrack makes every statement
   first write the footprint byte of each erased object that has a POSSIBLY-MUTATING MENTION in it, read off clang's own
   const analysis:
     * a mention (DeclRefExpr / MemberExpr / mapped call yielding an lvalue, of erased type) is CONST when clang bound it
       to a const object (implicit NoOp / derived-to-base cast to a const type, lvalue-to-rvalue conversion, a const
       declaration, `const` member of a const `this`); anything else is possibly mutating: non-const member call,
       binding to a non-const reference or pointer, assignment, ++, a `const_cast` / C cast that drops the const;
     * a write is charged WHERE THE MUTABLE ACCESS PATH IS CREATED (`auto v = m_buf.slice(r)`, `auto& a = accs[tnum]`),
       not where the store happens: views never need to be followed.  Over-approximating writes is sound for a frame.
   Handles (smart pointers, iterators, std::function, references to libnano classes) are never erased: they must be
   modelled by the spec (pointer fields, explicit stubs), otherwise the printer reports Unsupported (exit 2).
"""
import re

import astload
import cxx2c
from cxx2c import unwrap, strip_cv, qual, Unsupported, TRANSPARENT, CAST_KINDS

# value-semantic owners: constness is deep, a const object cannot be written through its const interface
OWNERS = [r'^(nano::)?(vector_t|matrix_t|indices_t|strings_t|string_t|tensor_mask_t|mask_t)$',
          r'^(nano::)?tensor\dd_t$', r'^(nano::)?(sclass|mclass|scalar|struct)_mem_t$',
          r'^(nano::)?tensor_mem_t<', r'^(nano::)?tensor_t<nano::tensor_vector_storage_t,',
          r'^(nano::)?tensor_vector_storage_t<', r'^Eigen::(Matrix|Array)<', r'^(nano::)?eigen_(vector|matrix)_t<',
          r'^std::(__cxx11::)?basic_string<', r'^std::string$', r'^std::string_view$', r'^std::basic_string_view<',
          r'^std::vector<(double|float|long|int|unsigned long|bool|std::(__cxx11::)?basic_string<|std::string|nano::string_t|nano::scalar_t|nano::tensor_size_t)',
          r'^std::array<(long|double|unsigned long|int)', r'^(nano::)?tensor_dims_t<', r'^(nano::)?tensor\dd_dims_t$',
          r'^std::(map|set|unordered_map|unordered_set)<', r'^std::any$', r'^(nano::)?tensor_range_t$',
          r'^(nano::)?parameter_t$', r'^(nano::)?parameters_t$', r'^std::vector<nano::parameter_t',
          r'^(nano::)?feature_t$', r'^(nano::)?features_t$', r'^(nano::)?scalar_stats_t$', r'^(nano::)?xclass_stats_t$',
          r'^(nano::)?cluster_t$', r'^std::tuple<', r'^std::pair<', r'^(nano::)?timer_t$']
# views and expression templates: rvalues over owners / caller-provided outputs
VIEWS = [r'^(nano::)?tensor\dd_c?map_t$', r'^(nano::)?(vector|matrix|indices|mask)_c?map_t$',
         r'^(nano::)?(sclass|mclass|scalar|struct)_c?map_t$', r'^(nano::)?tensor_c?map_t<',
         r'^(nano::)?tensor_t<nano::tensor_(c|m)array_storage_t,', r'^Eigen::', r'^(const )?Eigen::',
         r'^(nano::)?eigen_(vector|matrix)_c?map_t<', r'^(nano::)?tensor_base_t<', r'^(nano::)?tensor_storage_t<']
ERASED = OWNERS + VIEWS
# views of CONST data (tensor_cmap_t, Eigen::Map<const T>): nothing can be written through them, whatever overload clang
# picked (libnano's carray storage hands out `const T&` from its non-const accessors too); the view OBJECT itself changes
# only by an assignment to it
CONST_VIEWS = r'tensor_carray_storage_t|_cmap_t$|tensor_cmap_t<|Map<const '
# const methods of erased owner types that write a `mutable` member (include/nano/feature.h: feature_t::set_label() const
# fills in m_labels): the exceptions to deep constness, kept in step with the classification table of scan.py
MUTATING_CONST_METHODS = ('set_label',)
ASSIGN_OPS = ('operator=', 'operator+=', 'operator-=', 'operator*=', 'operator/=')
# the obligations of a frame target: every write against the assigns clause (always on), memory safety of the model
# (slot indices, pointers).  Arithmetic overflow of erased / havocked counters is not a frame question (C02, C16, C17 own it).
CHECKS = ['--bounds-check', '--pointer-check', '--pointer-overflow-check']

CONST_CASTS = ('NoOp', 'DerivedToBase', 'UncheckedDerivedToBase')
DROP_CONST_CASTS = ('CXXConstCastExpr', 'CStyleCastExpr', 'CXXReinterpretCastExpr')
HEADERS = {'IfStmt', 'WhileStmt', 'ForStmt', 'DoStmt', 'SwitchStmt', 'CXXForRangeStmt'}
SKIP = {'CompoundStmt', 'BreakStmt', 'ContinueStmt', 'NullStmt', 'CaseStmt', 'DefaultStmt'}
CALL_KINDS = ('CXXMemberCallExpr', 'CallExpr', 'CXXOperatorCallExpr')


def _is_const_q(q):
    q = (q or '').strip()
    while q.endswith('&'):
        q = q[:-1].strip()
    return bool(re.match(r'^const\b', q)) or bool(re.search(r'\bconst$', q))


# ----------------------------------------------------------------------------------------------------- layouts
class Layout:
    """C structs read from class definitions of /repo.  `classes`: list of dict(tu, cls, cname, flt=None, fields={name: C
    type} overrides, ptr={C++ pointee regex: C struct}).  `text()` is passed to Target(pre=...)."""

    def __init__(self, classes, types=(), base_tu=None):
        self.classes = classes
        self.base_tu = base_tu          # TU in which base classes are looked up (same headers; saves clang runs)
        self.types = list(types)
        self.meta = {}

    def _record(self, tu, cls, flt=None):
        name = cls.split('::')[-1].split('<')[0]
        found = {}
        for d in astload.dump(tu, flt or cls):
            for n in astload.walk(d):
                if n.get('kind') in ('CXXRecordDecl', 'ClassTemplateSpecializationDecl') and n.get('name') == name and n.get('completeDefinition'):
                    found.setdefault(n.get('id'), n)
        if not found:
            raise astload.ExtractionError(f'class definition {cls} not found in {tu}')
        recs = list(found.values())
        # the same class can be printed more than once (under its namespace, at top level): all copies must agree
        sig = lambda r: [(f.get('name'), f['type'].get('qualType'), bool(f.get('mutable'))) for f in r.get('inner', []) if f.get('kind') == 'FieldDecl']
        if any(sig(r) != sig(recs[0]) for r in recs[1:]):
            raise astload.ExtractionError(f'ambiguous class definition {cls} in {tu}')
        return recs[0]

    def _fields(self, tu, cls, flt, bases_of, seen):
        rec = self._record(tu, cls, flt)
        out = []
        for b in rec.get('bases', []):
            bq = strip_cv(b['type'].get('desugaredQualType', b['type'].get('qualType', '')))
            bq = re.sub(r'^(class|struct) ', '', bq)
            if bq in seen:
                continue
            seen.add(bq)
            bflt = bases_of.get(bq, bq if bq.startswith('nano::') or '::' in bq else 'nano::' + bq)
            if bflt is None:
                continue
            btu = self.base_tu or tu
            if isinstance(bflt, tuple):
                btu, bflt = bflt
            out += self._fields(btu, bq, re.sub(r'<.*$', '', bflt), bases_of, seen)
        for f in rec.get('inner', []):
            if f.get('kind') == 'FieldDecl':
                out.append((f.get('name'), f['type'], bool(f.get('mutable')), cls))
        return out

    def ctype_of(self, t, ptr):
        q = strip_cv(t.get('desugaredQualType', t.get('qualType', '')))
        s = strip_cv(t.get('qualType', ''))
        for cand in (s, q):
            m = re.match(r'^std::unique_ptr<(.*?)(, std::default_delete<.*>)?>$', cand)
            inner = m.group(1) if m else (cand[:-1].strip() if cand.endswith('*') or cand.endswith('&') else None)
            if inner is not None:
                inner = strip_cv(inner)
                for rx, c in ptr:
                    if re.search(rx, inner):
                        return c + '*', 'handle'
        P = cxx2c.Printer('layout', self.types)
        try:
            return P.ctype(t), 'value'
        except Unsupported:
            pass
        if q.endswith('*') or q.endswith('&') or s.endswith('&') or s.endswith('*') or re.match(r'^std::(unique_ptr|shared_ptr|function)<', q):
            return 'struct nv_opaque', 'unmodelled-handle'
        return 'struct nv_opaque', 'cell'

    def ref_fields(self):
        """names of the reference data members (pointer fields of the C model)"""
        self.text()
        return {m['field'] for ms in self.meta.values() for m in ms if (m['type'] or '').rstrip().endswith('&')}

    def text(self):
        if getattr(self, '_text', None) is not None:
            return self._text
        out = []
        info = {}
        for c in self.classes:
            if 'text' in c:
                out.append(c['text'])       # hand-written C between two generated structs (e.g. the vector-of-T model after T)
                continue
            fields = self._fields(c['tu'], c['cls'], c.get('flt'), c.get('bases', {}), set())
            lines = []
            meta = []
            names = set()
            for name, t, mut, owner in fields:
                if name in names:
                    raise astload.ExtractionError(f'{c["cls"]}: field name {name} repeats in a base class')
                names.add(name)
                over = c.get('fields', {}).get(name)
                if over:
                    ct, kind = over, 'slots'
                else:
                    ct, kind = self.ctype_of(t, c.get('ptr', ()))
                lines.append(f'  {ct} {name};   /* {"mutable " if mut else ""}{t.get("qualType")} ({owner}) */')
                meta.append({'field': name, 'type': t.get('qualType'), 'mutable': mut, 'declared_in': owner, 'c_type': ct, 'kind': kind})
            if not lines:
                lines.append('  char nv_empty;')
            out.append(f'{c["cname"]}\n{{\n' + '\n'.join(lines) + '\n};')
            info[c['cls']] = meta
        self.meta = info
        self._text = ('\n'.join(out) + '\n', {'struct_layouts_read_from_class_definitions': info})
        return self._text


# ----------------------------------------------------------------------------------------------------- write accounting
class FrameTrack:
    def __init__(self, touch='nv_touch', lvalue_hooks=(), rows_fields=(), effect_hooks=()):
        self.touch = touch
        self.effect_hooks = list(effect_hooks)   # expression hooks of the spec that print a WRITE (rows_slice_hook): never erased
        self.hoisted = set()                     # ids of effect-hook nodes whose write was printed in front of their statement
        # data members modelled row-wise (`struct nv_rows`: the footprint of ONE ghost row): `m.slice(range)` on them is
        # printed by rows_slice_hook as a write of the ghost row iff it lies in the range; any other possibly-mutating
        # mention writes the ghost row unconditionally
        self.rows_fields = set(rows_fields)
        self.active = set()
        self.lvalue_hooks = list(lvalue_hooks)   # expression hooks of the spec that print a call as an lvalue of an erased object
        self.accessor_rx = r'^\(\*nv_\w+_at\('

    # -- classification
    def is_cell(self, P, t):
        return P.is_opaque(t or {})

    def mapping_of(self, P, n):
        """the mapping text the spec gives a call (None: the call is auto-erased / unsupported)"""
        k = n.get('kind')
        inner = n.get('inner', [])
        try:
            if k == 'CXXMemberCallExpr' and inner and inner[0].get('kind') == 'MemberExpr':
                me = inner[0]
                obj = me['inner'][0]
                lit = cxx2c.string_literal_of(inner[1]) if len(inner) > 1 else None
                key = f'{me["name"]}|{strip_cv(qual(obj["type"]))}' + (f'|"{lit}"' if lit is not None else '') + f'|#{len(inner) - 1}' + P.template_text(me, me['name'])
                return P.lookup(P.members, key)
            if k in ('CallExpr', 'CXXOperatorCallExpr'):
                rd = unwrap(inner[0]).get('referencedDecl')
                if rd is None:
                    return None
                a0 = strip_cv(qual(inner[1]['type'])) if len(inner) > 1 else ''
                lit = cxx2c.string_literal_of(inner[1]) if len(inner) > 1 else None
                key = f'{rd["name"]}|{rd["type"]["qualType"]}|{a0}' + (f'|"{lit}"' if lit is not None else '') + f'|#{len(inner) - 1}'
                return P.lookup(P.calls, key)
        except (KeyError, IndexError):
            return None
        return None

    def accessor(self, P, n):
        """a call that only NAMES a part of an object (an element of a vector, the parameter list of a configurable): the
        spec's lvalue hooks and mappings to `(*nv_<x>_at(..))` stubs; it has no effect of its own"""
        if n.get('kind') not in CALL_KINDS:
            return False
        for h in self.lvalue_hooks:
            if h(P, n) is not None:
                return True
        m = self.mapping_of(P, n)
        return m is not None and re.match(self.accessor_rx, m) is not None

    @staticmethod
    def effectful(mapping):
        """a mapping that calls something (an extracted function, a stub); `{0}`, `{self}->m_x`, `@drop`, `@nondet` only read"""
        if mapping is None:
            return False
        m = mapping.rstrip('!^')
        if m in ('@drop', '@nondet'):
            return False
        called = re.findall(r'([A-Za-z_]\w*)\s*\(', m if ('{' in m or '(' in m) else m + '(')
        # stubs named nv_pure* / nv_elem* only compute a value from their (evaluated) arguments
        return any(not re.match(r'^nv_(pure|elem)\w*$', c) for c in called)

    def mapped_call(self, P, n):
        return self.accessor(P, n) or self.mapping_of(P, n) is not None

    def mention(self, P, n):
        """n denotes an erased object (an lvalue the printer can take the address of)"""
        k = n.get('kind')
        if not self.is_cell(P, n.get('type')):
            return False
        if k == 'DeclRefExpr':
            return n.get('referencedDecl', {}).get('kind') in ('VarDecl', 'ParmVarDecl', 'BindingDecl')
        if k == 'MemberExpr':
            q = (n.get('type') or {}).get('qualType', '').rstrip()
            if re.search(r'\)(\s*const)?(\s*noexcept)?$', q) and not re.search(r'\(lambda at [^()]*\)$', q):
                return False        # a (static) member FUNCTION named through an object expression: not an object
            return n.get('valueCategory') == 'lvalue'
        if k in CALL_KINDS and n.get('valueCategory') == 'lvalue':
            return self.accessor(P, n)
        return False

    def declared_const(self, n):
        if n.get('kind') == 'DeclRefExpr':
            return _is_const_q(n.get('referencedDecl', {}).get('type', {}).get('qualType', ''))
        return _is_const_q(n.get('type', {}).get('qualType', ''))

    def context(self, parents):
        """'const' (clang bound the object to a const object / read its value), 'dropconst' (a cast removed the const),
        else 'mutable'"""
        for p in reversed(parents):
            k = p.get('kind')
            if k in ('ParenExpr', 'ConditionalOperator') or k in TRANSPARENT:
                continue
            if k == 'MemberExpr' and p.get('type', {}).get('qualType') != '<bound member function type>':
                continue        # access to a data member: the context of the member access decides
            if k in DROP_CONST_CASTS:
                if not _is_const_q(p.get('type', {}).get('qualType', '')):
                    return 'dropconst'
                continue
            if k == 'ImplicitCastExpr':
                ck = p.get('castKind')
                if ck == 'LValueToRValue':
                    return 'const'
                if ck in CONST_CASTS:
                    if _is_const_q(p.get('type', {}).get('qualType', '')):
                        return 'const'
                    continue
                return 'mutable'
            if k in ('CXXConstructExpr', 'CXXTemporaryObjectExpr'):
                ct = p.get('ctorType', {}).get('qualType', '')
                # copy construction from a const reference reads the source
                if re.search(r'\(const [^()]*&\)', ct):
                    return 'const'
                return 'mutable'
            return 'mutable'
        return 'mutable'

    def const_view(self, n):
        t = n.get('type', {})
        return any(q and re.search(CONST_VIEWS, strip_cv(q)) for q in (t.get('qualType'), t.get('desugaredQualType')))

    def assigned_to(self, n, parents):
        for p in reversed(parents):
            k = p.get('kind')
            if k in ('ParenExpr',) or k in TRANSPARENT:
                continue
            if k == 'CXXOperatorCallExpr' and len(p.get('inner', [])) >= 2:
                op = unwrap(p['inner'][0]).get('referencedDecl', {}).get('name')
                return op in ASSIGN_OPS and unwrap(p['inner'][1]) is n
            return False
        return False

    def collect(self, P, n, parents=None, out=None):
        """addresses (C text) of the erased objects with a possibly-mutating mention inside n"""
        if out is None:
            out = []
        parents = parents or []
        if not isinstance(n, dict) or not n:
            return out
        if n.get('kind') == 'LambdaExpr':
            return out          # lambdas are extracted as functions of their own (the spec maps the call that takes them)
        for h in self.effect_hooks:
            # a write the spec models by a hook (row range / grid cell of a member): printed in front of the statement, so
            # that it takes place even where the expression around it is erased (order is irrelevant for a frame)
            t = h(P, n)
            if t is not None:
                if t not in out:
                    out.append(t)
                self.hoisted.add(id(n))
        if n.get('kind') == 'CXXMemberCallExpr' and n.get('inner') and n['inner'][0].get('kind') == 'MemberExpr' \
                and n['inner'][0].get('name') in MUTATING_CONST_METHODS and n['inner'][0].get('inner'):
            # a const method of an erased owner type that writes a `mutable` member of its object (the exceptions to "constness
            # is deep" that the static scan lists): the object is written whatever its const qualification
            o = unwrap(n['inner'][0]['inner'][0])
            if self.mention(P, o):
                a = f'{self.touch}({P.addr(o)})'
                if a not in out:
                    out.append(a)
        if id(n) in getattr(self, 'row_sliced', ()):
            return out          # the capture inside `<capture>.slice(range)`: its (conditional) write was printed by the spec's hook
        if self.mention(P, n):
            ctx = self.context(parents)
            if ctx == 'mutable' and self.const_view(n) and not self.assigned_to(n, parents):
                ctx = 'const'
            if ctx == 'dropconst' or (ctx == 'mutable' and not self.declared_const(n)):
                if n.get('kind') == 'MemberExpr' and n.get('name') in self.rows_fields:
                    if not self.sliced(n, parents):
                        a = f'nv_rows_touch_all({P.addr(n)})'
                        if a not in out:
                            out.append(a)
                else:
                    a = f'{self.touch}({P.addr(n)})'
                    if a not in out:
                        out.append(a)
            if n.get('kind') in CALL_KINDS:
                for c in n.get('inner', [])[1:]:
                    self.collect(P, c, parents + [n], out)
            return out
        for c in n.get('inner', []):
            self.collect(P, c, parents + [n], out)
        return out

    def drop_guard(self, P, n, key):
        """an argument that a mapping does not translate (`@drop`, a template that leaves it out): nothing the spec gives a
        meaning to may hide in it (a call of an extracted function / a stub, a store into a modelled object); possibly-
        mutating mentions of erased objects inside it are charged by the statement hook like everywhere else"""
        P.check_pure(n, f'argument not translated by the mapping of {key}')
        for x in astload.walk(n):
            if id(x) not in self.hoisted and any(h(P, x) is not None for h in self.effect_hooks):
                raise Unsupported(f'a write the spec models (hook) sits inside an expression that is erased / not translated ({key})')
            if x.get('kind') in CALL_KINDS and x.get('valueCategory') == 'lvalue' and not self.declared_const(x) and self.mapping_of(P, x) is None \
                    and not self.accessor(P, x):
                # an unmapped call that hands out a mutable reference INTO a modelled (non-erased) object, e.g. `v[i]` on a
                # vector the spec models as slots: erasing it would detach every later write from the object
                for a in x.get('inner', [])[1:] + ([x['inner'][0]['inner'][0]] if x.get('kind') == 'CXXMemberCallExpr' and x['inner'][0].get('inner') else []):
                    at = a.get('type', {})
                    if P.is_modelled_struct(at) and not _is_const_q(at.get('qualType', '')):
                        raise Unsupported(f'unmapped call yields a mutable reference into a modelled object of type {at.get("qualType")} ({key})')
            if x.get('kind') in CALL_KINDS and not self.accessor(P, x) and self.effectful(self.mapping_of(P, x)):
                raise Unsupported(f'a call the spec maps ({cxx2c.unwrap(x["inner"][0]).get("referencedDecl", {}).get("name") or x["inner"][0].get("name")}) '
                                  f'sits inside an argument that the mapping of {key} does not translate')

    def sliced(self, n, parents):
        """the mention is the object of `<member>.slice(..)` (printed by rows_slice_hook)"""
        ps = [p for p in parents if p.get('kind') not in TRANSPARENT and p.get('kind') != 'ParenExpr']
        return len(ps) >= 2 and ps[-1].get('kind') == 'MemberExpr' and ps[-1].get('name') in ('slice', 'tensor') and ps[-2].get('kind') == 'CXXMemberCallExpr' \
            and id(ps[-2]) in self.hoisted

    def touches(self, stmts, p):
        return ''.join(f'{p}{a};\n' for a in stmts)

    # -- expression hook: a copy / move construction or temporary of an erased value is the value (so that a mapped call or a
    #    modelled write underneath it is printed instead of being erased together with the copy)
    def expr_hook(self, P, n):
        if n.get('kind') == 'CXXOperatorCallExpr' and len(n.get('inner', [])) == 3 and self.is_cell(P, n['inner'][1].get('type')) \
                and unwrap(n['inner'][0]).get('referencedDecl', {}).get('name') in ASSIGN_OPS \
                and unwrap(n['inner'][1]).get('kind') in ('DeclRefExpr', 'MemberExpr'):
            # `erased = <expression with a mapped call inside>` (e.g. `outputs = predict(..)`): the store is charged to the left-hand
            # side by the statement hook (possibly-mutating mention); the right-hand side is printed so that the mapped call
            # takes place instead of making the whole assignment an erased expression with a call inside (Unsupported)
            has_mapped = any(x.get('kind') in CALL_KINDS and not self.accessor(P, x) and self.effectful(self.mapping_of(P, x))
                             for x in astload.walk(n['inner'][2]))
            if has_mapped:
                P.note('frame: assignment to an erased object from an expression with a mapped call')
                return f'((void)({P.expr(n["inner"][2])}))'
        if n.get('kind') in ('CXXConstructExpr', 'CXXTemporaryObjectExpr') and self.is_cell(P, n.get('type')) and len(n.get('inner', [])) == 1:
            c = n['inner'][0]
            if self.is_cell(P, c.get('type')) and strip_cv(qual(c['type'])).rstrip('&').strip() == strip_cv(qual(n['type'])) \
                    and unwrap(c).get('kind') not in ('DeclRefExpr', 'MemberExpr'):      # (a copy of a named object only reads it)
                return P.expr(c)
        return None

    # -- expression hook: data members of ERASED objects (local helper classes such as the wlearner caches): a sub-object
    #    shares the footprint of its object
    def erased_field(self, P, m):
        if not isinstance(m, dict) or m.get('kind') != 'MemberExpr' or m.get('type', {}).get('qualType') == '<bound member function type>' or not m.get('inner'):
            return False
        base = m['inner'][0]
        return unwrap(base).get('kind') != 'CXXThisExpr' and self.is_cell(P, base.get('type'))

    def field_hook(self, P, n):
        k = n.get('kind')
        if k in ('BinaryOperator', 'CompoundAssignOperator') and (n.get('opcode') == '=' or k == 'CompoundAssignOperator'):
            if self.erased_field(P, unwrap(n['inner'][0])):
                # a store into a member of an erased object: the write is charged to the object by the statement hook
                # (possibly-mutating mention); the right-hand side is still evaluated
                r = P.expr(n['inner'][1])
                P.note('frame: store into a member of an erased object')
                return f'((void)({r}))' if not re.fullmatch(r'nv_nondet_\w+\(\)|nv_opaque_value\(\)', r) else '((void)0)'
        if k == 'UnaryOperator' and n.get('opcode') in ('++', '--') and self.erased_field(P, unwrap(n['inner'][0])):
            return '((void)0)'
        if self.erased_field(P, n):
            base = n['inner'][0]
            if self.is_cell(P, n.get('type')):
                return f'(*{P.expr(base) if n.get("isArrow") else P.addr(base)})'
            return P.nondet(P.ctype(n['type']))
        return None

    # -- the statement hook
    def stmt_hook(self, P, n, ind):
        k = n.get('kind')
        P.drop_guard = self.drop_guard      # (the first statement printed is the function body: set before any expression)
        if id(n) in self.active or k in SKIP or k is None:
            return None
        p = '  ' * ind
        inner = n.get('inner', [])
        if k in HEADERS:
            if k == 'IfStmt':
                heads = [c for c in inner if c.get('kind') not in ('CompoundStmt',)][:1 + int(bool(n.get('hasInit'))) + int(bool(n.get('hasVar')))]
                w = []
                for h in heads:
                    if h.get('kind') == 'DeclStmt':
                        continue
                    self.collect(P, h, [], w)
                if not w:
                    return None
                return self.touches(w, p) + self.reenter(P, n, ind)
            if k == 'CXXForRangeStmt':
                return None     # printed from clang's desugaring: its DeclStmts and the body come back as statements
            body = inner[0] if k == 'DoStmt' else inner[-1]
            for h in inner:
                if isinstance(h, dict) and h and h is not body and h.get('kind') != 'DeclStmt' and self.collect(P, h, [], []):
                    raise Unsupported(f'possibly-mutating use of an erased object in the header of a {k}')
            return None
        if k == 'DeclStmt':
            return self.decl_stmt(P, n, ind)
        w = self.collect(P, n, [], [])
        if not w:
            return None
        P.note('frame: possibly-mutating mention of an erased object -> write of its footprint')
        return self.touches(w, p) + self.reenter(P, n, ind)

    def reenter(self, P, n, ind):
        self.active.add(id(n))
        try:
            return P.stmt1(n, ind)
        finally:
            self.active.discard(id(n))

    @staticmethod
    def constant_initialiser(init):
        """the initialiser of a static local is a constant expression as far as its SYNTAX shows (literals, enumerators,
        operators, already-evaluated ConstantExprs): no dynamic initialisation at run time.  Anything else (a call, a use of a
        parameter / member / other variable) initialises the object the first time control passes the declaration"""
        ok = {'IntegerLiteral', 'FloatingLiteral', 'CXXBoolLiteralExpr', 'CharacterLiteral', 'StringLiteral', 'CXXNullPtrLiteralExpr', 'ImplicitCastExpr',
              'ParenExpr', 'UnaryOperator', 'BinaryOperator', 'InitListExpr', 'ImplicitValueInitExpr', 'CXXFunctionalCastExpr', 'CXXStaticCastExpr',
              'CStyleCastExpr', 'ExprWithCleanups', 'MaterializeTemporaryExpr', 'ConditionalOperator'}
        stack = [init]
        while stack:
            x = stack.pop()
            if not isinstance(x, dict) or not x:
                continue
            k = x.get('kind')
            if k == 'ConstantExpr':
                continue
            if k == 'DeclRefExpr' and x.get('referencedDecl', {}).get('kind') == 'EnumConstantDecl':
                continue
            if k not in ok:
                return False
            stack.extend(x.get('inner', []))
        return True

    def decl_stmt(self, P, n, ind):
        p = '  ' * ind
        out = ''
        for v in n.get('inner', []):
            init = [x for x in v.get('inner', []) if x.get('kind') not in ('FullComment', 'BindingDecl')] if v.get('kind') in ('VarDecl', 'DecompositionDecl') else []
            if v.get('kind') == 'VarDecl' and v.get('storageClass') == 'static' and not v.get('tls'):
                # a function-local static: the engine prints it as a global (nv_static_<function>_<name>), stores to it are
                # checked like any other store.  Its DYNAMIC INITIALISATION is a store as well (by whichever call gets there
                # first: `static const auto kernel = make_kernel3x3(m_type);` makes the result of every later call depend on
                # the history of the process): printed as a write of the object at the declaration
                out += P.vardecl(v, p)
                g = P.renamed.get(v.get('id'))
                if init and g and not v.get('constexpr') and not self.constant_initialiser(init[0]):
                    w = []
                    self.collect(P, init[0], [v], w)
                    out += self.touches(w, p)
                    c = P.ctype(v['type'])
                    P.note('frame: dynamic initialisation of a function-local static -> write of the object')
                    if c == 'struct nv_opaque':
                        out += f'{p}{self.touch}(&{g});   /* dynamic initialisation of the function-local static {v.get("name")} */\n'
                    else:
                        out += f'{p}{g} = {P.nondet(c) if not c.startswith("struct ") else "(" + c + "){0}"};   /* dynamic initialisation of the function-local static {v.get("name")} */\n'
                continue
            if init and unwrap(init[0]).get('kind') == 'LambdaExpr':
                out += P.vardecl(v, p)
                continue
            w = []
            for x in init:
                self.collect(P, x, [v], w)
            ty = v.get('type', {}).get('qualType', '').rstrip()
            if v.get('kind') == 'DecompositionDecl' and init and self.is_cell(P, init[0].get('type')):
                # structured binding of an erased object (pair / tuple of erased values): every binding is an erased value
                # of its own (a mutable binding was charged to the object above: the access path is created here)
                e = P.expr(init[0])
                out += self.touches(w, p)
                if e != 'nv_opaque_value()':
                    out += f'{p}(void){e};\n' + P.after(p)
                for b in [x for x in v.get('inner', []) if x.get('kind') == 'BindingDecl']:
                    try:
                        bc = P.ctype(b.get('type') or b['inner'][0]['type'])
                    except (Unsupported, KeyError, IndexError):
                        bc = 'struct nv_opaque'
                    out += f'{p}{bc} {b["name"]}' + ('' if bc.startswith('struct ') else f' = {P.nondet(bc)}') + ';\n'
                P.note('frame: structured binding of an erased object')
                continue
            if v.get('kind') == 'VarDecl' and init and ty.endswith('&') and not _is_const_q(ty):
                u = unwrap(init[0])
                # a non-const reference bound to a mapped lvalue call (`auto& acc = accs[tnum]`): alias the real object
                if u.get('kind') in CALL_KINDS and self.is_cell(P, u.get('type')) and self.accessor(P, u):
                    c = P.ctype(v['type'])
                    P.note('frame: reference bound to a mapped lvalue -> alias')
                    out += self.touches(w, p) + f'{p}{c} {v["name"]} = {P.addr(u)};\n' + P.after(p)
                    continue
            if w:
                P.note('frame: possibly-mutating mention of an erased object -> write of its footprint')
            if v.get('kind') == 'VarDecl' and init and not ty.endswith('&'):
                try:
                    c = P.ctype(v['type'])
                except Unsupported:
                    c = None
                if c == 'struct nv_opaque':
                    # an erased variable: the engine drops its initialiser; here it is printed, so that mapped calls and
                    # modelled writes inside it take place (erased parts print as nv_opaque_value())
                    e = P.expr(init[0])
                    out += self.touches(w, p) + f'{p}struct nv_opaque {v["name"]} = {e};\n' + P.after(p)
                    continue
            if v.get('kind') == 'VarDecl' and init and ty.endswith('&') and self.is_cell(P, v.get('type')) \
                    and unwrap(init[0]).get('kind') not in ('DeclRefExpr', 'MemberExpr'):
                # a reference to (a part of) an erased object that the engine binds to a fresh unit object: nothing the spec
                # gives a meaning to may hide in the dropped initialiser
                self.drop_guard(P, init[0], f'initialiser of the erased reference {v.get("name")}')
            out += self.touches(w, p) + P.vardecl(v, p)
        return out


def frame_context_patch(track):
    """a VarDecl as the innermost parent: `T& r = obj` / `auto v = obj.view()` bind mutably unless the declared type is const;
    `const T& r = obj`, `const auto x = obj` (copy) read"""
    orig = track.context

    def context(parents):
        for p in reversed(parents):
            k = p.get('kind')
            if k in ('ParenExpr', 'ConditionalOperator') or k in TRANSPARENT:
                continue
            if k in ('VarDecl', 'DecompositionDecl'):
                ty = p.get('type', {}).get('qualType', '').rstrip()
                if not ty.endswith('&'):
                    return 'const'      # initialisation of an object from an lvalue copies it
                return 'const' if _is_const_q(ty) else 'mutable'
            break
        return orig([q for q in parents if q.get('kind') not in ('VarDecl', 'DecompositionDecl')])
    track.context = context
    return track


def make_track(lvalue_hooks=(), rows_fields=(), effect_hooks=()):
    return frame_context_patch(FrameTrack(lvalue_hooks=lvalue_hooks, rows_fields=rows_fields, effect_hooks=effect_hooks))


def rows_slice_hook(rows_fields):
    """`m_values.slice(range)` / `.slice(begin, end)` on a row-wise modelled, non-const data member of `this`:
    nv_rows_slice(&self->m_values, begin, end) -- writes the ghost row iff begin <= nv_g < end, yields an (erased) view"""
    def h(P, n):
        if n.get('kind') != 'CXXMemberCallExpr':
            return None
        me = n['inner'][0]
        if me.get('kind') != 'MemberExpr' or me.get('name') != 'slice':
            return None
        obj = me['inner'][0]
        u = unwrap(obj)
        if u.get('kind') != 'MemberExpr' or u.get('name') not in rows_fields:
            return None
        if _is_const_q(obj.get('type', {}).get('qualType', '')) or _is_const_q(u.get('type', {}).get('qualType', '')):
            return None         # const access: a read (erased by the engine)
        args = n['inner'][1:]
        if len(args) == 1:
            r = P.expr(args[0])
            P.note('rows: <member>.slice(range) -> ghost-row write')
            return f'nv_rows_slice({P.addr(u)}, ({r}).m_begin, ({r}).m_end)'
        if len(args) == 2:
            P.note('rows: <member>.slice(begin, end) -> ghost-row write')
            return f'nv_rows_slice({P.addr(u)}, {P.expr(args[0])}, {P.expr(args[1])})'
        raise Unsupported('slice with %d arguments on a row-wise modelled member' % len(args))
    return h


def grid_cell_hook(grid_fields, fn='nv_grid_cell'):
    """`m_values.tensor(trial, fold, ..)` (two or more indices) on a non-const data member of `this` modelled as a
    (trial, fold) grid (`struct nv_grid`: the footprint of ONE ghost cell): nv_grid_cell(&self->m_values, trial, fold) writes
    the ghost cell iff (trial, fold) is the ghost pair"""
    def h(P, n):
        if n.get('kind') != 'CXXMemberCallExpr':
            return None
        me = n['inner'][0]
        if me.get('kind') != 'MemberExpr' or me.get('name') != 'tensor' or len(n['inner']) < 3:
            return None
        obj = me['inner'][0]
        u = unwrap(obj)
        if u.get('kind') != 'MemberExpr' or u.get('name') not in grid_fields:
            return None
        if _is_const_q(obj.get('type', {}).get('qualType', '')) or _is_const_q(u.get('type', {}).get('qualType', '')):
            return None
        P.note('grid: <member>.tensor(trial, fold, ..) -> ghost-cell write')
        return f'{fn}({P.addr(u)}, {P.expr(n["inner"][1])}, {P.expr(n["inner"][2])})'
    return h


def uf_int_hook(P, n):
    """integer `*`, `/`, `%` as uninterpreted functions (congruence only: sound for every interpretation, the machine
    one included).  Slot indices `trial * folds + fold` are then compared as terms; nothing is bit-blasted."""
    if n.get('kind') != 'BinaryOperator' or n.get('opcode') not in ('*', '/', '%'):
        return None
    q = strip_cv(qual(n.get('type', {})))
    if cxx2c.SCALARS.get(q) not in ('int64_t', 'uint64_t'):
        return None
    f = {'*': 'NV_IMUL', '/': 'NV_IDIV', '%': 'NV_IMOD'}[n['opcode']]
    a, b = n['inner']
    return f'(({cxx2c.SCALARS[q]}){f}((int64_t)({P.expr(a)}), (int64_t)({P.expr(b)})))'


def ref_member_hook(ref_fields):
    """a reference data member (`const loss_t& m_loss;`) is a pointer field of the C model: a use denotes the object"""
    def h(P, n):
        if n.get('kind') != 'MemberExpr' or n.get('type', {}).get('qualType') == '<bound member function type>':
            return None
        if n.get('name') not in (ref_fields() if callable(ref_fields) else ref_fields):
            return None
        inner = n.get('inner', [])
        base = P.expr(inner[0])
        if n.get('isArrow'):
            return f'(*{base}->{n["name"]})'
        m = re.fullmatch(r'\(\*([A-Za-z_]\w*)\)', base)
        return f'(*{m.group(1)}->{n["name"]})' if m else f'(*{base}.{n["name"]})'
    return h


# ----------------------------------------------------------------------------------------------------- small hooks
def param_ref_hook(field='m_parameters'):
    """configurable_t::parameter("name") on a modelled object: the parameter lives in the object's `m_parameters`
    (the const overload is used on const objects: a read; the non-const one yields a mutable access path: a write)"""
    def h(P, n):
        if n.get('kind') != 'CXXMemberCallExpr':
            return None
        me = n['inner'][0]
        if me.get('kind') != 'MemberExpr' or me.get('name') not in ('parameter',) or len(n['inner']) != 2:
            return None
        obj = unwrap(me['inner'][0])        # look through the derived-to-base conversion to configurable_t
        try:
            c = P.ctype(obj['type'])
        except Unsupported:
            return None
        if not c.startswith('struct ') or c.startswith('struct nv_opaque'):
            return None
        base = P.expr(obj) if c.endswith('*') else P.addr(obj)
        P.note('parameter("..") -> the object\'s m_parameters')
        return f'({base}->{field})'
    return h


# ----------------------------------------------------------------------------------------------------- loop frames
LOOPS = ('ForStmt', 'WhileStmt', 'DoStmt', 'CXXForRangeStmt')


def auto_loop_frames(fn, extra='', inv='1', skip_ctypes=(r'\*$',), member_wise=None):
    """NV_LOOP_<cname>_<k> macros for a function whose loops need no invariant beyond the frame: the assigns clause of loop
    k lists every local that is in scope at the loop (declared earlier in an enclosing block, or in the loop's own
    init-statement) -- an upper bound of what the body can change among the locals -- plus `extra` (objects reached
    through pointers).  Locals of pointer type are left out (a havocked pointer loses its target; the extracted bodies
    never re-seat them inside a loop: a write to such a local inside the loop is then refuted, not missed); `member_wise`
    maps a local's C type to the list of its assignable parts (structs that hold pointers)."""
    d = astload.find_definition(fn.tu, fn.flt, fn.name, fn.select, fn.kinds)
    if fn.lambda_index is not None:
        lam = astload.find_lambdas(d)[fn.lambda_index]
        d = astload.lambda_call_operator(lam)
    P = cxx2c.Printer(fn.cname, fn.types, opaque=fn.opaque)
    out = []
    counter = [0]
    member_wise = member_wise or {}

    def names_of(v):
        if v.get('kind') == 'DecompositionDecl':
            res = []
            for b in v.get('inner', []):
                if b.get('kind') == 'BindingDecl':
                    res.append((b['name'], None))
            return res
        if v.get('kind') != 'VarDecl' or v.get('storageClass') == 'static':
            return []
        init = [x for x in v.get('inner', []) if x.get('kind') != 'FullComment']
        if init and unwrap(init[0]).get('kind') == 'LambdaExpr':
            return []
        try:
            c = P.ctype(v['type'])
        except Unsupported:
            return []
        if v['type'].get('qualType', '').rstrip().endswith('&'):
            c += '' if c.endswith('*') else '*'
        return [(v['name'], c)]

    def visit(n, scope):
        if not isinstance(n, dict) or not n or n.get('kind') == 'LambdaExpr':
            return
        k = n.get('kind')
        if k in LOOPS:
            counter[0] += 1
            idx = counter[0]
            local = list(scope)
            inner = n.get('inner', [])
            if k == 'ForStmt' and inner and inner[0]:
                for v in inner[0].get('inner', []) if inner[0].get('kind') == 'DeclStmt' else []:
                    local += names_of(v)
            if k == 'CXXForRangeStmt':
                for dd in inner[:4]:
                    if dd and dd.get('kind') == 'DeclStmt':
                        for v in dd.get('inner', []):
                            if v.get('name', '').startswith('__begin'):
                                local += names_of(v)
            items = []
            for nm, c in local:
                if c in member_wise:
                    items += [t.format(nm) for t in member_wise[c]]
                elif c is not None and any(re.search(rx, c) for rx in skip_ctypes):
                    continue
                else:
                    items.append(nm)
            items = list(dict.fromkeys(items))
            out.append(f'#define NV_LOOP_{fn.cname}_{idx} __CPROVER_assigns({", ".join(items + ([extra] if extra else []))}) __CPROVER_loop_invariant({inv})')
            body = inner[-1] if k != 'DoStmt' else inner[0]
            visit(body, local)
            return
        if k == 'CompoundStmt':
            sc = list(scope)
            for c in n.get('inner', []):
                if c.get('kind') == 'DeclStmt':
                    for v in c.get('inner', []):
                        sc += names_of(v)
                visit(c, sc)
            return
        if k == 'IfStmt':
            sc = list(scope)
            for c in n.get('inner', []):
                if c and c.get('kind') == 'DeclStmt':
                    for v in c.get('inner', []):
                        sc += names_of(v)
                visit(c, sc)
            return
        for c in n.get('inner', []):
            visit(c, scope)

    body = [c for c in d.get('inner', []) if c.get('kind') == 'CompoundStmt'][0]
    visit(body, [])
    return '\n'.join(out) + '\n'
