"""C16 extension, back end B: contracts for the functions of include/nano/tensor/{base,tensor,storage}.h that use the
dims.h index arithmetic (ranks 1..4, scalar double, owning storage; the member templates are rank/scalar generic text).

Every postcondition is written from the property statement ("every partial-index view, first-axis slice, reshape
(including one inferred -1 dimension) and index-gather aliases or copies exactly the elements obtained by full indexing
... no valid access touches memory outside the tensor") over the spec functions P_k / F_k of spec.py.
"""
import re

import astload
import nvwp
from nvwp import V, AND, OR, NOT, IMP, lit, Unsupported
from wplib import load, reach_vc, array_len, declare_array
import tmodel
from tmodel import TWP, F, BOUND, ens_index, ens_index0, ens_index0_end, ens_view, ens_slice, ens_reshape, pre_reshape, reshape_cases, in_box, times

TU = 'drivers/inst_tensor.cpp'
FLT = 'nano::'
INC = astload.REPO + '/include/nano/tensor/'
RANKS = (1, 2, 3, 4)
RESHAPES = [(2, 1), (2, 2), (2, 3), (2, 4), (1, 2), (3, 1), (4, 2)]    # (rank of the tensor, rank of the requested shape)


def msel(rx, nparams=None):
    def s(d):
        if not re.search(rx, d.get('mangledName', '')):
            return False
        return nparams is None or len(astload.param_types(d)) == nparams
    return s


def base_rx(R, name):
    return rf'13tensor_base_tIdLm{R}ELb1EE{len(name)}{name}'


def tens_rx(R, name, const=None):
    pre = '_ZNK?' if const is None else ('_ZNK' if const else '_ZN')
    return rf'^{pre}4nano8tensor_tINS_23tensor_vector_storage_tEdLm{R}EE{len(name) if name != "cl" else ""}{name}'


def run_fn(name, decl, select, hdr, R, setup, post, about, invariants=None, has_self=True):
    docs, fn = load(TU, FLT, decl, select)
    wp = TWP(name, bindings=nvwp.template_bindings(docs, fn), invariants=invariants or {})
    wp.bindings.setdefault('trank', R)       # member functions of the class template: its rank parameter
    wp.P0 = wp.sym_tensor('self', R) if has_self else None
    wp.ghost_init()
    keys = wp.bind_params(fn)
    wp.idx = []
    wp.ptr_checked = False
    for key, p in keys:
        q = p['type'].get('qualType', '') + ' ' + p['type'].get('desugaredQualType', '')
        if re.search(r'\*\s*$', p['type'].get('qualType', '')):
            # private helpers receive `ptr`: every caller passes data() (vector/matrix/tensor/slice/reshape wrappers, proved there)
            wp.env[key] = V('0', 'Ptr', 'self')
        elif 'tensor_range_t' in q:
            wp.env[key] = V(key, 'Range', None)
            for f in ('m_begin', 'm_end'):
                wp.env[f'{key}.{f}'] = wp.fresh('Int', f'{key}_{f}', 'long')
                wp.assume(wp.in_range(wp.env[f'{key}.{f}'].t, 'long'))
        elif re.search(r'indices_c?map_t|indices_t', q):
            wp.sym_tensor(key, 1, 'i')
        elif array_len(p['type']) is not None or 'tdims' in q:
            n = array_len(p['type']) or R
            wp.sym_dims(key, n, 'd')
        elif re.search(tmodel.TENSOR_T, q):
            wp.sym_tensor(key, tmodel.rank_of(p['type']), key[:3])
        else:
            wp.env[key] = wp.fresh('Int', key, 'long')
            wp.assume(wp.in_range(wp.env[key].t, 'long'))
            wp.idx.append(wp.env[key].t)
    if setup:
        setup(wp)
    wp.post = post
    wp.run(fn, hdr)
    if wp.returns == 0:
        raise astload.ExtractionError(f'{name}: no return path')
    vcs = wp.vcs(name, hdr, about)
    vcs.append(reach_vc(wp, name, hdr))
    return vcs, {'c_name': name, 'cxx': decl, 'file': hdr, 'line': fn.get('loc', {}).get('line'), 'sha': astload.file_hash(hdr)}


def assume_box(wp):
    for c in in_box(wp, 'self.m_dims', wp.idx):
        wp.assume(c)


def eq_terms(label, have, want):
    return [(f'{label}[{k}]', f'(= {a} {b})') for k, (a, b) in enumerate(zip(have, want))]


def view_post(kind, R, m):
    def post(wp, rv):
        P = wp.P0
        if kind == 'tensor':
            if rv.s != 'Tensor':
                return [('returns a tensor map', 'false')]
            T = wp.tens[rv.t]
            view = {'off': T['off'], 'len': wp.P(rv.t)[0]}
            out = ens_view(P, wp.idx, view, kind)
            out += eq_terms('sub-tensor dims == dims0(prefix) == dims[m:]', wp.elems(T['dims']), wp.elems('self.m_dims')[m:])
            out.append(('sub-tensor has rank R - m', 'true' if len(wp.elems(T['dims'])) == R - m else 'false'))
            buf = T['buf']
        else:
            if rv.s != 'View':
                return [('returns an Eigen map', 'false')]
            out = ens_view(P, wp.idx, rv.c, kind)
            buf = rv.c['buf']
            if kind == 'matrix':
                out.append(('matrix is rows() x cols() = dims[R-2] x dims[R-1]',
                            f'(and (= {rv.c.get("rows")} {wp.dim("self", R - 2)}) (= {rv.c.get("cols")} {wp.dim("self", R - 1)}))'))
        out.append(('the view aliases this tensor\'s buffer', 'true' if buf == 'self' else 'false'))
        return out
    post.setup = assume_box
    return post


def slice_post(R, ranged=False):
    def post(wp, rv):
        if rv.s != 'Tensor':
            return [('returns a tensor map', 'false')]
        T = wp.tens[rv.t]
        b, e = wp.be
        out = ens_slice(wp, 'self', b, e, {'off': T['off'], 'dims': wp.elems(T['dims'])})
        out.append(('the slice aliases this tensor\'s buffer', 'true' if T['buf'] == 'self' else 'false'))
        return out

    def setup(wp):
        if ranged:
            b, e = wp.env['range.m_begin'].t, wp.env['range.m_end'].t
        else:
            b, e = wp.idx
        wp.be = (b, e)
        wp.assume(f'(and (<= 0 {b}) (<= {b} {e}) (<= {e} {wp.dim("self", 0)}))')      # the assert in tslice
    post.setup = setup
    return post


def reshape_post(N, j):
    def post(wp, rv):
        if rv.s != 'Tensor':
            return [('returns a tensor map', 'false')]
        T = wp.tens[rv.t]
        out = ens_reshape(wp, 'self', wp.idx, j, wp.M0, {'off': T['off'], 'dims': wp.elems(T['dims'])})
        out.append(('the reshaped tensor aliases this tensor\'s buffer', 'true' if T['buf'] == 'self' else 'false'))
        return out

    def setup(wp):
        pre, wp.M0 = pre_reshape(wp, 'self', wp.idx, j)
        for c in pre:
            wp.assume(c)
    post.setup = setup
    return post


def indexed_inv(R):
    def inv(wp):
        i, n = wp.env['i'].t, wp.env['indices_size'].t
        return [('0 <= i <= indices.size()', f'(and (<= 0 {i}) (<= {i} {n}) (= {n} {wp.dim("indices", 0)}))'),
                ('rows 0 .. i-1 of the output have been written, one copy each', f'(= {wp.env["ghost.rows"].t} {i})'),
                ('gather_rows: every output row below i holds row indices(row) of this tensor (ghost position)',
                 f'(=> (and (<= 0 {wp.G}) (< {wp.G} {i})) (= {wp.env["ghost.gsrc"].t} {wp.IG}))')]
    inv.havoc = ['ghost.rows', 'ghost.dst', 'ghost.src', 'ghost.len', 'ghost.idx', 'ghost.idx_pos', 'ghost.cell', 'ghost.gsrc']
    inv.decreases = lambda wp, env: f'(- {env["indices_size"].t} {env["i"].t})'

    def body_post(wp, e0, e1):
        i = e0['i'].t
        P1 = wp.P0[1]
        return [('exactly one row copy per iteration', f'(= {e1["ghost.rows"].t} (+ {e0["ghost.rows"].t} 1))'),
                ('the index list is read at position i', f'(= {e1["ghost.idx_pos"].t} {i})'),
                ('row i of the output is written: destination offset == i * P_1', f'(= {e1["ghost.dst"].t} (* {i} {P1}))'),
                ('row indices(i) of this tensor is read: source offset == indices(i) * P_1', f'(= {e1["ghost.src"].t} (* {e1["ghost.idx"].t} {P1}))'),
                ('one whole row (P_1 elements) is copied', f'(= {e1["ghost.len"].t} {P1})'),
                ('the copy goes from this tensor to the output', 'true' if wp.copy_bufs == ('subtensor', 'self') else 'false')]
    inv.body_post = body_post
    return inv


def on_access_indexed(wp, tid, i, n):
    """indices(i): the asserted precondition indices.min() >= 0 && indices.max() < size<0>() gives the value's range"""
    if tid != 'indices':
        return None
    wp.oblige('index list read in range: 0 <= i < indices.size()', f'(and (<= 0 {i}) (< {i} {wp.dim("indices", 0)}))', n)
    v = wp.fresh('Int', 'index_value', 'long')
    wp.assume(f'(and (<= 0 {v.t}) (< {v.t} {wp.dim("self", 0)}))')
    # the index list is constant: a FUNCTION of the position (the value at the ghost position is IG; equal positions, equal values)
    for p, w in [(wp.G, wp.IG)] + list(wp.idx_reads):
        wp.facts.append(f'(=> (= {i} {p}) (= {v.t} {w}))')
    wp.idx_reads.append((i, v.t))
    wp.ghost_set('ghost.idx', v.t)
    wp.ghost_set('ghost.idx_pos', i)
    return v


def setup_gather(wp):
    """the three indexed overloads: index-list reads are tracked, row copies update the ghost "output row G holds source row ..";
    the asserted precondition indices.min() >= 0 && indices.max() < size<0>() at the ghost position"""
    wp.on_access = on_access_indexed
    wp.track_gather = True
    wp.assume(f'(=> (and (<= 0 {wp.G}) (< {wp.G} {wp.dim("indices", 0)})) (and (<= 0 {wp.IG}) (< {wp.IG} {wp.dim("self", 0)})))')
    # ... and on a non-empty list it implies that this tensor has rows at all (0 <= indices.min() <= indices.max() < size<0>())
    wp.assume(f'(=> (> {wp.dim("indices", 0)} 0) (> {wp.dim("self", 0)} 0))')


def build():
    vcs, fns = [], []

    def add(r):
        vcs.extend(r[0])
        fns.append(r[1])

    B, T, S = INC + 'base.h', INC + 'tensor.h', INC + 'storage.h'
    for R in RANKS:
        # ---------------------------------------------------------------------------- base.h
        def post_dims(wp, rv):
            return eq_terms('dims() == m_dims', wp.elems(rv.t), wp.elems('self.m_dims')) if rv.s == 'Array' else [('returns the dims', 'false')]
        add(run_fn(f'tensor_base_t<{R}>::dims', 'dims', msel(base_rx(R, 'dims')), B, R, None, post_dims, 'the stored dimensions'))

        def post_size(wp, rv):
            return [('size() == nano::size(dims) == P_0', f'(= {rv.t} {wp.P0[0]})'), ('size() >= 0', f'(>= {rv.t} 0)')]
        add(run_fn(f'tensor_base_t<{R}>::size', 'size', msel(base_rx(R, 'size') + 'Ev'), B, R, None, post_size, 'number of elements'))

        def post_offset(wp, rv):
            return ens_index(wp.P0, wp.idx, rv.t)
        post_offset.setup = assume_box
        add(run_fn(f'tensor_base_t<{R}>::offset', 'offset', msel(base_rx(R, 'offset'), R), B, R, assume_box, post_offset,
                   'offset(indices...) == nano::index(dims, indices...)'))
        for m in range(R + 1):
            def post_offset0(wp, rv):
                return ens_index0(wp.P0, wp.idx, rv.t)
            add(run_fn(f'tensor_base_t<{R}>::offset0/{m}', 'offset0', msel(base_rx(R, 'offset0'), m), B, R, assume_box, post_offset0,
                       'offset0(prefix...) == nano::index0(dims, prefix...)'))
        def post_offset0_end(wp, rv):
            return ens_index0_end(wp.P0, wp.idx, rv.t)

        def setup_end(wp):
            wp.assume(f'(and (<= 0 {wp.idx[0]}) (<= {wp.idx[0]} {wp.dim("self", 0)}))')
            wp.end_inclusive = True
        add(run_fn(f'tensor_base_t<{R}>::offset0/1 end-inclusive', 'offset0', msel(base_rx(R, 'offset0'), 1), B, R, setup_end, post_offset0_end,
                   'offset0(i) for a row index in [0, dims[0]] (tslice)'))
        for m in range(R):
            def post_dims0(wp, rv, m=m):
                if rv.s != 'Array' or rv.c != R - m:
                    return [('returns R - m dims', 'false')]
                return eq_terms('dims0(prefix) == dims[m:]', wp.elems(rv.t), wp.elems('self.m_dims')[m:])
            add(run_fn(f'tensor_base_t<{R}>::dims0/{m}', 'dims0', msel(base_rx(R, 'dims0'), m), B, R, None, post_dims0,
                       'dims0(prefix...) == nano::dims0(dims, prefix...)'))
        if R >= 2:
            for nm, k in (('rows', R - 2), ('cols', R - 1)):
                def post_rc(wp, rv, k=k):
                    return [(f'== dims[{k}]', f'(= {rv.t} {wp.dim("self", k)})')]
                add(run_fn(f'tensor_base_t<{R}>::{nm}', nm, msel(base_rx(R, nm)), B, R, None, post_rc, 'rows/cols are the last two extents'))

        def post__resize(wp, rv):
            return eq_terms('m_dims == dims', wp.elems('self.m_dims'), wp.elems('dims'))
        add(run_fn(f'tensor_base_t<{R}>::_resize', '_resize', msel(base_rx(R, '_resize')), B, R, None, post__resize, 'shape update'))

        # ---------------------------------------------------------------------------- storage.h: resize(dims)
        def post_resize(wp, rv):
            Pn = wp.chain('dims')
            return eq_terms('m_dims == dims', wp.elems('self.m_dims'), wp.elems('dims')) + \
                [('the storage is resized to size(dims) elements', f'(= {wp.env["ghost.alloc"].t} {Pn[0]})')]
        add(run_fn(f'tensor_vector_storage_t<{R}>::resize', 'resize', msel(rf'23tensor_vector_storage_tIdLm{R}EE6resizeERK'), S, R, None,
                   post_resize, 'resize pins the shape and the element count'))

        # ---------------------------------------------------------------------------- tensor.h: element access
        def post_at1(wp, rv):
            i = wp.idx[0]
            return [('t(i) is element data()[i]', f'(= {rv.t} {i})' if rv.s == 'Elem' and rv.c == 'self' else 'false'),
                    ('the element lies inside the buffer', f'(and (<= 0 {rv.t}) (< {rv.t} {wp.P0[0]}))')]

        def setup_at1(wp):
            wp.assume(f'(and (<= 0 {wp.idx[0]}) (< {wp.idx[0]} {wp.P0[0]}))')      # the assert in operator()(index)
        add(run_fn(f'tensor_t<{R}>::operator()(index)', 'operator()', msel(tens_rx(R, 'cl', False) + 'El$'), T, R, setup_at1, post_at1,
                   'flat element access'))
        if R >= 2:
            def post_at(wp, rv):
                return [('t(indices...) is element data()[F_0(indices)]', f'(= {rv.t} {F(wp.P0, 0, wp.idx)})' if rv.s == 'Elem' and rv.c == 'self' else 'false'),
                        ('the element lies inside the buffer', f'(and (<= 0 {rv.t}) (< {rv.t} {wp.P0[0]}))')]
            for const in (False, True):
                add(run_fn(f'tensor_t<{R}>::operator()(indices...){" const" if const else ""}', 'operator()', msel(tens_rx(R, 'cl', const) + 'IJ', R), T, R,
                           assume_box, post_at, 'full-index element access'))

        # ---------------------------------------------------------------------------- tensor.h: partial-index views
        for m in range(R):
            for kind in ('vector', 'tensor'):
                add(run_fn(f'tensor_t<{R}>::t{kind}/{m}', f't{kind}', msel(tens_rx(R, f't{kind}') + 'IPdJ', 1 + m), T, R, assume_box,
                           view_post(kind, R, m), f'partial-index {kind} view'))
                add(run_fn(f'tensor_t<{R}>::{kind}/{m}', kind, msel(tens_rx(R, kind, False) + 'IJ', m), T, R, assume_box,
                           view_post(kind, R, m), f'partial-index {kind} view (public wrapper)'))
        if R >= 2:
            add(run_fn(f'tensor_t<{R}>::tmatrix/{R - 2}', 'tmatrix', msel(tens_rx(R, 'tmatrix') + 'IPdJ', R - 1), T, R, assume_box,
                       view_post('matrix', R, R - 2), 'partial-index matrix view'))
            add(run_fn(f'tensor_t<{R}>::matrix/{R - 2}', 'matrix', msel(tens_rx(R, 'matrix', False) + 'IJ', R - 2), T, R, assume_box,
                       view_post('matrix', R, R - 2), 'partial-index matrix view (public wrapper)'))

        # ---------------------------------------------------------------------------- tensor.h: first-axis slices
        p = slice_post(R)
        add(run_fn(f'tensor_t<{R}>::tslice', 'tslice', msel(tens_rx(R, 'tslice') + 'IPd'), T, R, p.setup, p, 'first-axis slice [begin, end)'))
        add(run_fn(f'tensor_t<{R}>::slice(begin,end)', 'slice', msel(tens_rx(R, 'slice', False) + 'Ell'), T, R, p.setup, p, 'first-axis slice (public wrapper)'))
        p = slice_post(R, ranged=True)
        add(run_fn(f'tensor_t<{R}>::slice(range)', 'slice', msel(tens_rx(R, 'slice', False) + 'ERKNS_14tensor_range_t'), T, R, p.setup, p,
                   'first-axis slice (range wrapper)'))

        # ---------------------------------------------------------------------------- tensor.h: index gather
        def post_indexed_map(wp, rv):
            n = wp.dim('indices', 0)
            return [('every row i < indices.size() of the output has been written, one copy each', f'(= {wp.env["ghost.rows"].t} {n})')] + \
                tmodel.gather_clause(wp, 'subtensor')

        def setup_indexed_map(wp):
            # the assert in the code: subtensor.dims() == (indices.size(), dims[1..])
            want = tmodel.expected_indexed_dims(wp, 'self', 'indices')
            for a, b in zip(wp.elems('subtensor.m_dims'), want):
                wp.assume(f'(= {a} {b})')
            setup_gather(wp)
        add(run_fn(f'tensor_t<{R}>::indexed(indices, map)', 'indexed', msel(tens_rx(R, 'indexed', True) + r'IdEEvNS0_INS_23tensor_carray_storage_tElLm1EEENS0_INS_23tensor_marray'),
                   T, R, setup_indexed_map, post_indexed_map, 'index gather into a mapped tensor', invariants={1: indexed_inv(R)}))

        def post_indexed_mem(wp, rv):
            want = tmodel.expected_indexed_dims(wp, 'self', 'indices')
            return eq_terms('subtensor.dims() == (indices.size(), dims[1..]) EXACTLY', wp.elems('subtensor.m_dims'), want) + \
                [('every row of the output has been written', f'(= {wp.env["ghost.rows"].t} {wp.dim("indices", 0)})')] + tmodel.gather_clause(wp, 'subtensor')
        def setup_indexed_alloc(wp):
            # the gathered tensor must itself be a valid tensor: indices.size() * P_1 <= 2^62 (indices may repeat rows)
            wp.assume(f'(<= (* {wp.dim("indices", 0)} {wp.P0[1]}) {BOUND})')
            setup_gather(wp)
        add(run_fn(f'tensor_t<{R}>::indexed(indices, mem&)', 'indexed', msel(tens_rx(R, 'indexed', True) + r'IdEEvNS0_INS_23tensor_carray_storage_tElLm1EEERNS0_'),
                   T, R, setup_indexed_alloc, post_indexed_mem, 'index gather into an owning tensor (resized)'))

        def post_indexed_ret(wp, rv):
            if rv is None or rv.s != 'Tensor':
                return [('returns a tensor', 'false')]
            want = tmodel.expected_indexed_dims(wp, 'self', 'indices')
            return eq_terms('result.dims() == (indices.size(), dims[1..]) EXACTLY', wp.elems(wp.tens[rv.t]['dims']), want) + \
                [('every row of the result has been written', f'(= {wp.env["ghost.rows"].t} {wp.dim("indices", 0)})')] + tmodel.gather_clause(wp, rv.t)
        add(run_fn(f'tensor_t<{R}>::indexed(indices)', 'indexed', msel(tens_rx(R, 'indexed', True) + r'IdEEDaNS0_'), T, R, setup_indexed_alloc, post_indexed_ret,
                   'index gather returning a new tensor'))

    # -------------------------------------------------------------------------------- integral.h: index pattern, ranks 2 and 3
    G = INC + 'integral.h'

    def same_dims(wp):
        for a, b in zip(wp.elems('itensor.m_dims'), wp.elems('otensor.m_dims')):
            wp.assume(f'(= {a} {b})')          # the assert in integral()

    for R in (2, 3):
        def setup_get(wp):
            same_dims(wp)
            for a in wp.elems('itensor.m_dims'):
                wp.assume(f'(>= {a} 1)')       # integral(): size() > 0

        def inv(wp):
            i0, n = wp.env['i0'].t, wp.env['size0'].t
            return [('0 <= i0 <= dims[0]', f'(and (<= 0 {i0}) (<= {i0} {n}) (= {n} {wp.dim("itensor", 0)}))'),
                    ('slices 0 .. i0-1 have been integrated, one call each', f'(= {wp.env["ghost.gets"].t} {i0})'),
                    ('rows 1 .. i0-1 have received their predecessor, once each', f'(= {wp.env["ghost.adds"].t} (ite (>= {i0} 1) (- {i0} 1) 0))')]
        inv.havoc = ['ghost.gets', 'ghost.adds', 'ghost.get_in', 'ghost.get_out', 'ghost.add_dst', 'ghost.add_src', 'ghost.add_len']
        inv.decreases = lambda wp, env: f'(- {env["size0"].t} {env["i0"].t})'

        def body_post(wp, e0, e1, R=R):
            i0 = e0['i0'].t
            Pi, Po = wp.P('itensor')[1], wp.P('otensor')[1]
            ev = wp.events[-2:]
            order = len(ev) == 2 and ev[0] == ('get', 'itensor', 'otensor', R - 1) and ev[1] == ('add', 'otensor', 'otensor')
            pos = f'(>= {i0} 1)'
            return [('slice i0 of the input is integrated into slice i0 of the output',
                     f'(and (= {e1["ghost.get_in"].t} (* {i0} {Pi})) (= {e1["ghost.get_out"].t} (* {i0} {Po})) (= {e1["ghost.gets"].t} (+ {e0["ghost.gets"].t} 1)))'),
                    ('for i0 >= 1 output row i0-1 is added to output row i0 (whole rows of P_1 elements), for i0 == 0 nothing is added',
                     f'(ite {pos} (and (= {e1["ghost.add_dst"].t} (* {i0} {Po})) (= {e1["ghost.add_src"].t} (* (- {i0} 1) {Po})) (= {e1["ghost.add_len"].t} {Po}) '
                     f'(= {e1["ghost.adds"].t} (+ {e0["ghost.adds"].t} 1))) (= {e1["ghost.adds"].t} {e0["ghost.adds"].t}))'),
                    ('the slice is integrated first, then the predecessor row is added, both on the right buffers', 'true' if order else 'false')]
        inv.body_post = body_post

        def post_get(wp, rv):
            d0 = wp.dim('itensor', 0)
            return [('every slice has been integrated and every row but the first has received its predecessor',
                     f'(and (= {wp.env["ghost.gets"].t} {d0}) (= {wp.env["ghost.adds"].t} (- {d0} 1)))')]
        add(run_fn(f'integral_t<{R}>::get index pattern', 'get', msel(rf'integral_tILm{R}EE3getIalE'), G, R, setup_get, post_get,
                   'summed-area table recursion: which slices / rows are combined', invariants={1: inv}, has_self=False))
    for R in (1, 2, 3):
        def post_integral(wp, rv, R=R):
            called = [e for e in wp.events if e[0] == 'get']
            # every application of get seen on the path to THIS return site is to (itensor, otensor); how many there are is the
            # first clause (ghost counter): a return site in front of the call (early return for the empty tensor) has seen none
            ok = len(called) <= 1 and all(e == ('get', 'itensor', 'otensor', R) for e in called)
            return [('a non-empty tensor is integrated exactly once, an empty one is left alone',
                     f'(= {wp.env["ghost.gets"].t} (ite (> {wp.P("itensor")[0]} 0) 1 0))'),
                    ('integral_t<R>::get is applied to (itensor, otensor)', 'true' if ok else 'false')]
        add(run_fn(f'integral<{R}>(cmap, map)', 'integral', msel(rf'8integralIaLm{R}ElE'), G, R, same_dims, post_integral,
                   'integral(): guards the empty tensor', has_self=False))

    # -------------------------------------------------------------------------------- integral.h: VALUES of the rank-2 table (ispec.py)
    import ispec
    for tag, mang, M in (('int8', 'a', 128), ('int32', 'i', 2 ** 31)):
        add(run_fn(f'integral_t<2>::get_values_{tag}', 'get', msel(rf'integral_tILm2EE3getI{mang}lE'), G, 2, ispec.setup_values(M), ispec.post_values,
                   'summed-area table, rank 2: defining recurrence at a ghost cell, no overflow of the row additions', invariants={1: ispec.inv_values}, has_self=False))

    # -------------------------------------------------------------------------------- algorithm.h: detail::copy, ranks 1..3
    A = INC + 'algorithm.h'
    for R in (1, 2, 3):
        def setup_copy(wp):
            d0 = wp.dim('tensor', 0)
            for k in ('isrc', 'idst'):           # the asserts in detail::copy (upper bound) and in get_index0 (lower bound)
                wp.assume(f'(and (<= 0 {wp.env[k].t}) (< {wp.env[k].t} {d0}))')

        def post_copy(wp, rv, R=R):
            P = wp.P('tensor')
            isrc, idst = wp.env['isrc'].t, wp.env['idst'].t
            dst, src, ln = wp.env['ghost.dst'].t, wp.env['ghost.src'].t, wp.env['ghost.len'].t
            return [('copies: exactly one block copy', f'(= {wp.env["ghost.rows"].t} 1)'),
                    ('copies: the destination is row idst: offset idst * P_1', f'(= {dst} {times(idst, P[1])})'),
                    ('copies: the source is row isrc: offset isrc * P_1', f'(= {src} {times(isrc, P[1])})'),
                    ('copies: one whole row (P_1 elements)', f'(= {ln} {P[1]})'),
                    ('copies: both rows lie inside the buffer', f'(and (<= 0 {dst}) (<= (+ {dst} {ln}) {P[0]}) (<= 0 {src}) (<= (+ {src} {ln}) {P[0]}))'),
                    ('copies: within the tensor\'s own buffer', 'true' if wp.copy_bufs == ('tensor', 'tensor') else 'false')]
        add(run_fn(f'detail::copy<{R}>', 'copy', msel(rf'6detail4copyINS_8tensor_tINS_23tensor_marray_storage_tEdLm{R}E'), A, R, setup_copy, post_copy,
                   'remove_if helper: sub-tensor isrc of the first axis is copied onto sub-tensor idst', has_self=False))

    # -------------------------------------------------------------------------------- tensor.h: reshape
    for R, N in RESHAPES:
        for j in reshape_cases(N):
            case = 'no -1' if j is None else f'-1 at {j}'
            p = reshape_post(N, j)
            add(run_fn(f'tensor_t<{R}>::treshape->{N} [{case}]', 'treshape', msel(tens_rx(R, 'treshape') + 'IPdJ', 1 + N), T, R, p.setup, p,
                       'reshape with at most one inferred dimension'))
        p = reshape_post(N, N - 1)
        add(run_fn(f'tensor_t<{R}>::reshape->{N} [-1 at {N - 1}]', 'reshape', msel(tens_rx(R, 'reshape', False) + 'IJ', N), T, R, p.setup, p,
                   'reshape (public wrapper)'))
    return vcs, fns
