/* C16: pointer-arithmetic shell of the tensor.h views (tvector / ttensor / tmatrix / tslice / operator()(index)).
 *
 * The NONLINEAR index facts live on the SMT side (specs/C16/tspec.py): offset0(prefix) == F_0(prefix),
 * size(dims0(prefix)) == P_m, 0 <= offset0 and offset0 + P_m <= P_0, ...  Here the tensor is (data pointer, element
 * count P_0) over a real array, the dims.h / base.h callees return ghost values, and the macro NV_SMT_FACTS -- generated
 * by specs/C16/cspec.py FROM THE SAME python clause functions (tmodel.ens_view / ens_slice) that the SMT side proves, with
 * the C names substituted for the SMT constants -- is the assumed contract of those callees.  CBMC then proves that the
 * real pointer expression `ptr + offset0(...)` stays inside the array object and that the mapped range
 * [pointer, pointer + extent) is addressable memory of that object (the stubs of map_vector / map_matrix / map_tensor
 * assert it), i.e. "no valid access touches memory outside the tensor" at the level of C pointers. */
#include "nv_tensor.h"
struct nv_tens { double* p; int64_t size; };            /* tensor_t<vector storage, double, R>: data(), size() == P_0 */
struct nv_vmap { double* p; int64_t n; int64_t rows; int64_t cols; };   /* Eigen::Map (vector or matrix) */
struct nv_tmap { double* p; int64_t n; };               /* tensor_map_t: data pointer, element count */
struct nv_dims { int64_t d[4]; };                        /* tensor_dims_t<R>, R <= 4 */
/* ghost results of the index arithmetic (fixed before the call; related by NV_SMT_FACTS only) */
int64_t nv_off;      /* offset0(prefix...)                                  */
int64_t nv_len;      /* size(dims0(prefix...)) == P_m;  tslice: P_1         */
int64_t nv_ext;      /* tslice: (end - begin) * P_1, the extent of the slice (a PRODUCT: named, never computed in C) */
int64_t nv_d[4];     /* dims()                                               */

static int64_t nv_offset0(const struct nv_tens* t) { (void)t; return nv_off; }
static int64_t nv_size_dims0(void) { return nv_len; }
static int64_t nv_rows(const struct nv_tens* t) { (void)t; return nv_d[2]; }   /* rows() / cols(): the last two extents, */
static int64_t nv_cols(const struct nv_tens* t) { (void)t; return nv_d[3]; }   /* kept in nv_d[2], nv_d[3] for every rank */
static struct nv_dims nv_dims_of(const struct nv_tens* t) { (void)t; struct nv_dims r; r.d[0] = nv_d[0]; r.d[1] = nv_d[1]; r.d[2] = nv_d[2]; r.d[3] = nv_d[3]; return r; }

#define NV_IN_OBJECT(p, n) ((n) >= 0 && ((n) == 0 ? __CPROVER_r_ok((p), 0) : __CPROVER_rw_ok((p), (n) * sizeof(double))))
static struct nv_vmap nv_map_vector(double* p, int64_t n)
{
  __CPROVER_assert(NV_IN_OBJECT(p, n), "map_vector: [pointer, pointer + length) is memory of the tensor's buffer");
  struct nv_vmap r = {p, n, n, 1};
  return r;
}
/* rows * cols is a product: the SMT side proves rows() * cols() == P_{R-2} == nv_len for the tensor's last two extents, so
 * the stub checks that exactly those two extents arrive here and uses the named extent */
static struct nv_vmap nv_map_matrix(double* p, int64_t rows, int64_t cols)
{
  __CPROVER_assert(rows == nv_d[2] && cols == nv_d[3], "map_matrix: rows and cols are the tensor's last two extents (their product is P_{R-2} on the SMT side)");
  __CPROVER_assert(NV_IN_OBJECT(p, nv_len), "map_matrix: [pointer, pointer + rows * cols) is memory of the tensor's buffer");
  struct nv_vmap r = {p, nv_len, rows, cols};
  return r;
}
/* map_tensor(pointer, dims0(dims(), prefix...)): the extent is size(dims0(..)) == nv_len */
static struct nv_tmap nv_map_subtensor(double* p)
{
  __CPROVER_assert(NV_IN_OBJECT(p, nv_len), "map_tensor: [pointer, pointer + size(dims0)) is memory of the tensor's buffer");
  struct nv_tmap r = {p, nv_len};
  return r;
}
/* map_tensor(pointer, dimensions) in tslice: dimensions = (end - begin, dims[1..]); its extent is dimensions[0] * P_1 */
static struct nv_tmap nv_map_slice(double* p, struct nv_dims dimensions, int64_t begin, int64_t end)
{
  __CPROVER_assert(dimensions.d[0] == end - begin && dimensions.d[1] == nv_d[1] && dimensions.d[2] == nv_d[2] && dimensions.d[3] == nv_d[3],
                   "map_tensor: the slice dims are (end - begin, dims[1..]) (their product is nv_ext on the SMT side)");
  __CPROVER_assert(NV_IN_OBJECT(p, nv_ext), "map_tensor: [pointer, pointer + (end - begin) * P_1) is memory of the tensor's buffer");
  struct nv_tmap r = {p, nv_ext};
  return r;
}

#define NV_TENS_OK \
__CPROVER_requires(__CPROVER_is_fresh(self, sizeof(*self)) && self->size >= 0 && self->size <= NV_MAXN) \
__CPROVER_requires(__CPROVER_is_fresh(self->p, (self->size > 0 ? self->size : 1) * sizeof(double)))
#ifndef NV_SMT_FACTS
#define NV_SMT_FACTS 1
#endif
/* consequences of the SMT facts over the non-negative integers, stated first so that the C rendering of the facts
 * (machine arithmetic) cannot wrap: every ghost quantity lies in [0, size] */
#define NV_GHOST_RANGE (0 <= nv_off && nv_off <= self->size && 0 <= nv_len && nv_len <= self->size && 0 <= nv_ext && nv_ext <= self->size)
#define NV_VIEW_REQUIRES NV_TENS_OK \
__CPROVER_requires(ptr == self->p)                 /* every caller passes data() */ \
__CPROVER_requires(NV_GHOST_RANGE) \
__CPROVER_requires(NV_SMT_FACTS)                   /* proved on the SMT side, same clause text */

#define NV_CONTRACT_tvector NV_VIEW_REQUIRES __CPROVER_assigns() \
__CPROVER_ensures(__CPROVER_return_value.p == self->p + nv_off && __CPROVER_return_value.n == nv_len)
#define NV_CONTRACT_ttensor NV_VIEW_REQUIRES __CPROVER_assigns() \
__CPROVER_ensures(__CPROVER_return_value.p == self->p + nv_off && __CPROVER_return_value.n == nv_len)
#define NV_CONTRACT_tmatrix NV_VIEW_REQUIRES __CPROVER_assigns() \
__CPROVER_ensures(__CPROVER_return_value.p == self->p + nv_off && __CPROVER_return_value.n == nv_len) \
__CPROVER_ensures(__CPROVER_return_value.rows == nv_d[2] && __CPROVER_return_value.cols == nv_d[3])
#define NV_CONTRACT_tslice NV_VIEW_REQUIRES __CPROVER_assigns() \
__CPROVER_ensures(__CPROVER_return_value.p == self->p + nv_off && __CPROVER_return_value.n == nv_ext)

/* operator()(index): the assert the library compiles out is the precondition */
static double* nv_data(const struct nv_tens* t) { return t->p; }
#define NV_CONTRACT_at NV_TENS_OK \
__CPROVER_requires(0 <= index && index < self->size) \
__CPROVER_assigns() \
__CPROVER_ensures(__CPROVER_return_value == self->p + index)
