/* C16: include/nano/tensor/range.h -- tensor_range_t is the pair (begin, end); make_range builds exactly that pair;
 * size() == end - begin; valid(n) <=> 0 <= begin < end <= n.  Ranges index tensors, so both ends lie in (-2^62, 2^62)
 * (stated precondition of size(): the difference must not overflow). */
#include "nv_base.h"
struct nv_range { int64_t m_begin; int64_t m_end; };
#define NV_R62 4611686018427387904

#define NV_CONTRACT_range_ctor \
__CPROVER_requires(__CPROVER_is_fresh(self, sizeof(*self))) \
__CPROVER_assigns(self->m_begin, self->m_end) \
__CPROVER_ensures(self->m_begin == begin && self->m_end == end)

void range_ctor(struct nv_range* self, int64_t begin, int64_t end);
/* tensor_range_t{begin, end}: a temporary constructed by the (extracted, contracted) two-argument constructor */
static struct nv_range nv_range_make(int64_t begin, int64_t end) { struct nv_range r; range_ctor(&r, begin, end); return r; }

#define NV_CONTRACT_make_range \
__CPROVER_assigns() \
__CPROVER_ensures(__CPROVER_return_value.m_begin == begin && __CPROVER_return_value.m_end == end)

#define NV_RANGE_OK __CPROVER_requires(__CPROVER_is_fresh(self, sizeof(*self)))
#define NV_CONTRACT_range_begin NV_RANGE_OK __CPROVER_assigns() __CPROVER_ensures(__CPROVER_return_value == self->m_begin)
#define NV_CONTRACT_range_end NV_RANGE_OK __CPROVER_assigns() __CPROVER_ensures(__CPROVER_return_value == self->m_end)
#define NV_CONTRACT_range_size NV_RANGE_OK \
__CPROVER_requires(-NV_R62 < self->m_begin && self->m_begin < NV_R62 && -NV_R62 < self->m_end && self->m_end < NV_R62) \
__CPROVER_assigns() \
__CPROVER_ensures(__CPROVER_return_value == self->m_end - self->m_begin)
#define NV_CONTRACT_range_valid NV_RANGE_OK __CPROVER_assigns() \
__CPROVER_ensures(__CPROVER_return_value == (0 <= self->m_begin && self->m_begin < self->m_end && self->m_end <= size))
