/* C16: integral_t<1>::get(itensor, otensor) -- the rank-1 summed-area table "equals the naive prefix sums":
 *      out(0) = in(0),  out(i) = out(i-1) + in(i)   for every 1 <= i < n,
 * stated at a ghost index nv_g (arbitrary, fixed before the call) and carried through the loop by an invariant.
 * The input scalar NV_IN is NARROWER than the output scalar int64_t: CBMC's --conversion-check / --signed-overflow-check
 * stay ON, so an accumulator of the input type (e.g. `auto sum = itensor(0)`) is refuted (narrowing conversion of the
 * running sum), while the int64 accumulation is proved free of overflow from |in(i)| <= NV_IN_ABS and n <= NV_MAXN.
 * Tensors are (pointer, length) pairs over real arrays of symbolic length: every t(i) is a checked memory access. */
#include "nv_tensor.h"
#ifndef NV_IN
#define NV_IN int8_t
#define NV_IN_ABS 128
#endif
struct nv_cin { const NV_IN* p; int64_t n; };     /* tensor_cmap_t<NV_IN, 1>   */
struct nv_mout { int64_t* p; int64_t n; };        /* tensor_map_t<int64_t, 1> */
int64_t nv_g;                                     /* ghost index */
#define NV_ABS_LE(x, b) (-(b) <= (x) && (x) <= (b))

#define NV_CONTRACT_integral1_get \
__CPROVER_requires(itensor.n >= 1 && itensor.n <= NV_MAXN && otensor.n == itensor.n)   /* integral(): dims equal, size() > 0 */ \
__CPROVER_requires(__CPROVER_is_fresh(itensor.p, itensor.n * sizeof(NV_IN)) && __CPROVER_is_fresh(otensor.p, otensor.n * sizeof(int64_t))) \
__CPROVER_assigns(__CPROVER_object_whole(otensor.p)) \
__CPROVER_ensures(otensor.p[0] == itensor.p[0]) \
__CPROVER_ensures((1 <= nv_g && nv_g < itensor.n) ==> (NV_ABS_LE(otensor.p[nv_g - 1], NV_IN_ABS * nv_g) && otensor.p[nv_g] == otensor.p[nv_g - 1] + itensor.p[nv_g]))

#define NV_LOOP_integral1_get_1 \
__CPROVER_assigns(i0, __CPROVER_object_whole(otensor.p)) \
__CPROVER_loop_invariant(1 <= i0 && i0 <= itensor.n && size0 == itensor.n) \
__CPROVER_loop_invariant(otensor.p[0] == itensor.p[0]) \
__CPROVER_loop_invariant(NV_ABS_LE(otensor.p[i0 - 1], NV_IN_ABS * i0)) \
__CPROVER_loop_invariant((1 <= nv_g && nv_g < i0) ==> (NV_ABS_LE(otensor.p[nv_g - 1], NV_IN_ABS * nv_g) && otensor.p[nv_g] == otensor.p[nv_g - 1] + itensor.p[nv_g])) \
__CPROVER_decreases(itensor.n - i0)
