/* C16: include/nano/tensor/storage.h -- "owning / mapping / constant-mapping storages convert without changing contents"
 * and "no valid access touches memory outside the tensor", on REAL heap objects.
 *
 * Every constructor, assignment operator, resize and data() of tensor_vector_storage_t (owning), tensor_carray_storage_t
 * (constant mapping) and tensor_marray_storage_t (mutable mapping), and the converting constructors / assignments of
 * tensor_t, is extracted and checked against ONE conversion contract:
 *      afterwards the destination has the source's dims, and for every index i < size the destination's element i is the
 *      source's element i AS IT WAS BEFORE THE CALL                                   (stated at a ghost index nv_g),
 *      an owning destination owns live memory of exactly size() elements, a mapping destination aliases the source's data,
 *      and nothing is read from or written to memory that is not live at that moment (CBMC --pointer-check on every access).
 * The source of a conversion INTO AN OWNING storage may be a view of the destination's OWN buffer (t = t.slice(b, e),
 * t = std::as_const(t).slice(b, e): libnano's gboost code shrinks tensors that way): the precondition offers both cases,
 * chosen by the ghost nv_alias: the source data is the destination's buffer + nv_off, or a separate object.
 *
 * eigen_vector_t<double> is {pointer to a heap block, length}.  ASSUMED contracts of Eigen, truthful about the ORDER of effects:
 *      vector(n)                allocate n coefficients
 *      vector(map) / vector(v)  allocate fresh storage, THEN copy the source coefficients
 *      v = map  /  v = w        if the sizes differ: release the old block and allocate a new one; THEN copy from the source
 *      v = std::move(w)         the blocks are exchanged (Eigen's move assignment swaps)
 *      v.resize(n)              if the size changes: release + allocate (contents indeterminate); same size: nothing
 *      swap(v, w)               pointer / length exchange, no coefficient is touched
 *      ~vector                  release the block
 *      map = map                equal lengths (asserted by Eigen); coefficient k := coefficient k; no aliasing (Eigen's rule)
 * "copy" reads the source block: the stub asserts that the whole source range is readable live memory at that moment and
 * transfers the coefficient at the ghost index (a sound weakening: the other coefficients are left indeterminate). */
#include "nv_tensor.h"
#include <stdlib.h>
#ifndef NV_RANK
#define NV_RANK 1
#endif
struct nv_dims { int64_t d[NV_RANK]; };                     /* tensor_dims_t<R> */
struct nv_base { struct nv_dims m_dims; };                  /* tensor_base_t<double, R> */
struct nv_evec { double* p; int64_t n; };                   /* eigen_vector_t<double> */
struct nv_emap { double* p; int64_t n; };                   /* Eigen::Map<[const] vector> */
struct nv_vstore { struct nv_base base; struct nv_evec m_data; };      /* tensor_vector_storage_t / tensor_mem_t  */
struct nv_cstore { struct nv_base base; const double* m_data; };       /* tensor_carray_storage_t / tensor_cmap_t */
struct nv_mstore { struct nv_base base; double* m_data; };             /* tensor_marray_storage_t / tensor_map_t  */

int64_t nv_g;          /* ghost index: an arbitrary element position, fixed before the call */
double nv_old_g;       /* the source's element nv_g before the call */
_Bool nv_alias;        /* the source view lies inside the destination's own buffer */
int64_t nv_off;        /* ... at this offset */
_Bool nv_null;         /* alias harnesses: a source view of an EMPTY tensor carries a null data() (like the empty owning destination) */

/* nano::size(dims): the product of the extents (proved on the SMT side: size<R> == P_0, >= 0 under the tensor invariant).
 * Rank 1: the only extent.  Ranks 2, 3: the product is NAMED, never computed (one 64-bit multiplication inside a contract
 * already times CBMC out): an uninterpreted function of the extents -- all the storage classes need is that size() is a FUNCTION
 * of the dims (same dims => same number of coefficients; different dims may or may not have the same size), that it is >= 0
 * (size<R>: proved) and that it stays below the modelled allocation bound NV_MAXN.
 * The macros below take the extents as an element list (e0[, e1[, e2]]), so that one contract text serves `dims` structs,
 * `sizes...` parameter packs (dims_0, dims_1, ..) and literal zeros alike. */
#define NV_APPLY(m, ...) m(__VA_ARGS__)
#define NV_APPLY2(m, ...) m(__VA_ARGS__)       /* contract level (a macro is not re-expanded inside its own expansion) */
#if NV_RANK == 1
#define NV_ELS(D) (D).d[0]                                   /* the extents of a struct nv_dims, as a list */
#define NV_PACK(p) p                                         /* the expanded parameter pack `p...` of sizes (the printer's names) */
#define NV_ZEROS 0
#define NV_PRODE(a) (a)
#define NV_EQE(D, a) ((D).d[0] == (a))
#define NV_NONNEG(a) (0 <= (a))
static struct nv_dims nv_make_dims(int64_t a) { struct nv_dims d; d.d[0] = a; return d; }     /* make_dims(sizes...): proved (SMT: make_dims<N>) */
static void nv_dims_fill(struct nv_dims* d, int64_t v) { d->d[0] = v; }                       /* std::array::fill */
#elif NV_RANK == 2
int64_t __CPROVER_uninterpreted_nv_prod2(int64_t, int64_t);
#define NV_ELS(D) (D).d[0], (D).d[1]
#define NV_PACK(p) p##_0, p##_1
#define NV_ZEROS 0, 0
#define NV_PRODE(a, b) __CPROVER_uninterpreted_nv_prod2(a, b)
#define NV_EQE(D, a, b) ((D).d[0] == (a) && (D).d[1] == (b))
#define NV_NONNEG(a, b) (0 <= (a) && 0 <= (b))
static struct nv_dims nv_make_dims(int64_t a, int64_t b) { struct nv_dims d; d.d[0] = a; d.d[1] = b; return d; }
static void nv_dims_fill(struct nv_dims* d, int64_t v) { d->d[0] = v; d->d[1] = v; }
#elif NV_RANK == 3
int64_t __CPROVER_uninterpreted_nv_prod3(int64_t, int64_t, int64_t);
#define NV_ELS(D) (D).d[0], (D).d[1], (D).d[2]
#define NV_PACK(p) p##_0, p##_1, p##_2
#define NV_ZEROS 0, 0, 0
#define NV_PRODE(a, b, c) __CPROVER_uninterpreted_nv_prod3(a, b, c)
#define NV_EQE(D, a, b, c) ((D).d[0] == (a) && (D).d[1] == (b) && (D).d[2] == (c))
#define NV_NONNEG(a, b, c) (0 <= (a) && 0 <= (b) && 0 <= (c))
static struct nv_dims nv_make_dims(int64_t a, int64_t b, int64_t c) { struct nv_dims d; d.d[0] = a; d.d[1] = b; d.d[2] = c; return d; }
static void nv_dims_fill(struct nv_dims* d, int64_t v) { d->d[0] = v; d->d[1] = v; d->d[2] = v; }
#endif
/* an extent list that is a valid shape within the modelled bound: extents >= 0, 0 <= product <= NV_MAXN */
#define NV_OKE(...) (NV_NONNEG(__VA_ARGS__) && 0 <= NV_PRODE(__VA_ARGS__) && NV_PRODE(__VA_ARGS__) <= NV_MAXN)
#define NV_DPROD(D) NV_APPLY(NV_PRODE, NV_ELS(D))            /* size of a struct nv_dims */
#define NV_DEQ(D, E) NV_APPLY(NV_EQE, D, NV_ELS(E))          /* two struct nv_dims are equal, extent by extent */
#define NV_DOK(D) NV_APPLY(NV_OKE, NV_ELS(D))
#define NV_DZERO(D) NV_APPLY(NV_EQE, D, NV_ZEROS)            /* every extent is 0 (the default-constructed tensor) */
static int64_t nv_size(const struct nv_dims* dims) { return NV_DPROD(*dims); }
static int64_t nv_extent(const struct nv_base* b, int k) { __CPROVER_assert(0 <= k && k < NV_RANK, "size<k>(): k < rank"); return b->m_dims.d[k]; }    /* size<k>() == dims[k] */
#define NV_SIZE(b) NV_DPROD((b).m_dims)
#define NV_DIMS_EQ(a, b) NV_DEQ((a).m_dims, (b).m_dims)
#define NV_DIMS_OK(b) NV_DOK((b).m_dims)
static _Bool nv_dims_eq(const struct nv_dims* a, const struct nv_dims* b) { return NV_DEQ(*a, *b); }     /* operator== on tensor_dims_t */

/* ------------------------------------------------------------------ Eigen (assumed contracts, see the header comment) */
static struct nv_emap nv_map_vector(const double* p, int64_t n) { struct nv_emap m = {(double*)p, n}; return m; }
static double* nv_alloc(int64_t n)
{
  __CPROVER_assert(0 <= n && n <= NV_MAXN, "Eigen allocation: non-negative size (within the modelled bound)");
  if (n <= 0) return (double*)0;
  double* p = (double*)malloc((size_t)n * sizeof(double));
  __CPROVER_assume(p != (double*)0);      /* a failed allocation throws std::bad_alloc in Eigen: that path is out of scope */
  return p;
}
/* harness helper: a live block for n coefficients (never NULL: a mapping of an empty tensor may carry any pointer) */
static double* nv_block(int64_t n)
{
  double* p = (double*)malloc((size_t)(n > 0 ? n : 1) * sizeof(double));
  __CPROVER_assume(p != (double*)0);
  return p;
}
static void nv_copy_coeffs(double* dst, const double* src, int64_t n)
{
  __CPROVER_assert(n <= 0 || __CPROVER_r_ok(src, (size_t)n * sizeof(double)), "Eigen copy: the source coefficients are live, readable memory at the moment they are copied");
  __CPROVER_assert(n <= 0 || __CPROVER_w_ok(dst, (size_t)n * sizeof(double)), "Eigen copy: the destination coefficients are live, writable memory");
  if (0 <= nv_g && nv_g < n) dst[nv_g] = src[nv_g];
}
static struct nv_evec nv_evec_new(int64_t n) { struct nv_evec v; v.p = nv_alloc(n); v.n = n; return v; }
static struct nv_evec nv_evec_from_map(struct nv_emap m) { struct nv_evec v = nv_evec_new(m.n); nv_copy_coeffs(v.p, m.p, m.n); return v; }
static struct nv_evec nv_evec_copy(const struct nv_evec* o) { struct nv_evec v = nv_evec_new(o->n); nv_copy_coeffs(v.p, o->p, o->n); return v; }
static struct nv_evec nv_evec_move(struct nv_evec* o) { struct nv_evec v = *o; o->p = (double*)0; o->n = 0; return v; }
static void nv_evec_resize(struct nv_evec* self, int64_t n)
{
  if (n != self->n) { free(self->p); self->p = nv_alloc(n); self->n = n; }
}
static void nv_evec_assign_map(struct nv_evec* self, struct nv_emap m) { nv_evec_resize(self, m.n); nv_copy_coeffs(self->p, m.p, m.n); }
static void nv_evec_assign(struct nv_evec* self, const struct nv_evec* o) { nv_evec_resize(self, o->n); nv_copy_coeffs(self->p, o->p, o->n); }
static void nv_evec_swap(struct nv_evec* a, struct nv_evec* b) { struct nv_evec t = *a; *a = *b; *b = t; }
static void nv_evec_move_assign(struct nv_evec* self, struct nv_evec* o) { nv_evec_swap(self, o); }
static void nv_evec_dtor(struct nv_evec* self) { free(self->p); }
static double* nv_evec_data(const struct nv_evec* self) { return self->p; }
static int64_t nv_evec_size(const struct nv_evec* self) { return self->n; }
static void nv_map_assign(struct nv_emap dst, struct nv_emap src)
{
  __CPROVER_assert(dst.n == src.n, "Eigen Map = Map: both sides have the same number of coefficients (a Map cannot be resized)");
  nv_copy_coeffs(dst.p, src.p, src.n);
}

/* ------------------------------------------------------------------ predicates of the contracts */
#define NV_BYTES(n) ((size_t)((n) > 0 ? (n) : 1) * sizeof(double))
/* an owning storage: dims in range, the vector holds size() coefficients in its own heap block */
#define NV_VS_OK(s) (NV_DIMS_OK((s)->base) && (s)->m_data.n == NV_SIZE((s)->base) && __CPROVER_is_fresh((s)->m_data.p, NV_BYTES((s)->m_data.n)))
/* a mapping storage over a separate block of size() coefficients */
#define NV_VIEW_FRESH(s) (NV_DIMS_OK((s)->base) && __CPROVER_is_fresh((s)->m_data, NV_BYTES(NV_SIZE((s)->base))))
/* a mapping storage whose data lies inside the owning storage `own` (ghost offset) */
#define NV_VIEW_INSIDE(s, own) (NV_DIMS_OK((s)->base) && 0 <= nv_off && nv_off + NV_SIZE((s)->base) <= (own)->m_data.n && (s)->m_data == (own)->m_data.p + nv_off)
#define NV_GHOST_OLD(data, n) ((0 <= nv_g && nv_g < (n)) ==> NV_SAME(nv_old_g, (data)[nv_g]))
#define NV_GHOST_NEW(data, n) ((0 <= nv_g && nv_g < (n)) ==> NV_SAME((data)[nv_g], nv_old_g))
/* the owning destination afterwards: the source's dims, size() coefficients of live memory, the source's old contents */
#define NV_OWNS(s, srcbase) (NV_DIMS_EQ((s)->base, srcbase) && (s)->m_data.n == NV_SIZE((s)->base) && \
                            ((s)->m_data.n > 0 ==> __CPROVER_rw_ok((s)->m_data.p, (size_t)(s)->m_data.n * sizeof(double))))

/* ------------------------------------------------------------------ tensor_base_t */
#define NV_CONTRACT_base_size __CPROVER_requires(__CPROVER_is_fresh(self, sizeof(*self)) && NV_DIMS_OK(*self)) __CPROVER_assigns() \
__CPROVER_ensures(__CPROVER_return_value == NV_SIZE(*self))
#define NV_CONTRACT_base_dims __CPROVER_requires(__CPROVER_is_fresh(self, sizeof(*self))) __CPROVER_assigns() \
__CPROVER_ensures(__CPROVER_return_value == &self->m_dims)
#define NV_CONTRACT_base__resize __CPROVER_requires(__CPROVER_is_fresh(self, sizeof(*self)) && __CPROVER_is_fresh(dims, sizeof(*dims))) \
__CPROVER_assigns(self->m_dims) __CPROVER_ensures(NV_DEQ(self->m_dims, *dims))
#define NV_CONTRACT_base_ctor __CPROVER_requires(__CPROVER_is_fresh(self, sizeof(*self))) \
__CPROVER_assigns(self->m_dims) __CPROVER_ensures(NV_DEQ(self->m_dims, dims))
#define NV_CONTRACT_base_copy_ctor __CPROVER_requires(__CPROVER_is_fresh(self, sizeof(*self)) && __CPROVER_is_fresh(nv_unnamed0, sizeof(*nv_unnamed0))) \
__CPROVER_assigns(self->m_dims) __CPROVER_ensures(NV_DIMS_EQ(*self, *nv_unnamed0))
#define NV_CONTRACT_base_assign __CPROVER_requires(__CPROVER_is_fresh(self, sizeof(*self)) && __CPROVER_is_fresh(nv_unnamed0, sizeof(*nv_unnamed0))) \
__CPROVER_assigns(self->m_dims) __CPROVER_ensures(NV_DIMS_EQ(*self, *nv_unnamed0) && __CPROVER_return_value == self)
#define NV_CONTRACT_base_default_ctor __CPROVER_requires(__CPROVER_is_fresh(self, sizeof(*self))) \
__CPROVER_assigns(self->m_dims) __CPROVER_ensures(NV_DZERO(self->m_dims))
/* default construction: the empty tensor (every extent 0, no elements; a mapping storage maps nothing) */
#define NV_CONTRACT_vs_default_ctor NV_NEW(self) __CPROVER_assigns(__CPROVER_object_whole(self)) \
__CPROVER_ensures(NV_DZERO(self->base.m_dims) && self->m_data.n == 0)
#define NV_CONTRACT_cs_default_ctor NV_NEW(self) __CPROVER_assigns(__CPROVER_object_whole(self)) \
__CPROVER_ensures(NV_DZERO(self->base.m_dims) && self->m_data == (const double*)0)
#define NV_CONTRACT_ms_default_ctor NV_NEW(self) __CPROVER_assigns(__CPROVER_object_whole(self)) \
__CPROVER_ensures(NV_DZERO(self->base.m_dims) && self->m_data == (double*)0)

/* ------------------------------------------------------------------ tensor_vector_storage_t (owning) */
#define NV_NEW(s) __CPROVER_requires(__CPROVER_is_fresh(s, sizeof(*(s))))
#define NV_DISTINCT(a, b, n) ((n) > 0 ==> !__CPROVER_same_object((a), (b)))
#define NV_VS_CTOR(...) NV_NEW(self) __CPROVER_requires(NV_OKE(__VA_ARGS__)) \
__CPROVER_assigns(__CPROVER_object_whole(self)) \
__CPROVER_ensures(NV_EQE(self->base.m_dims, __VA_ARGS__) && NV_OWNS(self, self->base))
#define NV_CONTRACT_vs_ctor_sizes NV_APPLY2(NV_VS_CTOR, NV_PACK(dims))
#define NV_CONTRACT_vs_ctor_dims NV_APPLY2(NV_VS_CTOR, NV_ELS(dims))

/* owning <- mapping view of a separate block (a storage under construction has no buffer the view could alias) */
#define NV_FROM_VIEW NV_NEW(self) __CPROVER_requires(__CPROVER_is_fresh(other, sizeof(*other)) && NV_VIEW_FRESH(other)) \
__CPROVER_requires(NV_GHOST_OLD(other->m_data, NV_SIZE(other->base))) \
__CPROVER_assigns(__CPROVER_object_whole(self)) \
__CPROVER_ensures(NV_OWNS(self, other->base) && NV_GHOST_NEW(self->m_data.p, self->m_data.n)) \
__CPROVER_ensures(NV_DISTINCT(self->m_data.p, other->m_data, self->m_data.n) && NV_GHOST_OLD(other->m_data, NV_SIZE(other->base)))
#define NV_CONTRACT_vs_from_c NV_FROM_VIEW
#define NV_CONTRACT_vs_from_m NV_FROM_VIEW

#define NV_O nv_unnamed0
#define NV_CONTRACT_vs_copy_ctor NV_NEW(self) __CPROVER_requires(__CPROVER_is_fresh(NV_O, sizeof(*NV_O)) && NV_VS_OK(NV_O)) \
__CPROVER_requires(NV_GHOST_OLD(NV_O->m_data.p, NV_O->m_data.n)) \
__CPROVER_assigns(__CPROVER_object_whole(self)) \
__CPROVER_ensures(NV_OWNS(self, NV_O->base) && NV_GHOST_NEW(self->m_data.p, self->m_data.n)) \
__CPROVER_ensures(NV_DISTINCT(self->m_data.p, NV_O->m_data.p, self->m_data.n) && NV_GHOST_OLD(NV_O->m_data.p, NV_O->m_data.n))
/* move construction: the destination takes over the source's dims and block (the moved-from source is left unspecified) */
#define NV_CONTRACT_vs_move_ctor NV_NEW(self) __CPROVER_requires(__CPROVER_is_fresh(NV_O, sizeof(*NV_O)) && NV_VS_OK(NV_O)) \
__CPROVER_requires(NV_GHOST_OLD(NV_O->m_data.p, NV_O->m_data.n)) \
__CPROVER_assigns(__CPROVER_object_whole(self), NV_O->m_data) \
__CPROVER_ensures(NV_OWNS(self, NV_O->base) && NV_GHOST_NEW(self->m_data.p, self->m_data.n))

/* owning = mapping view of a SEPARATE block: full contract with frame (assigns / frees) under DFCC.  The case "the view lies
 * inside the destination's own buffer" (t = t.slice(b, e)) cannot be written with __CPROVER_is_fresh (a pointer into another
 * object is not fresh) and DFCC's write-set instrumentation does not terminate on it (> 100 s); it is covered by the
 * targets storage_*_alias: a harness (specs/C16/sspec.py) builds real heap blocks, computes the view pointer from the owner's
 * buffer + nv_off (or a separate block: both cases, chosen by nv_alias), calls the extracted function and asserts the same
 * postconditions (NV_POST_* below) -- 1 s. */
#define NV_ASSIGN_VIEW __CPROVER_requires(__CPROVER_is_fresh(self, sizeof(*self)) && NV_VS_OK(self) && __CPROVER_is_fresh(other, sizeof(*other)) && NV_VIEW_FRESH(other)) \
__CPROVER_requires(NV_GHOST_OLD(other->m_data, NV_SIZE(other->base))) \
__CPROVER_assigns(__CPROVER_object_whole(self), __CPROVER_object_whole(self->m_data.p)) __CPROVER_frees(self->m_data.p) \
__CPROVER_ensures(__CPROVER_return_value == self) \
__CPROVER_ensures(NV_OWNS(self, other->base) && NV_GHOST_NEW(self->m_data.p, self->m_data.n))
#define NV_CONTRACT_vs_assign_c NV_ASSIGN_VIEW
#define NV_CONTRACT_vs_assign_m NV_ASSIGN_VIEW
/* the conversion clause as assertions of the alias harnesses (dst: struct nv_vstore*, n: the source's size before the call) */
#define NV_POST_OWNING(dst, srcdims, cnt, what) \
  __CPROVER_assert(NV_DEQ((dst)->base.m_dims, srcdims) && (dst)->m_data.n == (cnt), what ": the destination has the source's dims and holds size() coefficients"); \
  __CPROVER_assert((cnt) <= 0 || __CPROVER_rw_ok((dst)->m_data.p, (size_t)(cnt) * sizeof(double)), what ": the destination owns live memory of size() coefficients"); \
  __CPROVER_assert(!(0 <= nv_g && nv_g < (cnt)) || NV_SAME((dst)->m_data.p[nv_g], nv_old_g), \
                   what ": destination element i is the source's element i as it was BEFORE the call (the source view may lie inside the destination's own buffer)")

#define NV_CONTRACT_vs_copy_assign __CPROVER_requires(__CPROVER_is_fresh(self, sizeof(*self)) && NV_VS_OK(self) && __CPROVER_is_fresh(NV_O, sizeof(*NV_O)) && NV_VS_OK(NV_O)) \
__CPROVER_requires(NV_GHOST_OLD(NV_O->m_data.p, NV_O->m_data.n)) \
__CPROVER_assigns(__CPROVER_object_whole(self), __CPROVER_object_whole(self->m_data.p)) __CPROVER_frees(self->m_data.p) \
__CPROVER_ensures(__CPROVER_return_value == self) \
__CPROVER_ensures(NV_OWNS(self, NV_O->base) && NV_GHOST_NEW(self->m_data.p, self->m_data.n)) \
__CPROVER_ensures(NV_DISTINCT(self->m_data.p, NV_O->m_data.p, self->m_data.n) && NV_GHOST_OLD(NV_O->m_data.p, NV_O->m_data.n))
#define NV_CONTRACT_vs_move_assign __CPROVER_requires(__CPROVER_is_fresh(self, sizeof(*self)) && NV_VS_OK(self) && __CPROVER_is_fresh(NV_O, sizeof(*NV_O)) && NV_VS_OK(NV_O)) \
__CPROVER_requires(NV_GHOST_OLD(NV_O->m_data.p, NV_O->m_data.n)) \
__CPROVER_assigns(__CPROVER_object_whole(self), NV_O->m_data) \
__CPROVER_ensures(__CPROVER_return_value == self) \
__CPROVER_ensures(NV_OWNS(self, NV_O->base) && NV_GHOST_NEW(self->m_data.p, self->m_data.n))

/* resize: the new dims, size() coefficients of live memory; an unchanged size keeps block and contents.  The precondition does
 * NOT assume the storage invariant m_data.size() == size(): a moved-from owning storage keeps its dims while its vector was
 * moved away (or swapped), and resize() is what re-establishes the invariant -- from ANY valid vector */
#define NV_VS_ANY(s) (NV_DIMS_OK((s)->base) && 0 <= (s)->m_data.n && (s)->m_data.n <= NV_MAXN && __CPROVER_is_fresh((s)->m_data.p, NV_BYTES((s)->m_data.n)))
#define NV_RESIZE(...) __CPROVER_requires(__CPROVER_is_fresh(self, sizeof(*self)) && NV_VS_ANY(self) && NV_OKE(__VA_ARGS__)) \
__CPROVER_requires(NV_GHOST_OLD(self->m_data.p, self->m_data.n)) \
__CPROVER_assigns(__CPROVER_object_whole(self), __CPROVER_object_whole(self->m_data.p)) __CPROVER_frees(self->m_data.p) \
__CPROVER_ensures(NV_EQE(self->base.m_dims, __VA_ARGS__) && NV_OWNS(self, self->base)) \
__CPROVER_ensures(__CPROVER_old(self->m_data.n) == NV_PRODE(__VA_ARGS__) ==> (self->m_data.p == __CPROVER_old(self->m_data.p) && NV_GHOST_NEW(self->m_data.p, self->m_data.n)))
#define NV_CONTRACT_vs_resize_sizes NV_APPLY2(NV_RESIZE, NV_PACK(dims))
#define NV_CONTRACT_vs_resize_dims __CPROVER_requires(__CPROVER_is_fresh(dims, sizeof(*dims))) NV_APPLY2(NV_RESIZE, NV_ELS(*dims))
#define NV_DATA_OF_VS __CPROVER_requires(__CPROVER_is_fresh(self, sizeof(*self))) __CPROVER_assigns() __CPROVER_ensures(__CPROVER_return_value == self->m_data.p)
#define NV_CONTRACT_vs_data NV_DATA_OF_VS
#define NV_CONTRACT_vs_cdata NV_DATA_OF_VS

/* ------------------------------------------------------------------ mapping storages: constructors alias the given data */
#define NV_MAP_CTOR(...) NV_NEW(self) __CPROVER_assigns(__CPROVER_object_whole(self)) \
__CPROVER_ensures(NV_EQE(self->base.m_dims, __VA_ARGS__) && self->m_data == data)
#define NV_CONTRACT_cs_ctor_sizes NV_APPLY2(NV_MAP_CTOR, NV_PACK(dims))
#define NV_CONTRACT_cs_ctor_dims NV_APPLY2(NV_MAP_CTOR, NV_ELS(dims))
#define NV_CONTRACT_ms_ctor_sizes NV_APPLY2(NV_MAP_CTOR, NV_PACK(dims))
#define NV_CONTRACT_ms_ctor_dims NV_APPLY2(NV_MAP_CTOR, NV_ELS(dims))
/* mapping <- owning: the same dims and the SAME elements (the view is the owner's block) */
#define NV_MAP_FROM_VS NV_NEW(self) __CPROVER_requires(__CPROVER_is_fresh(other, sizeof(*other)) && NV_VS_OK(other)) \
__CPROVER_assigns(__CPROVER_object_whole(self)) \
__CPROVER_ensures(NV_DIMS_EQ(self->base, other->base) && self->m_data == other->m_data.p && other->m_data.n == NV_SIZE(other->base))
#define NV_CONTRACT_cs_from_v NV_MAP_FROM_VS
#define NV_CONTRACT_ms_from_v NV_MAP_FROM_VS
/* mapping <- mapping (conversion, copy construction, cs move assignment): same dims, same data pointer */
#define NV_MAP_FROM_MAP(o) __CPROVER_requires(__CPROVER_is_fresh(self, sizeof(*self)) && __CPROVER_is_fresh(o, sizeof(*(o)))) \
__CPROVER_assigns(__CPROVER_object_whole(self)) \
__CPROVER_ensures(NV_DIMS_EQ(self->base, (o)->base) && self->m_data == (o)->m_data)
#define NV_CONTRACT_cs_from_m NV_MAP_FROM_MAP(other)
#define NV_CONTRACT_cs_copy_ctor NV_MAP_FROM_MAP(NV_O)
#define NV_CONTRACT_ms_copy_ctor NV_MAP_FROM_MAP(NV_O)
#define NV_CONTRACT_cs_move_assign NV_MAP_FROM_MAP(other) __CPROVER_ensures(__CPROVER_return_value == self)
#define NV_DATA_OF_MAP __CPROVER_requires(__CPROVER_is_fresh(self, sizeof(*self))) __CPROVER_assigns() __CPROVER_ensures(__CPROVER_return_value == self->m_data)
#define NV_CONTRACT_cs_data NV_DATA_OF_MAP
#define NV_CONTRACT_ms_data NV_DATA_OF_MAP

/* ------------------------------------------------------------------ tensor_marray_storage_t: assignment copies the ELEMENTS
 * into the mapped block (the mapping keeps its own dims; the code asserts equal sizes).  Eigen's no-aliasing rule for
 * `map = map`: the source range is the destination range itself (nv_alias) or a separate block. */
#define NV_MS_LIVE(s) (__CPROVER_rw_ok(s, sizeof(*(s))) && NV_DIMS_OK((s)->base) && (NV_SIZE((s)->base) > 0 ==> __CPROVER_rw_ok((s)->m_data, (size_t)NV_SIZE((s)->base) * sizeof(double))))
#define NV_MS_COPY(o, srcdata, srcok) __CPROVER_requires(NV_MS_LIVE(self) && __CPROVER_r_ok(o, sizeof(*(o)))) \
__CPROVER_requires(NV_DIMS_OK((o)->base) && NV_SIZE((o)->base) == NV_SIZE(self->base))     /* the assert in copy() */ \
__CPROVER_requires(srcok) \
__CPROVER_requires(NV_GHOST_OLD(srcdata, NV_SIZE((o)->base))) \
__CPROVER_assigns(__CPROVER_object_whole(self->m_data)) \
__CPROVER_ensures(NV_GHOST_NEW(self->m_data, NV_SIZE(self->base)))
#define NV_SRC_VIEW_OK(o) (nv_alias ? (o)->m_data == self->m_data : (NV_SIZE((o)->base) > 0 ==> (__CPROVER_r_ok((o)->m_data, (size_t)NV_SIZE((o)->base) * sizeof(double)) && !__CPROVER_same_object((o)->m_data, self->m_data))))
#define NV_SRC_VS_OK(o) ((o)->m_data.n == NV_SIZE((o)->base) && ((o)->m_data.n > 0 ==> (__CPROVER_r_ok((o)->m_data.p, (size_t)(o)->m_data.n * sizeof(double)) && !__CPROVER_same_object((o)->m_data.p, self->m_data))))
#define NV_MS_FROM_VS(o) NV_MS_COPY(o, (o)->m_data.p, NV_SRC_VS_OK(o))
#define NV_MS_FROM_VIEW(o) NV_MS_COPY(o, (o)->m_data, NV_SRC_VIEW_OK(o))
#define NV_RET_SELF __CPROVER_ensures(__CPROVER_return_value == self)
#define NV_CONTRACT_ms_copy_v NV_MS_FROM_VS(other)
#define NV_CONTRACT_ms_copy_c NV_MS_FROM_VIEW(other)
#define NV_CONTRACT_ms_copy_m NV_MS_FROM_VIEW(other)
#define NV_CONTRACT_ms_assign_v NV_MS_FROM_VS(other) NV_RET_SELF
#define NV_CONTRACT_ms_assign_c NV_MS_FROM_VIEW(other) NV_RET_SELF
#define NV_CONTRACT_ms_assign_m NV_MS_FROM_VIEW(other) NV_RET_SELF
#define NV_CONTRACT_ms_move_assign NV_MS_FROM_VIEW(other) NV_RET_SELF

/* ------------------------------------------------------------------ tensor_t: converting constructors / assignments are
 * forwarders to the storage operations and carry the same contracts */
#define NV_CONTRACT_t_mem_from_cmap NV_FROM_VIEW
#define NV_CONTRACT_t_mem_from_map NV_FROM_VIEW
#define NV_CONTRACT_t_cmap_from_mem NV_MAP_FROM_VS
#define NV_CONTRACT_t_map_from_mem NV_MAP_FROM_VS
#define NV_CONTRACT_t_cmap_from_map NV_MAP_FROM_MAP(other)
#define NV_CONTRACT_t_mem_assign_cmap NV_ASSIGN_VIEW
#define NV_CONTRACT_t_mem_assign_map NV_ASSIGN_VIEW
#define NV_CONTRACT_t_map_assign_mem NV_MS_FROM_VS(other) NV_RET_SELF
#define NV_CONTRACT_t_map_assign_cmap NV_MS_FROM_VIEW(other) NV_RET_SELF
#define NV_CONTRACT_t_map_assign_map NV_MS_FROM_VIEW(NV_O) NV_RET_SELF
/* the DEFAULTED move assignment of a mapping tensor (`t.tensor(i) = t.tensor(j)` in detail::copy): also an element copy */
#define NV_CONTRACT_t_map_move_assign NV_MS_FROM_VIEW(NV_O) NV_RET_SELF
