"""C16 -- tensor indexing: the linear offset is the row-major bijection onto [0, size).

Back end: SMT over the integers (nvwp), one contract per template-recursion level, machine overflow as explicit
obligations.  Spec functions (written from the property statement, not from the code):
    P_k      = prod_{j >= k} dims_j                      (suffix products; P_0 = size)
    F_k(i..) = sum_{j >= k} i_j * P_{j+1}                (row-major offset of the index suffix)
Lemmas about the spec functions (independent of the code): F_k is injective on the index box and ranges over
[0, P_k) -- i.e. the row-major map is a bijection onto [0, size) -- and is lexicographically monotone.
"""
from core import VC
from nvwp import V, AND, IMP, lit
from wplib import IdEnvWP, h_std_get, h_array_fill, declare_array, array_name, load, reach_vc, array_len, STD_ARRAY_MEMBERS, STD_NUMERIC_CALLS, iter_hook, aggr_hook, STD_COPY_CALLS
import re
import astload
import nvwp

TU = 'drivers/inst_dims.cpp'
FLT = 'nano::'
HDR = astload.REPO + '/include/nano/tensor/dims.h'
BOUND = 2 ** 62
RANKS = (1, 2, 3, 4, 5)


def setup_dims(wp, R, name='dims', signed=False):
    """symbolic dims with the tensor invariant: every extent >= 0 and every suffix product <= 2^62
    (signed=True: extents of either sign -- reshape passes its requested sizes, one of which may be -1, to size() --
    with every suffix product in [-2^62, 2^62])"""
    declare_array(wp, name, R)
    P = [wp.const(f'P{k}', 'Int', 'long') for k in range(R + 1)]
    wp.P = [p.t for p in P]
    wp.R = R
    wp.assume(f'(= {wp.P[R]} 1)')
    for k in range(R):
        d = wp.env[f'{name}.{k}'].t
        wp.assume(f'(= {wp.P[k]} (* {d} {wp.P[k + 1]}))')
        wp.assume(f'(<= {wp.P[k]} {BOUND})')
        if signed:
            wp.assume(f'(>= {wp.P[k]} (- {BOUND}))')
        else:
            wp.assume(f'(>= {d} 0)')
            wp.assume(f'(>= {wp.P[k]} 0)')
    wp.dims_name = name


def F(wp, k, idx):
    """row-major offset of the index suffix idx = (i_k, ..), as an SMT term over the suffix products"""
    terms = [f'(* {i} {wp.P[k + j + 1]})' for j, i in enumerate(idx)]
    if not terms:
        return '0'
    return terms[0] if len(terms) == 1 else '(+ ' + ' '.join(terms) + ')'


def ensures_index0_end(wp, idx, r):
    """END-INCLUSIVE contract of index0(dims, i) / get_index0<0>(dims, i): for 0 <= i <= dims[0] (one past the last row is
    allowed, as tslice(begin == dims[0], end == dims[0]) needs it) the offset is i * P_1, lies in [0, size] and nothing
    overflows.  The code's own assert (i < dims[0]) is stronger; it is kept as a separate obligation at the call sites."""
    return [('offset == i * P_1', f'(= {r} {F(wp, 0, idx)})'), ('0 <= offset <= size', f'(and (<= 0 {r}) (<= {r} {wp.P[0]}))')]


def ensures_get_index(wp, zero, k, idx, r):
    """postcondition of get_index<k>/get_index0<k> -- the same clauses are proved for the callee and assumed at call sites"""
    m = len(idx)
    out = [(f'offset == row-major formula F_{k}', f'(= {r} {F(wp, k, idx)})')]
    if zero:
        # a partial index addresses the block [offset, offset + P_{k+m}) which must lie inside [0, P_k)
        out.append((f'0 <= offset and offset + P_{k + m} <= P_{k}', f'(and (<= 0 {r}) (<= (+ {r} {wp.P[k + m]}) {wp.P[k]}))'))
    else:
        out.append((f'0 <= offset < P_{k}', f'(and (<= 0 {r}) (< {r} {wp.P[k]}))'))
    return out


# ---------------------------------------------------------------- callee contracts (used at call sites)
def h_product(wp, n, args, callee):
    k = wp.call_template_args(callee)[0]
    if array_name(wp, args[0]) != wp.dims_name or not (0 <= k <= wp.R):
        raise nvwp.Unsupported(f'product<{k}> outside the contract')
    return V(wp.P[k], 'Int', 'long')          # ensures: result == P_k


def h_get_index(zero):
    def h(wp, n, args, callee):
        k = wp.call_template_args(callee)[0]
        if array_name(wp, args[0]) != wp.dims_name:
            raise nvwp.Unsupported('get_index on a different dims')
        idx = [wp.ev(a) for a in args[1:]]
        if not zero and k + len(idx) != wp.R:
            raise nvwp.Unsupported(f'get_index<{k}> with {len(idx)} indices on rank {wp.R}')
        if getattr(wp, 'end_inclusive', False) and zero and k == 0 and len(idx) == 1:
            d = wp.env[f'{wp.dims_name}.0'].t
            wp.oblige('callee get_index0<0> end-inclusive precondition: 0 <= index <= dims[0]', f'(and (<= 0 {idx[0].t}) (<= {idx[0].t} {d}))', n)
            r = wp.fresh('Int', 'get_index0', 'long')
            for _, claim in ensures_index0_end(wp, [idx[0].t], r.t):
                wp.assume(claim)
            return r
        for j, v in enumerate(idx):     # callee precondition -> obligation at the call site
            d = wp.env[f'{wp.dims_name}.{k + j}'].t
            wp.oblige(f'callee get_index{"0" if zero else ""}<{k}> precondition: index {j} in range', f'(and (<= 0 {v.t}) (< {v.t} {d}))', n)
        r = wp.fresh('Int', f'get_index{k}', 'long')
        for _, claim in ensures_get_index(wp, zero, k, [v.t for v in idx], r.t):   # the callee's proven postcondition
            wp.assume(claim)
        return r
    return h


def h_get_dims0(wp, n, args, callee):
    k = wp.call_template_args(callee)[0]
    src = array_name(wp, args[0])
    dst = array_name(wp, args[1])
    R, RX = wp.env[src].c, wp.env[dst].c
    # contract: for j in [k, R): dst[j + RX - R] = src[j]; other entries unchanged; requires k >= R - RX
    if k < R - RX or k > R:
        raise nvwp.Unsupported(f'get_dims0<{k}> outside the contract')
    for j in range(k, R):
        wp.env[f'{dst}.{j + RX - R}'] = wp.env[f'{src}.{j}']
    return V('0', 'Int', 'int')


CALLS = [(r'^get\|', h_std_get), (r'^product\|', h_product), (r'^get_index\|', h_get_index(False)),
         (r'^get_index0\|', h_get_index(True)), (r'^get_dims0\|', h_get_dims0)] + STD_NUMERIC_CALLS
MEMBERS = [(r'^fill\|std::array', h_array_fill)] + STD_ARRAY_MEMBERS


def mk(name, decl, select, R, post, about, idx_names=None, signed=False, end_inclusive=False):
    docs, fn = load(TU, FLT, decl, select)
    wp = IdEnvWP(name, calls=CALLS, members=MEMBERS, hooks=[iter_hook], bindings=nvwp.template_bindings(docs, fn))
    wp.end_inclusive = end_inclusive
    keys = wp.bind_params(fn)
    idx = []
    for key, p in keys:
        n = array_len(p['type'])
        if n is not None:
            if key == 'dimsx':
                declare_array(wp, key, n)
            else:
                setup_dims(wp, n, key, signed=signed)
        else:
            wp.env[key] = wp.fresh('Int', key, 'long')
            wp.assume(wp.in_range(wp.env[key].t, 'long'))
            idx.append(wp.env[key].t)
    wp.idx = idx
    wp.post = post
    post.setup(wp) if hasattr(post, 'setup') else None
    wp.run(fn, HDR)
    if wp.returns == 0:
        raise astload.ExtractionError(f'{name}: no return path')
    vcs = wp.vcs(name, HDR, about)
    vcs.append(reach_vc(wp, name, HDR))
    return vcs, {'c_name': name, 'cxx': decl, 'file': HDR, 'line': fn.get('loc', {}).get('line'), 'sha': astload.file_hash(HDR)}


def mk_builder(name, decl, select, post, about):
    """make_dims / cat_dims: the dims BUILDERS.  No tensor invariant is assumed on their inputs (they are plain value
    shuffles: any long values); aggregate initialisation of std::array and std::copy between std::arrays are wplib vocabulary"""
    docs, fn = load(TU, FLT, decl, select)
    wp = IdEnvWP(name, calls=CALLS + STD_COPY_CALLS, members=MEMBERS, hooks=[iter_hook, aggr_hook], bindings=nvwp.template_bindings(docs, fn))
    keys = wp.bind_params(fn)
    wp.args = []
    for key, p in keys:
        n = array_len(p['type'])
        if n is not None:
            declare_array(wp, key, n)
            wp.args.append([wp.env[f'{key}.{k}'].t for k in range(n)])
        else:
            wp.env[key] = wp.fresh('Int', key, 'long')
            wp.assume(wp.in_range(wp.env[key].t, 'long'))
            wp.args.append(wp.env[key].t)
    wp.post = post
    wp.run(fn, HDR)
    if wp.returns == 0:
        raise astload.ExtractionError(f'{name}: no return path')
    vcs = wp.vcs(name, HDR, about)
    vcs.append(reach_vc(wp, name, HDR))
    return vcs, {'c_name': name, 'cxx': decl, 'file': HDR, 'line': fn.get('loc', {}).get('line'), 'sha': astload.file_hash(HDR)}


def post_array(want):
    """the returned array has exactly len(want(wp)) elements and element k is want(wp)[k]"""
    def post(wp, rv):
        w = want(wp)
        if rv is None or rv.s != 'Array' or rv.c != len(w):
            return [(f'returns an array of {len(w)} extents', 'false')]
        return [(f'result[{k}] == {lab}', f'(= {wp.env[f"{rv.t}.{k}"].t} {t})') for k, (lab, t) in enumerate(w)]
    return post


def sel(targs=None, nparams=None):
    def s(d):
        ta = astload.template_args(d)
        if targs is not None and [str(x) for x in targs] != ta[:len(targs)]:
            return False
        if nparams is not None and len(astload.param_types(d)) != nparams:
            return False
        return True
    return s


def build(tier):
    vcs = []
    fns = []

    def add(r):
        vcs.extend(r[0])
        fns.append(r[1])

    for R in RANKS:
        # product<k, R>: result is the suffix product, no overflow
        for k in range(R + 1):
            def post(wp, rv, k=k):
                return [(f'product<{k},{wp.R}> == prod(dims[{k}:])', f'(= {rv.t} {wp.P[k]})')]
            add(mk(f'product<{k},{R}>', 'product', sel([k, R], 1), R, post, 'suffix product of the dimensions'))
            if R <= 4:
                add(mk(f'product<{k},{R}>/signed', 'product', sel([k, R], 1), R, post, 'suffix product of extents of either sign (reshape)', signed=True))
        # get_index<k, R>(dims, i_k, ..., i_{R-1}) and get_index0<k, R>(dims, i_k, .., i_{k+m-1})
        for zero in (False, True):
            nm = 'get_index0' if zero else 'get_index'
            for k in range(R + 1):
                counts = range(0, R - k + 1) if zero else [R - k]
                for m in counts:
                    if not zero and m == 0:
                        continue

                    def post(wp, rv, k=k, m=m, zero=zero):
                        return ensures_get_index(wp, zero, k, wp.idx, rv.t)

                    def setup(wp, k=k):
                        for j, i in enumerate(wp.idx):
                            d = wp.env[f'{wp.dims_name}.{k + j}'].t
                            wp.assume(f'(and (<= 0 {i}) (< {i} {d}))')
                    post.setup = setup
                    pack = ['pack:' + ','.join(['long'] * (m - 1))] if m >= 2 or (m == 1 and zero) else []
                    if m == 1 and zero:
                        pack = ['pack:']
                    add(mk(f'{nm}<{k},{R}>/{m}', nm, sel([k, R], 1 + m), R, post, 'row-major offset, one recursion level'))
        # index / index0 / size / dims0 entry points
        def post_index(wp, rv):
            return [('index == F_0 (row-major offset)', f'(= {rv.t} {F(wp, 0, wp.idx)})'),
                    ('0 <= index < size', f'(and (<= 0 {rv.t}) (< {rv.t} {wp.P[0]}))')]

        def setup_idx(wp):
            for j, i in enumerate(wp.idx):
                wp.assume(f'(and (<= 0 {i}) (< {i} {wp.env[f"{wp.dims_name}.{j}"].t}))')
        post_index.setup = setup_idx
        add(mk(f'index<{R}>', 'index', sel([R], 1 + R), R, post_index, 'linear offset of a full index tuple'))
        for m in range(0, R + 1):
            def post_index0(wp, rv, m=m, R=R):
                out = [('index0(prefix) == index(prefix, 0, .., 0)', f'(= {rv.t} {F(wp, 0, wp.idx)})'),
                       # every partial view [offset0, offset0 + P_m) lies inside [0, size)
                       ('partial view inside the buffer', f'(and (<= 0 {rv.t}) (<= (+ {rv.t} {wp.P[m]}) {wp.P[0]}))' if m > 0
                        else f'(= {rv.t} 0)')]
                return out
            post_index0.setup = setup_idx
            add(mk(f'index0<{R}>/{m}', 'index0', sel([R], 1 + m), R, post_index0, 'offset of a partial index (sub-tensor view)'))
        for m in range(0, R):
            def post_dims0(wp, rv, m=m, R=R):
                arr = rv.t
                out = []
                for j in range(R - m):
                    out.append((f'dims0[{j}] == dims[{m + j}]', f'(= {wp.env[f"{arr}.{j}"].t} {wp.env[f"{wp.dims_name}.{m + j}"].t})'))
                return out
            add(mk(f'dims0<{R}>/{m}', 'dims0', sel([R], 1 + m), R, post_dims0, 'dimensions of a partial view'))
        for k in range(0, R + 1):
            for RX in range(max(1, R - k), R + 1):
                if k < R - RX:
                    continue

                def post_gd(wp, rv, k=k, R=R, RX=RX):
                    out = []
                    for j in range(k, R):
                        out.append((f'dimsx[{j + RX - R}] == dims[{j}]', f'(= {wp.env[f"dimsx.{j + RX - R}"].t} {wp.env[f"{wp.dims_name}.{j}"].t})'))
                    if not out:
                        out.append(('nothing to copy', 'true'))
                    return out
                try:
                    add(mk(f'get_dims0<{k},{R},{RX}>', 'get_dims0', sel([k, R, RX], 2), R, post_gd, 'copy of the trailing dimensions'))
                except astload.ExtractionError as e:
                    if 'definitions of' not in str(e) or not str(e).startswith('0 '):
                        raise
        def post_size(wp, rv):
            return [('size == prod(dims)', f'(= {rv.t} {wp.P[0]})'), ('size >= 0', f'(>= {rv.t} 0)')]
        add(mk(f'size<{R}>', 'size', sel([R], 1), R, post_size, 'number of elements'))
        if R <= 4:
            def post_size_signed(wp, rv):
                return [('size == prod(dims)', f'(= {rv.t} {wp.P[0]})')]
            add(mk(f'size<{R}>/signed', 'size', sel([R], 1), R, post_size_signed, 'product of extents of either sign (reshape)', signed=True))

            # end-inclusive contract of index0(dims, i): i == dims[0] allowed (tslice(begin == end == dims[0]))
            def post_end(wp, rv):
                return ensures_index0_end(wp, wp.idx, rv.t)

            def setup_end(wp):
                wp.assume(f'(and (<= 0 {wp.idx[0]}) (<= {wp.idx[0]} {wp.env[f"{wp.dims_name}.0"].t}))')
            post_end.setup = setup_end
            add(mk(f'get_index0<0,{R}>/1 end-inclusive', 'get_index0', sel([0, R], 2), R, post_end, 'offset of a row index in [0, dims[0]]', end_inclusive=True))
            add(mk(f'index0<{R}>/1 end-inclusive', 'index0', sel([R], 2), R, post_end, 'offset of a row index in [0, dims[0]]', end_inclusive=True))

    # make_dims(sizes...) == (sizes...) for 1..5 sizes; cat_dims(size, dims) == (size, dims[0], .., dims[R-1]) for R = 1..4
    for N in (1, 2, 3, 4, 5):
        add(mk_builder(f'make_dims<{N}>', 'make_dims', lambda d, N=N: bool(astload.template_args(d)) and len(astload.param_types(d)) == N,
                       post_array(lambda wp: [(f'sizes[{k}]', t) for k, t in enumerate(wp.args)]), 'dims from a list of sizes'))
    for R in (1, 2, 3, 4):
        add(mk_builder(f'cat_dims<{R}>', 'cat_dims', sel([R], 2),
                       post_array(lambda wp: [('size', wp.args[0])] + [(f'dims[{k}]', t) for k, t in enumerate(wp.args[1])]),
                       'dims with one more leading extent'))

    vcs += lemmas()
    import tspec
    import cspec
    import sspec
    tv, tf = tspec.build()
    vcs += tv
    fns += tf
    return {
        'targets': cspec.build() + sspec.build(tier), 'vcs': vcs, 'functions': fns,
        'decided': [
            'index/index0/size/dims0 and every recursion level of get_index/get_index0/product/get_dims0 for ranks 1..5 equal the row-major spec functions; no intermediate overflows given suffix products <= 2^62',
            'spec-function lemmas: row-major offset is injective on the index box, onto [0,size), lexicographically monotone',
            'dims.h, additional contracts: size/product for extents of either sign (suffix products in [-2^62, 2^62]; reshape passes a -1 to size()); index0(dims, i) / get_index0<0>(dims, i) '
            'END-INCLUSIVE (0 <= i <= dims[0]: offset i * P_1 in [0, size], no overflow)',
            'base.h (ranks 1..4): dims, size, rows, cols, offset, offset0 (every prefix length; prefix length 1 also end-inclusive), dims0, _resize equal the dims.h spec functions; '
            'storage.h: tensor_vector_storage_t::resize(dims) pins m_dims == dims and resizes the data to size(dims)',
            'tensor.h (ranks 1..4, SMT): operator()(index) and operator()(indices...) (const and non-const) address element data()[F_0(indices)] inside the buffer; '
            'tvector / ttensor / tmatrix and the public vector / tensor / matrix for every prefix length: pointer == data() + offset0(prefix) == data() + F_0(prefix), '
            'length == size(dims0(prefix)) == P_m (matrix: rows() x cols() == dims[R-2] x dims[R-1]), sub-tensor dims == dims[m:], the view lies inside [0, size) of the SAME buffer; '
            'tslice / slice(begin,end) / slice(range): 0 <= b <= e <= dims[0] => pointer == data() + b * P_1, dims == (e - b, dims[1..]), offset0(b) + (e - b) * P_1 <= size; '
            'treshape / reshape (source rank x target rank in (2,1) (2,2) (2,3) (2,4) (1,2) (3,1) (4,2); one run per position of the -1 and one without): same data pointer, every '
            'resulting extent >= 0, the -1 becomes size() / (product of the others), the extents multiply to size() (the assert in the code, proved); the division is by non-zero and nothing overflows',
            'tensor.h indexed (ranks 1..4): indexed(indices, map): loop invariant "rows 0..i-1 written, one copy each"; per iteration the index list is read at i (in range), row indices(i) of '
            'this tensor (offset indices(i) * P_1, in range by the asserted precondition on the index values) is copied to row i of the output (offset i * P_1), whole rows of equal length, '
            'from this tensor\'s buffer to the output\'s; indexed(indices, mem&): the output has EXACTLY the dims (indices.size(), dims[1..]) -- every extent pinned, not the element count -- '
            'and the callee precondition subtensor.dims() == (indices.size(), dims[1..]) holds at the inner call; indexed(indices): the returned tensor has exactly those dims',
            'tensor.h indexed, GATHER POSTCONDITION at a ghost position (ranks 1..4, SMT; tmodel.gather_clause): for an arbitrary output row g (unconstrained ghost constant) and the value '
            'ig the index list holds there, 0 <= g < indices.size() => row g of the result holds row ig of this tensor -- for every index list, lists WITH DUPLICATES included (the list is a '
            'constant: a function of the position, every read of it is tied to ig at position g and to the earlier reads at equal positions).  indexed(indices, map): loop invariant "every '
            'output row below i holds row indices(row)" on the real loop (row views remember which first-axis row they are: from the proved view clauses; rank 1: the element copies); '
            'indexed(indices, mem&) and indexed(indices): from the callee clause, or from whatever copies the body itself performs (a whole-tensor copy vector() = vector() sets row g := row g: '
            'a "sorted full-length list => plain copy" fast path is refuted by this clause, seed C16-9)',
            'tensor.h on back end B, vocabulary added: a local Eigen::Map (auto m = t.matrix()) is the view itself; matrix() of reshape(n, -1) and row(i) of such a matrix (row k of the '
            'rank-2 reshape is first-axis row k of the tensor under the carried condition n == dims[0]); begin() / end() of a tensor; std::is_sorted over the whole index list.  The part of the '
            'reshape precondition whose violation is a crash is a call-site obligation of its own (reshape_div0: an inferred -1 divides size() by a NON-ZERO product of the other sizes): a gather '
            'rewritten through reshape(size<0>(), -1).matrix() / subtensor.reshape(indices.size(), -1) is refuted there for the empty index list / the tensor without rows (seed C16-8)',
            'integral.h: integral_t<1>::get for int8 -> int64 and int32 -> int64 (CBMC, real arrays of symbolic length <= 10^6, --conversion-check / --signed-overflow-check ON): '
            'out(0) == in(0), out(g) == out(g-1) + in(g) at a ghost index, every access in bounds, no overflow and no narrowing of the running sum; ranks 2 and 3 (SMT): the index pattern of '
            'the recursion (slice i0 of the input integrated into slice i0 of the output, then output row i0-1 added to output row i0, whole rows, i0 >= 1 only, in that order); integral(): '
            'an empty tensor is left alone, a non-empty one is integrated exactly once',
            'integral.h VALUES, rank 2 (SMT over Int, specs/C16/ispec.py; int8 -> int64 and int32 -> int64): on the real loop of integral_t<2>::get, at an arbitrary interior ghost cell (ga, gb): '
            'I(ga, gb) == x(ga, gb) + I(ga-1, gb) + I(ga, gb-1) - I(ga-1, gb-1) once row ga is complete and at the end (loop invariant; the four output cells are followed through the row '
            'integration -- the CBMC-proved rank-1 contract out(g) == out(g-1) + in(g) -- and through the row additions); overflow: every row addition adds the previously completed row to the row '
            'integrated last and does not overflow int64 at an arbitrary ghost column (magnitude invariant |I(i0-1, gc)| <= M * (gc+1) * i0, from |out(g)| <= M * (g+1) of the rank-1 contract)',
            'algorithm.h remove_if(op, rank-1 tensor) (CBMC, the real loops under loop contracts, real array of symbolic length): every index of [0, size) is examined, in order, nothing outside; '
            'returns the number of kept elements; the ORIGINAL value of every kept element g ends at position #(kept before g) < ret (compaction in order); detail::size, detail::copy (rank 1); '
            'the same contract on the (rank 1, rank 2, rank 1) instantiation that solver/bundle.h uses (expanded pack, one target per tracked tensor; rows of the rank-2 tensor are opaque tokens)',
            'dims.h builders (SMT, no invariant assumed on the inputs): make_dims(sizes...) for 1..5 sizes returns exactly the array (sizes...) (a narrowing pack expansion is refuted by its '
            'conversion obligation); cat_dims(size, dims) for source ranks 1..4 returns exactly (size, dims[0], .., dims[R-1]); the make_dims call-site contract used by the tensor.h / storage.h '
            'targets is now this proved clause',
            'algorithm.h detail::copy on mapped tensors of rank 1, 2, 3 (SMT, tspec.py detail::copy<R>): for 0 <= isrc, idst < size<0>() exactly one block copy, destination offset idst * P_1, '
            'source offset isrc * P_1, P_1 coefficients (rank 1: one element), both blocks inside the tensor\'s own buffer; the preconditions of the callees hold (tensor(i): index in range; '
            'tensor_map_t = tensor_map_t: equal sizes -- the assert in tensor_marray_storage_t::copy -- and source range identical to or disjoint from the destination range). The row copy of the '
            'three-tensor remove_if target (nv_copy_rows: rows as opaque tokens) is this proved contract, no longer an assumed one',
            'range.h: tensor_range_t(begin, end), make_range, begin, end, size (== end - begin, no overflow for ends in (-2^62, 2^62)), valid(n) <=> 0 <= begin < end <= n',
            'pointer level (CBMC, ranks 1..3): in tvector / ttensor / tmatrix / tslice the real expression ptr + offset0(..) stays inside the array object of size() doubles and the mapped range '
            '[pointer, pointer + extent) is addressable memory of that object; operator()(index) returns data() + index inside the object. The offsets\' contracts are ASSUMED there exactly as '
            'proved on the SMT side: the C requires-clause is generated from the same python clause functions (tmodel.ens_view / ens_slice) with the C names substituted',
            'storage.h on REAL heap objects (CBMC, double; rank 1: every operation below; rank 2, quick tier: sizes / dims constructors, owning <- / = constant and mutable views, owning copy / move '
            'assignment, resize(sizes) / resize(dims), mapping <- owning, mapping element copies copy<mapping> / = owning, tensor_mem_t = tensor_map_t / tensor_cmap_t, the five converting constructors of '
            'tensor_t (tensor_mem_t <- cmap / map, tensor_cmap_t <- mem / map, tensor_map_t <- mem), the defaulted move assignment of tensor_map_t, '
            'owning = view INSIDE its own buffer; rank 3, quick tier: owning = constant view, resize(dims), copy<mapping>; thorough tier: every operation at ranks 2 and 3.  At ranks >= 2 size() is '
            'the NAMED product of the extents: an uninterpreted function of the extent tuple, so equal dims give equal sizes and nothing else is known -- an allocation / copy of size<0>() or dims[0] '
            'coefficients instead of size() is refuted at rank 2 while it is invisible at rank 1; specs/C16/storage.h, sspec.py): every constructor (default, sizes, dims, converting, copy, move), every assignment operator '
            '(owning = constant / mutable mapping view, copy, move; mapping = owning / mapping / constant mapping, move), resize(sizes) / resize(dims), data() of tensor_vector_storage_t, '
            'tensor_carray_storage_t, tensor_marray_storage_t, tensor_base_t (dims, size, _resize, constructors, assignment) and the converting constructors / operator= of tensor_t: after the '
            'conversion the destination has the source\'s dims, destination element i == the source\'s element i AS IT WAS BEFORE THE CALL (ghost index), an owning destination owns live memory '
            'of exactly size() coefficients distinct from the source\'s block, a mapping destination aliases the source\'s data pointer, resize keeps block and contents when the size is '
            'unchanged; every access under --pointer-check (no read of released memory).  Owning = view is additionally checked with the source view INSIDE the destination\'s own buffer '
            '(t = t.slice(b, e), t = std::as_const(t).slice(b, e); ghost offset) and owning copy / move SELF-assignment, mapping = mapping with source range == destination range',
            'tensor_t::operator=(const tensor_t<other storage>&) (the template that forwards to the storage assignment; owning destination, constant and mutable mapping source), quick tier at '
            'ranks 1 AND 2 on real heap blocks (storage_[r2_]t_mem_assign_{cmap,map}_alias): for every valid destination shape and source shape and a source that is a separate block, a view INSIDE the '
            'destination\'s own buffer at any offset -- including ALL of its elements under ANOTHER SHAPE (t = t.reshape(2, 6): same data(), same size(), different dims; invisible at rank 1, '
            'where the size is the only extent) -- or a null-data view of an empty tensor: afterwards dims() == the source\'s dims, size() coefficients of live memory, coefficient g == the '
            'source\'s coefficient g as it was before the call, *this is returned (seed C16-7: a self-assignment shortcut on data() / size() keeps the old dims)',
            'GENUINE DEFECT kept as failing obligations (tensor_t<R>::tslice/callee offset0 ASSERTED precondition ...): tslice admits begin == end == dims[0] (its own assert: begin <= end <= '
            'size<0>()) but then calls offset0(begin), whose assert (get_index0: index < dims[0]) rejects it; t.slice(n, n) and empty.slice(0, 0) abort in debug builds. The arithmetic itself is '
            'right (all other tslice obligations are proved for the whole range through the end-inclusive contract of offset0)'],
        'not_decided': ['indexed: the gather clause speaks about WHICH ROW is copied where (row-to-row and whole-tensor copies of the modelled shapes: first-axis row views, rank-1 elements, '
                        'vector() = vector(), rows of reshape(n, -1).matrix()); any other copy inside an indexed overload is refused (exit 2), the coefficient VALUES inside a row are the assumed '
                        'Eigen contract "Map = expression copies coefficient k to coefficient k"; a CORRECTED reshape-based gather (early return on an empty list) is still refuted at the reshape '
                        'precondition by shapes like (2^62 + 1) x 0, whose first extent alone exceeds the 2^62 bound the reshape contract puts on the requested shape (modelling bound, not a library defect)',
                        'tensor_t converting CONSTRUCTORS at rank 3: thorough tier only (ranks 1, 2: quick); an object under construction has no buffer a source could alias',
                        'storage conversions: ranks >= 4; at ranks 2, 3 most operations run in the thorough tier only, '
                        'implicit member destruction (~tensor_vector_storage_t has no statement in the AST), allocation failure (std::bad_alloc path)', 'summed-area table VALUES: rank 3; the border cells of rank 2 (row 0 / column 0, where the recurrence has fewer terms); the region-sum formula as such (it follows from the recurrence by '
                        'telescoping: an induction over the region that is not mechanised here); floating-point outputs',
                        'Eigen Map construction itself (map_vector / map_matrix / map_tensor are constructors: their result is modelled as (pointer, extent))',
'tensor.h numeric helpers (zero, full, random, min, max, ... : Eigen expressions over vector())',
                        'include/nano/tensor/stack.h (stack: the copied blocks tile the destination) -- not under contract yet'],
        'assumptions': ['tensor invariant: every extent >= 0 and every suffix product of the extents <= 2^62 (precondition, reported)',
                        'template arguments of calls inside templates are read from the source text and evaluated under the instantiation bindings',
                        'std::accumulate over a std::array range (wplib, used only if the source calls it): [accumulate] semantics with the accumulator of the type of init, the partial result '
                        'converted back to it at every step (obligation), std::multiplies / std::plus / std::minus as the arithmetic operators in the usual-arithmetic-conversion (or the functor\'s) type',
                        'storage invariant: data() addresses size() elements (owning storage: established by the constructors / resize through Eigen; mapping storages: the caller\'s promise)',
                        'private helpers tvector / ttensor / tmatrix / tslice / treshape receive ptr == data() (true of their only callers, the public wrappers, which are proved to pass data())',
                        'the asserts compiled out under NDEBUG are the preconditions: index tuples inside the index box, slice range 0 <= begin <= end <= dims[0], indexed: every index value in '
                        '[0, dims[0]) and (map overload) subtensor.dims() == (indices.size(), dims[1..]), integral: equal dims',
                        'reshape(sizes...) precondition: every size >= 0 except at most one -1; the requested shape (-1 read as 1) has suffix products <= 2^62; without a -1 the sizes multiply to '
                        'size(); with a -1 the product of the others is NON-ZERO (otherwise the code divides by zero: reported precondition) and divides size() (otherwise the code\'s assert fails)',
                        'indexed(indices, mem&) / indexed(indices): the gathered shape is itself a valid tensor shape: indices.size() * P_1 <= 2^62',
                        'indexed, gather clause: the asserted precondition indices.min() >= 0 && indices.max() < size<0>() is assumed at the ghost position (0 <= ig < dims[0]) and, on a non-empty '
                        'list, as dims[0] > 0; std::is_sorted(indices.begin(), indices.end()) (ASSUMED, used only if the source calls it; an instantiated weakening of [alg.sort]): a true result '
                        'implies that the list is monotone on every pair of positions the function has read and the ghost position, nothing follows from false; Eigen row(i) of a row-major matrix Map '
                        '(ASSUMED): coefficients [i * cols, (i + 1) * cols), 0 <= i < rows() is an obligation; tensor begin() / end() are data() / data() + size() (their inline text)',
                        'clang front end: a header that g++ accepts and clang rejects with "function with deduced return type cannot be used before it is defined" (a non-dependent call, inside a member '
                        'of a class template, of a deduced-return-type member declared further down: indices.begin() inside tensor_t) is parsed with -fdelayed-template-parsing (engine/astload.py); '
                        'the instantiated specialisations the specs extract are the same',
                        'Eigen (ASSUMED contracts): Map = expr and Map += Map copy / add coefficient k to coefficient k and require equal lengths (Eigen asserts it; a Map cannot be resized), '
                        'cast<T>() keeps the coefficients, vector.resize(n) allocates n coefficients',
                        'std::array copy assignment is element-wise; aggregate initialisation of std::array<long, N> from a braced list ([dcl.init.aggr]: element k from initialiser k, '
                        'the rest value-initialised) and std::copy between two std::arrays at constant iterator positions ([alg.copy]; range / room / overlap preconditions are obligations) '
                        'are wplib vocabulary (engine/wplib.py aggregate_array, h_std_copy)',
                        'remove_if: op is a pure function of the index (libnano\'s callers read tensors that remove_if is compacting, but only at positions >= curr, which are still original); '
                        'all tensors passed together have the same size<0>() (true of the three call sites: slices [0, m_size) of equally long buffers)',
                        'integral_t<2>::get values: rows of at most 10^6 elements (the domain of the CBMC-proved rank-1 contract) and M * size() <= 2^62 with M the magnitude bound of the input scalar '
                        '(128 / 2^31); Eigen Map += Map adds coefficient k to coefficient k in the output scalar type (ASSUMED); the input cells are arbitrary values of the input scalar type',
                        'integral_t<1>::get: tensors of at most 10^6 elements (bound on the symbolic array length; keeps |running sum| <= 2^31 * 10^6 < 2^63)',
                        'Eigen vector model {heap block, length} (ASSUMED, truthful about the order of effects; specs/C16/storage.h): vector(n) allocates; vector(map) / vector(v) allocate fresh storage '
                        'THEN copy; v = map / v = w release + allocate when the sizes differ THEN copy from the source pointer; v = std::move(w) and swap exchange the blocks; resize(n) releases + '
                        'allocates when the size changes; ~vector releases; map = map needs equal lengths and no partial overlap (the source range is the destination range itself or a separate block); '
                        'a copy reads the WHOLE source range (asserted readable at that moment) and is tracked at the ghost index; allocation does not fail (std::bad_alloc path out of scope)',
                        'storage targets: tensors of at most 10^6 elements; the moved-from state of an owning storage is unspecified (not constrained); ranks 2, 3: nano::size(dims) / size() is an '
                        'uninterpreted function of the extents with values in [0, 10^6] on valid shapes (that it IS the product, >= 0, is proved on the SMT side: size<R>, tensor_base_t<R>::size); '
                        'size<k>() == dims[k] (proved on the SMT side)',
                        'CBMC pointer shell: the ghost results of offset0 / size(dims0) / the slice extent satisfy the SMT-proved clauses (generated from the same clause functions) and lie in [0, size]'],
        'trusted': ['std::get<I>(std::array) returns element I', 'std::array::fill', 'std::array::operator[] with a constant index', 'range-based for over std::array<T, N> runs exactly N iterations in index order'],
    }


def lemmas():
    """facts about the spec functions P and F (no code involved): Horner step injectivity, range, monotonicity"""
    out = []
    hdr = '(declare-const d Int)(declare-const P Int)(declare-const i Int)(declare-const j Int)(declare-const r Int)(declare-const s Int)\n' \
          '(assert (and (>= d 0) (>= P 0) (<= 0 i) (< i d) (<= 0 j) (< j d) (<= 0 r) (< r P) (<= 0 s) (< s P)))\n'
    out.append(VC('lemma/Horner step is injective: i*P+r == j*P+s => i==j and r==s', hdr +
                  '(assert (= (+ (* i P) r) (+ (* j P) s)))\n(assert (not (and (= i j) (= r s))))', about='row-major bijection, induction step'))
    out.append(VC('lemma/Horner step range: 0 <= i*P+r < d*P', hdr + '(assert (not (and (<= 0 (+ (* i P) r)) (< (+ (* i P) r) (* d P)))))',
                  about='row-major offsets stay inside [0,size)'))
    out.append(VC('lemma/Horner step is lexicographically monotone: (i,r) <lex (j,s) => i*P+r < j*P+s', hdr +
                  '(assert (or (< i j) (and (= i j) (< r s))))\n(assert (not (< (+ (* i P) r) (+ (* j P) s))))', about='row-major order'))
    out.append(VC('lemma/Horner step is onto: every o in [0,d*P) is i*P+r for some i<d, r<P',
                  '(declare-const d Int)(declare-const P Int)(declare-const o Int)\n(assert (and (>= d 0) (> P 0) (<= 0 o) (< o (* d P))))\n'
                  '(assert (not (and (<= 0 (div o P)) (< (div o P) d) (<= 0 (mod o P)) (< (mod o P) P) (= o (+ (* (div o P) P) (mod o P))))))',
                  about='row-major map is surjective'))
    out.append(VC('lemma/partial view fits: i<d => i*P + P <= d*P', hdr + '(assert (not (<= (+ (* i P) P) (* d P))))', about='sub-tensor views'))
    return out


def replay(rp):
    """replay the solver's counterexample (dims, indices) on the real header"""
    import replaylib
    out = {'reproduced': False, 'runs': []}
    if 'tensor_t<' in rp.get('target', ''):
        return replay_tensor(rp, out)
    if 'resize' in rp.get('target', '') and ('storage' in rp.get('target', '')):
        return replay_scenarios(out, [['moved_resize']])
    if rp.get('target', '').startswith('integral<'):
        return replay_scenarios(out, [['integral_empty']])
    if rp.get('target', '').startswith('storage_'):
        return replay_storage(rp, out)
    if rp.get('target', '').startswith('integral1_get'):
        return replay_scenarios(out, [['integral8', '100', '100'], ['integral8', '-128', '-128', '5'], ['integral8', '1', '2', '3']])
    exe = replaylib.build_header_only('replay/C16_replay.cpp', 'C16_replay')
    for fo in rp['failed_obligations']:
        model = replaylib.parse_model((fo.get('counterexample') or {}).get('model', ''))
        dims = sorted((int(k.split('_')[-1]), v) for k, v in model.items() if re.fullmatch(r'dims_\d+', k))
        if not dims:
            continue
        R = len(dims)
        m = re.search(r'<(\d+),(\d+)>', fo['id'])
        k = int(m.group(1)) if m and ('get_index' in fo['id']) else 0
        idx = [0] * R
        vals = [model[x] for x in ('index', 'indices', 'indices@0', 'indices@1', 'indices@2', 'indices@3') if x in model]
        for j, v in enumerate(vals):
            if k + j < R:
                idx[k + j] = v
        # the public entry point needs every index in range; inner-level counterexamples leave the prefix at 0
        if any(d <= 0 for _, d in dims[:k]):
            continue
        rc, so, se = replaylib.run_driver(exe, [R] + [d for _, d in dims] + idx)
        out['runs'].append({'obligation': fo['id'], 'dims': [d for _, d in dims], 'index': idx, 'exit': rc, 'output': so.strip()})
        if rc == 1:
            out['reproduced'] = True
    return out


def replay_tensor(rp, out):
    """tensor.h obligations: the solver's (dims, begin, end) on the real tensor_t::slice, in a build WITH assertions; shapes too
    large to allocate are replaced by a small shape with the same relation between begin, end and dims[0]"""
    import replaylib
    import subprocess
    if 'indexed' in rp.get('target', ''):
        return replay_scenarios(out, [['gather']])
    if 'slice' not in rp.get('target', ''):
        return out
    exe = replaylib.build_header_only('replay/C16_tensor_replay.cpp', 'C16_tensor_replay', extra=['-UNDEBUG', '-O0'])
    R = int(re.search(r'tensor_t<(\d)>', rp['target']).group(1))
    for fo in rp['failed_obligations']:
        model = replaylib.parse_model((fo.get('counterexample') or {}).get('model', ''))
        dims = [model.get(f'self_m_dims_{k}') for k in range(R)]
        b, e = model.get('begin'), model.get('end')
        if None in dims or b is None or e is None:
            continue
        size = 1
        for d in dims:
            size *= d
        if size > 10 ** 6 or dims[0] > 10 ** 6:
            small = [3] + [min(d, 2) for d in dims[1:]]
            b, e = (small[0] if b == dims[0] else min(b, small[0])), (small[0] if e == dims[0] else min(e, small[0]))
            dims = small
        r = subprocess.run([exe, 'slice', str(R)] + [str(d) for d in dims] + [str(b), str(e)], capture_output=True, text=True, timeout=60)
        aborted = r.returncode < 0 and 'Assertion' in r.stderr
        out['runs'].append({'obligation': fo['id'], 'dims': dims, 'begin': b, 'end': e, 'exit': r.returncode, 'output': r.stdout.strip(),
                            'assertion': r.stderr.strip()[-300:] if aborted else None})
        if aborted or r.returncode == 1:
            out['reproduced'] = True
    return out


def replay_storage(rp, out):
    """storage conversion obligations: owning = view OF ITSELF on the real tensor_mem_t, built with AddressSanitizer; the
    verifier's sizes (ns, nv_off, no) when the trace has them, then a few fixed shapes"""
    import replaylib
    import subprocess
    tgt = rp.get('target', '')
    if 'assign' not in tgt or not ('_alias' in tgt or 'vs_assign' in tgt or 't_mem_assign' in tgt):
        return out
    kind = 'const' if ('assign_c' in tgt or 'cmap' in tgt) else 'mut'
    exe = replaylib.build_header_only('replay/C16_tensor_replay.cpp', 'C16_tensor_replay_asan', extra=['-O1', '-g', '-fsanitize=address'])
    cases = []
    for fo in rp['failed_obligations']:
        tr = fo.get('counterexample') or {}
        vals = {}
        for k, v in tr.items():
            nm = k.split('::')[-1]
            if nm in ('ns', 'no', 'nv_off', 'nv_alias'):
                try:
                    vals[nm] = int(str(v).rstrip('l'))
                except ValueError:
                    pass
        if {'ns', 'no', 'nv_off'} <= set(vals) and 0 < vals['ns'] <= 10 ** 6 and 0 <= vals['nv_off'] and vals['nv_off'] + vals['no'] <= vals['ns']:
            cases.append((vals['ns'], vals['nv_off'], vals['nv_off'] + vals['no']))
    for c in cases[:3] + [(8, 0, 3), (24, 6, 15), (100000, 0, 37000)]:
        r = subprocess.run([exe, 'selfview', kind] + [str(x) for x in c], capture_output=True, text=True, timeout=120)
        asan = 'AddressSanitizer' in r.stderr
        out['runs'].append({'expression': 't = std::as_const(t).slice(b, e)' if kind == 'const' else 't = t.slice(b, e)', 'size': c[0], 'begin': c[1], 'end': c[2],
                            'exit': r.returncode, 'output': r.stdout.strip(), 'sanitizer': (re.search(r'AddressSanitizer: [^\n]*', r.stderr).group(0) if asan else None)})
        if r.returncode != 0:
            out['reproduced'] = True
            break
    return out


def replay_scenarios(out, argvs):
    """fixed native scenarios of the release build (the obligation's clause evaluated on the real code)"""
    import replaylib
    import subprocess
    exe = replaylib.build_header_only('replay/C16_tensor_replay.cpp', 'C16_tensor_replay_rel')
    for a in argvs:
        r = subprocess.run([exe] + a, capture_output=True, text=True, timeout=60)
        out['runs'].append({'scenario': ' '.join(a), 'exit': r.returncode, 'output': r.stdout.strip()})
        if r.returncode == 1:
            out['reproduced'] = True
    return out
