"""C16, back end A: include/nano/tensor/storage.h on real heap objects -- every constructor / assignment / resize / data()
of the three storage classes and the converting constructors / assignments of tensor_t (contracts: specs/C16/storage.h)."""
import re

import astload
from core import Fn, Target

TU = 'drivers/inst_storage.cpp'
FLT = 'nano::tensor_'
H = 'specs/C16/storage.h'
VS, CS, MS = 'struct nv_vstore', 'struct nv_cstore', 'struct nv_mstore'


def types_for(R):
    return [
        (r'::Scalar$', 'double'), (r'std::array<long, \d+>::value_type$', 'int64_t'),
        (rf'::tdims$|tensor_dims_t<{R}|std::array<long, {R}', 'struct nv_dims'),
        (rf'tensor_vector_storage_t<double, {R}|tensor_t<nano::tensor_vector_storage_t, double, {R}|tensor_mem_t<double, {R}', VS),
        (rf'tensor_carray_storage_t<double, {R}|tensor_t<nano::tensor_carray_storage_t, double, {R}|tensor_cmap_t<double, {R}', CS),
        (rf'tensor_marray_storage_t<double, {R}|tensor_t<nano::tensor_marray_storage_t, double, {R}|tensor_map_t<double, {R}', MS),
        (rf'tensor_base_t<double, {R}', 'struct nv_base'),
        (r'Eigen::Map<', 'struct nv_emap'),
        (r'eigen_vector_t<double>|Eigen::Matrix<double, -1, 1', 'struct nv_evec'),
    ]


B = '(struct nv_base*)'
CALLS = [
    (r'^map_vector\|', 'nv_map_vector({0}, {1})'),
    (r'^swap\|.*Matrix<double', 'nv_evec_swap({&0}, {&1})'),
    (r'^move\|', '{0}'), (r'^forward\|', '{0}'),
    (r'^size\|.*(tensor_dims_t|std::array)', 'nv_size({&0})'),
    (r'^operator=\|.*std::array', '({0} = {1})'),
    (r'^operator\[\]\|.*std::array', '{0}.d[{1}]'),
    (r'^ctor\|(nano::)?tensor_base_t[^|]*\|void \((const )?(nano::)?tensor_base_t<[^>]*> &&?\)', 'base_copy_ctor(' + B + 'self, ' + B + '{&0})'),
    (r'^ctor\|(nano::)?tensor_base_t[^|]*\|void \(\)', 'base_default_ctor(' + B + 'self)'),
    (r'^ctor\|(nano::)?tensor_base_t', 'base_ctor(' + B + 'self, {0})'),
    (r'^ctor\|(Eigen::Matrix<double, -1, 1|eigen_vector_t)[^|]*\|void \(\)', 'nv_evec_new(0)'),
    (r'^ctor\|(nano::)?tensor_vector_storage_t[^|]*\|void \(const tensor_carray_storage_t', 'vs_from_c(self, {&0})'),
    (r'^ctor\|(nano::)?tensor_vector_storage_t[^|]*\|void \(const tensor_marray_storage_t', 'vs_from_m(self, {&0})'),
    (r'^ctor\|(nano::)?tensor_carray_storage_t[^|]*\|void \(const tensor_vector_storage_t', 'cs_from_v(self, {&0})'),
    (r'^ctor\|(nano::)?tensor_carray_storage_t[^|]*\|void \(const tensor_marray_storage_t', 'cs_from_m(self, {&0})'),
    (r'^ctor\|(nano::)?tensor_marray_storage_t[^|]*\|void \(tensor_vector_storage_t', 'ms_from_v(self, {&0})'),
    (r'^ctor\|.*(std::array|tensor_dims_t|tdims)', '{0}'),
    (r'^make_dims\|', 'nv_make_dims({0})'),      # rank R: R arguments (RankSpec)
    (r'^operator!=\|.*(tensor_dims_t|std::array)', '(!nv_dims_eq({&0}, {&1}))'), (r'^operator==\|.*(tensor_dims_t|std::array)', 'nv_dims_eq({&0}, {&1})'),
    # Eigen vector constructions (key: ctor|constructed type|constructor type)
    (r'^ctor\|(Eigen::Matrix<double, -1, 1|eigen_vector_t)[^|]*\|void \(const (Eigen::)?(EigenBase|DenseBase|MatrixBase|Map)', 'nv_evec_from_map({0})'),
    (r'^ctor\|(Eigen::Matrix<double, -1, 1|eigen_vector_t)[^|]*\|void \((const long &|long|nano::tensor_size_t)\)', 'nv_evec_new({0})'),
    (r'^ctor\|(Eigen::Matrix<double, -1, 1|eigen_vector_t)[^|]*\|void \((Eigen::Matrix<double, -1, 1|eigen_vector_t)[^)]*&&\)', 'nv_evec_move({&0})'),
    (r'^ctor\|(Eigen::Matrix<double, -1, 1|eigen_vector_t)[^|]*\|void \(const (Eigen::Matrix<double, -1, 1|eigen_vector_t)[^)]*&\)', 'nv_evec_copy({&0})'),
    # Eigen assignments spelled as operators (key: operator=|function type|type of the left operand)
    (r'^operator=\|Eigen::Map<', 'nv_map_assign({0}, {1})'),
    (r'^operator=\|Eigen::Matrix<double, -1, 1, 0> &\(const (Eigen::)?(DenseBase|EigenBase|MatrixBase|Map|ReturnByValue)', 'nv_evec_assign_map({&0}, {1})'),
    (r'^operator=\|Eigen::Matrix<double, -1, 1, 0> &\(const Eigen::Matrix<double, -1, 1', 'nv_evec_assign({&0}, {&1})'),
    (r'^operator=\|Eigen::Matrix<double, -1, 1, 0> &\(Eigen::Matrix<double, -1, 1[^)]*&&', 'nv_evec_move_assign({&0}, {&1})'),
]
MEMBERS = [
    (r'^fill\|std::array', 'nv_dims_fill({self}, {0})'),
    (r'^data\|.*carray_storage_t', 'cs_data'), (r'^data\|.*marray_storage_t', 'ms_data'), (r'^data\|.*vector_storage_t', 'vs_data'),
    (r'^operator=\|nano::tensor_base_t', '(*base_assign(' + B + '{self}, ' + B + '{&0}))'),
    (r'^operator=\|std::array', '({*self} = {0})'),
    (r'^_resize\|', 'base__resize(' + B + '{self}, {&0})'),
    (r'^dims\|', '(*base_dims(' + B + '{self}))'),
    # size<k>() == dims[k] (proved on the SMT side: tmodel.m_size); member-call keys end in the explicit template arguments
    (r'^size\|.*\|<0>$', 'nv_extent(' + B + '{self}, 0)'), (r'^size\|.*\|<1>$', 'nv_extent(' + B + '{self}, 1)'), (r'^size\|.*\|<2>$', 'nv_extent(' + B + '{self}, 2)'),
    (r'^size\|.*(tensor_base_t|storage_t|tensor_t)', 'base_size(' + B + '{self})'),
    (r'^resize\|.*(Eigen|PlainObjectBase)', 'nv_evec_resize({self}, {0})'),
    (r'^resize\|.*tensor_vector_storage_t', 'vs_resize_dims({self}, {&0})'),      # resize(sizes...) forwarding to resize(dims)
    (r'^data\|.*(Eigen|PlainObjectBase|Matrix)', 'nv_evec_data({self})'),
    (r'^size\|.*(Eigen|PlainObjectBase|Matrix)', 'nv_evec_size({self})'),
    (r'^swap\|.*(Eigen|PlainObjectBase|Matrix)', 'nv_evec_swap({self}, {&0})'),
]


def overload_hook(P, n):
    """member-call keys carry no argument types: (a) Eigen vector `v = w` is the copy assignment for an lvalue and the move
    assignment for an xvalue argument; (b) tensor_marray_storage_t::copy<tstorage> and the storages' own operator= / converting
    constructors are picked by the static type of the argument"""
    from cxx2c import strip_cv, qual, unwrap
    if n.get('kind') != 'CXXMemberCallExpr':
        return None
    me = n['inner'][0]
    if me.get('kind') != 'MemberExpr' or len(n['inner']) != 2:
        return None
    obj, arg = me['inner'][0], n['inner'][1]
    objt = strip_cv(qual(obj.get('type')))
    argt = strip_cv(qual(arg.get('type')))
    u = arg
    while u.get('kind') in ('ImplicitCastExpr', 'MaterializeTemporaryExpr', 'ExprWithCleanups') and u.get('inner'):
        if u.get('valueCategory') == 'xvalue':
            break
        u = u['inner'][0]
    if me.get('name') == 'operator=' and re.search(r'Eigen::Matrix<double, -1, 1|eigen_vector_t', objt) and re.search(r'Eigen::Matrix<double, -1, 1|eigen_vector_t', argt):
        which = 'nv_evec_move_assign' if u.get('valueCategory') == 'xvalue' else 'nv_evec_assign'
        P.note(which)
        return f'{which}({P.addr(obj)}, {P.addr(arg)})'
    if me.get('name') == 'operator=' and re.search(r'tensor_(vector|marray)_storage_t', objt) and re.search(r'tensor_(vector|carray|marray)_storage_t', argt):
        dst = 'vs' if 'tensor_vector_storage_t' in objt else 'ms'
        src = 'v' if 'tensor_vector_storage_t' in argt else 'c' if 'tensor_carray_storage_t' in argt else 'm'
        which = {'vsv': 'vs_copy_assign', 'vsc': 'vs_assign_c', 'vsm': 'vs_assign_m', 'msv': 'ms_assign_v', 'msc': 'ms_assign_c', 'msm': 'ms_assign_m'}[dst + src]
        if u.get('valueCategory') == 'xvalue':
            which = {'vs_copy_assign': 'vs_move_assign', 'ms_assign_m': 'ms_move_assign'}.get(which, which)
        P.note(which)
        o = P.expr(obj) if qual(obj.get('type')).rstrip().endswith('*') else P.addr(obj)
        return f'(*{which}({o}, {P.addr(arg)}))'
    if me.get('name') == 'copy' and 'marray_storage_t' in objt:
        which = 'ms_copy_v' if 'vector_storage_t' in argt else 'ms_copy_c' if 'carray_storage_t' in argt else 'ms_copy_m' if 'marray_storage_t' in argt else None
        if which is None:
            return None
        P.note(which)
        return f'{which}({P.expr(obj) if qual(obj.get("type")).rstrip().endswith("*") else P.addr(obj)}, {P.addr(arg)})'
    return None


def msel(rx):
    return lambda d: re.search(rx, d.get('mangledName', '')) is not None


S1 = r'_storage_tIdLm1E'
FUNCS1 = {
    # name: (C++ name, mangled-name regex, self struct)
    'base_dims': ('dims', r'base_tIdLm1ELb1EE4dimsEv', 'struct nv_base'),
    'base_size': ('size', r'base_tIdLm1ELb1EE4sizeEv', 'struct nv_base'),
    'base__resize': ('_resize', r'base_tIdLm1ELb1EE7_resize', 'struct nv_base'),
    'base_ctor': ('tensor_base_t', r'base_tIdLm1ELb1EEC1ESt5array', 'struct nv_base'),
    'base_copy_ctor': ('tensor_base_t', r'base_tIdLm1ELb1EEC1ERKS1_', 'struct nv_base'),
    'base_assign': ('operator=', r'base_tIdLm1ELb1EEaSERKS1_', 'struct nv_base'),
    'base_default_ctor': ('tensor_base_t', r'base_tIdLm1ELb1EEC1Ev', 'struct nv_base'),
    'vs_default_ctor': ('tensor_vector_storage_t', r'vector' + S1 + r'EC1Ev', VS),
    'cs_default_ctor': ('tensor_carray_storage_t', r'carray' + S1 + r'EC1Ev', CS),
    'ms_default_ctor': ('tensor_marray_storage_t', r'marray' + S1 + r'EC1Ev', MS),
    # owning storage
    'vs_ctor_sizes': ('tensor_vector_storage_t', r'vector' + S1 + r'EC1IJlEEEDpT_', VS),
    'vs_ctor_dims': ('tensor_vector_storage_t', r'vector' + S1 + r'EC1ESt5array', VS),
    'vs_from_c': ('tensor_vector_storage_t', r'vector' + S1 + r'EC1ERKNS_23tensor_carray', VS),
    'vs_from_m': ('tensor_vector_storage_t', r'vector' + S1 + r'EC1ERKNS_23tensor_marray', VS),
    'vs_copy_ctor': ('tensor_vector_storage_t', r'vector' + S1 + r'EC1ERKS1_', VS),
    'vs_move_ctor': ('tensor_vector_storage_t', r'vector' + S1 + r'EC1EOS1_', VS),
    'vs_assign_c': ('operator=', r'vector' + S1 + r'EaSERKNS_23tensor_carray', VS),
    'vs_assign_m': ('operator=', r'vector' + S1 + r'EaSERKNS_23tensor_marray', VS),
    'vs_copy_assign': ('operator=', r'vector' + S1 + r'EaSERKS1_', VS),
    'vs_move_assign': ('operator=', r'vector' + S1 + r'EaSEOS1_', VS),
    'vs_resize_sizes': ('resize', r'vector' + S1 + r'E6resizeIJlEEEvDpT_', VS),
    'vs_resize_dims': ('resize', r'vector' + S1 + r'E6resizeERKSt5array', VS),
    'vs_data': ('data', r'^_ZN4nano23tensor_vector' + S1 + r'E4dataEv', VS),
    'vs_cdata': ('data', r'^_ZNK4nano23tensor_vector' + S1 + r'E4dataEv', VS),
    # constant mapping storage
    'cs_ctor_sizes': ('tensor_carray_storage_t', r'carray' + S1 + r'EC1IJlEEEPKdDpT_', CS),
    'cs_ctor_dims': ('tensor_carray_storage_t', r'carray' + S1 + r'EC1EPKdSt5array', CS),
    'cs_from_v': ('tensor_carray_storage_t', r'carray' + S1 + r'EC1ERKNS_23tensor_vector', CS),
    'cs_from_m': ('tensor_carray_storage_t', r'carray' + S1 + r'EC1ERKNS_23tensor_marray', CS),
    'cs_copy_ctor': ('tensor_carray_storage_t', r'carray' + S1 + r'EC1ERKS1_', CS),
    'cs_move_assign': ('operator=', r'carray' + S1 + r'EaSEOS1_', CS),
    'cs_data': ('data', r'carray' + S1 + r'E4dataEv', CS),
    # mutable mapping storage
    'ms_ctor_sizes': ('tensor_marray_storage_t', r'marray' + S1 + r'EC1IJlEEEPdDpT_', MS),
    'ms_ctor_dims': ('tensor_marray_storage_t', r'marray' + S1 + r'EC1EPdSt5array', MS),
    'ms_from_v': ('tensor_marray_storage_t', r'marray' + S1 + r'EC1ERNS_23tensor_vector', MS),
    'ms_copy_ctor': ('tensor_marray_storage_t', r'marray' + S1 + r'EC1ERKS1_', MS),
    'ms_assign_v': ('operator=', r'marray' + S1 + r'EaSERKNS_23tensor_vector', MS),
    'ms_assign_c': ('operator=', r'marray' + S1 + r'EaSERKNS_23tensor_carray', MS),
    'ms_assign_m': ('operator=', r'marray' + S1 + r'EaSERKS1_', MS),
    'ms_move_assign': ('operator=', r'marray' + S1 + r'EaSEOS1_', MS),
    'ms_copy_v': ('copy', r'marray' + S1 + r'E4copyINS_23tensor_vector', MS),
    'ms_copy_c': ('copy', r'marray' + S1 + r'E4copyINS_23tensor_carray', MS),
    'ms_copy_m': ('copy', r'marray' + S1 + r'E4copyIS1_', MS),
    'ms_data': ('data', r'marray' + S1 + r'E4dataEv', MS),
    # tensor_t: converting constructors / assignment between storages (thin forwarders to the storage operations)
    't_mem_from_cmap': ('tensor_t', r'tensor_tINS_23tensor_vector_storage_tEdLm1EEC1INS_23tensor_carray', VS),
    't_mem_from_map': ('tensor_t', r'tensor_tINS_23tensor_vector_storage_tEdLm1EEC1INS_23tensor_marray', VS),
    't_cmap_from_mem': ('tensor_t', r'tensor_tINS_23tensor_carray_storage_tEdLm1EEC1INS_23tensor_vector', CS),
    't_cmap_from_map': ('tensor_t', r'tensor_tINS_23tensor_carray_storage_tEdLm1EEC1INS_23tensor_marray', CS),
    't_map_from_mem': ('tensor_t', r'tensor_tINS_23tensor_marray_storage_tEdLm1EEC1INS_23tensor_vector', MS),
    't_mem_assign_cmap': ('operator=', r'tensor_tINS_23tensor_vector_storage_tEdLm1EEaSINS_23tensor_carray', VS),
    't_mem_assign_map': ('operator=', r'tensor_tINS_23tensor_vector_storage_tEdLm1EEaSINS_23tensor_marray', VS),
    't_map_assign_mem': ('operator=', r'tensor_tINS_23tensor_marray_storage_tEdLm1EEaSINS_23tensor_vector', MS),
    't_map_assign_cmap': ('operator=', r'tensor_tINS_23tensor_marray_storage_tEdLm1EEaSINS_23tensor_carray', MS),
    't_map_assign_map': ('operator=', r'tensor_tINS_23tensor_marray_storage_tEdLm1EEaSERKS2_', MS),
}


# tensor_t: the DEFAULTED move assignment of a mapping tensor (what `t.tensor(i) = t.tensor(j)` in detail::copy resolves to)
FUNCS1['t_map_move_assign'] = ('operator=', r'tensor_tINS_23tensor_marray_storage_tEdLm1EEaSEOS2_', MS)


CANARY = '  __CPROVER_assert(0, "nv_canary: end of harness reachable");\n  return 0;\n}\n'
# ds / dsrc: the shapes of the destination and of the source (any valid shapes within the bound); ns / no: their sizes (rank >= 2: NAMED products)
PRE = ('int main(void)\n{\n  struct nv_dims ds, dsrc;\n  int64_t ns, no;\n  __CPROVER_assume(NV_DOK(ds) && NV_DOK(dsrc));\n  ns = NV_DPROD(ds);\n  no = NV_DPROD(dsrc);\n')


def harness_assign_view(fname, src_struct, dst_struct=VS, what='owning = view'):
    """owning = view on real heap blocks; the view's data is the owner's buffer + nv_off (nv_alias) or a separate block.
    Plain harness (no contract enforcement, see storage.h): the conversion clause is asserted after the call"""
    return (PRE +
            f'  {dst_struct}* self = malloc(sizeof(*self));\n'
            f'  {src_struct}* other = malloc(sizeof(*other));\n  __CPROVER_assume(self != 0 && other != 0);\n'
            '  self->base.m_dims = ds; self->m_data.n = ns; self->m_data.p = nv_alloc(ns);\n'
            '  other->base.m_dims = dsrc;\n'
            '  if (nv_alias) { __CPROVER_assume(ns > 0 && 0 <= nv_off && nv_off <= ns && no <= ns - nv_off); other->m_data = self->m_data.p + nv_off; }\n'
            '  else other->m_data = (no == 0 && nv_null) ? (double*)0 : nv_block(no);      /* a view of an EMPTY tensor may carry a null data() */\n'
            '  if (0 <= nv_g && nv_g < no) nv_old_g = other->m_data[nv_g];\n'
            f'  nv_thrown = 0;\n  {dst_struct}* ret = {fname}(self, other);\n'
            f'  __CPROVER_assert(ret == self, "{what}: returns *this");\n'
            f'  NV_POST_OWNING(self, dsrc, no, "{what}");\n' + CANARY)


def harness_ms_copy(fname, src_struct):
    """mapping = storage (element copy): the source range is the destination range itself (nv_alias) or a separate block"""
    srcdata = 'other->m_data.p' if src_struct == VS else 'other->m_data'
    setup = ('  other->m_data.n = no; other->m_data.p = nv_block(no);\n' if src_struct == VS else
             '  if (nv_alias) other->m_data = self->m_data; else other->m_data = nv_block(no);\n')
    return (PRE + '  __CPROVER_assume(ns == no);\n'
            '  struct nv_mstore* self = malloc(sizeof(*self));\n'
            f'  {src_struct}* other = malloc(sizeof(*other));\n  __CPROVER_assume(self != 0 && other != 0);\n'
            '  self->base.m_dims = ds; self->m_data = nv_block(ns);\n'
            '  other->base.m_dims = dsrc;\n' + setup +
            f'  if (0 <= nv_g && nv_g < no) nv_old_g = {srcdata}[nv_g];\n'
            f'  nv_thrown = 0;\n  {fname}(self, other);\n' + CANARY)


HARNESS = {
    'ms_copy_v': lambda: harness_ms_copy('ms_copy_v', VS), 'ms_copy_c': lambda: harness_ms_copy('ms_copy_c', CS), 'ms_copy_m': lambda: harness_ms_copy('ms_copy_m', MS),
    'ms_assign_v': lambda: harness_ms_copy('ms_assign_v', VS), 'ms_assign_c': lambda: harness_ms_copy('ms_assign_c', CS),
    'ms_assign_m': lambda: harness_ms_copy('ms_assign_m', MS), 'ms_move_assign': lambda: harness_ms_copy('ms_move_assign', MS),
}
BASE = ['base_dims', 'base_size', 'base__resize', 'base_ctor', 'base_copy_ctor', 'base_assign', 'base_default_ctor']
HELP = BASE + ['vs_data', 'cs_data', 'ms_data']


CALLEE = {'t_mem_from_cmap': 'vs_from_c', 't_mem_from_map': 'vs_from_m', 't_cmap_from_mem': 'cs_from_v', 't_cmap_from_map': 'cs_from_m',
          't_map_from_mem': 'ms_from_v', 't_mem_assign_cmap': 'vs_assign_c', 't_mem_assign_map': 'vs_assign_m', 't_map_assign_mem': 'ms_assign_v',
          't_map_assign_cmap': 'ms_assign_c', 't_map_assign_map': 'ms_assign_m'}
HARNESS.update({'t_map_assign_mem': lambda: harness_ms_copy('t_map_assign_mem', VS), 't_map_assign_cmap': lambda: harness_ms_copy('t_map_assign_cmap', CS),
                't_map_assign_map': lambda: harness_ms_copy('t_map_assign_map', MS)})


CAD = ['--sat-solver', 'cadical']      # the canary counter-model dominates these runs: 5-8x faster than minisat
HARNESS['t_map_move_assign'] = lambda: harness_ms_copy('t_map_move_assign', MS)
CALLEE['t_map_move_assign'] = 'ms_move_assign'
# rank >= 2, quick tier: the operations in which size() -- now a NAMED product of the extents -- decides how much is allocated / copied
QUICK_HIGHER = ['vs_ctor_sizes', 'vs_ctor_dims', 'vs_from_c', 'vs_assign_c', 'vs_assign_m', 'vs_copy_assign', 'vs_move_assign', 'vs_resize_sizes', 'vs_resize_dims',
                'cs_from_v', 'ms_from_v', 'ms_copy_m', 'ms_assign_v', 't_mem_assign_map', 't_map_move_assign',
                # tensor_t templates that forward to the storage: the converting constructors and owning = constant view (separate blocks; DFCC contracts)
                't_mem_from_cmap', 't_mem_from_map', 't_cmap_from_mem', 't_cmap_from_map', 't_map_from_mem', 't_mem_assign_cmap']


class RankSpec:
    """the tables of this module instantiated for one rank (type regexes, mangled-name regexes, make_dims arity); `F` / `callees`
    are evaluated lazily inside the target workers for ranks >= 2 (no clang work in build())"""

    def __init__(self, R):
        self.R = R
        self.types = types_for(R)
        self.funcs = {c: (name, rx.replace('Lm1E', f'Lm{R}E').replace('IJlEEE', 'IJ' + 'l' * R + 'EEE'), ss) for c, (name, rx, ss) in FUNCS1.items()}
        self.calls = [(rx, ('nv_make_dims(' + ', '.join('{%d}' % j for j in range(R)) + ')') if rx == r'^make_dims\|' else m) for rx, m in CALLS]
        self.text = {}
        self.tag = '' if R == 1 else f'r{R}_'
        self.defines = [f'NV_RANK={R}']

    def F(self, c):
        name, rx, ss = self.funcs[c]
        return Fn(c, TU, name, flt=FLT, select=msel(rx), kinds=('CXXMethodDecl', 'CXXConstructorDecl', 'CXXDestructorDecl'), self_struct=ss, types=list(self.types),
                  calls=list(self.calls), members=list(MEMBERS), hooks=[overload_hook], uf_float=False,
                  dtors=[(r'eigen_vector_t<double>|Eigen::Matrix<double, -1, 1', 'nv_evec_dtor')])

    def callees(self, c):
        """the extracted functions that `c` calls, transitively (read off the emitted C: only these go into the target)"""
        todo, out = [c], []
        while todo:
            x = todo.pop()
            if x not in self.text:
                try:
                    self.text[x] = self.F(x).emit()
                except astload.ExtractionError:
                    self.text[x] = ''
            for y in self.funcs:
                if y != c and y not in out and re.search(r'\b' + y + r'\(', self.text[x].split('\n', 2)[-1]):
                    out.append(y)
                    todo.append(y)
        return out

    def plan(self, c):
        deps = self.callees(c)
        replace = [d for d in deps if d.startswith('ms_copy_')] if (c.startswith('ms_assign') or c == 'ms_move_assign') else []
        if c in CALLEE and CALLEE[c].startswith('ms_'):
            # tensor_t forwarders.  Element copies into a mapping: the storage operation by its (proved) contract; operations
            # that allocate: the callee is inlined (an assumed `ensures rw_ok(fresh pointer)` cannot create the block)
            replace = [CALLEE[c]] if (CALLEE[c].startswith('ms_assign') or CALLEE[c] == 'ms_move_assign') else []
        if replace:
            deps = [d for d in deps if d in replace or d in HELP]
        return deps, replace

    def target(self, name, c, harness=None, enforce_none=False, inline=False):
        """one target; for ranks >= 2 the function list is a callable (extraction happens in the worker).  `replace` must be known
        in build(): it is the static plan of rank 1 (the same text at every rank: the storage classes are rank-generic)"""
        if self.R == 1:
            deps, replace = (self.callees(c), []) if inline else self.plan(c)
            fns = [self.F(c)] + [self.F(d) for d in deps]
        else:
            replace = [] if inline else RANK1.plan(c)[1]

            def fns(self=self, c=c, inline=inline):
                deps = self.callees(c) if inline else self.plan(c)[0]
                return [self.F(c)] + [self.F(d) for d in deps]
        return Target(name, fns, H, enforce=None if enforce_none else c, enforce_none=enforce_none, replace=replace, harness=harness, cbmc_flags=CAD, defines=self.defines)

    def targets(self, names, extras=True):
        out = []
        t = 'storage_' + self.tag
        for c in names:
            out.append(self.target(t + c, c, harness=HARNESS[c]() if c in HARNESS else None))
        if not extras:
            return out
        # owning = view with the view possibly INSIDE the owner's buffer (t = t.slice(b, e), t = std::as_const(t).slice(b, e)):
        # the storage operator and the tensor_t operator on top of it (callee inlined)
        for c, src in (('vs_assign_c', CS), ('vs_assign_m', MS)):
            out.append(self.target(f'{t}{c}_alias', c, harness=harness_assign_view(c, src), enforce_none=True, inline=True))
        # self-assignment of an owning storage (the strongest aliasing: source == destination)
        for c in ('vs_copy_assign', 'vs_move_assign'):
            h = (PRE + '  struct nv_vstore* self = malloc(sizeof(*self));\n  __CPROVER_assume(self != 0);\n'
                 '  self->base.m_dims = ds; self->m_data.n = ns; self->m_data.p = nv_alloc(ns);\n'
                 '  if (0 <= nv_g && nv_g < ns) nv_old_g = self->m_data.p[nv_g];\n'
                 f'  nv_thrown = 0;\n  struct nv_vstore* ret = {c}(self, self);\n'
                 '  __CPROVER_assert(ret == self, "self-assignment: returns *this");\n  NV_POST_OWNING(self, ds, ns, "self-assignment");\n' + CANARY)
            out.append(self.target(f'{t}{c}_self', c, harness=h, enforce_none=True, inline=True))
        for c, src in (('t_mem_assign_cmap', CS), ('t_mem_assign_map', MS)):
            out.append(self.target(f'{t}{c}_alias', c, harness=harness_assign_view(c, src, what='tensor_mem_t = view'), enforce_none=True, inline=True))
        return out


RANK1 = RankSpec(1)


def build(tier='quick'):
    out = RANK1.targets(list(FUNCS1))
    r2, r3 = RankSpec(2), RankSpec(3)
    if tier == 'thorough':
        out += r2.targets(list(FUNCS1)) + r3.targets(list(FUNCS1))
    else:
        out += r2.targets(QUICK_HIGHER, extras=False) + [r2.target('storage_r2_vs_assign_c_alias', 'vs_assign_c', harness=harness_assign_view('vs_assign_c', CS), enforce_none=True, inline=True)]
        # tensor_t::operator=(const tensor_t<other storage>&) at rank 2 with a source that may be a view of ALL the destination's own
        # elements under ANOTHER SHAPE (t = t.reshape(2, 6): same data(), same size(), different dims -- invisible at rank 1)
        out += [r2.target(f'storage_r2_{c}_alias', c, harness=harness_assign_view(c, src, what='tensor_mem_t = view'), enforce_none=True, inline=True)
                for c, src in (('t_mem_assign_cmap', CS), ('t_mem_assign_map', MS))]
        out += r3.targets(['vs_assign_c', 'vs_resize_dims', 'ms_copy_m'], extras=False)
    return out
