"""C16 extension, back end A (CBMC/DFCC): range.h, the pointer-arithmetic shell of the tensor.h views, remove_if with loop
contracts, the summed-area table with CBMC's conversion / overflow checks ON."""
import astload
from core import Fn, Target

TU = 'drivers/inst_tensor.cpp'
D = 'specs/C16/'


def range_targets():
    RT = [(r'^nano::tensor_range_t$', 'struct nv_range')]
    kw = dict(self_struct='struct nv_range', types=RT, flt='nano::')
    ctor = lambda: Fn('range_ctor', TU, 'tensor_range_t', select=lambda d: len(astload.param_types(d)) == 2, kinds=('CXXConstructorDecl',), **kw)
    mk = Fn('make_range', TU, 'make_range', types=RT, flt='nano::', calls=[(r'^ctor\|.*tensor_range_t', 'nv_range_make({0}, {1})')])
    out = [Target('range_ctor', [ctor()], D + 'range.h'), Target('make_range', [mk, ctor()], D + 'range.h', replace=['range_ctor'])]
    for n in ('begin', 'end', 'size', 'valid'):
        f = Fn('range_' + n, TU, n, select=lambda d: 'tensor_range_t' in d.get('mangledName', ''), **kw)
        out.append(Target('range_' + n, [f], D + 'range.h'))
    return out


def integral_targets():
    out = []
    for tag, cty, mang, absb in (('i8', 'int8_t', 'a', 128), ('i32', 'int32_t', 'i', 2147483648)):
        types = [(r'tensor_cmap_t<(signed char|int), 1|tensor_t<nano::tensor_carray_storage_t, (signed char|int), 1', 'struct nv_cin'),
                 (r'tensor_map_t<long, 1|tensor_t<nano::tensor_marray_storage_t, long, 1', 'struct nv_mout')]
        calls = [(r'^operator\(\)\|', '{0}.p[{1}]')]
        members = [(r'^size\|', '{*self}.n')]
        f = Fn('integral1_get', TU, 'get', flt='nano::', select=lambda d, m=mang: f'integral_tILm1EE3getI{m}lE' in d.get('mangledName', ''),
               types=types, calls=calls, members=members, uf_float=False)
        out.append(Target(f'integral1_get_{tag}_i64', [f], D + 'integral1.h', defines=[f'NV_IN={cty}', f'NV_IN_ABS={absb}']))
    return out


def remove_if_targets():
    T1 = [(r'tensor_t<nano::tensor_vector_storage_t, double, 1>', 'struct nv_t1d')]
    one = lambda d: 'tensor_vector_storage_tEdLm1' in d.get('mangledName', '') and 'marray' not in d.get('mangledName', '')
    det = lambda d: one(d) and 'detail' in d.get('mangledName', '')
    rm = Fn('remove_if', TU, 'remove_if', flt='nano::', select=one, types=T1 + [(r'nvdrv::op_t', 'struct nv_op')], ret='int64_t', uf_float=False,
            calls=[(r'^forward\|', '{0}'), (r'^size\|long \(const nano::tensor_t', 'detail_size'), (r'^copy\|', 'detail_copy'),
                   (r'^operator\(\)\|bool \(nvdrv::ts\) const', 'nv_op({1})')])
    sz = lambda: Fn('detail_size', TU, 'size', flt='nano::', select=det, types=T1, members=[(r'^size\|', '{*self}.n')], ret='int64_t')
    cp = lambda: Fn('detail_copy', TU, 'copy', flt='nano::', select=det, types=T1, calls=[(r'^operator\(\)\|', '{0}.p[{1}]')], uf_float=False)
    H = D + 'removeif.h'
    return [Target('remove_if', [rm, sz(), cp()], H, replace=['detail_size', 'detail_copy']),
            Target('detail_size', [sz()], H), Target('detail_copy', [cp()], H)]


def build():
    return range_targets() + integral_targets() + remove_if_targets()
