"""C16 extension, back end A (CBMC/DFCC): range.h, the pointer-arithmetic shell of the tensor.h views, remove_if with loop
contracts, the summed-area table with CBMC's conversion / overflow checks ON."""
import astload
from core import Fn, Target

TU = 'drivers/inst_tensor.cpp'
D = 'specs/C16/'


def range_targets():
    RT = [(r'^nano::tensor_range_t$', 'struct nv_range')]
    kw = dict(self_struct='struct nv_range', types=RT, flt='nano::')
    ctor = lambda: Fn('range_ctor', TU, 'tensor_range_t', select=lambda d: len(astload.param_types(d)) == 2, kinds=('CXXConstructorDecl',), **kw)
    mk = Fn('make_range', TU, 'make_range', types=RT, flt='nano::', calls=[(r'^ctor\|.*tensor_range_t', 'nv_range_make({0}, {1})')])
    out = [Target('range_ctor', [ctor()], D + 'range.h'), Target('make_range', [mk, ctor()], D + 'range.h', replace=['range_ctor'])]
    for n in ('begin', 'end', 'size', 'valid'):
        f = Fn('range_' + n, TU, n, select=lambda d: 'tensor_range_t' in d.get('mangledName', ''), **kw)
        out.append(Target('range_' + n, [f], D + 'range.h'))
    return out


def integral_targets():
    out = []
    for tag, cty, mang, absb in (('i8', 'int8_t', 'a', 128), ('i32', 'int32_t', 'i', 2147483648)):
        types = [(r'tensor_cmap_t<(signed char|int), 1|tensor_t<nano::tensor_carray_storage_t, (signed char|int), 1', 'struct nv_cin'),
                 (r'tensor_map_t<long, 1|tensor_t<nano::tensor_marray_storage_t, long, 1', 'struct nv_mout')]
        calls = [(r'^operator\(\)\|', '{0}.p[{1}]')]
        members = [(r'^size\|', '{*self}.n')]
        f = Fn('integral1_get', TU, 'get', flt='nano::', select=lambda d, m=mang: f'integral_tILm1EE3getI{m}lE' in d.get('mangledName', ''),
               types=types, calls=calls, members=members, uf_float=False)
        out.append(Target(f'integral1_get_{tag}_i64', [f], D + 'integral1.h', defines=[f'NV_IN={cty}', f'NV_IN_ABS={absb}']))
    return out


def remove_if_targets():
    T1 = [(r'tensor_t<nano::tensor_vector_storage_t, double, 1>', 'struct nv_t1d')]
    one = lambda d: 'tensor_vector_storage_tEdLm1' in d.get('mangledName', '') and 'marray' not in d.get('mangledName', '')
    det = lambda d: one(d) and 'detail' in d.get('mangledName', '')
    rm = Fn('remove_if', TU, 'remove_if', flt='nano::', select=one, types=T1 + [(r'nvdrv::op_t', 'struct nv_op')], ret='int64_t', uf_float=False,
            calls=[(r'^forward\|', '{0}'), (r'^size\|long \(const nano::tensor_t', 'detail_size'), (r'^copy\|', 'detail_copy'),
                   (r'^operator\(\)\|bool \(nvdrv::ts\) const', 'nv_op({1})')])
    sz = lambda: Fn('detail_size', TU, 'size', flt='nano::', select=det, types=T1, members=[(r'^size\|', '{*self}.n')], ret='int64_t')
    cp = lambda: Fn('detail_copy', TU, 'copy', flt='nano::', select=det, types=T1, calls=[(r'^operator\(\)\|', '{0}.p[{1}]')], uf_float=False)
    H = D + 'removeif.h'
    # the (rank 1, rank 2, rank 1) instantiation of solver/bundle.h: same loops, three tensors (expanded pack tensors_0..2)
    TY = [(r'tensor_t<nano::tensor_marray_storage_t, double, 1>', 'struct nv_t1d'), (r'tensor_t<nano::tensor_marray_storage_t, double, 2>', 'struct nv_t2d'),
          (r'nvdrv::op_t', 'struct nv_op')]
    tri = lambda d: 'marray' in d.get('mangledName', '')
    rm3f = lambda: Fn('remove_if', TU, 'remove_if', flt='nano::', select=tri, types=TY, ret='int64_t', uf_float=False,
             calls=[(r'^forward\|', '{0}'), (r'^size\|long \(const nano::tensor_t', 'detail_size'), (r'^copy\|.*double, 2> &\)', 'nv_copy_rows'),
                    (r'^copy\|', 'detail_copy'), (r'^operator\(\)\|bool \(nvdrv::ts\) const', 'nv_op({1})')])
    sz3 = lambda: Fn('detail_size', TU, 'size', flt='nano::', select=lambda d: tri(d) and 'detail' in d.get('mangledName', ''), types=TY,
                     members=[(r'^size\|', '{*self}.n')], ret='int64_t')
    cp3 = lambda: Fn('detail_copy', TU, 'copy', flt='nano::', select=lambda d: 'detail' in d.get('mangledName', '') and 'marray_storage_tEdLm1' in d.get('mangledName', ''),
                     types=TY, calls=[(r'^operator\(\)\|', '{0}.p[{1}]')], uf_float=False)
    return [Target('remove_if', [rm, sz(), cp()], H, replace=['detail_size', 'detail_copy']),
            Target('detail_size', [sz()], H), Target('detail_copy', [cp()], H),
            Target('detail_size_3', [sz3()], H, defines=['NV_TRIPLE', 'NV_TRK=tensors_0']), Target('detail_copy_marray', [cp3()], H, defines=['NV_TRIPLE', 'NV_TRK=tensors_0'])] + \
        [Target(f'remove_if_3_track{k}', [rm3f(), sz3(), cp3()], H, replace=['detail_size', 'detail_copy'], defines=['NV_TRIPLE', f'NV_TRK=tensors_{k}'])
         for k in (0, 1, 2)]


def smt2c(t):
    """an SMT-LIB term of the clause functions shared with the SMT side, printed as a C expression"""
    toks = t.replace('(', ' ( ').replace(')', ' ) ').split()
    pos = [0]

    def parse():
        tok = toks[pos[0]]
        pos[0] += 1
        if tok != '(':
            return tok
        out = []
        while toks[pos[0]] != ')':
            out.append(parse())
        pos[0] += 1
        return out

    def pr(e):
        if isinstance(e, str):
            return e
        op, args = e[0], [pr(a) for a in e[1:]]
        if op in ('and', 'or'):
            return '(' + (' && ' if op == 'and' else ' || ').join(args) + ')'
        if op == '=>':
            return f'(!{args[0]} || {args[1]})'
        if op == 'not':
            return f'(!{args[0]})'
        if op == '-' and len(args) == 1:
            return f'(-{args[0]})'
        if op in ('+', '-', '*', '<', '<=', '>', '>='):
            return '(' + f' {op} '.join(args) + ')'
        if op == '=':
            return f'({args[0]} == {args[1]})'
        raise ValueError(f'smt2c: operator {op}')
    return pr(parse())


def view_targets():
    """pointer shell of tvector / ttensor / tmatrix / tslice / operator()(index) for ranks 1..3: the callee facts are the
    clauses of tmodel.ens_view / ens_slice (the ones tspec.py proves), instantiated with the C names"""
    import tmodel
    H = D + 'views.h'
    types = [(r'tensor_t<nano::tensor_vector_storage_t, double, \d|tensor_base_t<double, \d|tensor_vector_storage_t<double, \d', 'struct nv_tens'),
             (r'Eigen::Map<', 'struct nv_vmap'), (r'tensor_map_t<double, \d|tensor_t<nano::tensor_marray_storage_t, double, \d', 'struct nv_tmap'),
             (r'tensor_dims_t<\d|std::array<long, \d', 'struct nv_dims')]
    members = [(r'^offset0\|', 'nv_offset0({self})'), (r'^rows\|', 'nv_rows({self})'), (r'^cols\|', 'nv_cols({self})'),
               (r'^dims\|', 'nv_dims_of({self})'), (r'^data\|', 'nv_data({self})')]
    out = []

    def sel(R, name, nparams):
        return lambda d: (f'vector_storage_tEdLm{R}EE' in d.get('mangledName', '') and f'{name}IPd' in d.get('mangledName', '')
                          and len(astload.param_types(d)) == nparams)
    for R in (1, 2, 3):
        P = ['self->size'] + ['nv_len'] * R            # only P_0 and P_m occur in the clauses used here
        for m in range(R):
            view = {'off': 'nv_off', 'len': 'nv_len'}
            clauses = tmodel.ens_view(P, ['0'] * m, view, 'view')[1:]      # length == P_m; 0 <= off and off + len <= P_0
            facts = smt2c(tmodel.AND(*[c for _, c in clauses]))
            for kind, mapfn in (('vector', [(r'^map_vector\|', 'nv_map_vector({0}, {1})'), (r'^size\|', 'nv_size_dims0()')]),
                                ('tensor', [(r'^map_tensor\|', 'nv_map_subtensor({0})')])):
                f = Fn(f't{kind}', TU, f't{kind}', flt='nano::', select=sel(R, f't{kind}', 1 + m), self_struct='struct nv_tens', types=types,
                       members=members, calls=mapfn, uf_float=False)
                out.append(Target(f't{kind}_ptr_r{R}_m{m}', [f], H, defines=['NV_SMT_FACTS=' + facts]))
        if R >= 2:
            view = {'off': 'nv_off', 'len': 'nv_len'}
            facts = smt2c(tmodel.AND(*[c for _, c in tmodel.ens_view(P, ['0'] * (R - 2), view, 'view')[1:]] +
                                     []))
            f = Fn('tmatrix', TU, 'tmatrix', flt='nano::', select=sel(R, 'tmatrix', R - 1), self_struct='struct nv_tens', types=types,
                   members=members, calls=[(r'^map_matrix\|', 'nv_map_matrix({0}, {1}, {2})')], uf_float=False)
            out.append(Target(f'tmatrix_ptr_r{R}_m{R - 2}', [f], H, defines=['NV_SMT_FACTS=' + facts]))
        # tslice: offset0(begin) and the slice extent (end - begin) * P_1 inside [0, P_0]
        class W:      # the two accessors ens_slice needs, over the C names
            def P(self, tid):
                return ['self->size', 'nv_len'] + ['1'] * (R - 1)

            def dim(self, tid, k):
                return f'nv_d[{k}]'
        res = {'off': 'nv_off', 'dims': ['(- end begin)'] + [f'nv_d[{k}]' for k in range(1, R)]}
        cl = tmodel.ens_slice(W(), 'self', 'begin', 'end', res)
        # slice inside the buffer; the assert in tslice.  The product (end - begin) * P_1 is NAMED nv_ext on the C side
        facts = smt2c(tmodel.AND(cl[-1][1].replace('(* (- end begin) nv_len)', 'nv_ext'), '(and (<= 0 begin) (<= begin end))'))
        f = Fn('tslice', TU, 'tslice', flt='nano::', select=sel(R, 'tslice', 3), self_struct='struct nv_tens', types=types,
               members=members + [(r'^size\|.*\|<0>', '(nv_d[0])'), (r'^size\|', '{self}->size')],
               calls=[(r'^map_tensor\|', 'nv_map_slice({0}, {1}, begin, end)'), (r'^operator\[\]\|', '{0}.d[{1}]')], uf_float=False)
        # offset0(begin) = begin * P_1 and P_0 = dims[0] * P_1 (the SMT-side definitions): an empty slice at the very end has
        # offset P_0 = size(); the library computes that case as size() instead of calling offset0 (whose own assert wants a
        # valid first index)
        facts += '&&(end<=nv_d[0])&&(begin!=nv_d[0]||nv_off==self->size)'
        out.append(Target(f'tslice_ptr_r{R}', [f], H, defines=['NV_SMT_FACTS=' + facts]))
        at = Fn('at', TU, 'operator()', flt='nano::', select=lambda d, R=R: d.get('mangledName', '') == f'_ZN4nano8tensor_tINS_23tensor_vector_storage_tEdLm{R}EEclEl',
                self_struct='struct nv_tens', types=types, members=members, uf_float=False, ret='double&')
        out.append(Target(f'at_ptr_r{R}', [at], H))
    return out


def build():
    return range_targets() + integral_targets() + remove_if_targets() + view_targets()
