"""C16, back end B: abstract model of libnano tensors for the symbolic executor nvwp -- used for the functions of
include/nano/tensor/{base,tensor,storage}.h that USE the dims.h index arithmetic.

Nothing here re-types library code.  A tensor object is abstracted to what the property talks about: WHICH elements of
WHICH buffer it addresses.

    Tensor   V(id, 'Tensor', rank)     wp.tens[id] = {dims: name of the std::array model holding m_dims, buf, off}
    Ptr      V(off, 'Ptr', buf)        a scalar pointer: element offset `off` (an Int term) into the buffer `buf`
    View     V(_, 'View', {...})       an Eigen::Map: buffer, offset, length (rows, cols for a matrix map)
    Elem     V(off, 'Elem', buf)       a reference to one element of a buffer
    Array    V(name, 'Array', n)       a std::array<tensor_size_t, n> (wplib), elements in env['name.k']

The suffix products of a dims array are the spec functions P_k of specs/C16/spec.py.  For the symbolic input tensors they
are constants tied together by P_k = d_k * P_{k+1} (tensor invariant: every extent >= 0, every suffix product <= 2^62);
for arrays built by the code (dims0(..), a copy of dims() with element 0 overwritten, make_dims(sizes...)) `chain()`
re-uses the P_k of the array they share a suffix with and multiplies the remaining leading elements explicitly.

Callee contracts: every handler below obliges the callee's precondition at the call site and assumes EXACTLY the clauses
that are proved for that callee elsewhere in this check (the clause lists are shared python functions: `ens_index`,
`ens_index0`, `ens_view`, ...).  The assertions the library compiles out under NDEBUG (index in range, slice range,
reshape size, Eigen's size checks on Map assignment) are obligations of the call sites.
"""
import re

import astload
import nvwp
from nvwp import V, AND, OR, NOT, IMP, ITE, lit, Unsupported
from cxx2c import unwrap, strip_cv, qual, TRANSPARENT, CAST_KINDS
from wplib import IdEnvWP, array_len, declare_array, decl_array_hook

BOUND = 2 ** 62
TENSOR_T = r'tensor_(t|base_t|mem_t|map_t|cmap_t|vector_storage_t|marray_storage_t|carray_storage_t)\b|indices_(c?map_)?t\b'


def _is_iter_arith(wp, n):
    return n.get('kind') == 'BinaryOperator' and n.get('opcode') in ('+', '-') and 'iterator' in (qual(n.get('type')) + n.get('type', {}).get('qualType', ''))


def look(n):
    """look through casts, temporaries, parens and one-argument copy constructions"""
    while True:
        n = unwrap(n)
        if n.get('kind') in TRANSPARENT and n.get('inner'):
            n = n['inner'][0]
            continue
        if n.get('kind') in CAST_KINDS and n.get('inner') and n.get('castKind') not in nvwp_arith_casts():
            n = n['inner'][0]
            continue
        if n.get('kind') == 'CXXConstructExpr' and len(n.get('inner', [])) == 1:
            n = n['inner'][0]
            continue
        return n


def nvwp_arith_casts():
    return ('IntegralCast', 'FloatingToIntegral', 'IntegralToFloating', 'FloatingCast', 'IntegralToBoolean',
            'FloatingToBoolean', 'BooleanToSignedIntegral')


def plus(*ts):
    ts = [t for t in ts if t != '0']
    if not ts:
        return '0'
    return ts[0] if len(ts) == 1 else '(+ ' + ' '.join(ts) + ')'


def times(a, b):
    if a == '1':
        return b
    if b == '1':
        return a
    return f'(* {a} {b})'


class TWP(IdEnvWP):
    def __init__(self, name, **kw):
        super().__init__(name, calls=CALLS, members=MEMBERS, hooks=[lambda wp, n: iter_hook(wp, n) if _is_iter_arith(wp, n) else None, expr_hook], **kw)
        self.decl_hooks = (decl_hook, decl_array_hook)
        self.stmt_hooks = ()
        self.tens = {}        # tensor id -> {'dims': array name, 'buf': buffer id, 'off': Int term}
        self.bufsize = {}     # buffer id -> Int term (number of elements)
        self.bases = []       # (array name, [element terms], [P_0 .. P_R]) of the symbolic dims with named suffix products
        self.ntmp = 0
        self.ghost = {}

    def tmp(self, hint='tmp'):
        self.ntmp += 1
        return f'{hint}#{self.ntmp}'

    def source_of(self, node):
        txt = astload.node_source(node)
        return txt if txt is not None else super().source_of(node)

    # -- ghost state: which row copies were performed
    def ghost_init(self):
        self.events = []
        for k in ('ghost.rows', 'ghost.dst', 'ghost.src', 'ghost.len', 'ghost.idx', 'ghost.idx_pos', 'ghost.alloc',
                  'ghost.gets', 'ghost.adds', 'ghost.get_in', 'ghost.get_out', 'ghost.add_dst', 'ghost.add_src', 'ghost.add_len'):
            self.env[k] = V('0', 'Int', 'long')
        self.env['ghost.cell'] = V('0', 'Int', 'long')
        self.copy_bufs = None
        self.last_read = None
        # gather at a ghost position (indexed): G = an arbitrary output row (UNCONSTRAINED), IG = the value the index list holds at G;
        # ghost.gsrc = the row of this tensor that output row G holds (-1: nothing copied there yet); gdst = the buffer gathered into
        self.track_gather = False
        self.G = self.const('ghost_G', 'Int', 'long').t
        self.IG = self.const('ghost_IG', 'Int', 'long').t
        self.env['ghost.gsrc'] = V('(- 1)', 'Int', 'long')
        self.gdst = None
        self.idx_reads = []       # (position term, value term) of every read of the index list (the list is constant: a function)

    def ghost_set(self, key, term):
        self.env[key] = V(term, 'Int', 'long')

    def ghost_bump(self, key):
        if key in self.env:
            self.env[key] = V(f'(+ {self.env[key].t} 1)', 'Int', 'long')

    def record_copy(self, dbuf, doff, sbuf, soff, ln, drow=None, srow=None, whole=None, rowcond='true'):
        self.ghost_bump('ghost.rows')
        self.ghost_set('ghost.dst', doff)
        self.ghost_set('ghost.src', soff)
        self.ghost_set('ghost.len', ln)
        self.copy_bufs = (dbuf, sbuf)
        if self.track_gather:
            # which row of this tensor does output row G hold afterwards?  Known (linear) cases only: one first-axis row copied to
            # one first-axis row (`drow`, `srow`: recorded by c_view / elem_access from the proved clauses), or a copy of ALL the
            # coefficients of this tensor, in order, to the start of an output with the same row shape (`whole` = number of rows)
            old = self.env['ghost.gsrc'].t
            if sbuf != 'self' or self.gdst not in (None, dbuf):
                raise Unsupported(f'{self.name}: gather: copy between other buffers than this tensor and the one output')
            self.gdst = dbuf
            if drow is not None and srow is not None:
                upd = f'(ite (= {drow} {self.G}) {srow} {old})'
                if rowcond != 'true':      # the rows are first-axis rows only under `rowcond`: otherwise nothing is known afterwards
                    upd = f'(ite {rowcond} {upd} {self.fresh("Int", "unknown_row", "long").t})'
                self.ghost_set('ghost.gsrc', upd)
            elif whole is not None:
                self.ghost_set('ghost.rows', f'(+ {self.env["ghost.rows"].t} (- {whole} 1))')      # `whole` rows written by this one copy
                self.ghost_set('ghost.gsrc', f'(ite (and (<= 0 {self.G}) (< {self.G} {whole})) {self.G} {old})')
            else:
                raise Unsupported(f'{self.name}: gather: a copy that is neither row-to-row nor the whole tensor')

    def oblige_indices(self, n):
        """indexed(...) requires every index to lie in [0, dims[0]): the values of the index list are not tracked, the
        requirement is passed on unchanged from the caller's own (identical) precondition"""
        self.note('indices precondition passed through')

    # -- range-based for over a std::array of known length: exactly N iterations, the loop variable is the element
    def loop(self, n):
        if n['kind'] == 'CXXForRangeStmt':
            inner = n['inner']
            rng = [x for x in inner[1].get('inner', []) if x.get('kind') == 'VarDecl'][0]
            src = look(rng['inner'][0])
            if src.get('kind') == 'DeclRefExpr':
                key = self.idmap.get(src['referencedDecl'].get('id'), src['referencedDecl']['name'])
                arr = self.env.get(key)
                if arr is not None and arr.s == 'Array':
                    var = [x for x in inner[6].get('inner', []) if x.get('kind') == 'VarDecl'][0]
                    if not var['type'].get('qualType', '').rstrip().endswith('&'):
                        raise Unsupported(f'{self.name}: range-for over an array with a by-value loop variable')
                    self.note('range-for over std::array unrolled')
                    for k in range(arr.c):
                        self.idmap[var['id']] = f'{key}.{k}'     # `auto& dim`: the loop variable IS element k
                        self.ex(inner[7])
                        if self.guard == 'false':
                            break
                    self.idmap.pop(var['id'], None)
                    return
        return super().loop(n)

    def assign(self, lhs, v):
        if self.loc(lhs) == 'ghost.cell':
            return               # element values are not tracked; the write itself was recorded by the access handler
        return super().assign(lhs, v)

    def loc_static(self, n):
        u = unwrap(n)
        if u.get('kind') in ('CXXOperatorCallExpr', 'CXXMemberCallExpr'):
            return 'ghost.cell'      # t(i) = ..: an element write, tracked by the ghost copy record (havocked at loop heads)
        return super().loc_static(n)

    # -- arrays and their suffix products
    def elems(self, arr):
        return [self.env[f'{arr}.{k}'].t for k in range(self.env[arr].c)]

    def chain(self, arr):
        """[P_0 .. P_n] of the array `arr` as terms: named constants where a suffix is shared with a symbolic dims"""
        els = self.elems(arr)
        n = len(els)
        out = [None] * (n + 1)
        out[n] = '1'
        for k in range(n - 1, -1, -1):
            hit = None
            for _, bels, bP in self.bases:
                j = len(bels) - (n - k)
                if j >= 0 and bels[j:] == els[k:]:
                    hit = bP[j]
                    break
            out[k] = hit if hit is not None else times(els[k], out[k + 1])
        return out

    def is_base_term(self, t):
        return any(t in bP for _, _, bP in self.bases) or t == '1'

    def sym_dims(self, arr, R, tag):
        """symbolic dims with the tensor invariant: every extent >= 0, every suffix product in [0, 2^62]"""
        declare_array(self, arr, R)
        P = [self.const(f'P{tag}{k}', 'Int', 'long').t for k in range(R + 1)]
        self.assume(f'(= {P[R]} 1)')
        for k in range(R):
            d = self.env[f'{arr}.{k}'].t
            self.assume(f'(>= {d} 0)')
            self.assume(f'(= {P[k]} (* {d} {P[k + 1]}))')
            self.assume(f'(and (<= 0 {P[k]}) (<= {P[k]} {BOUND}))')
        self.bases.append((arr, self.elems(arr), P))
        return P

    def sym_tensor(self, tid, R, tag=''):
        """a symbolic tensor: symbolic dims; its data pointer is the start of a buffer of exactly size() elements"""
        arr = f'{tid}.m_dims'
        P = self.sym_dims(arr, R, tag)
        self.tens[tid] = {'dims': arr, 'buf': tid, 'off': '0'}
        self.bufsize[tid] = P[0]
        self.env[tid] = V(tid, 'Tensor', R)
        return P

    def new_array(self, terms, hint='arr'):
        nm = self.tmp(hint)
        self.env[nm] = V(nm, 'Array', len(terms))
        for k, t in enumerate(terms):
            self.env[f'{nm}.{k}'] = V(t, 'Int', 'long')
        return nm

    def new_tensor(self, terms, buf, off, hint='map'):
        tid = self.tmp(hint)
        arr = f'{tid}.m_dims'
        self.env[arr] = V(arr, 'Array', len(terms))
        for k, t in enumerate(terms):
            self.env[f'{arr}.{k}'] = V(t, 'Int', 'long')
        self.tens[tid] = {'dims': arr, 'buf': buf, 'off': off}
        self.env[tid] = V(tid, 'Tensor', len(terms))
        return self.env[tid]

    def P(self, tid):
        return self.chain(self.tens[tid]['dims'])

    def dim(self, tid, k):
        return self.env[f'{self.tens[tid]["dims"]}.{k}'].t

    # -- values
    def arr_of(self, node):
        n = look(node)
        if n.get('kind') == 'DeclRefExpr':
            key = self.idmap.get(n['referencedDecl'].get('id'), n['referencedDecl']['name'])
            v = self.env.get(key)
        elif n.get('kind') == 'MemberExpr':
            v = self.env.get(self.member_name(n))
        else:
            v = self.ev(n)
        if v is None or v.s != 'Array':
            raise Unsupported(f'{self.name}: expression of kind {n.get("kind")} does not denote a dims array')
        return v.t

    def tensor_of(self, node):
        n = look(node)
        if n.get('kind') == 'CXXThisExpr':
            return 'self'
        v = self.ev(n)
        if v is None or v.s != 'Tensor':
            raise Unsupported(f'{self.name}: expression of kind {n.get("kind")} does not denote a modelled tensor')
        return v.t

    def ints(self, nodes):
        out = []
        for a in nodes:
            v = self.ev(a)
            if v.s != 'Int':
                raise Unsupported(f'{self.name}: index argument of sort {v.s}')
            out.append(v)
        return out

    def member_name(self, n):
        base = look(n['inner'][0])
        if base.get('kind') == 'CXXThisExpr':
            return 'self.' + n['name']
        if base.get('kind') == 'DeclRefExpr':
            key = self.idmap.get(base['referencedDecl'].get('id'), base['referencedDecl']['name'])
            return key + '.' + n['name']
        raise Unsupported('member access on ' + str(base.get('kind')))


# --------------------------------------------------------------------------------------------- spec functions
def F(P, k, idx):
    """row-major offset of the index suffix (i_k, ..) over the suffix products P"""
    return plus(*[f'(* {i} {P[k + j + 1]})' for j, i in enumerate(idx)])


def ens_index(P, idx, r):
    """nano::index / tensor_base_t::offset (proved: index<R>, offset<R>)"""
    return [('offset == row-major formula F_0', f'(= {r} {F(P, 0, idx)})'),
            ('0 <= offset < size', f'(and (<= 0 {r}) (< {r} {P[0]}))')]


def ens_index0(P, idx, r):
    """nano::index0 / tensor_base_t::offset0 (proved: index0<R>/m, offset0<R>/m)"""
    m = len(idx)
    out = [('offset0(prefix) == index(prefix, 0, .., 0)', f'(= {r} {F(P, 0, idx)})')]
    out.append(('the addressed block [offset0, offset0 + P_m) lies inside [0, size)',
                f'(and (<= 0 {r}) (<= (+ {r} {P[m]}) {P[0]}))' if m > 0 else f'(= {r} 0)'))
    return out


def in_box(wp, arr, idx, k0=0):
    return [f'(and (<= 0 {v}) (< {v} {wp.env[f"{arr}.{k0 + j}"].t}))' for j, v in enumerate(idx)]


def oblige_invariant(wp, arr, n, what):
    """tensor invariant of a dims array passed to a dims.h function: extents >= 0, suffix products in [0, 2^62]
    (trivial -- and skipped -- for the symbolic dims, whose invariant is the stated assumption)"""
    P = wp.chain(arr)
    els = wp.elems(arr)
    for k in range(len(els)):
        if wp.is_base_term(P[k]):
            continue
        wp.oblige(f'callee {what} precondition: extent {k} >= 0 and suffix product {k} in [0, 2^62]',
                  f'(and (>= {els[k]} 0) (<= 0 {P[k]}) (<= {P[k]} {BOUND}))', n)
    return P


# --------------------------------------------------------------------------------------------- dims.h callees
def h_index(wp, n, args, callee):
    arr = wp.arr_of(args[0])
    idx = [v.t for v in wp.ints(args[1:])]
    if len(idx) != wp.env[arr].c:
        raise Unsupported('index with a partial index tuple')
    P = oblige_invariant(wp, arr, n, 'index')
    for j, c in enumerate(in_box(wp, arr, idx)):
        wp.oblige(f'callee index precondition: index {j} in range', c, n)
    r = wp.fresh('Int', 'index', 'long')
    for _, c in ens_index(P, idx, r.t):
        wp.assume(c)
    return r


def ens_index0_end(P, idx, r):
    """END-INCLUSIVE contract of index0(dims, i) / offset0(i) for 0 <= i <= dims[0] (proved: index0<R>/1 end-inclusive,
    offset0<R>/1 end-inclusive): tslice(begin, end) calls offset0(begin) with begin == dims[0] for an empty slice at the end"""
    return [('offset0(i) == i * P_1', f'(= {r} {F(P, 0, idx)})'), ('0 <= offset0(i) <= size', f'(and (<= 0 {r}) (<= {r} {P[0]}))')]


def index0_contract(wp, arr, P, idx, n, nm):
    """call-site contract of index0 / offset0.  With exactly one index the arithmetic contract is the end-inclusive one
    (0 <= i <= dims[0]) and the code's own assert i < dims[0] (get_index0, compiled out under NDEBUG) is a SEPARATE
    obligation, so that a caller passing i == dims[0] is reported for exactly that"""
    r = wp.fresh('Int', nm, 'long')
    if len(idx) == 1:
        d0 = wp.env[f'{arr}.0'].t
        wp.oblige(f'callee {nm} precondition: 0 <= index <= dims[0]', f'(and (<= 0 {idx[0]}) (<= {idx[0]} {d0}))', n)
        if not getattr(wp, 'end_inclusive', False):     # (the end-inclusive contract of offset0 itself forwards i <= dims[0])
            wp.oblige(f'callee {nm} ASSERTED precondition (assert in get_index0, debug builds): index < dims[0]', f'(< {idx[0]} {d0})', n)
        for _, c in ens_index0_end(P, idx, r.t):
            wp.assume(c)
        for _, c in ens_index0(P, idx, r.t):
            wp.assume(IMP(f'(< {idx[0]} {d0})', c))
        return r
    for j, c in enumerate(in_box(wp, arr, idx)):
        wp.oblige(f'callee {nm} precondition: index {j} in range', c, n)
    for _, c in ens_index0(P, idx, r.t):
        wp.assume(c)
    return r


def h_index0(wp, n, args, callee):
    arr = wp.arr_of(args[0])
    idx = [v.t for v in wp.ints(args[1:])]
    P = oblige_invariant(wp, arr, n, 'index0')
    return index0_contract(wp, arr, P, idx, n, 'index0')


def h_dims0(wp, n, args, callee):
    """dims0(dims, prefix...) == dims[m:]   (proved: dims0<R>/m)"""
    arr = wp.arr_of(args[0])
    m = len(args) - 1
    wp.ints(args[1:])
    nm = wp.new_array(wp.elems(arr)[m:], 'dims0')
    return wp.env[nm]


def h_size(wp, n, args, callee):
    """nano::size(dims) == product of the extents, for extents of either sign, provided every suffix product lies in
    [-2^62, 2^62]   (proved: size<R>/signed, product<k,R>/signed)"""
    arr = wp.arr_of(args[0])
    P = wp.chain(arr)
    for k in range(len(P) - 1):
        if not wp.is_base_term(P[k]):
            wp.oblige(f'callee size precondition: suffix product {k} in [-2^62, 2^62]',
                      f'(and (<= {lit(-BOUND)} {P[k]}) (<= {P[k]} {BOUND}))', n)
    return V(P[0], 'Int', 'long')


def h_make_dims(wp, n, args, callee):
    """make_dims(sizes...) is the array of its arguments   (proved: make_dims<N> for N = 1..5, specs/C16/spec.py)"""
    if not (1 <= len(args) <= 5):
        raise Unsupported(f'make_dims with {len(args)} sizes: outside the proved instantiations')
    return wp.env[wp.new_array([v.t for v in wp.ints(args)], 'make_dims')]


def h_dims_cmp(neg):
    def h(wp, n, args, callee):
        a, b = wp.arr_of(args[0]), wp.arr_of(args[1])
        ea, eb = wp.elems(a), wp.elems(b)
        if len(ea) != len(eb):
            raise Unsupported('comparison of dims of different rank')
        t = AND(*[f'(= {x} {y})' for x, y in zip(ea, eb)])
        return V(NOT(t) if neg else t, 'Bool', 'bool')
    return h


def h_array_assign(wp, n, args, callee):
    """std::array copy assignment: element-wise (TRUSTED: implicit copy assignment of an aggregate)"""
    dst, src = wp.arr_of(args[0]), wp.arr_of(args[1])
    if wp.env[dst].c != wp.env[src].c:
        raise Unsupported('assignment between arrays of different length')
    for k, t in enumerate(wp.elems(src)):
        wp.env[f'{dst}.{k}'] = V(t, 'Int', 'long')
    return wp.env[dst]


def h_array_subscript(wp, n, args, callee):
    arr = wp.arr_of(args[0])
    i = wp.ev(args[1])
    if not re.fullmatch(r'\d+', i.t):
        raise Unsupported('std::array subscript with a non-constant index')
    k = int(i.t)
    if not (0 <= k < wp.env[arr].c):
        wp.oblige('std::array subscript in range', 'false', n)
        raise Unsupported('std::array subscript out of range')
    key = f'{arr}.{k}'
    return key if wp.want_loc else wp.env[key]


# --------------------------------------------------------------------------------------------- Eigen / map_* callees
def ptr_arg(wp, node):
    v = wp.ev(node)
    if v.s != 'Ptr':
        raise Unsupported(f'{wp.name}: pointer argument of sort {v.s}')
    return v


def h_map_vector(wp, n, args, callee):
    p = ptr_arg(wp, args[0])
    ln = wp.ints(args[1:2])[0]
    return V(wp.tmp('vec'), 'View', {'buf': p.c, 'off': p.t, 'len': ln.t})


def h_map_matrix(wp, n, args, callee):
    p = ptr_arg(wp, args[0])
    r, c = wp.ints(args[1:3])
    return V(wp.tmp('mat'), 'View', {'buf': p.c, 'off': p.t, 'len': f'(* {r.t} {c.t})', 'rows': r.t, 'cols': c.t})


def h_map_tensor(wp, n, args, callee):
    p = ptr_arg(wp, args[0])
    arr = wp.arr_of(args[1])
    return wp.new_tensor(wp.elems(arr), p.c, p.t)


def expr_hook(wp, n):
    k = n.get('kind')
    if k == 'CXXThisExpr':
        return wp.env['self'] if 'self' in wp.env else None
    if k == 'BinaryOperator' and n.get('opcode') in ('+', '-') and qual(n.get('type')).rstrip().endswith('*'):
        p = wp.ev(n['inner'][0])
        d = wp.ev(n['inner'][1])
        if p.s != 'Ptr' or d.s != 'Int':
            raise Unsupported('pointer arithmetic on unmodelled operands')
        t = f'({n["opcode"]} {p.t} {d.t})' if p.t != '0' or n['opcode'] == '-' else d.t
        # [expr.add]: the result must point into the array object or one past its last element
        wp.oblige('pointer arithmetic stays inside the buffer (or one past its end)',
                  f'(and (<= 0 {t}) (<= {t} {wp.bufsize[p.c]}))', n)
        return V(t, 'Ptr', p.c)
    if k == 'ArraySubscriptExpr':
        p = wp.ev(n['inner'][0])
        i = wp.ev(n['inner'][1])
        if p.s != 'Ptr' or i.s != 'Int':
            raise Unsupported('subscript on unmodelled operands')
        t = plus(p.t, i.t)
        wp.oblige('subscripted element lies inside the buffer', f'(and (<= 0 {t}) (< {t} {wp.bufsize[p.c]}))', n)
        return V(t, 'Elem', p.c)
    if k in ('CXXConstructExpr', 'CXXTemporaryObjectExpr') and not n.get('inner') and re.search(TENSOR_T, qual(n.get('type'))):
        R = rank_of(n['type'])
        # tensor_base_t(): m_dims.fill(0); an owning storage with no elements
        t = wp.new_tensor(['0'] * R, None, '0', 'tensor')
        wp.tens[t.t]['buf'] = t.t
        wp.bufsize[t.t] = '0'
        return t
    return None


def rank_of(t):
    for q in (t.get('qualType', ''), t.get('desugaredQualType', '')):
        m = re.search(r'(?:double|long|int|signed char|float|char|short)\s*,\s*(\d+)(?:UL|U|L)*\s*>', q)
        if m:
            return int(m.group(1))
    raise Unsupported(f'cannot read the rank of {t}')


def decl_hook(wp, v, init):
    """locals of class type: dims arrays built from calls, tensors"""
    t = v['type']
    q = qual(t) + ' ' + t.get('qualType', '')
    if array_len(t) is not None or 'tensor_dims_t' in q or re.search(r'std::array<long', q):
        if init:
            src = look(init[0])
            if src.get('kind') in ('CallExpr', 'CXXMemberCallExpr'):
                a = wp.ev(src)
                if a.s != 'Array':
                    raise Unsupported('dims initialiser is not an array')
                nm = v['name']
                wp.env[nm] = V(nm, 'Array', a.c)
                for k in range(a.c):
                    wp.env[f'{nm}.{k}'] = wp.env[f'{a.t}.{k}']
                return True
        return False
    if re.search(TENSOR_T, q) and init:
        val = wp.ev(look(init[0]))
        if val.s == 'Tensor':
            wp.env[v['name']] = val
            return True
    if re.search(r'Eigen::Map<', q) and init:
        # `auto m = t.matrix();` / `t.vector(i)`: a local Eigen::Map is the view itself (pointer + shape; no coefficients of its own)
        val = wp.ev(look(init[0]))
        if val.s == 'View':
            wp.env[v['name']] = val
            return True
    return False


# --------------------------------------------------------------------------------------------- tensor member contracts
def ens_view(P, idx, view, kind):
    """vector(prefix) / tensor(prefix) / matrix(prefix): the view is data() + offset0(prefix), it spans exactly
    size(dims0(prefix)) = P_m elements and lies inside the buffer"""
    m = len(idx)
    return [(f'{kind} starts at data() + offset0(prefix) = data() + F_0(prefix)', f'(= {view["off"]} {F(P, 0, idx)})'),
            (f'{kind} spans size(dims0(prefix)) = P_{m} elements', f'(= {view["len"]} {P[m]})'),
            (f'{kind} lies inside the buffer', f'(and (<= 0 {view["off"]}) (<= (+ {view["off"]} {view["len"]}) {P[0]}))')]


def c_offset(wp, tid, idx, n, zero):
    arr = wp.tens[tid]['dims']
    P = wp.P(tid)
    if zero:
        return index0_contract(wp, arr, P, idx, n, 'offset0')
    for j, c in enumerate(in_box(wp, arr, idx)):
        wp.oblige(f'callee offset precondition: index {j} in range', c, n)
    r = wp.fresh('Int', 'offset', 'long')
    for _, c in ens_index(P, idx, r.t):
        wp.assume(c)
    return r


def c_view(wp, tid, ptr, idx, n, kind):
    """contract of tvector / ttensor / tmatrix(ptr, prefix...) and of their public wrappers (ptr == data())"""
    T = wp.tens[tid]
    arr = T['dims']
    P = wp.P(tid)
    R = wp.env[arr].c
    m = len(idx)
    if kind == 'matrix' and m != R - 2 or m >= R:
        raise Unsupported(f'{kind} with {m} indices on rank {R}')
    for j, c in enumerate(in_box(wp, arr, idx)):
        wp.oblige(f'callee {kind} precondition: index {j} in range', c, n)
    if ptr is not None and (ptr.c != T['buf'] or ptr.t != T['off']):
        wp.oblige(f'callee t{kind} precondition: ptr == data()', 'false', n)
    off = wp.fresh('Int', f'{kind}_off', 'long')
    view = {'buf': T['buf'], 'off': plus(T['off'], off.t), 'len': P[m]}
    rel = {'off': off.t, 'len': P[m]}
    for _, c in ens_view(P, idx, rel, kind):
        wp.assume(c)
    if m == 1:
        view['row'] = idx[0]          # a first-axis row view remembers WHICH row it is (by the proved clause: data() + row * P_1)
    if m == 0 and T['off'] == '0':
        view['whole'] = tid           # vector(): ALL the coefficients of the tensor, in order (by the proved clause: data() + 0, P_0 elements)
    if kind == 'tensor':
        t = wp.new_tensor(wp.elems(arr)[m:], T['buf'], view['off'])
        if m == 1:
            wp.tens[t.t]['row'] = idx[0]
        return t
    if kind == 'matrix':
        view['rows'], view['cols'] = wp.dim(tid, R - 2), wp.dim(tid, R - 1)
        if m == 0 and T.get('rows_of'):
            view['rows_of'] = T['rows_of']      # (original tensor, condition): matrix row k is first-axis row k of that tensor
    return V(wp.tmp(kind), 'View', view)


def ens_slice(wp, tid, b, e, res):
    """tslice(ptr, b, e) / slice(b, e): rows [b, e) of the first axis"""
    P = wp.P(tid)
    R = len(P) - 1
    out = [('slice starts at data() + offset0(begin) = data() + begin * P_1', f'(= {res["off"]} (* {b} {P[1]}))'),
           ('slice dims[0] == end - begin', f'(= {res["dims"][0]} (- {e} {b}))')]
    for k in range(1, R):
        out.append((f'slice dims[{k}] == dims[{k}]', f'(= {res["dims"][k]} {wp.dim(tid, k)})'))
    out.append(('slice lies inside the buffer: offset0(begin) + (end - begin) * P_1 <= size',
                f'(and (<= 0 {res["off"]}) (<= (+ {res["off"]} (* (- {e} {b}) {P[1]})) {P[0]}))'))
    return out


def c_slice(wp, tid, ptr, b, e, n):
    T = wp.tens[tid]
    P = wp.P(tid)
    R = len(P) - 1
    wp.oblige('callee slice precondition: 0 <= begin <= end <= dims[0]', f'(and (<= 0 {b}) (<= {b} {e}) (<= {e} {wp.dim(tid, 0)}))', n)
    if ptr is not None and (ptr.c != T['buf'] or ptr.t != T['off']):
        wp.oblige('callee tslice precondition: ptr == data()', 'false', n)
    off = wp.fresh('Int', 'slice_off', 'long')
    d0 = wp.fresh('Int', 'slice_d0', 'long')
    dims = [d0.t] + [wp.dim(tid, k) for k in range(1, R)]
    for _, c in ens_slice(wp, tid, b, e, {'off': off.t, 'dims': dims}):
        wp.assume(c)
    return wp.new_tensor(dims, T['buf'], plus(T['off'], off.t), 'slice')


def reshape_cases(N):
    return [None] + list(range(N))


def pre_reshape(wp, tid, sizes, j):
    """precondition of reshape(sizes...) in the case `the -1 sits at position j` (j None: no -1): every other size is
    >= 0; the requested shape (with the -1 read as 1) satisfies the tensor invariant; without a -1 the sizes multiply to
    size(); with a -1 the product M of the others is non-zero (else the code divides by zero) and divides size() (else
    the code's assert fails).  Returns M."""
    P0 = wp.P(tid)[0]
    N = len(sizes)
    out = []
    for k, s in enumerate(sizes):
        out.append(f'(= {s} (- 1))' if k == j else f'(>= {s} 0)')
    others = [s for k, s in enumerate(sizes) if k != j]
    # suffix products of the requested shape with the -1 read as 1
    M = ['1'] * (N + 1)
    for k in range(N - 1, -1, -1):
        M[k] = M[k + 1] if k == j else times(sizes[k], M[k + 1])
        out.append(f'(<= {M[k]} {BOUND})')
    if j is None:
        out.append(f'(= {M[0]} {P0})')
    else:
        out.append(f'(> {M[0]} 0)')
        out.append(f'(= (mod {P0} {M[0]}) 0)')
    return out, M[0]


def ens_reshape(wp, tid, sizes, j, M0, res):
    P0 = wp.P(tid)[0]
    N = len(sizes)
    out = [('reshape keeps the data pointer', f'(= {res["off"]} 0)')]
    for k in range(N):
        if k == j:
            out.append((f'the -1 at position {k} is inferred as size() divided by the product of the other sizes', f'(= {res["dims"][k]} (div {P0} {M0}))'))
        else:
            out.append((f'reshape dims[{k}] == sizes[{k}]', f'(= {res["dims"][k]} {sizes[k]})'))
    out.append(('every resulting extent is >= 0', AND(*[f'(>= {d} 0)' for d in res['dims']])))
    prod = '1'
    for d in reversed(res['dims']):
        prod = times(d, prod)
    out.append(('the resulting extents multiply to size() (the assert in the code)', f'(= {prod} {P0})'))
    return out


def c_reshape(wp, tid, ptr, sizes, n):
    """call-site contract of treshape / reshape: the case split on the position of the -1 is expressed by guards"""
    T = wp.tens[tid]
    N = len(sizes)
    cases = []
    for j in reshape_cases(N):
        pre, M0 = pre_reshape(wp, tid, sizes, j)
        cases.append((j, AND(*pre), M0))
    wp.oblige('callee reshape precondition: sizes >= 0 or exactly one -1 whose inferred value is exact', OR(*[c for _, c, _ in cases]), n)
    # the part of that precondition whose violation is a crash (integer division by zero, SIGFPE), as an obligation of its own:
    # `dim = -size() / ::nano::size(dimensions)` divides by the product of the OTHER sizes (reshape(n, -1) with n == 0)
    wp.oblige('reshape_div0: callee reshape precondition: an inferred (-1) extent divides size() by a NON-ZERO product of the other sizes',
              AND(*[IMP(f'(= {sizes[j]} (- 1))', NOT(f'(= {M0} 0)')) for j, _, M0 in cases if j is not None]), n)
    if ptr is not None and (ptr.c != T['buf'] or ptr.t != T['off']):
        wp.oblige('callee treshape precondition: ptr == data()', 'false', n)
    off = wp.fresh('Int', 'reshape_off', 'long')
    dims = [wp.fresh('Int', f'reshape_d{k}', 'long').t for k in range(N)]
    for j, c, M0 in cases:
        for _, e in ens_reshape(wp, tid, sizes, j, M0, {'off': off.t, 'dims': dims}):
            wp.assume(IMP(c, e))
    t = wp.new_tensor(dims, T['buf'], plus(T['off'], off.t), 'reshape')
    if N == 2 and T['off'] == '0':
        # reshape(n, m) with n == dims[0] (a CONDITION, carried along): row k of the rank-2 tensor is first-axis row k of this one
        # (same start, n rows that partition the same size() coefficients: by the clauses assumed above)
        wp.tens[t.t]['rows_of'] = (tid, f'(= {sizes[0]} {wp.dim(tid, 0)})')
    return t


def targs_of(wp, me):
    return wp.call_template_args(me)


def m_dims(wp, n, args, obj):
    return wp.env[wp.tens[wp.tensor_of(obj)]['dims']]


def m_size(wp, n, args, obj):
    tid = wp.tensor_of(obj)
    ta = targs_of(wp, n['inner'][0])
    if ta:
        R = wp.env[wp.tens[tid]['dims']].c
        if not (0 <= ta[0] < R):
            raise Unsupported(f'size<{ta[0]}> on rank {R}')
        return V(wp.dim(tid, ta[0]), 'Int', 'long')       # size<k>() == dims[k]   (proved: size<k>)
    return V(wp.P(tid)[0], 'Int', 'long')                  # size() == P_0          (proved: tensor_base_t::size)


def m_rows(wp, n, args, obj):
    tid = wp.tensor_of(obj)
    R = wp.env[wp.tens[tid]['dims']].c
    return V(wp.dim(tid, R - 2), 'Int', 'long')


def m_cols(wp, n, args, obj):
    tid = wp.tensor_of(obj)
    R = wp.env[wp.tens[tid]['dims']].c
    return V(wp.dim(tid, R - 1), 'Int', 'long')


def m_offset(zero):
    def h(wp, n, args, obj):
        tid = wp.tensor_of(obj)
        idx = [v.t for v in wp.ints(args)]
        if not zero and len(idx) != wp.env[wp.tens[tid]['dims']].c:
            raise Unsupported('offset with a partial index tuple')
        return c_offset(wp, tid, idx, n, zero)
    return h


def m_dims0(wp, n, args, obj):
    tid = wp.tensor_of(obj)
    wp.ints(args)
    return wp.env[wp.new_array(wp.elems(wp.tens[tid]['dims'])[len(args):], 'dims0')]


def m_data(wp, n, args, obj):
    T = wp.tens[wp.tensor_of(obj)]
    return V(T['off'], 'Ptr', T['buf'])


def m_view(kind, private):
    def h(wp, n, args, obj):
        tid = wp.tensor_of(obj)
        ptr = ptr_arg(wp, args[0]) if private else None
        idx = [v.t for v in wp.ints(args[1:] if private else args)]
        return c_view(wp, tid, ptr, idx, n, kind)
    return h


def m_slice(private):
    def h(wp, n, args, obj):
        tid = wp.tensor_of(obj)
        ptr = ptr_arg(wp, args[0]) if private else None
        rest = args[1:] if private else args
        if len(rest) == 1:
            r = wp.ev(look(rest[0]))
            if r.s != 'Range':
                raise Unsupported('slice argument is not a modelled range')
            b, e = wp.env[f'{r.t}.m_begin'].t, wp.env[f'{r.t}.m_end'].t
        else:
            b, e = [v.t for v in wp.ints(rest)]
        return c_slice(wp, tid, ptr, b, e, n)
    return h


def m_reshape(private):
    def h(wp, n, args, obj):
        tid = wp.tensor_of(obj)
        ptr = ptr_arg(wp, args[0]) if private else None
        sizes = [v.t for v in wp.ints(args[1:] if private else args)]
        return c_reshape(wp, tid, ptr, sizes, n)
    return h


def elem_access(wp, tid, i, n):
    """t(i): the asserted precondition 0 <= i < size() is an obligation; the result is element data()[i]"""
    T = wp.tens[tid]
    wp.oblige('callee operator()(index) precondition: 0 <= index < size()', f'(and (<= 0 {i}) (< {i} {wp.P(tid)[0]}))', n)
    off = plus(T['off'], i)
    if wp.want_loc:        # the element is the target of an assignment: one coefficient copied from the last element read
        if wp.last_read is None:
            raise Unsupported('element assignment from something else than a tensor element')
        row1 = i if (wp.env[T['dims']].c == 1 and T['off'] == '0') else None       # rank 1: row i is element i
        wp.record_copy(T['buf'], off, wp.last_read[0], wp.last_read[1], '1', drow=row1, srow=wp.last_read[2])
        return 'ghost.cell'
    wp.last_read = (T['buf'], off, i if (wp.env[T['dims']].c == 1 and T['off'] == '0') else None)
    return V(off, 'Elem', T['buf'])


def m_call_operator(wp, n, args, obj):
    tid = wp.tensor_of(obj)
    idx = [v.t for v in wp.ints(args)]
    return access(wp, tid, idx, n)


def access(wp, tid, idx, n):
    if len(idx) == 1:
        if getattr(wp, 'on_access', None):
            r = wp.on_access(wp, tid, idx[0], n)
            if r is not None:
                return r
        return elem_access(wp, tid, idx[0], n)
    # t(i, rest...): contract of the variadic operator() (proved: operator()<R>): element data()[F_0(idx)], in range
    T = wp.tens[tid]
    arr = T['dims']
    if len(idx) != wp.env[arr].c:
        raise Unsupported('operator() with a partial index tuple')
    for j, c in enumerate(in_box(wp, arr, idx)):
        wp.oblige(f'callee operator() precondition: index {j} in range', c, n)
    r = wp.fresh('Int', 'elem', 'long')
    for _, c in ens_index(wp.P(tid), idx, r.t):
        wp.assume(c)
    return V(plus(T['off'], r.t), 'Elem', T['buf'])


def h_call_operator(wp, n, args, callee):
    """t(i...) spelled as a call on a tensor object"""
    tid = wp.tensor_of(args[0])
    idx = [v.t for v in wp.ints(args[1:])]
    return access(wp, tid, idx, n)


def m_range(field):
    def h(wp, n, args, obj):
        r = wp.ev(look(obj))
        if r.s != 'Range':
            raise Unsupported('not a modelled range')
        return wp.env[f'{r.t}.{field}']      # begin() == m_begin, end() == m_end   (proved: tensor_range_t, CBMC side)
    return h


def m_cast(wp, n, args, obj):
    v = wp.ev(look(obj))
    if v.s != 'View':
        raise Unsupported('cast on something else than a view')
    return v                                   # Eigen cast<T>(): same coefficients, converted (ASSUMED)


def m_resize(wp, n, args, obj):
    """tensor_vector_storage_t::resize(dims): m_dims == dims afterwards, data() addresses a fresh buffer of size() elements
    (proved: resize<R>; Eigen's vector.resize(n) is ASSUMED to allocate n elements)"""
    tid = wp.tensor_of(obj)
    src = wp.arr_of(args[0])
    T = wp.tens[tid]
    P = oblige_invariant(wp, src, n, 'resize')
    for k, t in enumerate(wp.elems(src)):
        wp.env[f'{T["dims"]}.{k}'] = V(t, 'Int', 'long')
    buf = wp.tmp('buf')
    wp.bufsize[buf] = P[0]
    T['buf'], T['off'] = buf, '0'
    wp.ghost_bump('ghost.resized')
    return V('0', 'Int', 'int')


def h_view_assign(wp, n, args, callee):
    """Eigen Map = expression: both sides have the same number of coefficients (Eigen asserts it and cannot resize a Map);
    coefficient k of the source is copied to coefficient k of the destination (ASSUMED)"""
    dst = wp.ev(look(args[0]))
    src = wp.ev(look(args[1]))
    if dst.s != 'View' or src.s != 'View':
        raise Unsupported('assignment between unmodelled Eigen expressions')
    wp.oblige('Eigen Map assignment: source and destination have the same length', f'(= {dst.c["len"]} {src.c["len"]})', n)
    whole = None
    if dst.c.get('whole') and src.c.get('whole') == 'self' and wp.elems(wp.tens[dst.c['whole']]['dims'])[1:] == wp.elems('self.m_dims')[1:]:
        whole = wp.dim('self', 0)       # all rows of this tensor, in order, into an output with the same row shape
    wp.record_copy(dst.c['buf'], dst.c['off'], src.c['buf'], src.c['off'], dst.c['len'], drow=dst.c.get('row'), srow=src.c.get('row'), whole=whole,
                   rowcond=AND(dst.c.get('rowcond', 'true'), src.c.get('rowcond', 'true')))
    return dst


def h_view_addassign(wp, n, args, callee):
    """Eigen Map += Map: same number of coefficients on both sides (Eigen asserts it); coefficient-wise addition (ASSUMED)"""
    dst = wp.ev(look(args[0]))
    src = wp.ev(look(args[1]))
    if dst.s != 'View' or src.s != 'View':
        raise Unsupported('+= between unmodelled Eigen expressions')
    wp.oblige('Eigen Map +=: source and destination have the same length', f'(= {dst.c["len"]} {src.c["len"]})', n)
    wp.ghost_bump('ghost.adds')
    wp.ghost_set('ghost.add_dst', dst.c['off'])
    wp.ghost_set('ghost.add_src', src.c['off'])
    wp.ghost_set('ghost.add_len', dst.c['len'])
    wp.events.append(('add', dst.c['buf'], src.c['buf']))
    return dst


def h_tensor_map_assign(wp, n, args, callee):
    """tensor_map_t = tensor_map_t (copy or move assignment of a MAPPING tensor: tensor_t::operator= -> tensor_marray_storage_t::
    operator= -> copy(): `map_vector(data(), size()) = map_vector(other.data(), other.size())`), call-site contract = the clause
    proved for storage_t_map_assign_map / storage_t_map_move_assign / storage_ms_copy_m (CBMC, specs/C16/storage.h): the sizes
    are equal (the assert in copy(): an obligation here), the source range is the destination range itself or does not overlap it
    (Eigen's aliasing rule for Map = Map: an obligation here), coefficient k of the source is copied to coefficient k of the
    destination, the mapping keeps its own pointer and dims"""
    dst, src = wp.tensor_of(args[0]), wp.tensor_of(args[1])
    D, S = wp.tens[dst], wp.tens[src]
    ld, ls = wp.P(dst)[0], wp.P(src)[0]
    wp.oblige('callee tensor_map_t = tensor_map_t precondition (assert in tensor_marray_storage_t::copy): equal sizes', f'(= {ld} {ls})', n)
    if D['buf'] == S['buf']:
        wp.oblige('callee tensor_map_t = tensor_map_t precondition (Eigen Map = Map): the source range is the destination range or disjoint from it',
                  f'(or (= {D["off"]} {S["off"]}) (<= (+ {D["off"]} {ld}) {S["off"]}) (<= (+ {S["off"]} {ls}) {D["off"]}))', n)
    wp.record_copy(D['buf'], D['off'], S['buf'], S['off'], ld)
    wp.events.append(('copy', D['buf'], S['buf']))
    return wp.env[dst]


def h_integral_get(wp, n, args, callee):
    """integral_t<R>::get(itensor, otensor), call-site contract: same dims, no empty axis (integral() checks size() > 0
    and asserts the dims equal); fills otensor with the summed-area table of itensor (values: CBMC side for rank 1)"""
    a = wp.tensor_of(args[0])
    b = wp.tensor_of(args[1])
    da, db = wp.elems(wp.tens[a]['dims']), wp.elems(wp.tens[b]['dims'])
    if len(da) != len(db):
        raise Unsupported('integral_t::get on tensors of different rank')
    wp.oblige('callee integral_t::get precondition: itensor.dims() == otensor.dims()', AND(*[f'(= {x} {y})' for x, y in zip(da, db)]), n)
    wp.oblige('callee integral_t::get precondition: no empty axis (size() > 0)', AND(*[f'(>= {x} 1)' for x in da]), n)
    wp.ghost_bump('ghost.gets')
    wp.ghost_set('ghost.get_in', wp.tens[a]['off'])
    wp.ghost_set('ghost.get_out', wp.tens[b]['off'])
    wp.events.append(('get', wp.tens[a]['buf'], wp.tens[b]['buf'], len(da)))
    return V('0', 'Int', 'int')


def expected_indexed_dims(wp, tid, itid):
    R = wp.env[wp.tens[tid]['dims']].c
    return [wp.dim(itid, 0)] + [wp.dim(tid, k) for k in range(1, R)]


def m_indexed(wp, n, args, obj):
    """call-site contracts of the three indexed overloads"""
    tid = wp.tensor_of(obj)
    itid = wp.tensor_of(args[0])
    want = expected_indexed_dims(wp, tid, itid)
    wp.oblige_indices(n)

    def gathered(buf):
        # the gather clause proved for the callee (gather_clause): output row G holds row indices(G) of this tensor
        if wp.track_gather:
            if tid != 'self' or itid != 'indices' or wp.gdst not in (None, buf):
                raise Unsupported(f'{wp.name}: gather from another tensor / through another index list / into a second output')
            g = wp.fresh('Int', 'gathered_row', 'long')
            wp.assume(gather_term(wp, g.t))
            wp.ghost_set('ghost.gsrc', g.t)
            wp.gdst = buf
    if len(args) == 1:
        t = wp.new_tensor(want, None, '0', 'indexed')          # indexed(indices): a tensor of exactly these dims
        wp.tens[t.t]['buf'] = t.t
        wp.bufsize[t.t] = wp.P(t.t)[0]
        wp.ghost_set('ghost.rows', wp.dim(itid, 0))
        gathered(t.t)
        return t
    sub = wp.tensor_of(args[1])
    node = look(args[1])
    ismem = re.search(r'tensor_mem_t|tensor_vector_storage_t', qual(node.get('type')) + node.get('type', {}).get('qualType', ''))
    if ismem:
        # indexed(indices, tensor_mem_t&): resizes to exactly (indices.size(), dims[1..])   (proved: indexed_mem<R>)
        for k, t in enumerate(want):
            wp.env[f'{wp.tens[sub]["dims"]}.{k}'] = V(t, 'Int', 'long')
        buf = wp.tmp('buf')
        wp.bufsize[buf] = wp.P(sub)[0]
        wp.tens[sub]['buf'], wp.tens[sub]['off'] = buf, '0'
    else:
        # indexed(indices, tensor_map_t): asserted precondition subtensor.dims() == (indices.size(), dims[1..])
        have = wp.elems(wp.tens[sub]['dims'])
        wp.oblige('callee indexed precondition: subtensor.dims() == (indices.size(), dims[1..])',
                  AND(*[f'(= {a} {b})' for a, b in zip(have, want)]), n)
    wp.ghost_set('ghost.rows', wp.dim(itid, 0))               # every row i < indices.size() written (proved: indexed_map<R>)
    gathered(wp.tens[sub]['buf'])
    return V('0', 'Int', 'int')


def gather_term(wp, gsrc):
    """the gather postcondition at the ghost position G: 0 <= G < indices.size() => output row G holds row indices(G) of this tensor"""
    return f'(=> (and (<= 0 {wp.G}) (< {wp.G} {wp.dim("indices", 0)})) (= {gsrc} {wp.IG}))'


def gather_clause(wp, out_tid):
    """[(label, term)]: the clause of the three indexed overloads (post of the callee == what m_indexed assumes at a call site)"""
    ok = wp.gdst is None or wp.tens[out_tid]['buf'] == wp.gdst
    return [('gather_rows: row g of the result is row indices(g) of this tensor (ghost position g; index lists with duplicates included)',
             gather_term(wp, wp.env['ghost.gsrc'].t) if ok else 'false')]


def m_row(wp, n, args, obj):
    """Eigen row(i) of a row-major matrix Map (ASSUMED: coefficients [i * cols, (i + 1) * cols) of the map); 0 <= i < rows() is
    Eigen's asserted precondition"""
    v = wp.ev(look(obj))
    i = wp.ints(args)[0].t
    if v.s != 'View' or 'rows' not in v.c:
        raise Unsupported('row(i) on something else than a matrix view')
    wp.oblige('Eigen row(i) precondition: 0 <= i < rows()', f'(and (<= 0 {i}) (< {i} {v.c["rows"]}))', n)
    view = {'buf': v.c['buf'], 'off': plus(v.c['off'], times(i, v.c['cols'])), 'len': v.c['cols']}
    if v.c.get('rows_of'):
        view['row'], view['rowcond'] = i, v.c['rows_of'][1]
        if v.c['rows_of'][0] not in ('self', 'subtensor'):
            view.pop('row')
    return V(wp.tmp('row'), 'View', view)


def m_begin(wp, n, args, obj):
    """tensor begin() == data(), end() == data() + size()   (inline one-liners of tensor.h, read as their text)"""
    return m_data(wp, n, args, obj)


def m_end(wp, n, args, obj):
    tid = wp.tensor_of(obj)
    T = wp.tens[tid]
    return V(plus(T['off'], wp.P(tid)[0]), 'Ptr', T['buf'])


def h_is_sorted(wp, n, args, callee):
    """std::is_sorted(indices.begin(), indices.end()) over the WHOLE index list: ASSUMED contract of the dependency, instantiated (a
    sound weakening of [alg.sort]: `true` implies the list is monotone on every pair of positions the function has read so far and
    on the ghost position; nothing is concluded from `false`)"""
    a, b = ptr_arg(wp, args[0]), ptr_arg(wp, args[1])
    if not wp.track_gather or 'indices' not in wp.tens:
        raise Unsupported('std::is_sorted outside the gather model')
    I = wp.tens['indices']
    if (a.c, a.t) != (I['buf'], I['off']) or (b.c, b.t) != (I['buf'], plus(I['off'], wp.P('indices')[0])):
        raise Unsupported('std::is_sorted over something else than the whole index list')
    s = wp.fresh('Bool', 'is_sorted', 'bool')
    pts = list(wp.idx_reads) + [(wp.G, wp.IG)]
    nI = wp.dim('indices', 0)
    for p, v in pts:
        for q, w in pts:
            if (p, v) != (q, w):
                wp.assume(f'(=> (and {s.t} (<= 0 {p}) (<= {p} {q}) (< {q} {nI})) (<= {v} {w}))')
    return s


CALLS = [
    (r'^get\|', None),   # filled in below (wplib.h_std_get)
    (r'^index\|', h_index), (r'^index0\|', h_index0), (r'^dims0\|', h_dims0), (r'^size\|.*tensor_dims_t|^size\|.*std::array', h_size),
    (r'^make_dims\|', h_make_dims), (r'^operator==\|.*(tensor_dims_t|std::array)', h_dims_cmp(False)),
    (r'^operator!=\|.*(tensor_dims_t|std::array)', h_dims_cmp(True)),
    (r'^operator\[\]\|.*std::array', h_array_subscript),
    (r'^map_vector\|', h_map_vector), (r'^map_matrix\|', h_map_matrix), (r'^map_tensor\|', h_map_tensor),
    (r'^operator\+=\|.*Eigen::', h_view_addassign),
    (r'^operator=\|.*tensor_t<nano::tensor_marray_storage_t', h_tensor_map_assign),
    (r'^operator=\|std::array', h_array_assign), (r'^operator=\|.*Eigen::', h_view_assign),
    (r'^operator\(\)\|', h_call_operator),
    (r'^is_sorted\|', h_is_sorted),
]
from wplib import h_std_get, h_array_fill, STD_ARRAY_MEMBERS, STD_NUMERIC_CALLS, iter_hook  # noqa: E402
CALLS[0] = (r'^get\|', h_std_get)
CALLS.insert(0, (r'^get\|void \(tensor_cmap_t', h_integral_get))
CALLS += STD_NUMERIC_CALLS          # std::accumulate over a dims array, exact (accumulator type = type of init)

MEMBERS = [
    (r'^fill\|std::array', h_array_fill),
    (r'^dims\|', m_dims), (r'^size\|.*' + TENSOR_T, m_size), (r'^rows\|', m_rows), (r'^cols\|', m_cols),
    (r'^offset\|', m_offset(False)), (r'^offset0\|', m_offset(True)), (r'^dims0\|', m_dims0), (r'^data\|', m_data),
    (r'^tvector\|', m_view('vector', True)), (r'^ttensor\|', m_view('tensor', True)), (r'^tmatrix\|', m_view('matrix', True)),
    (r'^vector\|', m_view('vector', False)), (r'^tensor\|', m_view('tensor', False)), (r'^matrix\|', m_view('matrix', False)),
    (r'^tslice\|', m_slice(True)), (r'^slice\|', m_slice(False)),
    (r'^treshape\|', m_reshape(True)), (r'^reshape\|', m_reshape(False)),
    (r'^operator\(\)\|', m_call_operator),
    (r'^begin\|.*tensor_range_t', m_range('m_begin')), (r'^end\|.*tensor_range_t', m_range('m_end')),
    (r'^row\|', m_row), (r'^begin\|.*' + TENSOR_T, m_begin), (r'^end\|.*' + TENSOR_T, m_end),
    (r'^cast\|', m_cast), (r'^resize\|Eigen::', None), (r'^resize\|', m_resize), (r'^indexed\|', m_indexed),
    (r'^_resize\|', None),
]


def m__resize(wp, n, args, obj):
    """tensor_base_t::_resize(dims): m_dims = dims   (proved: _resize<R>)"""
    tid = wp.tensor_of(obj)
    src = wp.arr_of(args[0])
    for k, t in enumerate(wp.elems(src)):
        wp.env[f'{wp.tens[tid]["dims"]}.{k}'] = V(t, 'Int', 'long')
    return V('0', 'Int', 'int')


MEMBERS[-1] = (r'^_resize\|', m__resize)
MEMBERS += STD_ARRAY_MEMBERS


def m_eigen_resize(wp, n, args, obj):
    """Eigen vector.resize(n): afterwards the vector holds n coefficients (ASSUMED); n >= 0 is Eigen's asserted precondition"""
    v = wp.ints(args)[0]
    wp.oblige('Eigen resize precondition: size >= 0', f'(>= {v.t} 0)', n)
    wp.ghost_set('ghost.alloc', v.t)
    return V('0', 'Int', 'int')


MEMBERS[[i for i, (rx, _) in enumerate(MEMBERS) if rx == r'^resize\|Eigen::'][0]] = (r'^resize\|Eigen::', m_eigen_resize)
