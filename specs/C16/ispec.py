"""C16, back end B: VALUES of the rank-2 summed-area table (include/nano/tensor/integral.h, integral_t<2>::get) for integer
scalars, over Int, at ghost positions.

Property text: "the summed-area table equals the naive prefix sums".  For rank 2 the naive prefix sums I(i, j) = sum_{i' <= i,
j' <= j} x(i', j') are characterised by the defining recurrence
        I(i, j) = x(i, j) + I(i-1, j) + I(i, j-1) - I(i-1, j-1)                                  (1 <= i, 1 <= j)
which is what is proved here for an arbitrary interior ghost cell (ga, gb) of the output, on the REAL loop of integral_t<2>::get
under a loop invariant.  Cells of the output are followed as Int terms in ghost environment keys:
        o_ab, o_ab1, o_pb, o_pb1     the current contents of output cells (ga, gb), (ga, gb-1), (ga-1, gb), (ga-1, gb-1)
        row_row / row_val            the row written last and its cell at a second ghost column gc (magnitude tracking)
        prev_row / prev_val          the row written before that
Callee contracts (the clauses PROVED elsewhere in this check, nothing else):
  * integral_t<1>::get(in row, out row)  (CBMC target integral1_get_*: rows of at most 10^6 elements)
        out(0) == in(0);  for 1 <= g < n:  |out(g-1)| <= M * g  and  out(g) == out(g-1) + in(g)      (M = bound of the input scalar)
    used at g = gb (recurrence) and, with |in| <= M, as |out(gc)| <= M * (gc + 1) (magnitude); the row length bound is an obligation;
  * t.tensor(i0) / t.vector(i0): the view IS row i0 (tmodel.c_view: data() + i0 * P_1, P_1 elements; proved: ttensor / tvector);
  * Eigen Map += Map: coefficient k += coefficient k (ASSUMED, as before), computed in the OUTPUT scalar type: the addition at the
    ghost column must not overflow int64 -- an obligation, discharged from the magnitude invariant under the stated bound
    M * size() <= 2^62.
"""
import nvwp
from nvwp import V, AND, OR, NOT, IMP, ITE, lit
import tmodel
from tmodel import times

MAXROW = 10 ** 6        # bound of the CBMC-proved rank-1 contract (models/nv_tensor.h NV_MAXN)
CELLS = ('o_ab', 'o_ab1', 'o_pb', 'o_pb1')
HAVOC = ['ghost.gets', 'ghost.adds', 'ghost.get_in', 'ghost.get_out', 'ghost.add_dst', 'ghost.add_src', 'ghost.add_len',
         'ghost.row_row', 'ghost.row_val', 'ghost.prev_row', 'ghost.prev_val'] + ['ghost.' + c for c in CELLS]


def absle(t, b):
    return f'(and (<= (- {b}) {t}) (<= {t} {b}))'


def setup_values(M):
    def setup(wp):
        for a, b in zip(wp.elems('itensor.m_dims'), wp.elems('otensor.m_dims')):
            wp.assume(f'(= {a} {b})')                     # the assert in integral()
        for a in wp.elems('itensor.m_dims'):
            wp.assume(f'(>= {a} 1)')                      # integral(): size() > 0
        wp.M = lit(M)
        wp.assume(f'(<= {wp.P("itensor")[1]} {MAXROW})')      # stated bound: the domain of the CBMC-proved rank-1 contract (rows of at most 10^6 elements)
        wp.assume(f'(<= (* {wp.M} {wp.P("itensor")[0]}) {lit(2 ** 62)})')      # stated bound: M * size() <= 2^62
        # ghost positions: UNCONSTRAINED constants (claims are conditional on their ranges)
        wp.ga, wp.gb, wp.gc = (wp.const(nm, 'Int', 'long').t for nm in ('ga', 'gb', 'gc'))
        # the input cells x(ga, gb), x(ga-1, gb): any values of the input scalar type
        wp.x_ab, wp.x_pb = wp.const('x_ab', 'Int', 'long').t, wp.const('x_pb', 'Int', 'long').t
        for x in (wp.x_ab, wp.x_pb):
            wp.assume(absle(x, wp.M))
        for c in CELLS + ('row_val', 'prev_val'):
            wp.env['ghost.' + c] = wp.fresh('Int', c, 'long')       # arbitrary initial contents of the output buffer
        wp.env['ghost.row_row'] = V('(- 1)', 'Int', 'long')
        wp.env['ghost.prev_row'] = V('(- 1)', 'Int', 'long')
        wp.calls = [(r'^get\|void \(tensor_cmap_t', h_get1), (r'^operator\+=\|.*Eigen::', h_add)] + list(wp.calls)
    return setup


def row_of(wp, rec, what, n):
    r = rec.get('row')
    if r is None:
        raise nvwp.Unsupported(f'{wp.name}: {what} is not a first-axis row view')
    return r


def h_get1(wp, n, args, callee):
    """integral_t<1>::get(itensor.tensor(i), otensor.tensor(k)): the proved rank-1 contract applied to row k of the output"""
    tmodel.h_integral_get(wp, n, args, callee)          # dims equal, no empty axis, index-pattern ghosts
    a, b = wp.tensor_of(args[0]), wp.tensor_of(args[1])
    A, B = wp.tens[a], wp.tens[b]
    wp.oblige('callee integral_t<1>::get: reads the input tensor, writes the output tensor', 'true' if (A['buf'], B['buf']) == ('itensor', 'otensor') else 'false', n)
    wp.oblige(f'callee integral_t<1>::get precondition of the proved contract: the row has at most {MAXROW} elements', f'(<= {wp.P(a)[0]} {MAXROW})', n)
    rin, rout = row_of(wp, A, 'the input', n), row_of(wp, B, 'the output', n)
    ga, gb, gc, M = wp.ga, wp.gb, wp.gc, wp.M
    d1 = wp.P(a)[0]
    # the row's new cells at columns gb, gb-1: out(gb) == out(gb-1) + in(gb) for 1 <= gb < n
    fb, fb1 = wp.fresh('Int', 'row_b', 'long').t, wp.fresh('Int', 'row_b1', 'long').t
    xin = ITE(f'(= {rin} {ga})', wp.x_ab, ITE(f'(= {rin} (- {ga} 1))', wp.x_pb, wp.fresh('Int', 'x_other', 'long').t))
    wp.assume(IMP(f'(and (<= 1 {gb}) (< {gb} {d1}))', f'(= {fb} (+ {fb1} {xin}))'))
    for cell, row, val in (('o_ab', ga, fb), ('o_ab1', ga, fb1), ('o_pb', f'(- {ga} 1)', fb), ('o_pb1', f'(- {ga} 1)', fb1)):
        wp.ghost_set('ghost.' + cell, ITE(f'(= {rout} {row})', val, wp.env['ghost.' + cell].t))
    # magnitude at the ghost column gc: |out(gc)| <= M * (gc + 1) for 0 <= gc < n
    fc = wp.fresh('Int', 'row_c', 'long').t
    wp.assume(IMP(f'(and (<= 0 {gc}) (< {gc} {d1}))', absle(fc, f'(* {M} (+ {gc} 1))')))
    wp.ghost_set('ghost.prev_row', wp.env['ghost.row_row'].t)
    wp.ghost_set('ghost.prev_val', wp.env['ghost.row_val'].t)
    wp.ghost_set('ghost.row_row', rout)
    wp.ghost_set('ghost.row_val', fc)
    return V('0', 'Int', 'int')


def h_add(wp, n, args, callee):
    """otensor.vector(k) += otensor.vector(l): coefficient-wise, in the output scalar type (int64)"""
    tmodel.h_view_addassign(wp, n, args, callee)         # equal lengths, index-pattern ghosts
    dst, src = wp.ev(tmodel.look(args[0])), wp.ev(tmodel.look(args[1]))
    wp.oblige('row addition: both operands are rows of the output tensor', 'true' if (dst.c['buf'], src.c['buf']) == ('otensor', 'otensor') else 'false', n)
    rd, rs = row_of(wp, dst.c, 'the destination', n), row_of(wp, src.c, 'the source', n)
    ga = wp.ga
    p = f'(- {ga} 1)'
    old = {c: wp.env['ghost.' + c].t for c in CELLS}
    sb = ITE(f'(= {rs} {ga})', old['o_ab'], ITE(f'(= {rs} {p})', old['o_pb'], wp.fresh('Int', 'src_b', 'long').t))
    sb1 = ITE(f'(= {rs} {ga})', old['o_ab1'], ITE(f'(= {rs} {p})', old['o_pb1'], wp.fresh('Int', 'src_b1', 'long').t))
    for cell, row, s_ in (('o_ab', ga, sb), ('o_ab1', ga, sb1), ('o_pb', p, sb), ('o_pb1', p, sb1)):
        wp.ghost_set('ghost.' + cell, ITE(f'(= {rd} {row})', f'(+ {old[cell]} {s_})', old[cell]))
    # the addition at the ghost column gc: destination = the row written last, source = the row written before it
    known = f'(and (= {rd} {wp.env["ghost.row_row"].t}) (= {rs} {wp.env["ghost.prev_row"].t}))'
    new = f'(+ {wp.env["ghost.row_val"].t} {wp.env["ghost.prev_val"].t})'
    d1 = dst.c['len']
    wp.oblige('overflow: the row addition adds the previously completed row to the row integrated last, and does not overflow int64 at the ghost column',
              IMP(f'(and (<= 0 {wp.gc}) (< {wp.gc} {d1}))', AND(known, wp.in_range(new, 'long'))), n)
    wp.ghost_set('ghost.row_val', new)
    return dst


def recurrence(wp, env=None):
    e = env or wp.env
    return f'(= {e["ghost.o_ab"].t} (- (+ {wp.x_ab} {e["ghost.o_pb"].t} {e["ghost.o_ab1"].t}) {e["ghost.o_pb1"].t}))'


def interior(wp):
    return f'(and (<= 1 {wp.ga}) (< {wp.ga} {wp.dim("itensor", 0)}) (<= 1 {wp.gb}) (< {wp.gb} {wp.dim("itensor", 1)}))'


def inv_values(wp):
    i0, n = wp.env['i0'].t, wp.env['size0'].t
    col = f'(and (<= 0 {wp.gc}) (< {wp.gc} {wp.dim("itensor", 1)}))'
    return [('0 <= i0 <= dims[0]', f'(and (<= 0 {i0}) (<= {i0} {n}) (= {n} {wp.dim("itensor", 0)}))'),
            ('recurrence: once row ga is complete, I(ga, gb) == x(ga, gb) + I(ga-1, gb) + I(ga, gb-1) - I(ga-1, gb-1)',
             IMP(AND(interior(wp), f'(> {i0} {wp.ga})'), recurrence(wp))),
            ('magnitude: the row completed last is row i0-1 and its cell at the ghost column is bounded by M * (gc+1) * i0',
             IMP(AND(col, f'(>= {i0} 1)'), AND(f'(= {wp.env["ghost.row_row"].t} (- {i0} 1))',
                                               absle(wp.env['ghost.row_val'].t, f'(* (* {wp.M} (+ {wp.gc} 1)) {i0})'))))]


inv_values.havoc = HAVOC
inv_values.decreases = lambda wp, env: f'(- {env["size0"].t} {env["i0"].t})'


def post_values(wp, rv):
    return [('recurrence: I(ga, gb) == x(ga, gb) + I(ga-1, gb) + I(ga, gb-1) - I(ga-1, gb-1) at every interior cell', IMP(interior(wp), recurrence(wp)))]
