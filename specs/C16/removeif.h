/* C16: nano::remove_if(op, tensor) (include/nano/tensor/algorithm.h), the REAL loops under loop contracts.
 *
 * Property: "remove all sub-tensors flagged by the operator; the remaining ones are compacted starting the beginning
 * and their number is returned" + "no valid access touches memory outside the tensor".
 *
 * Model.  The rank-1 tensor is (pointer, length) over a real array of symbolic length; the predicate is a PURE function of
 * the index, given by an arbitrary array of flags (nv_flags[i] <=> op(i)); purity is the stated assumption on `op`.
 * The stub of op(i) is where "nothing is examined outside [0, size)" is asserted, and it maintains the ghost history
 *      nv_next            indices 0 .. nv_next-1 have been examined, each for the first time in increasing order
 *      nv_kept            #{ i < nv_next : !op(i) }                       (so nv_next == size ==> nv_kept is THE number kept)
 *      nv_kept_before_g   #{ i < min(nv_next, nv_g) : !op(i) }            (the rank of the ghost element among the kept ones)
 * for a ghost index nv_g (arbitrary, fixed before the call).  Postconditions:
 *      every index of [0, size) has been examined;  ret == #kept;
 *      if element nv_g is kept, its ORIGINAL value ends at position rank(nv_g) = #kept before it, and rank(nv_g) < ret
 * -- for every nv_g this is "the kept elements are compacted at the front in their original order". */
#include "nv_tensor.h"
struct nv_op { char unit; };
int64_t nv_g, nv_n, nv_next, nv_kept, nv_kept_before_g;
double nv_old_g;          /* the value stored at position nv_g before the call */
const _Bool* nv_flags;    /* nv_flags[i] <=> op(i) */

static _Bool nv_op(int64_t i)
{
  __CPROVER_assert(0 <= i && i < nv_n, "op is asked about an index inside [0, size)");
  if (i == nv_next)
  {
    nv_next = nv_next + 1;
    if (!nv_flags[i]) { nv_kept = nv_kept + 1; if (i < nv_g) nv_kept_before_g = nv_kept_before_g + 1; }
  }
  else __CPROVER_assert(i < nv_next, "indices are examined in increasing order without gaps");
  return nv_flags[i];
}

#define NV_CONTRACT_detail_size \
__CPROVER_requires(__CPROVER_is_fresh(tensor, sizeof(*tensor))) \
__CPROVER_assigns() \
__CPROVER_ensures(__CPROVER_return_value == tensor->n)

/* rank-2 tensor in the (rank 1, rank 2, rank 1) instantiation that solver/bundle.h uses: one opaque token per row (the
 * ABSTRACTION of this target: a row is followed as a whole).  detail::copy on it is `tensor.tensor(idst) = tensor.tensor(isrc)`;
 * its contract "row idst becomes row isrc, nothing else changes" is no longer assumed: it is PROVED on the SMT side
 * (specs/C16/tspec.py `detail::copy<2>`, `detail::copy<3>`: for 0 <= isrc, idst < size<0>() exactly one block copy, from offset
 * isrc * P_1 to offset idst * P_1, P_1 coefficients, both blocks inside the tensor's own buffer, equal sizes and no partial
 * overlap) on top of the storage contract of mapping = mapping (storage_t_map_move_assign / storage_ms_copy_m: coefficient k
 * := coefficient k).  The asserted row range stays the checked precondition of the call. */
struct nv_t2d { double* p; int64_t n; };
static void nv_copy_rows(int64_t isrc, int64_t idst, struct nv_t2d* tensor)
{
  __CPROVER_assert(0 <= isrc && isrc < tensor->n && 0 <= idst && idst < tensor->n, "detail::copy (rank 2): source and destination rows inside [0, size<0>())");
  tensor->p[idst] = tensor->p[isrc];
}

/* detail::copy(isrc, idst, tensor): the asserts the library compiles out are the precondition */
#define NV_CONTRACT_detail_copy \
__CPROVER_requires(__CPROVER_is_fresh(tensor, sizeof(*tensor)) && NV_T1D_OK(*tensor)) \
__CPROVER_requires(0 <= isrc && isrc < tensor->n && 0 <= idst && idst < tensor->n) \
__CPROVER_assigns(tensor->p[idst]) \
__CPROVER_ensures(NV_SAME(tensor->p[idst], __CPROVER_old(tensor->p[isrc])))

#define NV_GHOSTS nv_next, nv_kept, nv_kept_before_g
#define NV_MIN(a, b) ((a) < (b) ? (a) : (b))
#define NV_RI_COMMON(sz) \
  0 <= nv_next && nv_next <= (sz) && 0 <= nv_kept && nv_kept <= nv_next && 0 <= nv_kept_before_g && nv_kept_before_g <= nv_kept && \
  (nv_next <= nv_g ==> nv_kept_before_g == nv_kept)

#define NV_CONTRACT_remove_if \
__CPROVER_requires(__CPROVER_is_fresh(tensors, sizeof(*tensors)) && NV_T1D_OK(*tensors) && nv_n == tensors->n) \
__CPROVER_requires(__CPROVER_is_fresh(nv_flags, (nv_n > 0 ? nv_n : 1) * sizeof(_Bool))) \
__CPROVER_requires(nv_next == 0 && nv_kept == 0 && nv_kept_before_g == 0) \
__CPROVER_requires((0 <= nv_g && nv_g < nv_n) ==> NV_SAME(nv_old_g, tensors->p[nv_g])) \
__CPROVER_assigns(NV_GHOSTS, __CPROVER_object_whole(tensors->p)) \
__CPROVER_ensures(nv_next == nv_n)                                    /* every index examined (once, in order) */ \
__CPROVER_ensures(__CPROVER_return_value == nv_kept)                   /* returns the number of kept elements   */ \
__CPROVER_ensures(0 <= __CPROVER_return_value && __CPROVER_return_value <= nv_n) \
__CPROVER_ensures((0 <= nv_g && nv_g < nv_n && !nv_flags[nv_g]) ==> \
                  (nv_kept_before_g < __CPROVER_return_value && NV_SAME(tensors->p[nv_kept_before_g], nv_old_g)))

/* first loop: skips the leading kept elements (they already sit at their final positions) */
#define NV_LOOP_remove_if_1 \
__CPROVER_assigns(last, NV_GHOSTS) \
__CPROVER_loop_invariant(size == nv_n && 0 <= last && last <= size && nv_next == last && nv_kept == last && NV_RI_COMMON(size)) \
__CPROVER_loop_invariant(nv_kept_before_g == (nv_g < 0 ? 0 : NV_MIN(last, nv_g))) \
__CPROVER_decreases(size - last)

/* second loop: examines curr, copies a kept element down to position last */
#define NV_LOOP_remove_if_2 \
__CPROVER_assigns(curr, last, NV_GHOSTS, __CPROVER_object_whole(tensors->p)) \
__CPROVER_loop_invariant(size == nv_n && 0 <= last && last <= curr && curr <= size && NV_RI_COMMON(size)) \
__CPROVER_loop_invariant(nv_next == curr || (curr < size && nv_next == curr + 1 && nv_flags[curr])) \
__CPROVER_loop_invariant(last == nv_kept) \
__CPROVER_loop_invariant((0 <= nv_g && nv_g < size && nv_g >= curr) ==> NV_SAME(tensors->p[nv_g], nv_old_g)) \
__CPROVER_loop_invariant((0 <= nv_g && nv_g < curr && !nv_flags[nv_g]) ==> (nv_kept_before_g < last && NV_SAME(tensors->p[nv_kept_before_g], nv_old_g))) \
__CPROVER_decreases(size - curr)

/* ---- the three-tensor instantiation remove_if(op, e, S, a): the SAME loops; every tensor receives the same copies.
 * Precondition: all tensors have the same size<0>() (detail::size reads the first one only); true of the three call sites
 * (slices [0, m_size) of buffers of equal capacity). */
#ifdef NV_TRIPLE
/* one target per tracked tensor NV_TRK in {tensors_0, tensors_1, tensors_2} (the other two are still written through the
 * same checked copies, their contents are just not followed): three 10 s proofs instead of one 2 min proof */
#undef NV_CONTRACT_detail_size
#define NV_CONTRACT_detail_size \
__CPROVER_requires(__CPROVER_is_fresh(tensor, sizeof(*tensor))) \
__CPROVER_assigns() \
__CPROVER_ensures(__CPROVER_return_value == tensor->n)
#define NV_T2D_OK(t) ((t).n >= 0 && (t).n <= NV_MAXN && __CPROVER_is_fresh((t).p, ((t).n > 0 ? (t).n : 1) * sizeof(double)))
#undef NV_CONTRACT_remove_if
#define NV_CONTRACT_remove_if \
__CPROVER_requires(__CPROVER_is_fresh(tensors_0, sizeof(*tensors_0)) && NV_T1D_OK(*tensors_0) && nv_n == tensors_0->n) \
__CPROVER_requires(__CPROVER_is_fresh(tensors_1, sizeof(*tensors_1)) && NV_T2D_OK(*tensors_1) && nv_n == tensors_1->n) \
__CPROVER_requires(__CPROVER_is_fresh(tensors_2, sizeof(*tensors_2)) && NV_T1D_OK(*tensors_2) && nv_n == tensors_2->n) \
__CPROVER_requires(__CPROVER_is_fresh(nv_flags, (nv_n > 0 ? nv_n : 1) * sizeof(_Bool))) \
__CPROVER_requires(nv_next == 0 && nv_kept == 0 && nv_kept_before_g == 0) \
__CPROVER_requires((0 <= nv_g && nv_g < nv_n) ==> NV_SAME(nv_old_g, NV_TRK->p[nv_g])) \
__CPROVER_assigns(NV_GHOSTS, __CPROVER_object_whole(tensors_0->p), __CPROVER_object_whole(tensors_1->p), __CPROVER_object_whole(tensors_2->p)) \
__CPROVER_ensures(nv_next == nv_n) \
__CPROVER_ensures(__CPROVER_return_value == nv_kept) \
__CPROVER_ensures(0 <= __CPROVER_return_value && __CPROVER_return_value <= nv_n) \
__CPROVER_ensures((0 <= nv_g && nv_g < nv_n && !nv_flags[nv_g]) ==> \
                  (nv_kept_before_g < __CPROVER_return_value && NV_SAME(NV_TRK->p[nv_kept_before_g], nv_old_g)))

#undef NV_LOOP_remove_if_2
#define NV_LOOP_remove_if_2 \
__CPROVER_assigns(curr, last, NV_GHOSTS, __CPROVER_object_whole(tensors_0->p), __CPROVER_object_whole(tensors_1->p), __CPROVER_object_whole(tensors_2->p)) \
__CPROVER_loop_invariant(size == nv_n && 0 <= last && last <= curr && curr <= size && NV_RI_COMMON(size)) \
__CPROVER_loop_invariant(nv_next == curr || (curr < size && nv_next == curr + 1 && nv_flags[curr])) \
__CPROVER_loop_invariant(last == nv_kept) \
__CPROVER_loop_invariant((0 <= nv_g && nv_g < size && nv_g >= curr) ==> NV_SAME(NV_TRK->p[nv_g], nv_old_g)) \
__CPROVER_loop_invariant((0 <= nv_g && nv_g < curr && !nv_flags[nv_g]) ==> (nv_kept_before_g < last && NV_SAME(NV_TRK->p[nv_kept_before_g], nv_old_g))) \
__CPROVER_decreases(size - curr)
#endif
