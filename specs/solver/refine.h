/* contract refinement lemma: the contract of lsearchk_t::get proved in C07 implies the weaker contract the solvers use.
 * No libnano code here: the wrapper only calls the C07-contracted function (replaced by its contract). */
#include "../C07/lsearch.h"
struct nv_ls_ghost_t { struct nv_pred a, w, s; } ;
#define nv_ls_ghost nv_armijo, nv_wolfe, nv_swolfe
#include "weak_get.h"
struct nv_tuple_b_f64 lsearchk_get(struct nv_lsearchk* self, struct nv_state* state, struct nv_vector* descent, double step_size, struct nv_logger* logger)
NV_CONTRACT_lsearchk_get;
struct nv_tuple_b_f64 lsearchk_get_weak(struct nv_lsearchk* self, struct nv_state* state, struct nv_vector* descent, double step_size, struct nv_logger* logger)
__CPROVER_requires(NV_PARAMS_OK)
NV_WEAK_LSEARCHK_GET_CONTRACT
{
  double f_before = state->m_fx, dg_before = state->dg; uint64_t ver_before = state->ver;
  struct nv_tuple_b_f64 r = lsearchk_get(self, state, descent, step_size, logger);
  /* facts proved elsewhere, imported here (each is listed under the assumptions of specs/C02):
   * (i)   solver_state_t::valid() => the value is finite (specs/C02 target state_valid);
   * (ii)  success => the returned step is > 0 (C07: lsearchk_get_ieee for get given the do_get clause, step/ over the reals for the do_get bodies);
   * (iii) has_armijo(origin, d, t, c1) is f_t <= f_0 + t*c1*(g_0.d) (C07 pred/has_armijo) and, for t > 0, c1 > 0, g_0.d < 0, that implies
   *       f_t < f_0 (specs/C02 lemma/armijo_decrease; double treated as real) */
  if (state->valid) __CPROVER_assume(__CPROVER_isfinited(state->m_fx));
  if (r._0) __CPROVER_assume(r._1 > 0.0);
  if (r._0 && nv_armijo.res && nv_armijo.ver == state->ver && nv_armijo.origin == ver_before && NV_SAME(nv_armijo.t, r._1) && r._1 > 0.0
      && nv_armijo.c > 0.0 && dg_before < 0.0 && __CPROVER_isfinited(f_before) && __CPROVER_isfinited(state->m_fx))
    __CPROVER_assume(state->m_fx < f_before);
  return r;
}
