/* contract refinement lemma: the contract of lsearchk_t::get proved in C07 implies the weaker contract the solvers use.
 * No libnano code here: the wrapper only calls the C07-contracted function (replaced by its contract). */
#include "../C07/lsearch.h"
struct nv_ls_ghost_t { struct nv_pred a, w, s; } ;
#define nv_ls_ghost nv_armijo, nv_wolfe, nv_swolfe
#include "weak_get.h"
struct nv_tuple_b_f64 lsearchk_get(struct nv_lsearchk* self, struct nv_state* state, struct nv_vector* descent, double step_size, struct nv_logger* logger)
NV_CONTRACT_lsearchk_get;
struct nv_tuple_b_f64 lsearchk_get_weak(struct nv_lsearchk* self, struct nv_state* state, struct nv_vector* descent, double step_size, struct nv_logger* logger)
__CPROVER_requires(NV_PARAMS_OK)
NV_WEAK_LSEARCHK_GET_CONTRACT
{
  return lsearchk_get(self, state, descent, step_size, logger);
}
