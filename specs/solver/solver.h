/* shared by C01 / C02: protocol contracts of the line-search solvers (gd, cgd-*, lbfgs, bfgs/dfp/sr1/hoshino/fletcher)
 * over the ghost-versioned state model.  All vector algebra is erased; the line search is used through the contract
 * proved for lsearch_t::get / lsearchk_t::get (C07). */
#include "nv_state.h"
struct nv_solver { int32_t dummy; };
struct nv_function { int32_t dummy; };
struct nv_lsearch0 { int32_t dummy; };
struct nv_lsearchk { int32_t dummy; };
struct nv_lsearch { struct nv_lsearch0 m_lsearch0; struct nv_lsearchk m_lsearchk; double m_last_step_size; };

/* parameters inside their registered domains (src/solver.cpp): epsilon in (0, 1e-1) hmm -- only max_evals matters here */
double nv_epsilon; int64_t nv_max_evals;
static double nv_param_epsilon(void) { return nv_epsilon; }
static int64_t nv_param_max_evals(void) { return nv_max_evals; }
#define NV_SOLVER_PARAMS_OK (10 <= nv_max_evals && nv_max_evals <= 1000000000 && nv_epsilon > 0.0)

/* assumed contract of function_t::fcalls()/gcalls(): both count the vgrad evaluations performed so far (function_t::vgrad
 * increments both when a gradient buffer is passed); the ghost version counter counts exactly those evaluations */
static int64_t nv_fn_calls(const struct nv_function* f) { return (int64_t)nv_ver_counter; }
/* solvers that also evaluate without a gradient (specs/C02/nonls.h) count gradient evaluations separately */
#ifndef NV_GCOUNT
#define NV_GCOUNT nv_ver_counter
#endif

/* assumed contract of solver_state_t{function, x0}: one evaluation at x0, status max_iters, reported counts copied */
#if defined(NV_C02)
double nv_ls_f0;            /* ghost: the value at the starting point (recorded when the body builds its first state) */
/* solver_state_t::valid() => finite value (specs/C02 target state_valid) */
#define NV_STATE_MAKE_GHOST(s) { __CPROVER_assume(!(s).valid || __CPROVER_isfinited((s).m_fx)); nv_ls_f0 = (s).m_fx; }
#define NV_F0_ASSIGNS , nv_ls_f0
/* an accepted iterate of an Armijo-exit line search is finite and not above the starting value */
#define NV_DECR(s) (__CPROVER_isfinited((s).m_fx) && (!nv_ls_armijo_exit || (s).m_fx <= nv_ls_f0))
#else
#define NV_STATE_MAKE_GHOST(s)
#define NV_F0_ASSIGNS
#define NV_DECR(s) 1
#endif
static struct nv_state nv_state_make(const struct nv_function* f, const struct nv_opaque* x0)
{
  struct nv_state s;
  nv_ver_counter = nv_ver_counter + 1;
  s.ver = nv_ver_counter; s.eval_ver = s.ver; s.origin = 0; s.t = 0.0;
  s.valid = nv_nondet__Bool(); s.m_fx = nv_nondet_double(); s.dg = nv_nondet_double(); s.gtest = nv_nondet_double(); s.feas = nv_nondet_double(); s.cons_ver = s.ver;
  s.m_status = NVE_solver_status_max_iters; s.m_fcalls = (int64_t)nv_ver_counter; s.m_gcalls = (int64_t)nv_ver_counter;
  NV_STATE_MAKE_GHOST(s)
  return s;
}
static struct nv_state nv_state_default(void)
{ struct nv_state s; s.ver = 0; s.eval_ver = 0; s.origin = 0; s.valid = 1; s.m_status = NVE_solver_status_max_iters; s.m_fcalls = 0; s.m_gcalls = 0;
  s.t = 0.0; s.m_fx = 0.0; s.dg = 0.0; s.gtest = 0.0; s.feas = 0.0; s.cons_ver = 0; return s; }
static double nv_state_gradient_test(const struct nv_state* s) { return s->gtest; }
static int32_t nv_state_status(const struct nv_state* s) { return s->m_status; }
static void nv_state_set_status(struct nv_state* s, int32_t st) { s->m_status = st; }
static void nv_state_update_calls(struct nv_state* s) { s->m_fcalls = (int64_t)nv_ver_counter; s->m_gcalls = (int64_t)NV_GCOUNT; }
static struct nv_lsearch nv_make_lsearch(const struct nv_solver* s) { struct nv_lsearch l; l.m_last_step_size = nv_nondet_double(); return l; }
static double nv_lsearch0_get(const struct nv_lsearch0* l, const struct nv_state* s, const struct nv_opaque* d, double last) { return nv_nondet_double(); }

#include "weak_get.h"
#define NV_STATUS_OK(st) ((st) == NVE_solver_status_converged || (st) == NVE_solver_status_max_iters || (st) == NVE_solver_status_failed)

/* ---- lsearchk_t::get as proved in C07 (specs/C07/lsearch.h, NV_CONTRACT_lsearchk_get), restated over this header's types */
struct nv_ls_ghost_t { int32_t unused; } nv_ls_ghost;   /* stands for the line search's predicate records (C07 ghosts) */
struct nv_tuple_b_f64 lsearchk_get(struct nv_lsearchk* self, struct nv_state* state, struct nv_opaque* descent, double step_size, struct nv_logger* logger)
NV_WEAK_LSEARCHK_GET_CONTRACT;

/* ---- lsearch_t::get (src/solver/lsearch.cpp): what the solvers rely on */
#define NV_CONTRACT_lsearch_get \
__CPROVER_requires(__CPROVER_is_fresh(self, sizeof(*self)) && __CPROVER_is_fresh(state, sizeof(*state)) && __CPROVER_is_fresh(descent, sizeof(*descent)) && NV_STATE_OK(state) && NV_COUNTER_OK) \
__CPROVER_assigns(*state, nv_ver_counter, self->m_last_step_size, nv_ls_ghost) \
__CPROVER_ensures(__CPROVER_return_value ==> (state->valid && state->ver != __CPROVER_old(state->ver))) \
__CPROVER_ensures(NV_STATE_OK(state) && nv_ver_counter >= __CPROVER_old(nv_ver_counter) && nv_ver_counter - __CPROVER_old(nv_ver_counter) <= NV_LS_MAX_EVALS) \
__CPROVER_ensures(__CPROVER_return_value ==> nv_ver_counter > __CPROVER_old(nv_ver_counter)) \
__CPROVER_ensures(state->m_status == __CPROVER_old(state->m_status)) \
NV_LS_DECREASE(__CPROVER_return_value)

/* ---- solver_t::done: the decision protocol of every solver iteration (from the property statements):
 *   returns true  <=> converged or the step failed (iter_ok false or state invalid);
 *   C01: status becomes `converged` only if the caller's convergence test held;
 *   C02: "unless the status is failed the returned point and value are finite": a state that is not valid is never
 *        given the status `converged`;
 *   C02: "the value is not larger than the starting value": a FAILED iteration (iter_ok false: the line search gave up and left the
 *        state at its last trial point) is never `converged`, it ends in `failed` (repaired defect, specs/C02/FINDING_failed_lsearch_converged.md). */
#ifndef NV_DONE_EXTRA_REQUIRES
#define NV_DONE_EXTRA_REQUIRES 1
#endif
/* (no consistency precondition on the state: the non line-search solvers call done() on a best state whose stored
 *  sub-gradient may be stale) */
#define NV_CONTRACT_solver_done \
__CPROVER_requires(__CPROVER_is_fresh(state, sizeof(*state)) && NV_COUNTER_OK && NV_DONE_EXTRA_REQUIRES) \
__CPROVER_assigns(state->m_status, state->m_fcalls, state->m_gcalls) \
__CPROVER_ensures(__CPROVER_return_value == (converged || !(iter_ok && state->valid))) \
__CPROVER_ensures(!__CPROVER_return_value ==> state->m_status == __CPROVER_old(state->m_status)) \
__CPROVER_ensures(__CPROVER_return_value ==> (state->m_status == NVE_solver_status_converged || state->m_status == NVE_solver_status_failed)) \
__CPROVER_ensures((__CPROVER_return_value && state->m_status == NVE_solver_status_converged) ==> converged) \
__CPROVER_ensures((__CPROVER_return_value && state->m_status == NVE_solver_status_converged) ==> state->valid) \
__CPROVER_ensures((__CPROVER_return_value && state->m_status == NVE_solver_status_converged) ==> iter_ok) \
__CPROVER_ensures(!iter_ok ==> (__CPROVER_return_value && state->m_status == NVE_solver_status_failed)) \
__CPROVER_ensures((__CPROVER_return_value && converged && iter_ok && state->valid) ==> state->m_status == NVE_solver_status_converged) \
__CPROVER_ensures(state->m_fcalls >= 0 && (uint64_t)state->m_fcalls <= nv_ver_counter && state->m_gcalls >= 0 && (uint64_t)state->m_gcalls <= NV_GCOUNT)

/* ---- do_minimize of gd / cgd / lbfgs / quasi */
#define NV_RET __CPROVER_return_value
#define NV_MINIMIZE_REQUIRES \
/* solver_t::minimize clears the function's statistics before do_minimize: the evaluation counter starts at 0 */ \
__CPROVER_requires(NV_SOLVER_PARAMS_OK && nv_ver_counter == 0 && __CPROVER_is_fresh(self, sizeof(*self)))
/* C01: converged => the returned state's own gradient test (its own value and gradient, one evaluation) is below epsilon */
#define NV_ENSURES_C01 \
__CPROVER_ensures(NV_RET.m_status == NVE_solver_status_converged ==> (NV_RET.gtest < nv_epsilon && NV_RET.eval_ver == NV_RET.ver))
#define NV_ENSURES_C02 \
/* C02: status is one of the three; the reported (x, f, g) is one consistent evaluation; reported counts <= performed */ \
__CPROVER_ensures(NV_STATUS_OK(NV_RET.m_status)) \
__CPROVER_ensures(NV_RET.eval_ver == NV_RET.ver && NV_RET.ver <= nv_ver_counter) \
__CPROVER_ensures(NV_RET.m_fcalls >= 0 && (uint64_t)NV_RET.m_fcalls <= nv_ver_counter && NV_RET.m_gcalls >= 0 && (uint64_t)NV_RET.m_gcalls <= nv_ver_counter) \
/* C02: unless failed, the returned point and value are finite */ \
__CPROVER_ensures(NV_RET.m_status != NVE_solver_status_failed ==> NV_RET.valid) \
/* C02: budget: evaluations exceed max_evals by at most one outer iteration's worth (one line search) */ \
__CPROVER_ensures(nv_ver_counter < 2000000000 && 2 * nv_ver_counter < (uint64_t)nv_max_evals + 2 * NV_LS_MAX_EVALS + 2) \
NV_ENSURES_C02_F0
#if defined(NV_C02)
/* C02: "the value is not larger than the starting value" for an Armijo-exit line search (every pairing but CG_DESCENT) and a finite start */
/* (two clauses: the second one was REFUTED before the library repair `(converged && step_ok)` in solver_t::done -- a FAILED line search leaves
 *  the state at its last trial point and solver_t::done(state, iter_ok = false, converged = true) reported `converged`:
 *  specs/C02/FINDING_failed_lsearch_converged.md, replay/C02_failed_lsearch_converged.cpp; `fixed:` line in known_findings.txt) */
#define NV_ENSURES_C02_F0 \
__CPROVER_ensures((nv_ls_armijo_exit && NV_RET.m_status == NVE_solver_status_max_iters && __CPROVER_isfinited(nv_ls_f0)) ==> NV_RET.m_fx <= nv_ls_f0) \
__CPROVER_ensures((nv_ls_armijo_exit && NV_RET.m_status == NVE_solver_status_converged && __CPROVER_isfinited(nv_ls_f0)) ==> NV_RET.m_fx <= nv_ls_f0)
#else
#define NV_ENSURES_C02_F0
#endif
#if defined(NV_C01)
#define NV_MINIMIZE_ENSURES NV_ENSURES_C01
#elif defined(NV_C02)
#define NV_MINIMIZE_ENSURES NV_ENSURES_C02
#else
#define NV_MINIMIZE_ENSURES NV_ENSURES_C01 NV_ENSURES_C02
#endif
#define NV_MINIMIZE_ASSIGNS __CPROVER_assigns(nv_ver_counter, nv_ls_ghost NV_F0_ASSIGNS)

#define NV_CONTRACT_gd_do_minimize NV_MINIMIZE_REQUIRES NV_MINIMIZE_ASSIGNS NV_MINIMIZE_ENSURES
#define NV_LOOP_gd_do_minimize_1 \
__CPROVER_assigns(state, descent, lsearch, nv_ver_counter, nv_ls_ghost) \
__CPROVER_loop_invariant(NV_STATE_OK(&state) && state.m_status == NVE_solver_status_max_iters && state.valid && NV_DECR(state)) \
__CPROVER_loop_invariant(state.m_fcalls >= 0 && (uint64_t)state.m_fcalls <= nv_ver_counter && state.m_gcalls >= 0 && (uint64_t)state.m_gcalls <= nv_ver_counter) \
__CPROVER_loop_invariant(1 <= nv_ver_counter && nv_ver_counter < 2000000000 && 2 * nv_ver_counter < (uint64_t)nv_max_evals + 2 * NV_LS_MAX_EVALS + 2) \
__CPROVER_decreases((uint64_t)nv_max_evals + (2 * NV_LS_MAX_EVALS + 50000) - 2 * nv_ver_counter)

enum { NVE_quasi_initialization_identity = 0, NVE_quasi_initialization_scaled = 1 };
static int32_t nv_param_initialization(void) { return nv_nondet_int32_t(); }
static double nv_param_orthotest(void) { return nv_nondet_double(); }
static uint64_t nv_param_history(void) { return nv_nondet_uint64_t(); }

/* invariant shared by the cgd / lbfgs / quasi loops: both the current and the previous state are valid, consistent
 * evaluations with status max_iters (so that `return cstate.valid() ? cstate : pstate` can only return a tested state) */
#define NV_COUNTS_OK(s) ((s).m_fcalls >= 0 && (uint64_t)(s).m_fcalls <= nv_ver_counter && (s).m_gcalls >= 0 && (uint64_t)(s).m_gcalls <= nv_ver_counter)
#define NV_GOOD(s) (NV_STATE_OK(&(s)) && (s).m_status == NVE_solver_status_max_iters && (s).valid && NV_COUNTS_OK(s))
#define NV_BUDGET (1 <= nv_ver_counter && nv_ver_counter < 2000000000 && 2 * nv_ver_counter < (uint64_t)nv_max_evals + 2 * NV_LS_MAX_EVALS + 2)
#define NV_SOLVER_LOOP(extra) \
__CPROVER_assigns(cstate, pstate, lsearch, nv_ver_counter, nv_ls_ghost extra) \
__CPROVER_loop_invariant(NV_GOOD(cstate) && NV_GOOD(pstate) && NV_BUDGET && NV_DECR(cstate) && (pstate.ver == 0 /* quasi: the default-constructed previous state before the first iteration */ || NV_DECR(pstate))) \
__CPROVER_decreases((uint64_t)nv_max_evals + (2 * NV_LS_MAX_EVALS + 50000) - 2 * nv_ver_counter)
#define NV_COMMA ,
#define NV_CONTRACT_cgd_do_minimize NV_MINIMIZE_REQUIRES NV_MINIMIZE_ASSIGNS NV_MINIMIZE_ENSURES
#define NV_LOOP_cgd_do_minimize_1 NV_SOLVER_LOOP()
#define NV_CONTRACT_lbfgs_do_minimize NV_MINIMIZE_REQUIRES NV_MINIMIZE_ASSIGNS NV_MINIMIZE_ENSURES
#define NV_LOOP_lbfgs_do_minimize_1 NV_SOLVER_LOOP()
/* loops 2 and 3 of lbfgs_do_minimize (the two-loop recursion over erased vectors) are canonical counting loops: they get the engine's
 * default contract (NV_AUTOLOOP: frame = the counter, counter between its entry value and the bound, variant = distance to the bound) */
#define NV_CONTRACT_quasi_do_minimize NV_MINIMIZE_REQUIRES NV_MINIMIZE_ASSIGNS NV_MINIMIZE_ENSURES
#define NV_LOOP_quasi_do_minimize_1 NV_SOLVER_LOOP(NV_COMMA first_iteration)

/* solver_state_t::solver_state_t(function, x0): "a new state claims nothing": its status is max_iters (the default member
 * initialiser `m_status{}` value-initialises to the FIRST enumerator, whose identity is read from /repo's AST), and the
 * reported evaluation counts are copied from the function */
#define NV_CONTRACT_state_ctor \
__CPROVER_requires(__CPROVER_is_fresh(self, sizeof(*self)) && __CPROVER_is_fresh(function, sizeof(*function)) && NV_COUNTER_OK) \
__CPROVER_assigns(*self, nv_ver_counter) \
__CPROVER_ensures(self->m_status == NVE_solver_status_max_iters && self->m_status != NVE_solver_status_converged) \
__CPROVER_ensures(self->m_fcalls >= 0 && (uint64_t)self->m_fcalls <= nv_ver_counter && self->m_function == function)
static double nv_fn_vgrad(const struct nv_function* f) { nv_ver_counter = nv_ver_counter + 1; return nv_nondet_double(); }
static void nv_state_update_constraints(struct nv_state* s) { s->cons_ver = s->ver; }
