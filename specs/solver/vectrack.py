"""ghost identities for vectors whose algebra is erased (shared by specs/C02 and specs/C03)

The line-search solvers move their state with `state.update(x)`, one evaluation at the given point, so erasing all vector
algebra loses nothing the protocol needs.  The other solvers evaluate `f = function.vgrad(x, g)` and hand the triple
`(x, g, f)` to `state.update_if_better(..)` as three separate objects: "the reported value is the function at the
reported point" is then a statement about *which* vector was evaluated and whether it was written in between.

`VecTrack` keeps the vector type as a C struct with a ghost identity (`struct nv_vec`, see specs/C02/nonls.h) and makes
every statement of the extracted function account for its possible writes, mechanically from clang's AST:

  * a *mention* of a tracked vector (DeclRefExpr / MemberExpr of the tracked type, or a variable recorded as a view of one)
    is CONST when clang bound it to a const object (implicit NoOp / derived-to-base cast to a const type, a const
    view constructor, a const-declared variable or reference), otherwise it is POSSIBLY MUTATING;
  * every statement (and every if / loop header) first emits `nv_vec_touch(&v)` (fresh identity, unknown contents) for
    each vector with a possibly-mutating mention in it.  Over-approximating writes is sound: a fresh identity is equal
    to nothing that was recorded before;
  * a local of erased (opaque) type initialised from a possibly-mutating mention (`auto xv = x.vector();` -- an Eigen
    map of x) is recorded as a view: its own mentions count as mentions of the vectors it was made from;
  * `a = b` between tracked vectors is a copy of the identity; any other assignment / compound assignment / erased
    statement is dropped after the engine's purity check (no side effect on any *other* modelled object);
  * calls that have a mapping (stubs with assumed contracts: vgrad, update_if_better, ...) are printed by the engine
    as usual and receive the vectors by address.
"""
import re

from cxx2c import unwrap, strip_cv, qual, Unsupported, TRANSPARENT, CAST_KINDS

CONST_CASTS = ('NoOp', 'DerivedToBase', 'UncheckedDerivedToBase')
ASSIGN_OPS = ('operator=', 'operator+=', 'operator-=', 'operator*=', 'operator/=')
HEADERS = {'IfStmt', 'WhileStmt', 'ForStmt', 'DoStmt', 'SwitchStmt', 'CXXForRangeStmt'}
SKIP = {'CompoundStmt', 'BreakStmt', 'ContinueStmt', 'NullStmt', 'CaseStmt', 'DefaultStmt'}


def _is_const_q(q):
    q = (q or '').strip()
    while q.endswith('&'):
        q = q[:-1].strip()
    return bool(re.match(r'^const\b', q)) or bool(re.search(r'\bconst$', q))


class VecTrack:
    def __init__(self, tracked=r'^(nano::)?vector_t$|^(nano::)?tensor_t<nano::tensor_vector_storage_t, double, 1(UL)?>$',
                 const_views=r'tensor_cmap_storage_t|vector_cmap_t|matrix_cmap_t|Map<const ', touch='nv_vec_touch', extracted_lambdas=()):
        self.extracted_lambdas = set(extracted_lambdas)   # lambda variables the spec extracts as functions of their own (Fn(lambda_index=..))
        self.tracked = tracked
        self.const_views = const_views
        self.touch = touch
        self.views = {}          # decl id of a view variable -> list of (C address text of the underlying vector)
        self.active = set()

    # ------------------------------------------------------------------ classification
    def is_tracked_type(self, t):
        for q in (t.get('qualType'), t.get('desugaredQualType')):
            if q is None:
                continue
            q = strip_cv(q)
            while q.endswith('&'):
                q = strip_cv(q[:-1])
            if re.search(self.tracked, q):
                return True
        return False

    def mention(self, n):
        """the tracked lvalue a node denotes: ('vec', node) | ('view', decl id) | None"""
        k = n.get('kind')
        if k == 'DeclRefExpr':
            rd = n.get('referencedDecl', {})
            if rd.get('id') in self.views:
                return ('view', rd['id'])
            if rd.get('kind') in ('VarDecl', 'ParmVarDecl', 'BindingDecl') and self.is_tracked_type(n.get('type', {})):
                return ('vec', n)
        if k == 'MemberExpr' and self.is_tracked_type(n.get('type', {})) and n.get('valueCategory') == 'lvalue':
            return ('vec', n)
        return None

    def declared_const(self, n):
        if n.get('kind') == 'DeclRefExpr':
            return _is_const_q(n.get('referencedDecl', {}).get('type', {}).get('qualType', ''))
        return _is_const_q(n.get('type', {}).get('qualType', ''))

    def const_context(self, parents):
        """clang bound the mentioned object to a const object / copied it"""
        for p in reversed(parents):
            k = p.get('kind')
            if k in ('ParenExpr', 'ConditionalOperator'):
                continue           # `c ? a : b` as an lvalue: what binds the conditional binds the operand
            if k == 'ImplicitCastExpr':
                ck = p.get('castKind')
                if ck == 'LValueToRValue':
                    return True
                if ck in CONST_CASTS:
                    if _is_const_q(p.get('type', {}).get('qualType', '')):
                        return True
                    continue       # derived-to-base without const: keep looking upwards
                return False
            if k in ('CXXConstructExpr', 'CXXTemporaryObjectExpr'):
                q = qual(p.get('type', {})) + ' ' + p.get('type', {}).get('qualType', '')
                ct = p.get('ctorType', {}).get('qualType', '')
                if re.search(self.const_views, q) or re.search(r'\(const [^()]*&\)', ct):
                    return True
                return False
            return False
        return False

    def collect(self, P, n, parents=None, out=None):
        """addresses (C text) of the vectors with a possibly-mutating mention inside n"""
        if out is None:
            out = []
        parents = parents or []
        if not isinstance(n, dict):
            return out
        if n.get('kind') == 'LambdaExpr':
            raise Unsupported('lambda inside a statement with tracked vectors (extract it separately)')
        m = self.mention(n)
        if m is not None:
            if not self.declared_const(n) and not self.const_context(parents):
                if m[0] == 'view':
                    for a in self.views[m[1]]:
                        if a not in out:
                            out.append(a)
                else:
                    a = P.addr(m[1])
                    if a not in out:
                        out.append(a)
            return out
        for c in n.get('inner', []):
            self.collect(P, c, parents + [n], out)
        return out

    def underlying(self, P, n):
        """addresses of every vector (through views too) mentioned at all inside n"""
        out = []

        def rec(x):
            if not isinstance(x, dict):
                return
            m = self.mention(x)
            if m is not None:
                for a in (self.views[m[1]] if m[0] == 'view' else [P.addr(m[1])]):
                    if a not in out:
                        out.append(a)
                return
            for c in x.get('inner', []):
                rec(c)
        rec(n)
        return out

    # ------------------------------------------------------------------ purity of dropped statements
    def check_pure(self, P, n, what):
        """the engine's purity check, with the tracked vector type exempt (its writes are accounted for by touches)"""
        orig = P.is_modelled_struct

        def tolerant(t):
            return False if self.is_tracked_type(t or {}) else orig(t)
        P.is_modelled_struct = tolerant
        try:
            P.check_pure(n, what)
        finally:
            P.is_modelled_struct = orig

    INT_C = ('int8_t', 'uint8_t', 'int16_t', 'uint16_t', 'int32_t', 'uint32_t', 'int64_t', 'uint64_t', 'char')

    def int_divisions(self, P, n, p):
        """an INTEGER division inside an erased floating-point / Eigen statement is invisible once the statement is dropped, but its
        truncation is not what the real-valued formula means (`(n * n) / (n * n - 1)` with an integral n is 1): every such division
        becomes the obligation that it is exact.  The operands are printed from the AST like any other integer expression."""
        import astload
        out = ''
        for x in astload.walk(n):
            if x.get('kind') != 'BinaryOperator' or x.get('opcode') != '/':
                continue
            try:
                c = P.ctype(x['type'])
            except Unsupported:
                continue
            if c not in self.INT_C:
                continue
            la, lb = unwrap(x['inner'][0]), unwrap(x['inner'][1])
            P.note('integer division inside erased numerics -> exactness obligation')
            if la.get('kind') == 'IntegerLiteral' and lb.get('kind') == 'IntegerLiteral' and int(lb['value']) != 0 and int(la['value']) % int(lb['value']) == 0:
                continue        # a constant, exact quotient
            # exactness of a quotient of non-constant integers (n * n over n * n - 1) is a non-linear fact the SAT back end cannot
            # afford; the obligation is therefore the syntactic one: no such division inside real-valued numerics at all
            src = (P.expr(x['inner'][0]) + ' / ' + P.expr(x['inner'][1])).replace('"', "'")[:120]
            out += (f'{p}__CPROVER_assert(0, "no truncating integer division feeds erased floating-point numerics '
                    f'(a real-valued factor must be computed in floating point): {src}");\n')
        return out

    def touches(self, addrs, p):
        return ''.join(f'{p}{self.touch}({a});\n' for a in addrs)

    # ------------------------------------------------------------------ expression hook
    def expr_hook(self, P, n):
        """an assignment to a tracked vector nested inside a larger expression (`f(yk = a - b)`): the vector gets a fresh
        identity at that point and the expression denotes the vector"""
        if n.get('kind') != 'CXXOperatorCallExpr' or len(n.get('inner', [])) != 3 or id(n) == getattr(P, 'discard_id', None):
            return None
        op = unwrap(n['inner'][0]).get('referencedDecl', {}).get('name')
        if op not in ASSIGN_OPS:
            return None
        lm = self.mention(unwrap(n['inner'][1]))
        if lm is None or lm[0] != 'vec':
            return None
        self.check_pure(P, n['inner'][2], f'value assigned to a tracked vector ({op}, nested)')
        a = P.addr(lm[1])
        P.note(f'tracked vector: nested {op} -> touch')
        return f'(*({self.touch}({a}), {a}))'

    # ------------------------------------------------------------------ the statement hook
    def stmt_hook(self, P, n, ind):
        k = n.get('kind')
        if id(n) in self.active or k in SKIP or k is None:
            return None
        p = '  ' * ind
        inner = n.get('inner', [])
        if k in HEADERS:
            # header expressions of a compound statement (bodies are visited as statements of their own)
            if k == 'IfStmt':
                heads = [c for c in inner if c.get('kind') not in ('CompoundStmt',)][:1 + int(bool(n.get('hasInit'))) + int(bool(n.get('hasVar')))]
                w = []
                for h in heads:
                    if h.get('kind') == 'DeclStmt':
                        continue       # printed (and hooked) as a statement by the engine
                    self.collect(P, h, [], w)
                if not w:
                    return None
                return self.touches(w, p) + self.reenter(P, n, ind)
            heads = [c for c in inner if isinstance(c, dict) and c.get('kind') not in ('CompoundStmt', 'DeclStmt')]
            if k in ('WhileStmt', 'ForStmt', 'DoStmt'):
                body = inner[-1] if k != 'DoStmt' else inner[0]
                heads = [c for c in inner if isinstance(c, dict) and c is not body and c.get('kind') != 'DeclStmt']
            for h in heads:
                if h.get('kind') and self.collect(P, h, [], []):
                    raise Unsupported(f'possibly-mutating use of a tracked vector in the header of a {k}')
            return None
        if k == 'DeclStmt':
            return self.decl_stmt(P, n, ind)
        if k == 'ReturnStmt':
            w = self.collect(P, n, [], [])
            return (self.touches(w, p) + self.reenter(P, n, ind)) if w else None
        # expression statement
        top = n
        while top.get('kind') in TRANSPARENT and top.get('inner'):
            top = top['inner'][0]
        w = self.collect(P, n, [], [])
        if top.get('kind') == 'CXXOperatorCallExpr' and len(top.get('inner', [])) == 3:
            op = unwrap(top['inner'][0]).get('referencedDecl', {}).get('name')
            lhs = unwrap(top['inner'][1])
            lm = self.mention(lhs)
            if op in ASSIGN_OPS and lm is not None:
                rhs = top['inner'][2]
                r = unwrap(rhs)
                while r.get('kind') in ('CXXConstructExpr', 'MaterializeTemporaryExpr', 'CXXBindTemporaryExpr') and len(r.get('inner', [])) == 1:
                    r = unwrap(r['inner'][0])
                rm = self.mention(r)
                if op == 'operator=' and lm[0] == 'vec' and rm is not None and rm[0] == 'vec':
                    P.note('tracked vector: copy assignment')
                    return f'{p}(*{P.addr(lm[1])}) = (*{P.addr(rm[1])});\n'
                if op == 'operator=' and lm[0] == 'vec' and self.is_tracked_type(r.get('type', {})) and r.get('kind') == 'CXXMemberCallExpr':
                    try:
                        e = P.expr(r)
                        if not re.fullmatch(r'nv_nondet_\w+\(\)|nv_opaque_value\(\)', e):
                            P.note('tracked vector: assignment from a mapped call')
                            ww = [a for a in w if a != P.addr(lm[1])]
                            return self.touches(ww, p) + f'{p}(*{P.addr(lm[1])}) = {e};\n'
                    except Unsupported:
                        pass
                self.check_pure(P, rhs, f'value assigned to a tracked vector ({op})')
                P.note(f'tracked vector: {op} <erased expression> -> touch')
                P.dropped.append(n.get('range', {}).get('begin', {}).get('line', '?'))
                return self.int_divisions(P, rhs, p) + self.touches(w, p)
        if P.is_opaque(top.get('type')) or (top.get('kind') in ('CXXOperatorCallExpr', 'CXXMemberCallExpr') and self.is_unmapped_erased(P, top)):
            self.check_pure(P, n, 'erased statement over tracked vectors')
            P.note('tracked vector: erased statement -> touch')
            P.dropped.append(n.get('range', {}).get('begin', {}).get('line', '?'))
            P.erased.append(f'line {n.get("range", {}).get("begin", {}).get("line", "?")}: erased statement (opaque numerics; tracked vectors touched: {", ".join(w) or "none"})')
            return self.int_divisions(P, n, p) + self.touches(w, p)
        if not w:
            return None
        return self.touches(w, p) + self.reenter(P, n, ind)

    def is_unmapped_erased(self, P, top):
        """a call statement on erased objects without a mapping (the engine would auto-havoc it)"""
        try:
            e = P.expr(top)
        except Unsupported:
            return True
        finally:
            P.pending_throw = False
        return bool(re.fullmatch(r'nv_nondet_\w+\(\)|nv_opaque_value\(\)|\(\(void\)0\)', e))

    def reenter(self, P, n, ind):
        self.active.add(id(n))
        try:
            return P.stmt1(n, ind)
        finally:
            self.active.discard(id(n))

    def decl_stmt(self, P, n, ind):
        p = '  ' * ind
        out = ''
        for v in n.get('inner', []):
            if v.get('kind') != 'VarDecl':
                w = self.collect(P, v, [], [])
                out += self.touches(w, p) + P.vardecl(v, p)
                continue
            init = [x for x in v.get('inner', []) if x.get('kind') not in ('FullComment',)]
            ty = v['type'].get('qualType', '').rstrip()
            if init and unwrap(init[0]).get('kind') == 'LambdaExpr':
                # a lambda variable (its calls are mapped by the spec): it must not touch tracked vectors and must be
                # free of side effects on modelled objects, so that a call can be replaced by its (unknown) result
                lam = unwrap(init[0])
                body = [c for c in lam.get('inner', []) if c.get('kind') == 'CompoundStmt']
                for b in ([] if v.get('name') in self.extracted_lambdas else body):
                    if self.underlying(P, b):
                        raise Unsupported(f'lambda {v["name"]} uses tracked vectors (extract it as a function of its own)')
                    P.check_pure(b, f'body of lambda {v["name"]}')
                out += P.vardecl(v, p)
                continue
            w = self.collect(P, init[0], [], []) if init else []
            if self.is_tracked_type(v['type']):
                if ty.endswith('&'):
                    # a reference to tracked vectors: a pointer in C (conditional operands are handled by the engine)
                    out += self.touches(w, p) + P.vardecl(v, p)
                    continue
                if init:
                    r = unwrap(init[0])
                    while r.get('kind') in ('CXXConstructExpr', 'MaterializeTemporaryExpr', 'CXXBindTemporaryExpr') and len(r.get('inner', [])) == 1:
                        r = unwrap(r['inner'][0])
                    rm = self.mention(r)
                    if rm is not None and rm[0] == 'vec':
                        out += f'{p}struct nv_vec {v["name"]} = (*{P.addr(rm[1])});\n'
                        continue
                    if r.get('kind') == 'CXXMemberCallExpr' and self.is_tracked_type(r.get('type', {})):
                        try:
                            e = P.expr(r)
                            if not re.fullmatch(r'nv_nondet_\w+\(\)|nv_opaque_value\(\)', e):
                                out += self.touches(w, p) + f'{p}struct nv_vec {v["name"]} = {e};\n'
                                continue
                        except Unsupported:
                            pass
                    self.check_pure(P, init[0], f'initialiser of tracked vector {v["name"]}')
                P.note('tracked vector: new vector with unknown contents')
                out += self.touches(w, p) + f'{p}struct nv_vec {v["name"]} = nv_vec_fresh();\n'
                continue
            try:
                c = P.ctype(v['type'])
            except Unsupported:
                c = None
            if c is not None and c.startswith('struct nv_opaque') and init:
                u = self.underlying(P, init[0]) if w else []
                if w:
                    # a mutable view of tracked vectors (Eigen map / block / reference to erased numerics)
                    self.views[v['id']] = u
                    self.check_pure(P, init[0], f'initialiser of view {v["name"]}')
                    P.note(f'tracked vector: {v["name"]} recorded as a view')
                    P.erased.append(f'line {v.get("loc", {}).get("line", "?")}: erased variable {v["name"]}: view of {", ".join(u)}')
                    if ty.endswith('&'):
                        P.tmp += 1
                        out += f'{p}struct nv_opaque nv_ref{P.tmp}; struct nv_opaque* {v["name"]} = &nv_ref{P.tmp};\n'
                    else:
                        out += f'{p}struct nv_opaque {v["name"]};\n'
                    continue
                tolerant = P.is_modelled_struct
                P.is_modelled_struct = lambda t: False if self.is_tracked_type(t or {}) else tolerant(t)
                try:
                    out += P.vardecl(v, p)
                finally:
                    P.is_modelled_struct = tolerant
                continue
            # scalars and modelled structs: printed by the engine (erased sub-expressions are purity-checked there, with
            # const uses of tracked vectors allowed by the engine's own const analysis)
            tolerant = P.is_modelled_struct
            P.is_modelled_struct = lambda t: False if self.is_tracked_type(t or {}) else tolerant(t)
            try:
                out += self.touches(w, p) + P.vardecl(v, p)
            finally:
                P.is_modelled_struct = tolerant
        return out
