"""shared by specs/C01 and specs/C02: the line-search solvers' protocol targets"""
import os
import sys

from core import Fn, Target
import hooks

H = 'specs/solver/solver.h'
TYPES = [(r'^nano::solver_state_t$', 'struct nv_state'), (r'^nano::logger_t$', 'struct nv_logger'),
         (r'^nano::function_t$', 'struct nv_function'), (r'^nano::lsearch_t$', 'struct nv_lsearch'),
         (r'^nano::solver_status$', 'int32_t'), (r'^nano::quasi_initialization$', 'int32_t'),
         (r'^std::tuple<bool, double>$|result_t$', 'struct nv_tuple_b_f64'),
         (r'std::tuple_element<0, std::tuple<bool, double>>::type|tuple_element<0, const std::tuple<bool, double>>::type', '_Bool'),
         (r'std::tuple_element<1, std::tuple<bool, double>>::type|tuple_element<1, const std::tuple<bool, double>>::type', 'double'),
         (r'lsearch0_t', 'struct nv_lsearch0'), (r'lsearchk_t', 'struct nv_lsearchk')]
OPAQUE = [r'^nano::vector_t$', r'^nano::matrix_t$', r'tensor_t<nano::tensor_vector_storage_t, double', r'Eigen::', r'^std::deque<', r'^std::vector<double',
          r'tensor_t<nano::tensor_(c)?map_storage_t, double', r'nano::vector_c?map_t', r'nano::matrix_c?map_t', r'tensor_base_t<double']
MEMBERS = [(r'^valid\|nano::solver_state_t', 'nv_state_valid'), (r'^fx\|nano::solver_state_t', 'nv_state_fx'),
           (r'^gradient_test\|nano::solver_state_t', 'nv_state_gradient_test'),
           (r'^has_descent\|nano::solver_state_t', '@nondet'),
           (r'^status\|nano::solver_state_t[ *]*\|#0', 'nv_state_status'),
           (r'^status\|nano::solver_state_t[ *]*\|#1', 'nv_state_set_status'),
           (r'^update_calls\|nano::solver_state_t', 'nv_state_update_calls'),
           (r'^(info|warn|error)\|nano::logger_t', '@drop'),
           (r'^(fcalls|gcalls)\|nano::function_t', 'nv_fn_calls'),
           (r'^make_lsearch\|', 'nv_make_lsearch'),
           (r'^get\|nano::lsearch_t', 'lsearch_get({self}, {&0}, {&1}, {&2})'),
           (r'^get\|.*lsearch0_t', 'nv_lsearch0_get({self}, {&0}, {&1}, {2})'),
           (r'^get\|.*lsearchk_t', 'lsearchk_get({self}, {&0}, {&1}, {2}, {&3})'),
           (r'^done\|.*solver_', 'solver_done')]
CALLS = [(r'^ctor\|nano::solver_state_t\|void \(const nano::function_t &', 'nv_state_make({&0}, (const struct nv_opaque*)0)'),
         (r'^ctor\|nano::solver_state_t\|void \(\)', 'nv_state_default()'),
         (r'^operator->\|', '(&{0})'), (r'^operator\*\|.*unique_ptr', '{0}'),
         (r'^fabs\|', 'nv_fabs({0})'), (r'^max\|const double &', 'nv_fmax({0}, {1})'), (r'^min\|const double &', 'nv_fmin({0}, {1})'),
         (r'^clamp\|const double &', 'nv_fclamp({0}, {1}, {2})'), (r'^isfinite\|', 'nv_isfinite({0})'),
         (r'^operator=\|.*solver_state_t', '({0} = {1})')]
HOOKS = [hooks.param_hook()]
COMMON = dict(types=TYPES, calls=CALLS, members=MEMBERS, hooks=HOOKS, opaque=OPAQUE, aggregates=['struct nv_tuple_b_f64'])


def fn_done():
    return Fn('solver_done', 'src/solver.cpp', 'done', flt='solver_t::done', self_struct='struct nv_solver', **COMMON)


def fn_state_ctor():
    members = [(r'^vgrad\|nano::function_t', 'nv_fn_vgrad({self})'), (r'^update_calls\|', 'nv_state_update_calls'),
               (r'^update_constraints\|', 'nv_state_update_constraints'), (r'^constraints\|nano::function_t', '@nondet')] + MEMBERS
    kw = dict(COMMON)
    kw.update(members=members, opaque=OPAQUE + [r'constraints_t', r'std::vector<std::variant'])
    return Fn('state_ctor', 'src/solver/state.cpp', 'solver_state_t', flt='solver_state_t::solver_state_t', kinds=('CXXConstructorDecl',),
              select=lambda d: len([c for c in d['inner'] if c['kind'] == 'ParmVarDecl']) == 2, self_struct='struct nv_state', **kw)


ENUMS = [('src/solver/state.cpp', 'nano::solver_status')]


def fn_lsearch_get():
    return Fn('lsearch_get', 'src/solver/lsearch.cpp', 'get', flt='lsearch_t::get', self_struct='struct nv_lsearch', **COMMON)


def fn_minimize(cname, tu, flt):
    return Fn(cname, tu, 'do_minimize', flt=flt, self_struct='struct nv_solver', **COMMON)


BODIES = [('gd_do_minimize', 'src/solver/gd.cpp', 'solver_gd_t::do_minimize'),
          ('cgd_do_minimize', 'src/solver/cgd.cpp', 'solver_cgd_t::do_minimize'),
          ('lbfgs_do_minimize', 'src/solver/lbfgs.cpp', 'solver_lbfgs_t::do_minimize'),
          ('quasi_do_minimize', 'src/solver/quasi.cpp', 'solver_quasi_t::do_minimize')]


REFINE_HARNESS = '''
int main(void)
{
  struct nv_lsearchk* self; struct nv_state* state; struct nv_vector* descent; double step_size; struct nv_logger* logger;
  nv_thrown = 0;
  lsearchk_get_weak(self, state, descent, step_size, logger);
  __CPROVER_assert(0, "nv_canary: end of harness reachable");
  return 0;
}
'''


def targets(defines=()):
    ts = [Target('state_ctor', [fn_state_ctor()], H, defines=defines, enums=ENUMS),
          Target('lemma_lsearchk_get_contract_refinement', [], 'specs/solver/refine.h', enforce='lsearchk_get_weak',
                 replace=['lsearchk_get'], harness=REFINE_HARNESS, defines=defines,
                 note='contract-level lemma: C07 contract of lsearchk_t::get implies the contract the solvers use'),
          Target('solver_done', [fn_done()], H, defines=defines, enums=ENUMS),
          Target('lsearch_get', [fn_lsearch_get()], H, replace=['lsearchk_get'], defines=defines)]
    for cname, tu, flt in BODIES:
        ts.append(Target(cname, [fn_minimize(cname, tu, flt), fn_done(), fn_lsearch_get()], H,
                         replace=['solver_done', 'lsearch_get'], defines=defines, enums=ENUMS))
    return ts
