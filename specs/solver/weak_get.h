/* the part of lsearchk_t::get's contract (proved in C07) that the solvers rely on; shared verbatim by
 * specs/solver/solver.h (where it is the contract of the callee) and specs/solver/refine.h (where it is proved to
 * follow from C07's contract) */
#ifndef NV_WEAK_GET_H
#define NV_WEAK_GET_H
/* evaluations of one lsearchk_t::get call: <= 10 * max_iterations with max_iterations <= 10000 (C07: two adjustment loops of <= max_iterations
 * each, then do_get: <= max_iterations (backtrack, LeMarechal, More-Thuente), <= 2x (Fletcher), <= 7x + 1 (CG_DESCENT)) */
#define NV_LS_MAX_EVALS 100000
#define NV_COUNTER_OK (nv_ver_counter < 4000000000000000000ull)
#define NV_STATE_OK(s) ((s)->eval_ver == (s)->ver && (s)->ver <= nv_ver_counter)
#ifndef NV_LS_ARMIJO_EXIT_DECL
#define NV_LS_ARMIJO_EXIT_DECL
_Bool nv_ls_armijo_exit;     /* ghost (see specs/C07/lsearch.h): every success exit of the configured line search is an Armijo exit */
#endif
/* success => the new value is finite and, for an Armijo-exit line search, not above the value on entry (C02: f <= f0) */
#define NV_LS_DECREASE(OK) \
__CPROVER_ensures((OK) ==> __CPROVER_isfinited(state->m_fx)) \
__CPROVER_ensures(((OK) && nv_ls_armijo_exit && __CPROVER_isfinited(__CPROVER_old(state->m_fx))) ==> state->m_fx <= __CPROVER_old(state->m_fx))
#define NV_WEAK_LSEARCHK_GET_CONTRACT \
__CPROVER_requires(__CPROVER_is_fresh(state, sizeof(*state)) && __CPROVER_is_fresh(self, sizeof(*self)) && __CPROVER_is_fresh(descent, sizeof(*descent)) && NV_STATE_OK(state) && NV_COUNTER_OK) \
__CPROVER_assigns(*state, nv_ver_counter, nv_ls_ghost) \
__CPROVER_ensures(__CPROVER_return_value._0 ==> (state->valid && state->ver != __CPROVER_old(state->ver))) \
__CPROVER_ensures(NV_STATE_OK(state) && nv_ver_counter >= __CPROVER_old(nv_ver_counter) && nv_ver_counter - __CPROVER_old(nv_ver_counter) <= NV_LS_MAX_EVALS) \
__CPROVER_ensures(__CPROVER_return_value._0 ==> nv_ver_counter > __CPROVER_old(nv_ver_counter)) \
__CPROVER_ensures(state->m_status == __CPROVER_old(state->m_status)) \
NV_LS_DECREASE(__CPROVER_return_value._0)
#endif
