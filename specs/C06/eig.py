"""eig: symbolic execution (on top of nvwp, double as Real) of libnano code written with Eigen arrays / nano tensors.

An array value is represented by its coefficient terms:
  * GENERIC mode (n=None): ONE term, the coefficient at the generic index i of an array of SYMBOLIC length; the coefficient
    of an input array `a` is the real constant `|a@i|`.  Reductions become `(nv_sum phi)` (see sx.py).  Only code that treats
    every coordinate alike is accepted (coefficient-wise operators, reductions, `for (i = 0; i < size; ++i)` map/reduce
    loops that touch the arrays at index i only); anything else raises Unsupported.
  * CONCRETE mode (n=k): k terms `|a@0|` .. `|a@k-1|`; loops are unrolled, segments / single elements / matrices work.
    Obligations produced in this mode are BOUNDED stand-ins (array length fixed, coefficients unbounded reals).

CLOSED LIST of recognised Eigen / nano-tensor operations = ASSUMED contracts of the dependency (everything else -> Unsupported):
  coefficient-wise  a+b a-b a*b a/b -a (array-array, array-scalar, scalar-array), .abs() .square() .cube() .exp() .log() .atan()
                    .sign() [1 / 0 / -1] .max(s) .min(s) .sqrt(), comparisons array < scalar (boolean array)
  adaptors          .array() .matrix() .vector() .transpose() (1-D), copy construction
  reductions        .sum() .dot(b) .squaredNorm() .lpNorm<1>() .lpNorm<Eigen::Infinity>() [-> (nv_linf |c_i|), see specs/C05/kkt.py] .mean() .count() .maxCoeff() .maxCoeff(&idx) .minCoeff(&idx)
  element access    a(k)  (generic mode: k must be the loop index, a named obligation)
  assignment        a = e, a += e, a -= e, a *= e, a /= e, a.full(s), a.array() = ...
  concrete only     .segment(b, len), .size(), matrix * vector, matrix.transpose() * vector, matrix.row(k)
The result type clang deduced for an overloaded operator must name the matching Eigen functor (scalar_product_op for `*` ..);
a `*` whose result type is Eigen::Product is a matrix product.
Lazy expression templates (`const auto w = a.array() * 2`) are evaluated eagerly; a use after one of the operands changed
raises Unsupported (the eager value would differ from Eigen's lazy evaluation).
"""
import itertools
import re

import astload
import nvwp
import sx
from nvwp import V, AND, OR, NOT, IMP, ITE, Unsupported
from wplib import IdEnvWP
from cxx2c import unwrap, strip_cv, qual, TRANSPARENT, CAST_KINDS, PASS_CASTS

PRELUDE = """
(declare-fun nv_exp (Real) Real)
(declare-fun nv_log (Real) Real)
(declare-fun nv_log1p (Real) Real)
(declare-fun nv_atan (Real) Real)
(declare-fun nv_sqrt (Real) Real)
"""

FUNCTORS = {'operator+': 'scalar_sum_op', 'operator-': 'scalar_difference_op', 'operator*': 'scalar_product_op',
            'operator/': 'scalar_quotient_op'}
UNARY_MEMBERS = {'abs': 'scalar_abs_op', 'square': 'scalar_square_op', 'cube': 'scalar_cube_op', 'exp': 'scalar_exp_op',
                 'log': 'scalar_log_op', 'atan': 'scalar_atan_op', 'sign': 'scalar_sign_op', 'sqrt': 'scalar_sqrt_op'}
ADAPTORS = ('array', 'matrix', 'vector', 'transpose')
ASSIGN = {'operator=': None, 'operator+=': '+', 'operator-=': '-', 'operator*=': '*', 'operator/=': '/'}


class AV:
    """array value: list of coefficient terms (one in generic mode), length term, dependencies for the lazy check"""
    s = 'Array'

    STAMP = itertools.count(1)          # next() of a count is atomic: spec construction runs in threads

    def __init__(self, c, n, deps=None, kind='Real'):
        self.c, self.n, self.deps, self.kind = list(c), n, dict(deps or {}), kind
        self.stamp = next(AV.STAMP)     # identifies this content: a stored array gets a new stamp on every write / merge

    @property
    def t(self):
        return ' ; '.join(self.c)

    def __repr__(self):
        return f'AV[{self.n}]({self.t[:80]})'


class MV:
    """matrix value (concrete mode): rows x cols terms"""
    s = 'Matrix'

    def __init__(self, m, deps=None):
        self.m, self.deps = [list(r) for r in m], dict(deps or {})
        self.stamp = next(AV.STAMP)
        self.rows, self.cols = len(self.m), len(self.m[0]) if self.m else 0

    @property
    def t(self):
        return ' ; '.join(' , '.join(r) for r in self.m)


class LamV:
    """a lambda held in a local variable: called by inlining its body (by-reference captures read the caller's environment)"""
    s, c = 'Lambda', None

    def __init__(self, node):
        self.node = node
        self.t = f'lambda@{node.get("id")}'


class TupleV:
    s, c = 'Tuple', None

    def __init__(self, items):
        self.items = list(items)
        self.t = '<' + ' , '.join(i.t for i in items) + '>'


def real_of(wp, v):
    return wp.conv(v, 'Real', 'double').t


def rabs(t):
    return f'(ite (>= {t} 0.0) {t} (- {t}))'


def rmax(a, b):
    return f'(ite (>= {a} {b}) {a} {b})'


def rmin(a, b):
    return f'(ite (<= {a} {b}) {a} {b})'


def rsign(t):
    return f'(ite (> {t} 0.0) 1.0 (ite (< {t} 0.0) (- 1.0) 0.0))'


def rsum(ts):
    ts = list(ts)
    if not ts:
        return '0.0'
    return ts[0] if len(ts) == 1 else '(+ ' + ' '.join(ts) + ')'


def fold(term):
    """closed arithmetic / comparison -> literal (used to unroll loops and index arrays in concrete mode)"""
    try:
        p = sx.parse(term)
    except Exception:
        return term
    r = _fold(p)
    return r if r is not None else term


def _fold(p):
    if isinstance(p, str):
        return p if (p in ('true', 'false') or re.fullmatch(r'\d+', p)) else None
    op = p[0]
    if op in ('<', '<=', '>', '>=', '='):
        a, b = _int(p[1]), _int(p[2])
        if a is None or b is None:
            return None
        return 'true' if {'<': a < b, '<=': a <= b, '>': a > b, '>=': a >= b, '=': a == b}[op] else 'false'
    if op == 'ite' and len(p) == 4:
        c = _fold(p[1])
        if c == 'true':
            return _fold(p[2])
        if c == 'false':
            return _fold(p[3])
        return None
    if op == 'not':
        x = _fold(p[1])
        return {'true': 'false', 'false': 'true'}.get(x)
    if op in ('and', 'or'):
        xs = [_fold(x) for x in p[1:]]
        if any(x not in ('true', 'false') for x in xs):
            return None
        val = all(x == 'true' for x in xs) if op == 'and' else any(x == 'true' for x in xs)
        return 'true' if val else 'false'
    v = _int(p)
    return nvwp.lit(v) if v is not None else None


def _int(p):
    if isinstance(p, str):
        return int(p) if re.fullmatch(r'\d+', p) else None
    if p[0] in ('+', '-', '*') and all(_int(x) is not None for x in p[1:]):
        vs = [_int(x) for x in p[1:]]
        if p[0] == '-':
            return -vs[0] if len(vs) == 1 else vs[0] - sum(vs[1:])
        if p[0] == '+':
            return sum(vs)
        r = 1
        for v in vs:
            r *= v
        return r
    if p[0] in ('cdiv', 'cmod') and len(p) == 3:
        a, b = _int(p[1]), _int(p[2])
        if a is None or b in (None, 0):
            return None
        q = abs(a) // abs(b) * (1 if (a >= 0) == (b > 0) else -1)
        return q if p[0] == 'cdiv' else a - b * q
    return None


def lit_int(term):
    f = fold(term)
    m = re.fullmatch(r'\d+', f)
    if m:
        return int(f)
    m = re.fullmatch(r'\(- (\d+)\)', f)
    return -int(m.group(1)) if m else None


def type_str(n):
    return strip_cv(qual(n.get('type')))


class EigWP(IdEnvWP):
    def __init__(self, name, n=None, **kw):
        super().__init__(name, real=True, **kw)
        self.dim = n                    # None: generic coordinate, else the concrete array length
        self.ver = {}                   # array name -> version (bumped on every write)
        self.decl_hooks = (self.decl_hook,)
        self.real_div_check = True
        self.loop_index = None          # generic mode: term of the loop index inside a map/reduce loop
        self.decls.append(PRELUDE)
        self.calls = list(self.calls) + [
            (r'^exp\|', self.h_fn('nv_exp')), (r'^log\|', self.h_fn('nv_log')), (r'^log1p\|', self.h_fn('nv_log1p')),
            (r'^atan\|', self.h_fn('nv_atan')), (r'^sqrt\|', self.h_sqrt),
            (r'^(fabs|abs)\|', lambda w, n, a, c: V(rabs(real_of(w, w.ev(a[0]))), 'Real', 'double')),
            (r'^square\|', self.h_pow(2)), (r'^cube\|', self.h_pow(3)), (r'^quartic\|', self.h_pow(4)),
            (r'^max\|', self.h_minmax(rmax)), (r'^min\|', self.h_minmax(rmin)),
            (r'^is_pos_target\|', lambda w, n, a, c: V(f'(> {real_of(w, w.ev(a[0]))} 0.0)', 'Bool', 'bool')),
            (r'^epsilon\|', lambda w, n, a, c: w.epsilon()),
            (r'^signbit\|', lambda w, n, a, c: V(f'(< {real_of(w, w.ev(a[0]))} 0.0)', 'Bool', 'bool')),     # reals: no negative zero
            (r'^make_tuple\|', lambda w, n, a, c: TupleV([w.ev(x) for x in a])),
            (r'^make_random_vector\|', self.h_random), (r'^make_random_matrix\|', self.h_random), (r'^identity\|', self.h_identity),
        ]
        self.randoms = 0

    # ---------------------------------------------------------------------------------------------- inputs
    def leaf(self, name, k=None):
        nm = f'|{name}@{"i" if k is None else k}|'
        if f'(declare-const {nm} Real)' not in self.decls:
            self.decls.append(f'(declare-const {nm} Real)')
        return nm

    def input_array(self, key, name, n_term):
        """bind env[key] to an input array named `name` of length n_term"""
        if self.dim is None:
            av = AV([self.leaf(name)], n_term)
        else:
            av = AV([self.leaf(name, k) for k in range(self.dim)], n_term)
        self.env[key] = av
        self.ver[key] = 0
        return av

    def input_matrix(self, key, name, rows, cols, symmetric=False):
        if self.dim is None:
            raise Unsupported(f'{self.name}: matrix {name} in generic-coordinate mode')
        m = [[self.leaf(f'{name}_{min(r, c)}_{max(r, c)}' if symmetric else f'{name}_{r}_{c}', 'e') for c in range(cols)] for r in range(rows)]
        self.env[key] = MV(m)
        self.ver[key] = 0
        return self.env[key]

    PURE_LEAF = re.compile(r'^\|[^|@]+@i\|$')

    def at(self, leaf, idx_term):
        """coefficient of the INPUT array whose generic coefficient is `leaf`, at a symbolic index: the uninterpreted function
        |a@| : Int -> Real (the generic coefficient |a@i| is its value at the generic index)"""
        f = leaf[:-2] + '|'
        d = f'(declare-fun {f} (Int) Real)'
        if d not in self.decls:
            self.decls.append(d)
        return f'({f} {idx_term})'

    def ghost_j(self):
        if '(declare-const |@j| Int)' not in self.decls:
            self.decls.append('(declare-const |@j| Int)')
        return '|@j|'

    def epsilon(self):
        if 'nv_epsilon' not in self.__dict__:
            self.nv_epsilon = self.const('nv_epsilon', 'Real', 'double')
            self.facts.insert(0, '(= nv_epsilon (/ 1.0 4503599627370496.0))')     # 2^-52
        return self.nv_epsilon

    # ---------------------------------------------------------------------------------------------- scalar callee contracts
    def h_fn(self, uf):
        def h(wp, n, args, callee):
            return V(f'({uf} {real_of(wp, wp.ev(args[0]))})', 'Real', 'double')
        return h

    def h_sqrt(self, wp, n, args, callee):
        v = real_of(wp, wp.ev(args[0]))
        wp.oblige('sqrt of a non-negative value', f'(>= {v} 0.0)', n)
        return V(f'(nv_sqrt {v})', 'Real', 'double')

    def h_random(self, wp, n, args, callee):
        """make_random_vector(size, lo, hi, seed) / make_random_matrix(rows, cols, lo, hi, seed): ASSUMED contract: a tensor of
        that shape whose coefficients are some reals (the range [lo, hi] is not used)"""
        if self.dim is None:
            raise Unsupported(f'{self.name}: random tensor in generic-coordinate mode')
        self.randoms += 1
        which = callee['referencedDecl']['name']
        dims = [lit_int(self.ev(a).t) for a in args[:(1 if which.endswith('vector') else 2)]]
        if any(d is None or d < 0 or d > 8 for d in dims):
            raise Unsupported(f'{self.name}: random tensor with dimensions {dims}')
        nm = f'rand{self.randoms}'
        if len(dims) == 1:
            return AV([self.leaf(nm, k) for k in range(dims[0])], str(dims[0]))
        return MV([[self.leaf(f'{nm}_{r}_{c}', 'e') for c in range(dims[1])] for r in range(dims[0])])

    def h_identity(self, wp, n, args, callee):
        if self.dim is None:
            raise Unsupported(f'{self.name}: identity matrix in generic-coordinate mode')
        if 'scalar_identity_op' not in type_str(n):
            raise Unsupported(f'{self.name}: identity(..) whose result type is not Eigen\'s scalar_identity_op')
        r, c = lit_int(self.ev(args[0]).t), lit_int(self.ev(args[1]).t)
        if r is None or c is None:
            raise Unsupported(f'{self.name}: identity with symbolic dimensions')
        return MV([['1.0' if i == j else '0.0' for j in range(c)] for i in range(r)])

    def h_pow(self, k):
        def h(wp, n, args, callee):
            v = wp.ev(args[0])
            if v.s != 'Real':
                raise Unsupported(f'{wp.name}: nano::square/cube/quartic of a non-real value')
            return V('(* ' + ' '.join([v.t] * k) + ')', 'Real', 'double')
        return h

    def h_minmax(self, f):
        def h(wp, n, args, callee):
            vals = []
            for a in args:
                u = unwrap(a)
                while u.get('kind') in ('CXXStdInitializerListExpr', 'MaterializeTemporaryExpr') and u.get('inner'):
                    u = unwrap(u['inner'][0])
                if u.get('kind') == 'InitListExpr':
                    vals += [wp.ev(x) for x in u['inner']]
                else:
                    vals.append(wp.ev(a))
            if len(vals) < 2:
                raise Unsupported(f'{wp.name}: std::max/min with {len(vals)} operand(s)')
            if all(v.s == 'Int' for v in vals):
                r = vals[0].t
                for v in vals[1:]:
                    r = fold(f'(ite ({">=" if f is rmax else "<="} {r} {v.t}) {r} {v.t})')
                return V(r, 'Int', 'long')
            r = real_of(wp, vals[0])
            for v in vals[1:]:
                r = f(r, real_of(wp, v))
            return V(r, 'Real', 'double')
        return h

    # ---------------------------------------------------------------------------------------------- helpers
    def functor_check(self, n, functor, what):
        t = type_str(n)
        if not re.search(r'Cwise(Binary|Unary)Op<\s*(Eigen::)?(internal::)?' + functor + r'\b', t):
            if 'Eigen::Product<' in t.split('CwiseBinaryOp')[0][:40]:
                raise Unsupported(f'{self.name}: {what}: matrix product in a coefficient-wise position')
            raise Unsupported(f'{self.name}: {what}: result type does not name Eigen functor {functor}: {t[:100]}')

    def deps_of(self, *vals):
        d = {}
        for v in vals:
            if isinstance(v, (AV, MV)):
                d.update(v.deps)
        return d

    def check_fresh(self, v, what):
        for nm, ver in getattr(v, 'deps', {}).items():
            cur = self.env.get(nm)
            if cur is None or getattr(cur, 'stamp', None) != ver:
                raise Unsupported(f'{self.name}: {what}: lazy Eigen expression used after its operand {nm} changed')

    def read_stored(self, key, v):
        """a stored array (parameter, member, local) read now: a view that is valid as long as the array is not written; a local
        that holds a lazy expression / view is valid as long as ITS operands are not written"""
        if key in self.ver:
            if isinstance(v, MV):
                r = MV(v.m, {key: v.stamp})
            else:
                r = type(v)(v.c, v.n, {key: v.stamp}, v.kind)
                for a in ('writable', 'view'):
                    if hasattr(v, a):
                        setattr(r, a, getattr(v, a))
            return r
        self.check_fresh(v, f'use of {key}')
        return v

    def same_len(self, a, b, node):
        if a.n != b.n:
            self.oblige('Eigen coefficient-wise operation: operand sizes agree', f'(= {a.n} {b.n})', node)

    def bin_cw(self, op, a, b, node):
        """coefficient-wise binary operator on array/scalar operands"""
        if isinstance(a, MV) or isinstance(b, MV):
            raise Unsupported(f'{self.name}: coefficient-wise operator on a matrix')
        if isinstance(a, AV) and isinstance(b, AV):
            self.same_len(a, b, node)
            if len(a.c) != len(b.c):
                raise Unsupported(f'{self.name}: operands of different concrete lengths')
            pairs = list(zip(a.c, b.c))
            n = a.n
        elif isinstance(a, AV):
            s = real_of(self, b)
            pairs = [(x, s) for x in a.c]
            n = a.n
        else:
            s = real_of(self, a)
            pairs = [(s, y) for y in b.c]
            n = b.n
        out = []
        for x, y in pairs:
            if op == '/':
                self.oblige('real-model division is defined (divisor non-zero)', f'(not (= {y} 0.0))', node)
            out.append(f'({op} {x} {y})')
        return AV(out, n, self.deps_of(a, b))

    def key_of(self, node):
        """env key of an array lvalue (looking through adaptors)"""
        u = unwrap(node)
        while True:
            if u.get('kind') == 'CXXMemberCallExpr' and u['inner'][0].get('name') in ADAPTORS and len(u['inner']) == 1:
                u = unwrap(u['inner'][0]['inner'][0])
                continue
            break
        if u.get('kind') == 'DeclRefExpr':
            rd = u['referencedDecl']
            return self.idmap.get(rd.get('id'), rd.get('name'))
        if u.get('kind') == 'MemberExpr':
            return self.member_name(u)
        raise Unsupported(f'{self.name}: array lvalue of kind {u.get("kind")}')

    def write_array(self, key, av):
        old = self.env.get(key)
        if not isinstance(old, AV):
            raise Unsupported(f'{self.name}: write to {key}, which is not an array')
        if len(av.c) != len(old.c):
            raise Unsupported(f'{self.name}: array write of a different concrete length')
        g = self.guard
        self.ver[key] = self.ver.get(key, 0) + 1
        self.env[key] = AV(av.c, old.n)
        self.written = getattr(self, 'written', set()) | {key}

    # ---------------------------------------------------------------------------------------------- declarations
    def decl_hook(self, wp, v, init):
        if v.get('kind') == 'DecompositionDecl':
            val = self.ev(init[0])
            names = [b['name'] for b in v.get('inner', []) if b.get('kind') == 'BindingDecl']
            if not isinstance(val, TupleV) or len(val.items) != len(names):
                raise Unsupported(f'{self.name}: structured binding of something that is not a tuple of {len(names)}')
            for nm, item in zip(names, val.items):
                self.env[nm] = item
            return True
        if init and unwrap(init[0]).get('kind') == 'LambdaExpr':
            lam = unwrap(init[0])
            caps = astload.lambda_captures(lam)
            if any((not c['this']) and not c['byref'] for c in caps):
                raise Unsupported(f'{self.name}: lambda {v["name"]} with by-copy captures')
            self.env[v['name']] = LamV(lam)
            return True
        try:
            self.sort_of(v['type'])
            scalar = True
        except Unsupported:
            scalar = False
        if scalar:
            return False
        if not init:
            raise Unsupported(f'{self.name}: declaration of {v["name"]} of class type without initialiser')
        val = self.ev(init[0])
        if isinstance(val, (AV, MV)):
            self.env[v['name']] = val          # a view / lazy expression: keeps the dependencies of its operands
            return True
        if isinstance(val, V):                   # `auto` deduced from an Eigen reduction whose type clang prints through a trait
            self.env[v['name']] = val
            return True
        raise Unsupported(f'{self.name}: declaration of {v["name"]}: {type_str(v)[:80]}')

    def merge(self, c, envA, envB):
        out = {}
        for k in set(envA) | set(envB):
            a, b = envA.get(k), envB.get(k)
            if a is None or b is None:
                continue
            if isinstance(a, AV) and isinstance(b, AV):
                if len(a.c) != len(b.c):
                    raise Unsupported(f'{self.name}: merging arrays of different lengths')
                if a.c == b.c:
                    out[k] = a
                else:
                    out[k] = AV([ITE(c, x, y) for x, y in zip(a.c, b.c)], a.n)
            elif isinstance(a, (MV, AV, LamV, TupleV)) or isinstance(b, (MV, AV, LamV, TupleV)):
                if a is not b and a.t != b.t:
                    raise Unsupported(f'{self.name}: merging class-typed values of {k}')
                out[k] = a
            else:
                out[k] = a if a.t == b.t else V(ITE(c, a.t, b.t), a.s, a.c)
        return out

    # ---------------------------------------------------------------------------------------------- expressions
    def ev(self, n):
        k = n.get('kind')
        inner = n.get('inner', [])
        if k == 'DeclRefExpr':
            rd = n['referencedDecl']
            key = self.idmap.get(rd.get('id'), rd.get('name'))
            v = self.env.get(key)
            if isinstance(v, (AV, MV)):
                return self.read_stored(key, v)
        if k == 'MemberExpr':
            try:
                key = self.member_name(n)
            except Unsupported:
                key = None
            if key is not None and isinstance(self.env.get(key), (AV, MV)):
                return self.read_stored(key, self.env[key])
        if k == 'CXXMemberCallExpr':
            r = self.eigen_member(n)
            if r is not None:
                return r
        if k == 'CXXOperatorCallExpr':
            r = self.eigen_operator(n)
            if r is not None:
                return r
        if k in ('CXXConstructExpr', 'CXXFunctionalCastExpr', 'InitListExpr') and len(inner) == 1:
            return self.ev(inner[0])
        if k == 'ImplicitCastExpr' and n.get('castKind') in ('IntegralToFloating', 'FloatingCast', 'IntegralCast') and self.base(n['type']) is None:
            # Eigen's promote_scalar_arg: the target type is a dependent alias of double that clang does not desugar
            v = self.ev(inner[0])
            if isinstance(v, V) and 'Scalar' in qual(n.get('type')) or 'promote_scalar' in qual(n.get('type')):
                return self.conv(v, 'Real', 'double')
            raise Unsupported(f'{self.name}: arithmetic cast to {qual(n.get("type"))[:80]}')
        r = super().ev(n)
        if isinstance(r, V) and r.s in ('Int', 'Bool') and self.dim is not None:
            return V(fold(r.t), r.s, r.c)
        return r

    def conv(self, v, sort, cty, node=None, explicit=False):
        if isinstance(v, (AV, MV)):
            raise Unsupported(f'{self.name}: array value where a scalar is expected')
        return super().conv(v, sort, cty, node, explicit)

    def arith(self, op, a, b, cty, node):
        r = super().arith(op, a, b, cty, node)
        if r.s == 'Int':
            f = fold(r.t)
            if f != r.t:
                # the overflow obligation of a folded literal is trivial: drop it again
                if self.obligations and self.obligations[-1][2].count(r.t):
                    self.obligations.pop()
                return V(f, 'Int', r.c)
        return r

    def eigen_member(self, n):
        inner = n['inner']
        me = inner[0]
        if me.get('kind') != 'MemberExpr':
            return None
        name = me.get('name')
        obj = me['inner'][0]
        args = inner[1:]
        if name in ('convex', 'smooth', 'strong_convexity') and not args:
            return None
        if name == 'size' and not args:
            u = unwrap(obj)
            if u.get('kind') == 'CXXThisExpr':
                return self.env['self.size']
            o = self.ev(obj)
            if isinstance(o, AV):
                return V(o.n, 'Int', 'long')
            raise Unsupported(f'{self.name}: size() of a non-array')
        if name in ('rows', 'cols') and not args:
            o = self.ev(obj)
            if isinstance(o, MV):
                return V(str(o.rows if name == 'rows' else o.cols), 'Int', 'long')
            raise Unsupported(f'{self.name}: {name}() of a non-matrix')
        if name in ADAPTORS and not args:
            o = self.ev(obj)
            if isinstance(o, AV):
                return o
            if isinstance(o, MV):
                if name == 'transpose':
                    return MV([[o.m[r][c] for r in range(o.rows)] for c in range(o.cols)], o.deps)
                return o
            return None
        if name in UNARY_MEMBERS and not args:
            o = self.ev(obj)
            if not isinstance(o, AV):
                return None
            self.functor_check(n, UNARY_MEMBERS[name], f'.{name}()')
            self.note('Eigen .' + name + '()')
            f = {'abs': rabs, 'square': lambda t: f'(* {t} {t})', 'cube': lambda t: f'(* {t} {t} {t})',
                 'exp': lambda t: f'(nv_exp {t})', 'log': lambda t: f'(nv_log {t})', 'atan': lambda t: f'(nv_atan {t})',
                 'sign': rsign, 'sqrt': lambda t: f'(nv_sqrt {t})'}[name]
            if name in ('sqrt',):
                for t in o.c:
                    self.oblige('sqrt of a non-negative value', f'(>= {t} 0.0)', n)
            return AV([f(t) for t in o.c], o.n, o.deps)
        if name in ('max', 'min') and len(args) == 1:
            o = self.ev(obj)
            if not isinstance(o, AV):
                return None
            self.functor_check(n, 'scalar_' + name + '_op', f'.{name}(s)')
            s = self.ev(args[0])
            f = rmax if name == 'max' else rmin
            self.note('Eigen .' + name + '(s)')
            if isinstance(s, AV):
                self.same_len(o, s, n)
                return AV([f(x, y) for x, y in zip(o.c, s.c)], o.n, self.deps_of(o, s))
            st = real_of(self, s)
            return AV([f(x, st) for x in o.c], o.n, o.deps)
        if name in ('sum', 'mean', 'squaredNorm', 'count') and not args or name == 'lpNorm' and not args:
            o = self.ev(obj)
            if not isinstance(o, AV):
                return None
            self.note('Eigen .' + name + '()')
            if name == 'count':
                if o.kind != 'Bool':
                    raise Unsupported(f'{self.name}: count() of a non-boolean array')
                return V(self.reduce([f'(ite {t} 1.0 0.0)' for t in o.c]), 'Real', 'double')     # a count, carried as a real
            if o.kind != 'Real':
                raise Unsupported(f'{self.name}: {name}() of a boolean array')
            if name == 'lpNorm':
                targs = self.member_template_args(me)
                if targs in (['Eigen::Infinity'], ['Infinity']):
                    # ASSUMED contract: max_k |c_k| (0 for an empty vector).  Generic mode: the reduction node `(nv_linf phi)` over the
                    # coefficient term phi = |c_i| (a DIFFERENT node than `(nv_sum phi)` of lpNorm<1>); whoever prints it owns its facts
                    # (specs/C05/kkt.py: one constant per distinct phi, linf >= phi at the generic coordinate, linf >= 0)
                    if self.dim is None:
                        return V(f'(nv_linf {rabs(o.c[0])})', 'Real', 'double')
                    r = '0.0'
                    for t in o.c:
                        r = rmax(r, rabs(t))
                    return V(r, 'Real', 'double')
                if targs != ['1']:
                    raise Unsupported(f'{self.name}: lpNorm with template arguments {targs}')
                return V(self.reduce([rabs(t) for t in o.c]), 'Real', 'double')
            if name == 'squaredNorm':
                return V(self.reduce([f'(* {t} {t})' for t in o.c]), 'Real', 'double')
            s = self.reduce(o.c)
            if name == 'mean':
                self.oblige('mean of a non-empty array', f'(not (= {o.n} 0))', n)
                return V(f'(/ {s} (to_real {o.n}))', 'Real', 'double')
            return V(s, 'Real', 'double')
        if name == 'dot' and len(args) == 1:
            a, b = self.ev(obj), self.ev(args[0])
            if not (isinstance(a, AV) and isinstance(b, AV)):
                return None
            self.same_len(a, b, n)
            self.note('Eigen .dot()')
            return V(self.reduce([f'(* {x} {y})' for x, y in zip(a.c, b.c)]), 'Real', 'double')
        if name in ('maxCoeff', 'minCoeff'):
            o = self.ev(obj)
            if not isinstance(o, AV):
                return None
            return self.extremum(n, name, o, args)
        if name == 'full' and len(args) == 1:
            key = self.key_of(obj)
            old = self.env.get(key)
            if not isinstance(old, AV):
                return None
            s = real_of(self, self.ev(args[0]))
            self.write_array(key, AV([s] * len(old.c), old.n))
            self.note('tensor.full(s)')
            return self.env[key]
        if name == 'segment' and len(args) == 2:
            o = self.ev(obj)
            if not isinstance(o, AV):
                return None
            if self.dim is None:
                raise Unsupported(f'{self.name}: segment() in generic-coordinate mode')
            b, ln = lit_int(self.ev(args[0]).t), lit_int(self.ev(args[1]).t)
            if b is None or ln is None:
                raise Unsupported(f'{self.name}: segment() with symbolic bounds')
            self.oblige('segment lies inside the vector', 'true' if (0 <= b and 0 <= ln and b + ln <= len(o.c)) else 'false', n)
            if not (0 <= b and 0 <= ln and b + ln <= len(o.c)):
                raise Unsupported(f'{self.name}: segment({b}, {ln}) outside a vector of {len(o.c)}')
            r = AV(o.c[b:b + ln], str(ln), o.deps)
            r.view = (self.view_key(obj), b)
            return r
        if name == 'row' and len(args) == 1:
            o = self.ev(obj)
            if not isinstance(o, MV):
                return None
            it = self.ev(args[0]).t
            r = lit_int(it)
            if r is None:
                self.oblige('matrix row index within bounds', f'(and (<= 0 {it}) (< {it} {o.rows}))', n)
                cols = []
                for c in range(o.cols):
                    t = o.m[-1][c]
                    for k in range(o.rows - 2, -1, -1):
                        t = ITE(f'(= {it} {k})', o.m[k][c], t)
                    cols.append(t)
                return AV(cols, str(o.cols), o.deps)
            if not (0 <= r < o.rows):
                raise Unsupported(f'{self.name}: row() with an out-of-range index')
            return AV(o.m[r], str(o.cols), o.deps)
        return None

    def view_key(self, obj):
        try:
            return self.key_of(obj)
        except Unsupported:
            return None

    def member_template_args(self, me):
        txt = astload.node_source(me) or ''
        m = re.search(r'<([^<>]*)>\s*$', txt)
        return [x.strip() for x in m.group(1).split(',')] if m else []

    def reduce(self, terms):
        if self.dim is None:
            return f'(nv_sum {terms[0]})'
        return rsum(terms)

    def extremum(self, n, name, o, args):
        """maxCoeff / minCoeff [with index out-parameter]: ASSUMED contract: the result is the coefficient at the returned
        index, the index is in range, and no coefficient is larger (smaller)"""
        cmp_ = '>=' if name == 'maxCoeff' else '<='
        self.note(f'Eigen .{name}()')
        self.oblige(f'{name} of a non-empty array', f'(> {o.n} 0)', n)
        if self.dim is not None:
            # exact: Eigen's visitor keeps the FIRST extremal coefficient (a later one replaces it only when strictly better)
            if not o.c:
                raise Unsupported(f'{self.name}: {name} of an empty array')
            strict = '>' if name == 'maxCoeff' else '<'
            vt, it = o.c[0], '0'
            for k, t in enumerate(o.c[1:], 1):
                c = f'({strict} {t} {vt})'
                vt, it = ITE(c, t, vt), ITE(c, str(k), it)
            val, idx = V(vt, 'Real', 'double'), V(it, 'Int', 'long')
        else:
            idx = self.fresh('Int', 'arg' + name[:3], 'long')
            val = self.fresh('Real', name, 'double')
            self.assume(f'(and (<= 0 {idx.t}) (< {idx.t} {o.n}))')
            self.assume(f'({cmp_} {val.t} {o.c[0]})')          # at the generic coordinate
            if self.PURE_LEAF.match(o.c[0]):
                j = self.ghost_j()                               # ... and at a ghost index (for all j), with the attained index
                self.assume(f'(= {val.t} {self.at(o.c[0], idx.t)})')
                self.assume(f'(=> (and (<= 0 {j}) (< {j} {o.n})) ({cmp_} {val.t} {self.at(o.c[0], j)}))')
            self.extrema = getattr(self, 'extrema', []) + [(name, idx.t, val.t, o.c[0])]
        if args:
            a = unwrap(args[0])
            if a.get('kind') != 'UnaryOperator' or a.get('opcode') != '&':
                raise Unsupported(f'{self.name}: {name}(index) whose argument is not &variable')
            self.assign(a['inner'][0], idx)
        return val

    def eigen_operator(self, n):
        inner = n['inner']
        op = unwrap(inner[0]).get('referencedDecl', {}).get('name')
        args = inner[1:]
        if op == 'operator()':
            o = self.ev(args[0])
            if isinstance(o, LamV):
                return self.call_lambda(o, args[1:], n)
            if isinstance(o, AV) and len(args) == 2:
                return self.element(o, self.ev(args[1]), n, args[0])
            if isinstance(o, MV) and len(args) == 3:
                r, c = lit_int(self.ev(args[1]).t), lit_int(self.ev(args[2]).t)
                if r is None or c is None or not (0 <= r < o.rows and 0 <= c < o.cols):
                    raise Unsupported(f'{self.name}: matrix element with symbolic / out-of-range indices')
                return V(o.m[r][c], 'Real', 'double')
            return None
        if op == 'operator=' and len(args) == 2:
            try:
                mkey = self.key_of(args[0])
            except Unsupported:
                mkey = None
            if mkey is not None and (isinstance(self.env.get(mkey), MV) or mkey in getattr(self, 'matrix_members', ())):
                rhs = self.ev(args[1])
                if not isinstance(rhs, MV):
                    raise Unsupported(f'{self.name}: non-matrix assigned to the matrix {mkey}')
                self.env[mkey] = MV(rhs.m)
                self.ver[mkey] = self.ver.get(mkey, 0) + 1
                return self.env[mkey]
        if op in ASSIGN and len(args) == 2:
            try:
                key = self.key_of(args[0])
            except Unsupported:
                key = None
            lhs_view = None
            if key is None or not isinstance(self.env.get(key), AV):
                lv = self.ev(args[0])
                if isinstance(lv, AV) and getattr(lv, 'view', None) and lv.view[0] is not None:
                    lhs_view = lv
                else:
                    return None
            rhs = self.ev(args[1])
            if lhs_view is not None:
                key, b = lhs_view.view
                cur = lhs_view
            else:
                cur = self.env[key]
            if isinstance(rhs, MV):
                raise Unsupported(f'{self.name}: matrix assigned to a vector')
            if not isinstance(rhs, AV):
                if ASSIGN[op] is None and self.is_array_scalar_assign(n):
                    rhs = AV([real_of(self, rhs)] * len(cur.c), cur.n)
                elif ASSIGN[op] in ('*', '/'):
                    rhs = AV([real_of(self, rhs)] * len(cur.c), cur.n)
                else:
                    raise Unsupported(f'{self.name}: scalar assigned to an array with {op}')
            self.same_len(cur, rhs, n)
            if len(rhs.c) != len(cur.c):
                raise Unsupported(f'{self.name}: assignment between arrays of different concrete lengths ({len(cur.c)} vs {len(rhs.c)})')
            new = rhs.c if ASSIGN[op] is None else self.bin_cw(ASSIGN[op], cur, rhs, n).c
            self.note('Eigen ' + op)
            if lhs_view is not None and b is None:
                self.write_array(key, AV(new, self.env[key].n))
            elif lhs_view is not None:
                whole = list(self.env[key].c)
                whole[b:b + len(new)] = new
                self.write_array(key, AV(whole, self.env[key].n))
            else:
                self.write_array(key, AV(new, cur.n))
            return self.env[key]
        if op in FUNCTORS and len(args) == 2:
            a, b = self.ev(args[0]), self.ev(args[1])
            if not isinstance(a, (AV, MV)) and not isinstance(b, (AV, MV)):
                return None
            t = type_str(n)
            if op == 'operator*' and (isinstance(a, MV) or isinstance(b, MV)):
                return self.matprod(a, b, n)
            if isinstance(a, MV) and isinstance(b, MV) and op in ('operator+', 'operator-'):
                self.functor_check(n, FUNCTORS[op], op)
                if (a.rows, a.cols) != (b.rows, b.cols):
                    raise Unsupported(f'{self.name}: {op} on matrices of different shapes')
                return MV([[f'({op[-1]} {x} {y})' for x, y in zip(ra, rb)] for ra, rb in zip(a.m, b.m)], self.deps_of(a, b))
            self.functor_check(n, FUNCTORS[op], op)
            self.note('Eigen ' + op)
            return self.bin_cw(op[-1], a, b, n)
        if op == 'operator-' and len(args) == 1:
            a = self.ev(args[0])
            if not isinstance(a, AV):
                return None
            self.functor_check(n, 'scalar_opposite_op', 'unary minus')
            return AV([f'(- {t})' for t in a.c], a.n, a.deps)
        if op in ('operator<', 'operator<=', 'operator>', 'operator>=') and len(args) == 2:
            a, b = self.ev(args[0]), self.ev(args[1])
            if not isinstance(a, AV) and not isinstance(b, AV):
                return None
            # Eigen spells the comparison as an enumerator of ComparisonName (clang prints it by name or by value); a > b and
            # a >= b are implemented as b < a and b <= a (EIGEN_MAKE_CWISE_COMP_R_OP)
            want = {'operator<': ('cmp_LT',), 'operator<=': ('cmp_LE',), 'operator>': ('cmp_GT', 'cmp_LT'), 'operator>=': ('cmp_GE', 'cmp_LE')}[op]
            code = {'cmp_LT': '1', 'cmp_LE': '2', 'cmp_GT': '5', 'cmp_GE': '6'}
            t = type_str(n)
            if not any(re.search(r'scalar_cmp_op<double, double, (\(Eigen::internal::ComparisonName\)' + code[w] + r'|Eigen::internal::' + w + ')', t) for w in want):
                raise Unsupported(f'{self.name}: {op}: result type is not the matching scalar_cmp_op: {t[:160]}')
            r = self.bin_cw(op[len('operator'):], a, b, n)
            r.kind = 'Bool'
            return r
        return None

    def call_lambda(self, lam, args, node):
        """inline a call of a local lambda: parameters (default arguments from the lambda's own declaration) are bound in a copy of the
        caller's environment, the body must end in its only return, nothing the body declares or assigns survives"""
        m = astload.lambda_call_operator(lam.node)
        if m is None:
            raise Unsupported(f'{self.name}: lambda without a call operator')
        params = [c for c in m['inner'] if c['kind'] == 'ParmVarDecl']
        env0 = dict(self.env)
        for k, p in enumerate(params):
            if k < len(args) and unwrap(args[k]).get('kind') != 'CXXDefaultArgExpr':
                v = self.ev(args[k])
            else:
                dflt = [x for x in p.get('inner', []) if x.get('kind') != 'FullComment']
                if not dflt:
                    raise Unsupported(f'{self.name}: lambda called without argument {k} and no default')
                v = self.ev(dflt[0])
            s_, c_ = self.sort_of(p['type'])
            self.env[p['name']] = self.conv(v, s_, c_)
        body = [c for c in m['inner'] if c['kind'] == 'CompoundStmt'][0]
        saved = (self.post, self.ret_sort, self.returns, self.guard)
        got = []
        self.post = lambda w, rv: (got.append((w.guard, rv)), [])[1]
        self.ret_sort = None
        written0 = set(getattr(self, 'written', set()))
        self.ex(body)
        self.post, self.ret_sort, self.returns, g0 = saved
        if len(got) != 1 or got[0][0] != g0 or got[0][1] is None:
            raise Unsupported(f'{self.name}: lambda body does not end in its single return')
        if set(getattr(self, 'written', set())) != written0:
            raise Unsupported(f'{self.name}: lambda writes an array')
        local = {x['name'] for x in astload.walk(body) if x.get('kind') == 'VarDecl'} | {p['name'] for p in params}
        for k in self.assigned_scalars(body) - local:
            raise Unsupported(f'{self.name}: lambda assigns the captured variable {k}')
        self.env = env0
        self.guard = g0
        return got[0][1]

    def is_array_scalar_assign(self, n):
        return 'ArrayWrapper' in type_str(n['inner'][1]) or 'ArrayBase' in type_str(n['inner'][1])

    def matprod(self, a, b, n):
        if self.dim is None:
            raise Unsupported(f'{self.name}: matrix product in generic-coordinate mode')
        self.note('Eigen matrix product')
        if isinstance(a, MV) and isinstance(b, AV):
            if a.cols != len(b.c):
                raise Unsupported(f'{self.name}: matrix * vector with inner dimensions {a.cols} / {len(b.c)}')
            return AV([rsum([f'(* {a.m[r][c]} {b.c[c]})' for c in range(a.cols)]) for r in range(a.rows)], str(a.rows), self.deps_of(a, b))
        if isinstance(a, MV) and isinstance(b, MV):
            if a.cols != b.rows:
                raise Unsupported(f'{self.name}: matrix * matrix with inner dimensions {a.cols} / {b.rows}')
            return MV([[rsum([f'(* {a.m[r][k]} {b.m[k][c]})' for k in range(a.cols)]) for c in range(b.cols)] for r in range(a.rows)], self.deps_of(a, b))
        if isinstance(a, AV) and isinstance(b, MV):
            raise Unsupported(f'{self.name}: vector * matrix')
        if isinstance(a, MV) and isinstance(b, V):
            s = real_of(self, b)
            return MV([[f'(* {x} {s})' for x in r] for r in a.m], a.deps)
        if isinstance(a, V) and isinstance(b, MV):
            s = real_of(self, a)
            return MV([[f'(* {s} {x})' for x in r] for r in b.m], b.deps)
        raise Unsupported(f'{self.name}: matrix product of {type(a).__name__} and {type(b).__name__}')

    def element(self, o, idx, node, objnode):
        """a(k): concrete index in concrete mode; in generic mode k must be the index of the enclosing map/reduce loop"""
        if idx.s != 'Int':
            raise Unsupported(f'{self.name}: non-integer array index')
        if self.dim is not None:
            k = lit_int(idx.t)
            if k is None:
                return self.element_symbolic(o, idx, node)
            self.oblige('array index within bounds', 'true' if 0 <= k < len(o.c) else 'false', node)
            if not (0 <= k < len(o.c)):
                raise Unsupported(f'{self.name}: constant array index {k} outside [0, {len(o.c)})')
            return V(o.c[k], 'Real', 'double')
        if self.loop_index is None:
            return self.element_symbolic(o, idx, node)
        self.oblige('coordinate-wise loop: the array is read at the loop index', f'(= {idx.t} {self.loop_index})', node)
        self.loop_lens.add(o.n)
        return V(o.c[0], 'Real', 'double')

    def element_symbolic(self, o, idx, node):
        """a(idx) for a symbolic index that an extremum search returned: the extremal coefficient itself"""
        if self.dim is None and self.PURE_LEAF.match(o.c[0]):
            self.oblige('array index within bounds', f'(and (<= 0 {idx.t}) (< {idx.t} {o.n}))', node)
            return V(self.at(o.c[0], idx.t), 'Real', 'double')
        if self.dim is not None:
            self.oblige('array index within bounds', f'(and (<= 0 {idx.t}) (< {idx.t} {len(o.c)}))', node)
            r = o.c[-1]
            for k in range(len(o.c) - 2, -1, -1):
                r = ITE(f'(= {idx.t} {k})', o.c[k], r)
            return V(r, 'Real', 'double')
        raise Unsupported(f'{self.name}: array element at a symbolic index outside a coordinate-wise loop')

    # ---------------------------------------------------------------------------------------------- element writes
    def assign(self, lhs, v):
        u = unwrap(lhs)
        if u.get('kind') == 'CXXOperatorCallExpr' and unwrap(u['inner'][0]).get('referencedDecl', {}).get('name') == 'operator()' and len(u['inner']) == 3:
            tgt = unwrap(u['inner'][1])
            if tgt.get('kind') == 'CXXMemberCallExpr' and tgt['inner'][0].get('name') == 'full':
                self.ev(tgt)                                  # a.full(s)(k) = v: the fill happens first, `full` returns the tensor itself
                tgt = tgt['inner'][0]['inner'][0]
            key = self.key_of(tgt)
            arr = self.env.get(key)
            if isinstance(arr, AV):
                idx = self.ev(u['inner'][2])
                val = real_of(self, v)
                if self.dim is not None:
                    k = lit_int(idx.t)
                    if k is None:
                        self.oblige('array index within bounds', f'(and (<= 0 {idx.t}) (< {idx.t} {len(arr.c)}))', lhs)
                        new = [ITE(f'(= {idx.t} {j})', val, t) for j, t in enumerate(arr.c)]
                    else:
                        self.oblige('array index within bounds', 'true' if 0 <= k < len(arr.c) else 'false', lhs)
                        if not (0 <= k < len(arr.c)):
                            raise Unsupported(f'{self.name}: constant array index {k} outside [0, {len(arr.c)})')
                        new = list(arr.c)
                        new[k] = val
                    self.write_array(key, AV(new, arr.n))
                    return
                if self.loop_index is None:
                    raise Unsupported(f'{self.name}: element write outside a coordinate-wise loop in generic mode')
                self.oblige('coordinate-wise loop: the array is written at the loop index', f'(= {idx.t} {self.loop_index})', lhs)
                self.loop_lens.add(arr.n)
                self.write_array(key, AV([val], arr.n))
                return
        return super().assign(lhs, v)

    def loc(self, n):
        u = unwrap(n)
        if u.get('kind') == 'CXXOperatorCallExpr' and unwrap(u['inner'][0]).get('referencedDecl', {}).get('name') == 'operator()':
            raise Unsupported(f'{self.name}: address of an array element')
        return super().loc(n)

    # ---------------------------------------------------------------------------------------------- loops
    def loop(self, n):
        if n['kind'] != 'ForStmt':
            raise Unsupported(f'{self.name}: loop of kind {n["kind"]}')
        init, condvar, cond, inc, body = n['inner']
        if self.dim is not None:
            return self.unroll(n, init, cond, inc, body)
        return self.map_reduce(n, init, cond, inc, body)

    def unroll(self, n, init, cond, inc, body):
        env_out = set(self.env)
        if init:
            self.ex(init)
        for it in range(0, 66):
            c = fold(self.conv(self.ev(cond), 'Bool', 'bool').t) if cond else 'true'
            if c == 'false':
                break
            if c != 'true':
                raise Unsupported(f'{self.name}: loop condition does not fold to a constant in concrete mode: {c[:80]}')
            if it == 65:
                raise Unsupported(f'{self.name}: loop runs more than 64 times in concrete mode')
            g, r0 = self.guard, self.returns
            self.ex(body)
            if self.returns != r0 or self.guard == 'false':
                raise Unsupported(f'{self.name}: return inside an unrolled loop')
            self.guard = g
            if inc:
                self.ev(inc)
        for k in list(self.env):
            if k not in env_out:
                del self.env[k]

    def map_reduce(self, n, init, cond, inc, body):
        """generic mode: `for (i = 0 [, size = a.size()]; i < size; ++i) body` where body touches arrays at i only, stores
        into arrays at i, and updates scalar accumulators additively.  Effect: arrays get the stored coefficient term,
        accumulator = entry value + (nv_sum delta)."""
        self.loops += 1
        lp = self.loops
        env_out = dict(self.env)
        if self.loop_index is not None:
            raise Unsupported(f'{self.name}: nested coordinate-wise loops')
        if init is None or init.get('kind') != 'DeclStmt':
            raise Unsupported(f'{self.name}: loop {lp} without an index declaration')
        self.ex(init)
        declared = [v['name'] for v in init['inner'] if v.get('kind') == 'VarDecl']
        ivar = declared[0]
        i0 = self.env[ivar]
        if cond is None:
            raise Unsupported(f'{self.name}: loop {lp} without a condition')
        u = unwrap(inc) if inc else None
        if u is None or u.get('kind') != 'UnaryOperator' or u.get('opcode') != '++' or unwrap(u['inner'][0]).get('referencedDecl', {}).get('name') != ivar:
            raise Unsupported(f'{self.name}: loop {lp} increment is not ++index')
        self.oblige(f'loop {lp} visits every coordinate: the index starts at 0', f'(= {i0.t} 0)', n)
        # generic iteration: an index for which the loop condition holds
        idx = self.fresh('Int', 'i', 'long')
        nf = len(self.facts)
        self.env[ivar] = idx
        cterm = self.conv(self.ev(cond), 'Bool', 'bool').t
        self.assume(f'(<= 0 {idx.t})')
        self.assume(cterm)
        self.loop_index = idx.t
        self.loop_lens = set()
        mod = self.assigned_scalars(body)
        heads = {}
        for v in mod:
            if v in self.env and isinstance(self.env[v], V) and v not in declared:
                old = self.env[v]
                if old.s != 'Real':
                    raise Unsupported(f'{self.name}: loop {lp} carries the non-real scalar {v}')
                heads[v] = (old, self.fresh('Real', v + '_head', 'double'))
                self.env[v] = heads[v][1]
        g0 = self.guard
        r0 = self.returns
        self.ex(body)
        if self.returns != r0 or self.guard == 'false':
            raise Unsupported(f'{self.name}: return inside a coordinate-wise loop')
        self.guard = g0
        del self.facts[nf:]          # facts about the generic iteration do not outlive it
        for ln in sorted(self.loop_lens):
            self.oblige(f'loop {lp} visits every coordinate: the loop condition holds exactly for the indices below the length of the arrays it indexes',
                        f'(=> (<= 0 {idx.t}) (= {cterm} (< {idx.t} {ln})))', n)
        # accumulators: new == head + delta, delta independent of every loop-carried value
        for v, (old, head) in heads.items():
            new = self.env[v]
            delta = sx.show(sx.subst(sx.parse(new.t), {head.t: '0.0'}))
            for v2, (_, h2) in heads.items():
                if h2.t in delta:
                    raise Unsupported(f'{self.name}: loop {lp}: the update of {v} depends on the loop-carried value of {v2}')
            self.oblige(f'loop {lp}: accumulator {v} is updated additively', f'(= {new.t} (+ {head.t} {delta}))', n)
            self.env[v] = V(f'(+ {old.t} (nv_sum {delta}))', 'Real', 'double')
        self.loop_index = None
        for k in list(self.env):
            if k not in env_out:
                del self.env[k]

    def assigned_scalars(self, body):
        out = set()
        for x in astload.walk(body):
            k = x.get('kind')
            if (k == 'BinaryOperator' and x.get('opcode') == '=') or k == 'CompoundAssignOperator' or (k == 'UnaryOperator' and x.get('opcode') in ('++', '--')):
                u = unwrap(x['inner'][0])
                if u.get('kind') == 'DeclRefExpr':
                    out.add(u['referencedDecl']['name'])
        return out
