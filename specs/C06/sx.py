"""sx: the small term language of the C06 spec generator (SMT-LIB s-expressions as python tuples) and the TRUSTED rule
table of the syntactic differentiation.

A term is an atom (str: a numeral `2.0`, an SMT constant `|output@i|`) or a tuple `(op, arg..)`.  The operators are the
ones nvwp emits over the reals (+ - * / ite and the comparison / boolean connectives) plus
    (nv_exp u) (nv_log u) (nv_log1p u) (nv_atan u) (nv_sqrt u)   uninterpreted functions standing for exp, log, log1p, atan, sqrt
    (nv_sum phi)      the finite sum over the generic coordinate of the coefficient-wise term phi (phi mentions array
                      coefficients only as the leaf constants `|a@i|`): printed as ONE real constant per distinct phi.

DERIVATIVE RULES (d = partial derivative with respect to the real constant `var`; this table is the trusted base of every
"gradient == D(value)" obligation):
    d c = 0 (numeral, any constant other than var)          d var = 1
    d (+ a b ..) = (+ da db ..)      d (- a) = (- da)       d (- a b ..) = (- da db ..)
    d (* a b) = (+ (* da b) (* a db))                        (n-ary products: left to right)
    d (/ a b) = (/ (- (* da b) (* a db)) (* b b))            (b != 0 is a separate obligation of the real-model division)
    d (to_real k) = 0
    d (ite c a b) = (ite c da db)        valid AWAY FROM THE KINKS of c (the points where a comparison in c that depends on
                                         var holds with equality); the obligations exclude / treat those points explicitly
    d (nv_exp u)   = (* (nv_exp u) du)
    d (nv_log u)   = (/ du u)
    d (nv_log1p u) = (/ du (+ 1 u))
    d (nv_atan u)  = (/ du (+ 1 (* u u)))
    d (nv_sqrt u)  = (/ du (* 2 (nv_sqrt u)))
    d (nv_sum phi) = d phi   when var is a leaf `|x@i|` (only the i-th summand mentions x_i; phi must not contain a nested
                     nv_sum that depends on var) -- and 0 when phi does not mention var
"""
import re
from fractions import Fraction


class SxError(Exception):
    pass


# --------------------------------------------------------------------------------------------- parse / print
_TOK = re.compile(r'\s*(\(|\)|\|[^|]*\||[^\s()|]+)')


def parse(s):
    toks = _TOK.findall(s)
    pos = 0

    def rd():
        nonlocal pos
        t = toks[pos]
        pos += 1
        if t == '(':
            out = []
            while toks[pos] != ')':
                out.append(rd())
            pos += 1
            return tuple(out)
        if t == ')':
            raise SxError('unbalanced )')
        return t
    r = rd()
    if pos != len(toks):
        raise SxError(f'trailing tokens in {s[:80]!r}')
    return r


def show(t):
    if isinstance(t, str):
        return t
    return '(' + ' '.join(show(x) for x in t) + ')'


def is_num(t):
    return isinstance(t, str) and re.fullmatch(r'\d+(\.\d+)?', t) is not None


def num_value(t):
    """Fraction value of a closed numeric term, else None"""
    if isinstance(t, str):
        return Fraction(t) if is_num(t) else None
    op = t[0]
    if op == 'to_real' and len(t) == 2:
        return num_value(t[1])
    vs = [num_value(x) for x in t[1:]]
    if any(v is None for v in vs):
        return None
    if op == '-' and len(vs) == 1:
        return -vs[0]
    if op == '+':
        return sum(vs)
    if op == '-':
        return vs[0] - sum(vs[1:])
    if op == '*':
        r = Fraction(1)
        for v in vs:
            r *= v
        return r
    if op == '/' and len(vs) == 2 and vs[1] != 0:
        return vs[0] / vs[1]
    return None


def num(q):
    q = Fraction(q)
    if q < 0:
        return ('-', num(-q))
    if q.denominator == 1:
        return f'{q.numerator}.0'
    return ('/', f'{q.numerator}.0', f'{q.denominator}.0')


ZERO, ONE = '0.0', '1.0'


def is_zero(t):
    return num_value(t) == 0


def is_one(t):
    return num_value(t) == 1


# --------------------------------------------------------------------------------------------- smart constructors
def add(*xs):
    xs = [x for x in xs if not is_zero(x)]
    if not xs:
        return ZERO
    return xs[0] if len(xs) == 1 else ('+',) + tuple(xs)


def sub(a, b):
    if is_zero(b):
        return a
    if is_zero(a):
        return neg(b)
    return ('-', a, b)


def neg(a):
    if is_zero(a):
        return ZERO
    if isinstance(a, tuple) and a[0] == '-' and len(a) == 2:
        return a[1]
    return ('-', a)


def mul(*xs):
    if any(is_zero(x) for x in xs):
        return ZERO
    xs = [x for x in xs if not is_one(x)]
    if not xs:
        return ONE
    return xs[0] if len(xs) == 1 else ('*',) + tuple(xs)


def div(a, b):
    if is_zero(a):
        return ZERO
    if is_one(b):
        return a
    return ('/', a, b)


def ite(c, a, b):
    if a == b:
        return a
    if c == 'true':
        return a
    if c == 'false':
        return b
    return ('ite', c, a, b)


def atoms(t, out=None):
    """all constant symbols of a term"""
    out = set() if out is None else out
    if isinstance(t, str):
        if not is_num(t) and t not in ('true', 'false'):
            out.add(t)
    else:
        for x in t[1:]:
            atoms(x, out)
    return out


def mentions(t, var):
    return var in atoms(t)


def subst(t, m):
    """replace atoms / whole sub-terms (keys of m) by terms"""
    if t in m:
        return m[t]
    if isinstance(t, str):
        return t
    return (t[0],) + tuple(subst(x, m) for x in t[1:])


def subterms(t, op, out=None):
    out = [] if out is None else out
    if isinstance(t, tuple):
        if t[0] == op and t not in out:
            out.append(t)
        for x in t[1:]:
            subterms(x, op, out)
    return out


UF = ('nv_exp', 'nv_log', 'nv_log1p', 'nv_atan', 'nv_sqrt')
CMP = ('<', '<=', '>', '>=', '=')
BOOL = ('and', 'or', 'not', '=>')


# --------------------------------------------------------------------------------------------- differentiation
def D(t, var):
    if isinstance(t, str):
        return ONE if t == var else ZERO
    if not mentions(t, var):
        return ZERO
    op, a = t[0], t[1:]
    if op == '+':
        return add(*[D(x, var) for x in a])
    if op == '-':
        if len(a) == 1:
            return neg(D(a[0], var))
        r = D(a[0], var)
        for x in a[1:]:
            r = sub(r, D(x, var))
        return r
    if op == '*':
        if len(a) == 1:
            return D(a[0], var)
        head, rest = a[0], (a[1] if len(a) == 2 else ('*',) + tuple(a[1:]))
        return add(mul(D(head, var), rest), mul(head, D(rest, var)))
    if op == '/' and len(a) == 2:
        da, db = D(a[0], var), D(a[1], var)
        if is_zero(db):
            return div(da, a[1])
        return div(sub(mul(da, a[1]), mul(a[0], db)), mul(a[1], a[1]))
    if op == 'to_real':
        return ZERO
    if op == 'ite':
        return ite(a[0], D(a[1], var), D(a[2], var))
    if op == 'nv_exp':
        return mul(t, D(a[0], var))
    if op == 'nv_log':
        return div(D(a[0], var), a[0])
    if op == 'nv_log1p':
        return div(D(a[0], var), add(ONE, a[0]))
    if op == 'nv_atan':
        return div(D(a[0], var), add(ONE, mul(a[0], a[0])))
    if op == 'nv_sqrt':
        return div(D(a[0], var), mul('2.0', t))
    if op == 'nv_sum':
        if not var.endswith('@i|'):
            raise SxError(f'D of a symbolic-length sum with respect to {var}, which is not a generic coefficient')
        if subterms(a[0], 'nv_sum') and any(mentions(s, var) for s in subterms(a[0], 'nv_sum')):
            raise SxError('D of a sum whose summand contains a nested sum of the variable')
        return D(a[0], var)
    raise SxError(f'no derivative rule for operator {op!r}')


# --------------------------------------------------------------------------------------------- kinks
def conditions(t, out=None):
    """the comparison atoms (op, a, b) of every ite condition of t, outermost first"""
    out = [] if out is None else out
    if isinstance(t, tuple):
        if t[0] == 'ite':
            _cmp_atoms(t[1], out)
        for x in t[1:]:
            conditions(x, out)
    return out


def _cmp_atoms(c, out):
    if isinstance(c, tuple):
        if c[0] in CMP:
            if c not in out:
                out.append(c)
        elif c[0] in BOOL:
            for x in c[1:]:
                _cmp_atoms(x, out)
        else:
            raise SxError(f'condition operator {c[0]!r}')
    elif c not in ('true', 'false'):
        raise SxError(f'opaque boolean {c!r} in a condition')


def kinks(t, var):
    """pairs (a, b): the points a == b of the comparisons of t's conditions that depend on var"""
    out = []
    for c in conditions(t):
        if mentions(c, var) and (c[1], c[2]) not in out and (c[2], c[1]) not in out:
            out.append((c[1], c[2]))
    return out


def force(t, pair, value):
    """t with every comparison between the two terms of `pair` replaced by its limit from the side `value`:
    value=+1: a > b (so a<b, a<=b, a=b are false, a>b, a>=b true);  value=-1: a < b"""
    a, b = pair

    def f(x):
        if isinstance(x, str):
            return x
        if x[0] in CMP and len(x) == 3 and ((x[1] == a and x[2] == b) or (x[1] == b and x[2] == a)):
            s = value if (x[1] == a) else -value      # sign of (x[1] - x[2])
            if x[0] == '=':
                return 'false'
            if x[0] in ('<', '<='):
                return 'true' if s < 0 else 'false'
            return 'true' if s > 0 else 'false'
        return simplify_ite((x[0],) + tuple(f(y) for y in x[1:]))
    return f(t)


def simplify_ite(t):
    if isinstance(t, tuple):
        if t[0] == 'ite':
            return ite(simplify_bool(t[1]), t[2], t[3])
        if t[0] in BOOL:
            return simplify_bool(t)
    return t


def simplify_bool(c):
    if isinstance(c, str):
        return c
    if c[0] == 'not':
        x = simplify_bool(c[1])
        return {'true': 'false', 'false': 'true'}.get(x, ('not', x))
    if c[0] == 'and':
        xs = [simplify_bool(x) for x in c[1:]]
        if 'false' in xs:
            return 'false'
        xs = [x for x in xs if x != 'true']
        return 'true' if not xs else (xs[0] if len(xs) == 1 else ('and',) + tuple(xs))
    if c[0] == 'or':
        xs = [simplify_bool(x) for x in c[1:]]
        if 'true' in xs:
            return 'true'
        xs = [x for x in xs if x != 'false']
        return 'false' if not xs else (xs[0] if len(xs) == 1 else ('or',) + tuple(xs))
    return c


def simplify_ite_deep(t):
    """propagate decided conditions: (ite true a b) -> a .. everywhere in t"""
    if isinstance(t, str):
        return t
    t = (t[0],) + tuple(simplify_ite_deep(x) for x in t[1:])
    return simplify_ite(t)


# --------------------------------------------------------------------------------------------- pieces of a piecewise term
def _fold_cmp(t):
    """comparison of two closed numeric terms -> true / false"""
    if isinstance(t, tuple) and t[0] in CMP and len(t) == 3:
        try:
            a, b = _closed(t[1]), _closed(t[2])
        except SxError:
            return t
        return 'true' if {'<': a < b, '<=': a <= b, '>': a > b, '>=': a >= b, '=': a == b}[t[0]] else 'false'
    return t


def _closed(t):
    """value of a closed numeric term (integer or real numerals), else SxError"""
    if isinstance(t, str):
        if re.fullmatch(r'\d+(\.\d+)?', t):
            return Fraction(t)
        raise SxError('open')
    if t[0] not in ('-', '+', '*', '/', 'to_real'):
        raise SxError('open')
    args = [_closed(x) for x in t[1:]]
    if t[0] == 'to_real':
        return args[0]
    if t[0] == '-':
        return -args[0] if len(args) == 1 else args[0] - sum(args[1:])
    if t[0] == '+':
        return sum(args)
    if t[0] == '*':
        r = Fraction(1)
        for x in args:
            r *= x
        return r
    if len(args) == 2 and args[1] != 0:
        return args[0] / args[1]
    raise SxError('open')


def simplify_deep(t):
    """propagate decided conditions and fold comparisons of numerals, bottom-up"""
    if isinstance(t, str):
        return t
    t = (t[0],) + tuple(simplify_deep(x) for x in t[1:])
    t = _fold_cmp(t)
    return simplify_ite(t)


def _first_atom(t):
    """an ite-free comparison atom inside the condition of some ite of t (innermost first), else None"""
    if isinstance(t, str):
        return None
    for x in t[1:]:
        r = _first_atom(x)
        if r is not None:
            return r
    if t[0] == 'ite':
        out = []
        _cmp_atoms(t[1], out)
        for c in out:
            if not subterms(c, 'ite'):
                return c
    return None


def pieces(t, limit=256):
    """case split of a term (or tuple ('vec', t0, t1, ..)) on the comparison atoms of its ite conditions:
    list of (conditions, ite-free term).  The conditions of the list are exhaustive and mutually exclusive by construction."""
    out = []

    def go(u, conds):
        if len(out) > limit:
            raise SxError(f'more than {limit} pieces')
        a = _first_atom(u)
        if a is None:
            if subterms(u, 'ite'):
                raise SxError('an ite whose condition cannot be decided by comparison atoms')
            out.append((conds, u))
            return
        go(simplify_deep(subst(u, {a: 'true'})), conds + (a,))
        go(simplify_deep(subst(u, {a: 'false'})), conds + (('not', a),))
    go(simplify_deep(t), ())
    return out


def addends(t, sign=1, out=None):
    """flatten the top-level + / - structure: list of (sign, term)"""
    out = [] if out is None else out
    if isinstance(t, tuple) and t[0] == '+':
        for x in t[1:]:
            addends(x, sign, out)
    elif isinstance(t, tuple) and t[0] == '-' and len(t) == 2:
        addends(t[1], -sign, out)
    elif isinstance(t, tuple) and t[0] == '-':
        addends(t[1], sign, out)
        for x in t[2:]:
            addends(x, -sign, out)
    elif not is_zero(t):
        out.append((sign, t))
    return out


def evaluate(t, env):
    """numeric value of an ite-free term at a point (floats; exp / log / atan / sqrt are the real ones) -- used only to PICK a candidate,
    never to decide an obligation"""
    import math
    if isinstance(t, str):
        if t in env:
            return env[t]
        return float(t)
    op = t[0]
    a = [evaluate(x, env) for x in t[1:]]
    if op == '+':
        return sum(a)
    if op == '-':
        return -a[0] if len(a) == 1 else a[0] - sum(a[1:])
    if op == '*':
        r = 1.0
        for x in a:
            r *= x
        return r
    if op == '/':
        return a[0] / a[1]
    if op == 'to_real':
        return a[0]
    f = {'nv_exp': math.exp, 'nv_log': math.log, 'nv_log1p': math.log1p, 'nv_atan': math.atan, 'nv_sqrt': math.sqrt}.get(op)
    if f is None:
        raise SxError(f'evaluate: operator {op}')
    return f(a[0])
