"""C06, part 3: constraint kinds (src/function/constraint.cpp): the value / gradient overloads ::vgrad(kind, x, gx) and the
convexity / strong-convexity declarations ::convex(kind), ::strong_convexity(kind).

  euclidean ball, linear                  generic mode (symbolic dimension)
  minimum, maximum, constant              concrete mode n = 1..3 (element access at the symbolic coordinate m_dimension; 0 <= m_dimension < n
                                          is what ::compatible demands before function_t::constrain accepts the constraint)
  quadratic                               concrete mode n = 1, 2 (matrix P); nano::convex(P) / nano::strong_convexity(P) are eigenvalue tests:
                                          ASSUMED contract for n <= 2: all eigenvalues have a non-negative real part  <=>  trace >= 0 and det >= 0
  functional                              delegates to function_t::vgrad (the benchmark functions are part 2)
Both quadratic equality and inequality share quadratic_t's overload (likewise ball / linear): 11 kinds, 7 overloads."""
import re

import astload
import nvwp
import sx
import poly
from nvwp import V, Unsupported
from cxx2c import unwrap, strip_cv, qual
from eig import EigWP, AV, MV, real_of
from vcgen import Gen
from losses import fninfo, linear_open
from functions import decide_cond, convexity_generic, X

TU = 'src/function/constraint.cpp'


def overload(name, kind, flt=None):
    docs = astload.dump(TU, flt or name)
    c = [f for f in astload.find_definitions(docs, name) if astload.param_types(f) and re.search(r'\b' + kind + r' &$', astload.param_types(f)[0])]
    uniq = {tuple(astload.param_types(f)): f for f in c}
    if len(uniq) != 1:
        raise astload.ExtractionError(f'{len(uniq)} overloads of {name}({kind})')
    return list(uniq.values())[0]


def bind_constraint(wp, fn, nt, n, symmetric):
    for x in astload.walk(fn):
        if x.get('kind') == 'MemberExpr' and x.get('inner') and unwrap(x['inner'][0]).get('kind') == 'DeclRefExpr' \
                and unwrap(x['inner'][0])['referencedDecl']['name'] == 'constraint':
            key = 'constraint.' + x['name']
            if key in wp.env:
                continue
            t = strip_cv(qual(x.get('type')))
            m = re.search(r'tensor_t<[^,]+, double, (\d+)>', t)
            if m and m.group(1) == '1':
                wp.input_array(key, x['name'], nt)
            elif m and m.group(1) == '2':
                wp.input_matrix(key, x['name'], n, n, symmetric=symmetric)
            elif wp.base(x['type']) == 'double':
                wp.env[key] = wp.const(f'|{x["name"]}|', 'Real', 'double')
            elif wp.base(x['type']) in nvwp.INT_RANGES:
                wp.env[key] = wp.const(f'|{x["name"]}|', 'Int', 'long')
            else:
                raise Unsupported(f'{wp.name}: member {x["name"]} of type {t[:60]}')


def walk(kind, fnname, n=None, symmetric=False):
    fn = overload(fnname, kind)
    name = f'constraint_{kind[:-2]}::{fnname}' + (f'[n={n}]' if n is not None else '')
    wp = EigWP(name, n=n)
    nt = 'n' if n is None else str(n)
    if n is None:
        wp.const('n', 'Int', 'long')
        wp.assume('(>= n 1)')
    wp.const('gx_size', 'Int', 'long')
    for key, p in wp.bind_params(fn):
        if key == 'x':
            wp.input_array('x', 'x', nt)
        elif key == 'gx':
            wp.input_array('gx', 'gx0', 'gx_size')
        elif key == 'constraint' or key.startswith('_arg'):
            pass
        else:
            raise Unsupported(f'{name}: unexpected parameter {key}')
    bind_constraint(wp, fn, nt, n, symmetric)
    if 'constraint.m_dimension' in wp.env:
        wp.assume(f'(and (<= 0 |m_dimension|) (< |m_dimension| {nt}))')      # ::compatible(function, constant_t)
    rets = []
    wp.post = lambda w, rv: (rets.append((w.guard, rv, dict(w.env), list(w.facts))), [])[1]
    wp.run(fn, astload.REPO + '/' + TU)
    if len(rets) != 1:
        raise Unsupported(f'{name}: {len(rets)} return paths')
    return wp, fn, rets[0]


def inline_symmetric(outer, node, args, callee):
    """call of ::symmetric(P) (src/function/constraint.cpp): the REAL function is walked on the argument matrix"""
    arg = outer.ev(args[0])
    if not isinstance(arg, MV):
        raise Unsupported(f'{outer.name}: symmetric(..) of something that is not a matrix')
    docs = astload.dump(TU, 'symmetric')
    c = {tuple(astload.param_types(f)): f for f in astload.find_definitions(docs, 'symmetric')}
    if len(c) != 1:
        raise astload.ExtractionError(f'{len(c)} definitions of symmetric')
    fn = list(c.values())[0]
    wp = EigWP(outer.name + '>symmetric', n=outer.dim)
    wp.decls = outer.decls            # same constants
    (key, p), = wp.bind_params(fn)
    wp.env[key] = MV(arg.m)
    wp.ver[key] = 0
    rets = []
    wp.post = lambda w, rv: (rets.append(rv), [])[1]
    wp.run(fn, astload.REPO + '/' + TU)
    if len(rets) != 1 or not isinstance(rets[0], MV):
        raise Unsupported(f'{outer.name}: symmetric(..) does not return a matrix')
    outer.obligations += wp.obligations
    outer.inlined = getattr(outer, 'inlined', []) + [fn]
    return MV(rets[0].m)


def declared(kind, which, n=None):
    """the term ::convex(kind) / ::strong_convexity(kind) returns: a literal for every kind but quadratic, where nano::convex(M) /
    nano::strong_convexity(M) are eigenvalue tests.  ASSUMED contract for n <= 2 (all eigenvalues of M have a non-negative real part):
    n = 1: M00 >= 0;  n = 2: trace(M) >= 0 and det(M) >= 0.  The strong-convexity coefficient (smallest eigenvalue) is not modelled: an
    opaque non-negative real."""
    fn = overload(which, kind)
    name = f'constraint_{kind[:-2]}::{which}'
    wp = EigWP(name, n=n)
    calls = []

    def h_matrix_test(w, node, args, callee):
        calls.append(callee['referencedDecl']['name'])
        M = w.ev(args[0])
        if not isinstance(M, MV) or M.rows != M.cols:
            raise Unsupported(f'{name}: eigenvalue test of something that is not a square matrix')
        if which == 'strong_convexity':
            return V('|nano::strong_convexity(M)|', 'Real', 'double')
        if M.rows == 1:
            return V(f'(>= {M.m[0][0]} 0.0)', 'Bool', 'bool')
        if M.rows == 2:
            return V(f'(and (>= (+ {M.m[0][0]} {M.m[1][1]}) 0.0) (>= (- (* {M.m[0][0]} {M.m[1][1]}) (* {M.m[0][1]} {M.m[1][0]})) 0.0))', 'Bool', 'bool')
        raise Unsupported(f'{name}: eigenvalue test for n = {M.rows}')
    wp.calls = [(r'^symmetric\|', inline_symmetric),
                (r'^(convex|strong_convexity)\|.*matrix_t|^(convex|strong_convexity)\|.*tensor_t<', h_matrix_test)] + list(wp.calls)
    wp.bind_params(fn)
    if n is not None:
        bind_constraint(wp, fn, str(n), n, False)
    rets = []
    wp.post = lambda w, rv: (rets.append(rv), [])[1]
    wp.run(fn, astload.REPO + '/' + TU)
    if len(rets) != 1:
        raise Unsupported(f'{name}: {len(rets)} return paths')
    return fn, rets[0], calls, wp


def generic_kind(kind, info, not_decided):
    path = astload.REPO + '/' + TU
    wp, fn, (guard, rv, env, facts) = walk(kind, 'vgrad')
    tag = f'constraint_{kind[:-2]}'
    info.append(fninfo(tag + '::vgrad', f'::vgrad(const {kind}&, x, gx)', path, fn))
    gen = Gen(wp.decls, length='n', hyps=['(>= n 1)'], tag=tag)
    src = {'file': path, 'line': fn.get('loc', {}).get('line')}
    vcs = gen.from_wp(wp, tag, path)
    R, G = sx.parse(rv.t), sx.parse(env['gx'].c[0])
    if 'gx' not in getattr(wp, 'written', ()):
        raise Unsupported(f'{tag}: the gradient is never written')
    Rt, Rf, Gt = decide_cond(R, 'n', True), decide_cond(R, 'n', False), decide_cond(G, 'n', True)
    vcs.append(gen.vc(f'{tag}/same value with and without a gradient request', [], ('=', Rt, Rf), source=src))
    count = ('to_real', 'n')
    value, grad = gen.split(poly.normalise_sums(Rt, count)), gen.split(poly.normalise_sums(Gt, count))
    vcs.append(gen.vc(f'{tag}/gradient == d value / d x_i', [], ('=', grad, sx.D(value, X)), source=src))
    fc, conv, _, _ = declared(kind, 'convex')
    fm, mu, _, _ = declared(kind, 'strong_convexity')
    info.append(fninfo(tag + '::convex', f'::convex(const {kind}&)', path, fc))
    info.append(fninfo(tag + '::strong_convexity', f'::strong_convexity(const {kind}&)', path, fm))
    if conv.t == 'true':
        vcs += convexity_generic(gen, tag, Rt, Gt, sx.parse(real_of(wp, mu)), src, not_decided)
    elif conv.t != 'false':
        raise Unsupported(f'{tag}: ::convex does not return a literal')
    vcs += gen.lemmas
    return vcs


def bounded_kind(kind, sizes, info, not_decided, symmetric=False, label=''):
    path = astload.REPO + '/' + TU
    out = []
    for n in sizes:
        wp, fn, (guard, rv, env, facts) = walk(kind, 'vgrad', n=n, symmetric=symmetric)
        tag = f'constraint_{kind[:-2]}{label}[n={n}]'
        if n == sizes[0] and not label:
            info.append(fninfo(f'constraint_{kind[:-2]}::vgrad', f'::vgrad(const {kind}&, x, gx)', path, fn))
        hyps = list(facts)
        gen = Gen(wp.decls, hyps=hyps, tag=tag)
        src = {'file': path, 'line': fn.get('loc', {}).get('line')}
        vcs = gen.from_wp(wp, tag, path)
        nt = str(n)
        R = sx.parse(rv.t)
        Rt, Rf = decide_cond(R, nt, True), decide_cond(R, nt, False)
        if 'gx' not in getattr(wp, 'written', ()):
            raise Unsupported(f'{tag}: the gradient is never written')
        Gt = [decide_cond(sx.parse(c), nt, True) for c in env['gx'].c]
        vcs.append(gen.vc(f'{tag}/same value with and without a gradient request', [], ('=', Rt, Rf), source=src))
        xs = [f'|x@{k}|' for k in range(n)]
        for k, xv in enumerate(xs):
            # the conditions of these terms compare the integer coordinate m_dimension with constants: no kinks in x
            vcs.append(gen.vc(f'{tag}/gradient[{k}] == d value / d x_{k}', [], ('=', Gt[k], sx.D(Rt, xv)), source=src))
        # nano::convex / nano::strong_convexity visit the variant with one lambda per BASE kind: minimum_t / maximum_t bind to constant_t
        fkind = {'minimum_t': 'constant_t', 'maximum_t': 'constant_t'}.get(kind, kind)
        fc, conv, ccalls, cwp = declared(fkind, 'convex', n=n)
        fm, mu, mcalls, mwp = declared(fkind, 'strong_convexity', n=n)
        for d in cwp.decls + mwp.decls:
            if d not in gen.decls:
                gen.decls.append(d)
        vcs += gen.from_wp(cwp, tag + '::convex', path) + gen.from_wp(mwp, tag + '::strong_convexity', path)
        if n == sizes[0] and not label:
            info.append(fninfo(f'constraint_{kind[:-2]}::convex', f'::convex(const {kind}&)', path, fc))
            info.append(fninfo(f'constraint_{kind[:-2]}::strong_convexity', f'::strong_convexity(const {kind}&)', path, fm))
        zs = [gen.declare(f'|z@{k}|') for k in range(n)]
        Rz = sx.subst(Rt, dict(zip(xs, zs)))
        lin = [('*', Gt[k], ('-', zs[k], xs[k])) for k in range(n)]
        chyps, mu_t = [], real_of(wp, mu) if mu.s == 'Real' and not mcalls else '0.0'
        if ccalls or mcalls:
            # quadratic_t: the declared convexity is the eigenvalue test on the matrix the code passes (symmetric(P) since 6f4bbf5)
            if n > 2:
                not_decided.append(f'{tag}: convexity (eigenvalue test of nano::convex not modelled for n > 2)')
                chyps = None
            else:
                chyps = [conv.t]
            mu_t = '0.0'
        elif conv.t not in ('true', 'false'):
            raise Unsupported(f'{tag}: ::convex does not return a literal')
        if chyps is not None and (ccalls or conv.t == 'true'):
            quad = [('*', ('/', sx.parse(mu_t), '2.0'), ('-', zs[k], xs[k]), ('-', zs[k], xs[k])) for k in range(n)]
            vcs.append(gen.vc(f'{tag}/declared convex: f(z) >= f(x) + <g(x), z - x> + mu/2 |z - x|^2', chyps,
                              ('>=', Rz, ('+', Rt) + tuple(lin) + tuple(quad)), about='for all x, z in R^n, n fixed', source=src))
        vcs += gen.lemmas
        for v in vcs:
            v.bound = f'dimension n = {n}'
        out += vcs
    return out
