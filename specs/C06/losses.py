"""C06, part 1: the 17 losses (include/nano/loss/flatten.h, include/nano/loss/error.h, src/loss/pinball.cpp; registry src/loss.cpp).

(a) per-sample kernels.  For every kernel struct K (mae, mse, cauchy, hinge, squared-hinge, savage, tangent, logistic, exponential,
    classnll) and every error policy it is instantiated with in src/loss.cpp, the INSTANTIATED bodies of K::value and K::vgrad
    are walked by eig.EigWP in generic-coordinate mode, which yields
          value  = c * sum_i phi(target_i, output_i)              gradient_i = psi(target_i, output_i)
    as terms over the real constants |target@i|, |output@i|.  Obligations (SMT, reals):
      grad     psi == d (value) / d output_i          away from the kinks of phi          (rule table: sx.py)
      smooth   K::smooth == true  =>  at every kink: phi continuous, one-sided derivatives agree, psi equals them
      convex   K::convex == true  =>  Phi(z) >= Phi(x) + psi(x) (z - x) for all x, z   (per coordinate; summed over i this is
               the property's inequality; it also makes psi a sub-gradient AT the kinks)
      nonneg   value >= 0
    plus the obligations the walk itself produces (loop shape, array reads / writes at the loop index, divisions defined).
(b) error policies (absdiff, mclass, sclass): error >= 0; the 0-1 errors agree with the sign rule (per output) resp. the
    arg-max rule (sclass, more than one output).
(c) the per-sample loops of flatten_loss_t<K>::error/value/vgrad (all 16 instantiations) and of pinball_loss_t: sample s reads
    row s of targets and of outputs (in this order) and writes slot / row s only, every sample is visited.
"""
import re

import astload
import nvwp
import sx
from nvwp import V, Unsupported
from cxx2c import unwrap, strip_cv, qual, string_literal_of
from eig import EigWP, AV, real_of
from vcgen import Gen

TU = 'src/loss.cpp'
FLATTEN = 'include/nano/loss/flatten.h'
ERRORH = 'include/nano/loss/error.h'
PINBALL = 'src/loss/pinball.cpp'
KERNELS = ['mae_t', 'mse_t', 'cauchy_t', 'hinge_t', 'squared_hinge_t', 'savage_t', 'tangent_t', 'logistic_t', 'exponential_t', 'classnll_t']
POLICIES = ['absdiff_t', 'mclass_t', 'sclass_t']
OUT = '|output@i|'
TGT = '|target@i|'


def fninfo(cname, cxx, path, fn):
    return {'c_name': cname, 'cxx': cxx, 'file': path, 'line': fn.get('loc', {}).get('line') or fn.get('_line'), 'sha': astload.file_hash(path)}


# ------------------------------------------------------------------------------------------------ AST lookup
def specialisations(kernel):
    """[(error policy, specialisation node)] of nano::detail::<kernel> instantiated by src/loss.cpp"""
    docs = astload.dump(TU, 'nano::detail::')
    out, seen = [], set()
    for d in docs:
        for n in astload.walk(d):
            if n.get('kind') == 'ClassTemplateSpecializationDecl' and n.get('name') == kernel:
                ta = astload.template_args(n)
                if ta and ta[0] not in seen and any(c.get('kind') == 'FunctionTemplateDecl' for c in n.get('inner', [])):
                    seen.add(ta[0])
                    out.append((ta[0].split('::')[-1], n))
    if not out:
        raise astload.ExtractionError(f'no instantiation of nano::detail::{kernel} in {TU}')
    return out


def flag(spec, name):
    for c in spec.get('inner', []):
        if c.get('kind') == 'VarDecl' and c.get('name') == name:
            for x in astload.walk(c):
                if x.get('kind') == 'CXXBoolLiteralExpr':
                    return bool(x.get('value'))
    raise astload.ExtractionError(f'static flag {name} not found / not a boolean literal')


def method(spec, name):
    c = [m for ft in spec.get('inner', []) if ft.get('kind') == 'FunctionTemplateDecl' and ft.get('name') == name
         for m in ft.get('inner', []) if m.get('kind') == 'CXXMethodDecl' and astload.has_body(m) and astload.template_args(m)]
    uniq = {}
    for m in c:
        uniq.setdefault(tuple(astload.template_args(m)), m)
    if len(uniq) != 1:
        raise astload.ExtractionError(f'{len(uniq)} instantiated definitions of {name}')
    return list(uniq.values())[0]


# ------------------------------------------------------------------------------------------------ walking a kernel
def walk_kernel(name, fn, path, out_param=None, n=None):
    """run one kernel method in generic mode (n=None) or for n outputs; returns (wp, [(guard, result, env, facts)])"""
    wp = EigWP(name, n=n)
    nt = 'n' if n is None else str(n)
    if n is None:
        wp.const('n', 'Int', 'long')
        wp.assume('(>= n 0)')
    for key, p in wp.bind_params(fn):
        if key in ('target', 'output'):
            wp.input_array(key, key, nt)
        elif key == out_param:
            wp.input_array(key, key + '0', nt)
        else:
            raise Unsupported(f'{name}: unexpected parameter {key}')
    rets = []
    wp.post = lambda w, rv: (rets.append((w.guard, rv, dict(w.env), list(w.facts))), [])[1]
    wp.run(fn, path)
    if not rets:
        raise Unsupported(f'{name}: no return path')
    return wp, rets


def linear_open(t):
    """t = c0 + sum_k c_k * (nv_sum phi_k)  with sum-free c  ->  the per-coordinate term  sum_k c_k * phi_k   (None: not of that shape)
    STATED FACT S2: finite sums are linear."""
    if not sx.subterms(t, 'nv_sum'):
        return sx.ZERO
    if isinstance(t, str):
        return sx.ZERO
    op, a = t[0], t[1:]
    if op == 'nv_sum':
        return None if sx.subterms(a[0], 'nv_sum') else a[0]
    if op in ('+', '-'):
        parts = [linear_open(x) for x in a]
        if any(p is None for p in parts):
            return None
        return (op,) + tuple(parts)
    if op == '*':
        withsum = [x for x in a if sx.subterms(x, 'nv_sum')]
        if len(withsum) != 1:
            return None
        inner = linear_open(withsum[0])
        if inner is None:
            return None
        return ('*',) + tuple(inner if x is withsum[0] else x for x in a)
    if op == '/' and not sx.subterms(a[1], 'nv_sum'):
        inner = linear_open(a[0])
        return None if inner is None else ('/', inner, a[1])
    return None


def calculus_vcs(gen, name, value_sum, grad_raw, convex, smooth, hyps, src, var=OUT, not_decided=None, what='output_i'):
    """the derivative / smoothness / convexity / non-negativity obligations of one (value, gradient) pair"""
    vcs = []
    value = gen.split(value_sum)            # the summand of the generic coordinate made explicit
    grad = gen.split(grad_raw)
    dv = sx.D(value, var)
    kk = sx.kinks(value, var)
    away = [('not', ('=', a, b)) for a, b in kk]
    vcs.append(gen.vc(f'{name}/gradient == d value / d {what} (away from the kinks of the value)', list(hyps) + away, ('=', grad, dv),
                      about='the gradient returned by vgrad is the derivative of the value returned by value', source=src))
    if smooth:
        for j, (a, b) in enumerate(kk):
            vp, vm = sx.force(value, (a, b), +1), sx.force(value, (a, b), -1)
            at = list(hyps) + [('=', a, b)]
            tag = f'kink {sx.show(a)[:60]} == {sx.show(b)[:20]}'
            vcs.append(gen.vc(f'{name}/declared smooth: value continuous at {tag}', at, ('=', vp, vm), source=src))
            vcs.append(gen.vc(f'{name}/declared smooth: one-sided derivatives agree at {tag}', at, ('=', sx.D(vp, var), sx.D(vm, var)), source=src))
            vcs.append(gen.vc(f'{name}/declared smooth: gradient == derivative at {tag}', at, ('=', grad, sx.D(vp, var)), source=src))
    phi = linear_open(value_sum)
    if phi is None or sx.subterms(grad_raw, 'nv_sum'):
        if not_decided is not None:
            not_decided.append(f'{name}: convexity inequality and non-negativity (the value is not a linear combination of coefficient-wise sums)')
        return vcs
    if convex:
        z = gen.declare(var.replace('@i|', '@z|'))
        phiz = sx.subst(phi, {var: z})
        vcs.append(gen.vc(f'{name}/declared convex: Phi(z) >= Phi(x) + gradient(x) * (z - x) per coordinate', list(hyps),
                          ('>=', phiz, ('+', phi, ('*', grad_raw, ('-', z, var)))),
                          about='summed over the coordinates: value(z) >= value(x) + <vgrad(x), z - x> for all x, z (also at the kinks: sub-gradient)', source=src))
    vcs.append(gen.vc(f'{name}/value >= 0', list(hyps), ('>=', value_sum, '0.0'), about='the loss of a sample is non-negative', source=src))
    return vcs


def kernel_vcs(kernel, policy, spec, info, not_decided):
    name = f'loss_{kernel[:-2]}[{policy[:-2]}]'
    path = astload.REPO + '/' + FLATTEN
    convex, smooth = flag(spec, 'convex'), flag(spec, 'smooth')
    fv, fg = method(spec, 'value'), method(spec, 'vgrad')
    info.append(fninfo(name + '::value', f'nano::detail::{kernel}<{policy}>::value', path, fv))
    info.append(fninfo(name + '::vgrad', f'nano::detail::{kernel}<{policy}>::vgrad', path, fg))
    try:
        wv, rv = walk_kernel(name + '::value', fv, path)
        wg, rg = walk_kernel(name + '::vgrad', fg, path, out_param='vgrad')
    except Unsupported as e:
        if kernel != 'classnll_t':
            raise
        # e.g. a special case for one output that addresses element 0: no coordinate-wise reading for a symbolic number of outputs
        not_decided.append(f'{name}: everything for a symbolic number of outputs ({e}); see the bounded obligations loss_classnll[..][n=1], [n=2]')
        return [], {'convex': convex, 'smooth': smooth}
    if len(rv) != 1 or len(rg) != 1 or rv[0][0] != 'true' or rg[0][0] != 'true':
        if kernel != 'classnll_t':
            raise Unsupported(f'{name}: several return paths')
        # classnll that treats special sizes separately: only the loop / index discipline of the walk is claimed for symbolic n
        gen = Gen(wv.decls + [d for d in wg.decls if d not in wv.decls], length='n', tag=name)
        not_decided.append(f'{name}: gradient == derivative, convexity, non-negativity for a symbolic number of outputs (several return paths)')
        return gen.from_wp(wv, name + '::value', path, hyps=['(> n 0)']) + gen.from_wp(wg, name + '::vgrad', path, hyps=['(> n 0)']) + gen.lemmas, \
            {'convex': convex, 'smooth': smooth}
    g = rg[0][2]['vgrad']
    if not isinstance(g, AV) or 'vgrad' not in getattr(wg, 'written', ()):
        raise Unsupported(f'{name}: vgrad does not write its output array')
    gen = Gen(wv.decls + [d for d in wg.decls if d not in wv.decls], length='n', tag=name)
    hyps = []
    if getattr(wv, 'extrema', None) or getattr(wg, 'extrema', None):
        hyps = ['(> n 0)']          # precondition of Eigen's maxCoeff: a sample has at least one output value
    vcs = gen.from_wp(wv, name + '::value', path, hyps=hyps) + gen.from_wp(wg, name + '::vgrad', path, hyps=hyps)
    value_sum = sx.parse(rv[0][1].t)
    grad = sx.parse(g.c[0])
    if sx.mentions(grad, '|vgrad0@i|'):
        raise Unsupported(f'{name}: the gradient depends on the previous content of the output array')
    src = {'file': path, 'line': fg.get('loc', {}).get('line')}
    dependent = [vt for w in (wv, wg) for (_, _, vt, coef) in getattr(w, 'extrema', []) if OUT in coef]
    if any(d in rv[0][1].t or d in g.c[0] for d in dependent):
        not_decided.append(f'{name}: gradient == derivative, convexity, non-negativity (the value goes through maxCoeff of the outputs '
                           'and an epsilon inside the logarithm: over the reals the returned exp(o_i - m) / S is not the exact derivative '
                           'exp(o_i - m) / (eps + S); relative difference <= 2.3e-16)')
    else:
        vcs += calculus_vcs(gen, name, value_sum, grad, convex, smooth, hyps, src, not_decided=not_decided)
    vcs += gen.lemmas
    return vcs, {'convex': convex, 'smooth': smooth}


# ------------------------------------------------------------------------------------------------ error policies
def policy_error_fn(policy):
    docs = astload.dump(TU, 'nano::loss::detail::')
    c = {}
    for d in docs:
      for rec in astload.walk(d):
        if rec.get('kind') != 'CXXRecordDecl' or rec.get('name') != policy:
            continue
        for m in astload.walk(rec):
            if m.get('kind') == 'CXXMethodDecl' and m.get('name') == 'error' and astload.has_body(m) and astload.template_args(m):
                c.setdefault(tuple(astload.template_args(m)), m)
    if len(c) != 1:
        raise astload.ExtractionError(f'{len(c)} instantiated definitions of {policy}::error')
    return list(c.values())[0]


def sign_rule_claims(J, t=TGT, o=OUT):
    disagree = ('or', ('and', ('>', t, '0.0'), ('<=', o, '0.0')), ('and', ('<', t, '0.0'), ('>=', o, '0.0')))
    agree = ('and', ('or', ('and', ('>', t, '0.0'), ('>', o, '0.0')), ('and', ('<', t, '0.0'), ('<', o, '0.0'))),
             ('>=', ('*', t, o), ('/', '1.0', '4503599627370496.0')))
    return [('an output on the wrong side of 0 (or at 0) is counted as an error', ('=>', disagree, ('=', J, '1.0'))),
            ('an output on the side of its target, with margin target*output >= 2^-52, is not counted', ('=>', agree, ('=', J, '0.0'))),
            ('every output counts 0 or 1', ('or', ('=', J, '0.0'), ('=', J, '1.0')))]


def error_vcs(policy, info, not_decided):
    name = f'error_{policy[:-2]}'
    path = astload.REPO + '/' + ERRORH
    fn = policy_error_fn(policy)
    info.append(fninfo(name, f'nano::loss::detail::{policy}::error', path, fn))
    wp, rets = walk_kernel(name, fn, path)
    gen = Gen(wp.decls, length='n', tag=name)
    src = {'file': path, 'line': fn.get('loc', {}).get('line')}
    vcs = []
    vcs += gen.from_wp(wp, name, path)
    for k, (guard, rv, env, facts) in enumerate(rets):
        tag = f'{name}' + (f'[return {k + 1}]' if len(rets) > 1 else '')
        hyps = [guard] + facts
        r = sx.parse(real_of(wp, rv))
        vcs.append(gen.vc(f'{tag}/error >= 0', hyps, ('>=', r, '0.0'), source=src))
        if policy == 'absdiff_t':
            continue
        J = linear_open(r)
        if J is not None and sx.subterms(r, 'nv_sum'):
            for label, claim in sign_rule_claims(J):
                vcs.append(gen.vc(f'{tag}/sign rule: {label}', hyps, claim, source=src))
        elif getattr(wp, 'extrema', None):
            (nm, idx, val, coef) = wp.extrema[-1]
            j = wp.ghost_j()
            at_o = lambda k_: sx.parse(wp.at(OUT, k_))
            at_t = lambda k_: sx.parse(wp.at(TGT, k_))
            if coef != OUT:
                raise Unsupported(f'{name}: the extremum is not taken over the outputs')
            vcs.append(gen.vc(f'{tag}/arg-max rule: the error is 0 iff the target at an index of a LARGEST output is positive, else 1',
                              hyps,
                              ('and', ('<=', '0', idx), ('<', idx, 'n'),
                               ('=>', ('and', ('<=', '0', j), ('<', j, 'n')), ('>=', at_o(idx), at_o(j))),
                               ('=', r, ('ite', ('>', at_t(idx), '0.0'), '0.0', '1.0'))),
                              about='witness of the existential: the index the code obtained', source=src))
        else:
            raise Unsupported(f'{name}: return {k + 1} is neither a count over the outputs nor an arg-max decision')
    if policy == 'sclass_t' and len(rets) != 2:
        raise Unsupported(f'{name}: expected the multi-class and the binary return path')
    vcs += gen.lemmas
    return vcs


# ------------------------------------------------------------------------------------------------ per-sample loops
class RV(AV):
    """rows of a 4-D tensor: the generic coefficient of the generic sample row"""
    writable = False


class BatchWP(EigWP):
    """flatten_loss_t<K>::error/value/vgrad and pinball_loss_t::value/vgrad: the loop index is the SAMPLE index"""

    def __init__(self, name):
        super().__init__(name)
        self.const('n', 'Int', 'long')
        self.const('samples', 'Int', 'long')
        self.assume('(>= n 0)')
        self.assume('(>= samples 0)')
        self.decls.append('(declare-fun nv_kernel (Real Real) Real)')
        self.kernel_calls = []
        self.calls = [(r'^(value|error|vgrad)\|', self.h_kernel)] + list(self.calls)

    def rows(self, key, name, writable=False):
        r = RV([self.leaf(name)], 'n')
        r.writable = writable
        self.env[key] = r
        self.ver[key] = 0
        return r

    def eigen_member(self, n):
        me = n['inner'][0]
        if me.get('kind') == 'MemberExpr':
            obj = me['inner'][0]
            name = me.get('name')
            args = n['inner'][1:]
            if name == 'size' and not args:
                try:
                    key = self.key_of(obj)
                except Unsupported:
                    key = None
                o = self.env.get(key) if key else None
                if isinstance(o, RV):
                    if self.member_template_args(me) != ['0']:
                        raise Unsupported(f'{self.name}: size<{self.member_template_args(me)}>() of a sample tensor')
                    return V('samples', 'Int', 'long')
            if name == 'array' and len(args) == 1:
                key = self.key_of(obj)
                o = self.env.get(key)
                if isinstance(o, RV):
                    idx = self.ev(args[0])
                    if self.loop_index is None:
                        raise Unsupported(f'{self.name}: sample row outside the per-sample loop')
                    self.oblige(f'sample s reads / writes row s of {key}', f'(= {idx.t} {self.loop_index})', n)
                    self.loop_lens.add('samples')
                    r = AV(o.c, o.n, {key: o.stamp})
                    if o.writable:
                        r.view = (key, None)
                    return r
            if name == 'value' and not args and unwrap(obj).get('kind') == 'CXXMemberCallExpr' and unwrap(obj)['inner'][0].get('name') == 'parameter':
                lit = string_literal_of(unwrap(obj)['inner'][1])
                return self.parameter(lit)
        return super().eigen_member(n)

    def parameter(self, lit):
        raise Unsupported(f'{self.name}: parameter {lit!r}')

    def write_array(self, key, av):
        old = self.env.get(key)
        super().write_array(key, av)
        if isinstance(old, RV):
            new = RV(self.env[key].c, old.n, self.env[key].deps)
            new.writable = old.writable
            self.env[key] = new

    def h_kernel(self, wp, n, args, callee):
        which = callee.get('referencedDecl', {}).get('name')
        vals = [self.ev(a) for a in args[:2]]
        if not all(isinstance(v, AV) and self.PURE_LEAF.match(v.c[0]) for v in vals):
            raise Unsupported(f'{self.name}: kernel called on something that is not a sample row')
        t = f'(nv_kernel {vals[0].c[0]} {vals[1].c[0]})'
        self.kernel_calls.append(which)
        if which == 'vgrad':
            if len(args) != 3:
                raise Unsupported(f'{self.name}: kernel vgrad with {len(args)} arguments')
            out = self.ev(args[2])
            if not (isinstance(out, AV) and getattr(out, 'view', None)):
                raise Unsupported(f'{self.name}: kernel vgrad does not write into a sample row')
            self.write_array(out.view[0], AV([t], out.n))
            return V('0', 'Int', 'int')
        return V(t, 'Real', 'double')


def flatten_specs():
    docs = astload.dump(TU, 'nano::flatten_loss_t')
    out, seen = [], set()
    for d in docs:
        for n in astload.walk(d):
            if n.get('kind') == 'ClassTemplateSpecializationDecl' and n.get('name') == 'flatten_loss_t':
                ta = astload.template_args(n)
                if ta and ta[0] not in seen and any(c.get('kind') == 'CXXMethodDecl' and astload.has_body(c) for c in n.get('inner', [])):
                    seen.add(ta[0])
                    out.append((ta[0], n))
    return out


def flatten_vcs(info):
    """flatten_loss_t<K>::error / value / vgrad for every instantiation"""
    path = astload.REPO + '/' + FLATTEN
    vcs = []
    specs = flatten_specs()
    if len(specs) < 16:
        raise astload.ExtractionError(f'only {len(specs)} instantiations of flatten_loss_t in {TU}')
    for targ, spec in specs:
        m = re.search(r'detail::(\w+)_t<nano::loss::detail::(\w+)_t>', targ)
        short = f'{m.group(1)}[{m.group(2)}]' if m else targ[-40:]
        ctors = [c for c in spec.get('inner', []) if c.get('kind') == 'CXXConstructorDecl' and astload.has_body(c) and astload.param_types(c) == []]
        if len(ctors) != 1:
            raise astload.ExtractionError(f'flatten_loss_t<{short}>: {len(ctors)} default constructors')
        fwd = {}
        for c in astload.walk(ctors[0]):
            if c.get('kind') == 'CXXMemberCallExpr' and c['inner'][0].get('name') in ('convex', 'smooth') and len(c['inner']) == 2:
                a = unwrap(c['inner'][1])
                fwd.setdefault(c['inner'][0]['name'], []).append(a.get('referencedDecl', {}).get('name') if a.get('kind') == 'DeclRefExpr' else None)
        info.append(fninfo(f'flatten<{short}>::ctor', f'nano::flatten_loss_t<{targ}>::flatten_loss_t', path, ctors[0]))
        vcs.append(Gen([]).vc(f'flatten<{short}>::ctor/the loss declares its kernel\'s flags: convex(K::convex), smooth(K::smooth)', [],
                              'true' if fwd == {'convex': ['convex'], 'smooth': ['smooth']} else 'false',
                              source={'file': path, 'line': ctors[0].get('loc', {}).get('line')}))
        for meth, outkey in (('error', 'errors'), ('value', 'values'), ('vgrad', 'vgrads')):
            fns = [c for c in spec.get('inner', []) if c.get('kind') == 'CXXMethodDecl' and c.get('name') == meth and astload.has_body(c)]
            if len(fns) != 1:
                raise astload.ExtractionError(f'flatten_loss_t<{short}>::{meth}: {len(fns)} definitions')
            fn = fns[0]
            name = f'flatten<{short}>::{meth}'
            info.append(fninfo(name, f'nano::flatten_loss_t<{targ}>::{meth}', path, fn))
            wp = BatchWP(name)
            for key, p in wp.bind_params(fn):
                if key in ('targets', 'outputs'):
                    wp.rows(key, key)
                elif key == 'vgrads':
                    wp.rows(key, key + '0', writable=True)
                elif key in ('errors', 'values'):
                    wp.input_array(key, key + '0', 'samples')
                else:
                    raise Unsupported(f'{name}: unexpected parameter {key}')
            done = []
            wp.post = lambda w, rv, done=done: (done.append(dict(w.env)), [])[1]
            wp.run(fn, path)
            if len(done) != 1 or wp.loops != 1:
                raise Unsupported(f'{name}: expected one loop and one exit')
            gen = Gen(wp.decls)
            vcs += gen.from_wp(wp, name, path)
            src = {'file': path, 'line': fn.get('loc', {}).get('line')}
            res = done[0][outkey]
            vcs.append(gen.vc(f'{name}/slot s of {outkey} == kernel::{meth}(row s of targets, row s of outputs)', [],
                              ('and', 'true' if (outkey in getattr(wp, 'written', ()) and wp.kernel_calls == [meth]) else 'false',
                               ('=', sx.parse(res.c[0]), ('nv_kernel', '|targets@i|', '|outputs@i|'))),
                              about='the result for a sample depends only on that sample\'s target and prediction (argument order: target, output)', source=src))
            others = [k for k in getattr(wp, 'written', ()) if k != outkey]
            vcs.append(gen.vc(f'{name}/nothing but {outkey} is written', [], 'true' if not others else 'false', source=src))
    return vcs


# ------------------------------------------------------------------------------------------------ pinball
def pinball_domain():
    """domain of loss::pinball::alpha as registered by the constructor: (min, LE|LT, max, LE|LT)"""
    fn = astload.find_definition(PINBALL, 'pinball_loss_t', 'pinball_loss_t', select=lambda d: astload.param_types(d) == [], kinds=('CXXConstructorDecl',))
    for c in astload.walk(fn):
        if c.get('kind') == 'CallExpr' and unwrap(c['inner'][0]).get('referencedDecl', {}).get('name') == 'make_scalar':
            a = c['inner'][1:]
            if string_literal_of(a[0]) != 'loss::pinball::alpha' or len(a) != 6:
                continue
            lits = []
            for x in (a[1], a[5]):
                fl = [y for y in astload.walk(x) if y.get('kind') in ('FloatingLiteral', 'IntegerLiteral')]
                if len(fl) != 1:
                    raise astload.ExtractionError('pinball alpha domain bound is not a literal')
                lits.append(float(fl[0]['value']))
            cmps = [[y['referencedDecl']['name'] for y in astload.walk(x) if y.get('kind') == 'DeclRefExpr'][-1] for x in (a[2], a[4])]
            return lits[0], cmps[0], lits[1], cmps[1]
    raise astload.ExtractionError('pinball constructor does not register loss::pinball::alpha with make_scalar')


class PinballWP(BatchWP):
    def parameter(self, lit):
        if lit != 'loss::pinball::alpha':
            raise Unsupported(f'{self.name}: parameter {lit!r}')
        if 'alpha' not in self.env:
            self.env['alpha'] = self.const('alpha', 'Real', 'double')
        return self.env['alpha']


def ctor_flags(fn):
    """convex(..) / smooth(..) calls with boolean literal arguments inside a constructor"""
    out = {}
    for c in astload.walk(fn):
        if c.get('kind') == 'CXXMemberCallExpr' and c['inner'][0].get('name') in ('convex', 'smooth') and len(c['inner']) == 2:
            lits = [x for x in astload.walk(c['inner'][1]) if x.get('kind') == 'CXXBoolLiteralExpr']
            if len(lits) == 1:
                out[c['inner'][0]['name']] = bool(lits[0]['value'])
    return out


def pinball_vcs(info, not_decided):
    path = astload.REPO + '/' + PINBALL
    lo, c1, hi, c2 = pinball_domain()
    dom = [f'({"<=" if c1 == "LE" else "<"} {nvwp.real_lit(lo)} alpha)', f'({"<=" if c2 == "LE" else "<"} alpha {nvwp.real_lit(hi)})']
    ctor = astload.find_definition(PINBALL, 'pinball_loss_t', 'pinball_loss_t', select=lambda d: astload.param_types(d) == [], kinds=('CXXConstructorDecl',))
    flags = ctor_flags(ctor)
    if set(flags) != {'convex', 'smooth'}:
        raise astload.ExtractionError('pinball constructor: convex(..) / smooth(..) with literal arguments not found')
    runs = {}
    vcs = []
    for meth, outkey in (('value', 'values'), ('vgrad', 'vgrads')):
        fn = astload.find_definition(PINBALL, 'pinball_loss_t', meth)
        name = f'pinball::{meth}'
        info.append(fninfo(name, f'nano::pinball_loss_t::{meth}', path, fn))
        wp = PinballWP(name)
        for key, p in wp.bind_params(fn):
            if key in ('targets', 'outputs'):
                wp.rows(key, key)
            elif key == 'vgrads':
                wp.rows(key, key + '0', writable=True)
            elif key == 'values':
                wp.input_array(key, key + '0', 'samples')
            else:
                raise Unsupported(f'{name}: unexpected parameter {key}')
        done = []
        wp.post = lambda w, rv, done=done: (done.append(dict(w.env)), [])[1]
        wp.run(fn, path)
        if len(done) != 1 or wp.loops != 1:
            raise Unsupported(f'{name}: expected one loop and one exit')
        runs[meth] = (wp, done[0][outkey], fn)
        others = [k for k in getattr(wp, 'written', ()) if k != outkey]
        g0 = Gen(wp.decls)
        vcs += g0.from_wp(wp, name, path)
        vcs.append(g0.vc(f'{name}/{outkey} is written and nothing else', [], 'true' if (not others and outkey in getattr(wp, 'written', ())) else 'false',
                         source={'file': path, 'line': fn.get('loc', {}).get('line')}))
    wv, val, fv = runs['value']
    wg, grd, fg = runs['vgrad']
    gen = Gen(wv.decls + [d for d in wg.decls if d not in wv.decls], length='n', hyps=dom, tag='loss_pinball')
    m = {'|targets@i|': TGT, '|outputs@i|': OUT}
    gen.declare(TGT), gen.declare(OUT)
    value_sum = sx.subst(sx.parse(val.c[0]), m)
    grad = sx.subst(sx.parse(grd.c[0]), m)
    vcs += calculus_vcs(gen, 'loss_pinball', value_sum, grad, flags['convex'], flags['smooth'], dom, {'file': path, 'line': fg.get('loc', {}).get('line')},
                        not_decided=not_decided)
    vcs += gen.lemmas
    # error(targets, outputs, errors) is value(targets, outputs, errors)
    fe = astload.find_definition(PINBALL, 'pinball_loss_t', 'error')
    info.append(fninfo('pinball::error', 'nano::pinball_loss_t::error', path, fe))
    calls = [c for c in astload.walk(fe) if c.get('kind') == 'CXXMemberCallExpr']
    ok = False
    if len(calls) == 1 and calls[0]['inner'][0].get('name') == 'value' and unwrap(calls[0]['inner'][0]['inner'][0]).get('kind') == 'CXXThisExpr':
        names = []
        for a in calls[0]['inner'][1:]:
            refs = [x['referencedDecl']['name'] for x in astload.walk(a) if x.get('kind') == 'DeclRefExpr']
            names.append(refs[-1] if refs else None)
        ok = names == ['targets', 'outputs', 'errors']
        body = [c for c in fe['inner'] if c.get('kind') == 'CompoundStmt'][0]
        ok = ok and len(body.get('inner', [])) == 1
    vcs.append(gen.vc('pinball::error/the error of a sample is its loss value: the body is exactly value(targets, outputs, errors)', [],
                      'true' if ok else 'false', source={'file': path, 'line': fe.get('loc', {}).get('line')}))
    return vcs, flags


def classnll_one_output_vcs(info, not_decided):
    """BOUNDED: s-classnll with ONE output (binary problem; the targets +1 and -1 are both valid there: sclass_t::error has a branch for
    it and test/test_loss.cpp `single_class` feeds every s-* loss exactly these targets): value >= 0 and gradient == d value / d output."""
    (pol, spec), = [x for x in specialisations('classnll_t')][:1]
    path = astload.REPO + '/' + FLATTEN
    fv, fg = method(spec, 'value'), method(spec, 'vgrad')
    name = f'loss_classnll[{pol[:-2]}][n=1]'
    wv, rv = walk_kernel(name + '::value', fv, path, n=1)
    wg, rg = walk_kernel(name + '::vgrad', fg, path, out_param='vgrad', n=1)
    if len(rv) != 1 or len(rg) != 1:
        raise Unsupported(f'{name}: several return paths for one output')
    T, O = '|target@0|', '|output@0|'
    valid = [('or', ('=', T, '1.0'), ('=', T, ('-', '1.0')))]           # pos_target() / neg_target()
    gen = Gen(wv.decls + [d for d in wg.decls if d not in wv.decls], tag=name, hyps=valid + list(rv[0][3]) + [f for f in rg[0][3] if f not in rv[0][3]])
    src = {'file': path, 'line': fv.get('loc', {}).get('line')}
    vcs = gen.from_wp(wv, name + '::value', path) + gen.from_wp(wg, name + '::vgrad', path)
    value = sx.parse(real_of(wv, rv[0][1]))
    grad = sx.parse(rg[0][2]['vgrad'].c[0])
    vcs.append(gen.vc(f'{name}/value >= 0 (one output, target +1 or -1)', [], ('>=', value, '0.0'), about='the loss of a sample is non-negative', source=src))
    kk = sx.kinks(value, O)
    vcs.append(gen.vc(f'{name}/gradient == d value / d output_0', [('not', ('=', a, b)) for a, b in kk], ('=', grad, sx.D(value, O)), source=src))
    # two outputs: the loop / index discipline and defined divisions only (the epsilon inside the logarithm makes the calculus inexact)
    name2 = f'loss_classnll[{pol[:-2]}][n=2]'
    wv2, rv2 = walk_kernel(name2 + '::value', fv, path, n=2)
    wg2, rg2 = walk_kernel(name2 + '::vgrad', fg, path, out_param='vgrad', n=2)
    gen2 = Gen(wv2.decls + [d for d in wg2.decls if d not in wv2.decls], tag=name2)
    vcs2 = gen2.from_wp(wv2, name2 + '::value', path) + gen2.from_wp(wg2, name2 + '::vgrad', path)
    vcs2.append(gen2.vc(f'{name2}/vgrad writes both coefficients', [], 'true' if 'vgrad' in getattr(wg2, 'written', ()) and len(rg2) == 1 and
                        all('|vgrad0@' not in c for c in rg2[0][2]['vgrad'].c) else 'false', source=src))
    out = vcs + gen.lemmas + vcs2 + gen2.lemmas
    for v in out:
        v.bound = 'one / two outputs'
    return out
