"""C06, part 2: benchmark functions (src/function/benchmark/*.cpp).

do_vgrad(x, gx) of each function is walked by eig.EigWP:
  * GENERIC mode (symbolic dimension n >= 1) for the functions whose code treats every coordinate alike (coefficient-wise
    Eigen expressions and reductions): value = F(sum_i phi_1(x_i, b_i), .., sum_i phi_m(..)), gradient_i = G(sums, x_i, b_i);
  * CONCRETE mode (n = 1..4, BOUNDED stand-ins) for the functions that couple neighbouring coordinates, loop with strides,
    use matrices or arg-max.
Obligations:
  same-value   the value returned with a gradient request equals the value returned without one
  grad         gx_i == d value / d x_i                                   (away from the kinks of the value)
  smooth       declared smooth => no derivative jump at the kinks, gradient == derivative there
  convex       declared convex (constructor: convex(convexity::yes)) =>
                   f(z) >= f(x) + <g(x), z - x> + mu/2 |z - x|^2        mu = the declared strong_convexity coefficient
               generic mode: per coordinate when the value is a linear combination of coefficient-wise sums, else through the
               Gram abstraction (sums of products of x, z, bias are real constants constrained by Cauchy-Schwarz / positive
               semi-definiteness of the Gram matrix: STATED FACT G1); concrete mode: the polynomial inequality itself.
"""
import re

import astload
import nvwp
import sx
import poly
from nvwp import V, Unsupported
from cxx2c import unwrap, strip_cv, qual
from eig import EigWP, AV, MV, real_of, lit_int
from vcgen import Gen
from losses import fninfo, linear_open

BENCH = 'src/function/benchmark/'
X = '|x@i|'


def cls_of(name):
    return f'function_{name}_t'


def ctor_of(name, cls=None, tu=None):
    cls = cls or cls_of(name)
    tu = tu or BENCH + name + '.cpp'
    docs = astload.dump(tu, cls)
    cands = [c for c in astload.find_definitions(docs, cls, kinds=('CXXConstructorDecl',))
             if astload.param_types(c) and not astload.param_types(c)[0].startswith('const nano::' + cls)]
    uniq = {tuple(astload.param_types(c)): c for c in cands}
    if len(uniq) != 1:
        raise astload.ExtractionError(f'{cls}: {len(uniq)} constructors')
    return list(uniq.values())[0]


def ctor_facts(ctor):
    """declared flags, strong-convexity expression, size expression and lin_spaced initialisations, read from the constructor"""
    out = {'convex': None, 'smooth': None, 'mu': None, 'size': None, 'lin_spaced': {}, 'calls': []}
    for c in astload.walk(ctor):
        if c.get('kind') == 'CXXMemberCallExpr':
            nm = c['inner'][0].get('name')
            base = unwrap(c['inner'][0]['inner'][0]) if c['inner'][0].get('inner') else {}
            if nm in ('convex', 'smooth') and len(c['inner']) == 2:
                refs = [x['referencedDecl']['name'] for x in astload.walk(c['inner'][1]) if x.get('kind') == 'DeclRefExpr' and x.get('referencedDecl', {}).get('kind') == 'EnumConstantDecl']
                if len(refs) == 1 and out[nm] is None:
                    out[nm] = refs[0]
                else:
                    out[nm] = 'unknown'
            elif nm == 'strong_convexity' and len(c['inner']) == 2:
                out['mu'] = c['inner'][1] if out['mu'] is None else 'several'
            elif nm == 'lin_spaced' and len(c['inner']) == 3 and base.get('kind') == 'MemberExpr':
                out['lin_spaced'][base['name']] = (c['inner'][1], c['inner'][2])
    for ini in ctor.get('inner', []):
        if ini.get('kind') == 'CXXCtorInitializer' and 'baseInit' in ini and 'function_t' in qual(ini['baseInit']):
            ce = [x for x in astload.walk(ini) if x.get('kind') == 'CXXConstructExpr' and 'function_t' in qual(x.get('type'))]
            if ce and len(ce[0].get('inner', [])) >= 2:
                out['size'] = ce[0]['inner'][1]
    return out


def member_arrays(fn):
    """members of *this that do_vgrad reads: name -> rank (1 vector, 2 matrix, 0 scalar)"""
    out = {}
    for x in astload.walk(fn):
        if x.get('kind') == 'MemberExpr' and x.get('inner') and unwrap(x['inner'][0]).get('kind') == 'CXXThisExpr' and 'name' in x:
            t = strip_cv(qual(x.get('type')))
            m = re.search(r'tensor_t<[^,]+, double, (\d+)>', t)
            if m:
                out[x['name']] = int(m.group(1))
            elif t in ('double', 'nano::scalar_t'):
                out[x['name']] = 0
    return out


def walk_ctor(wp, ctor, n):
    """concrete mode: execute the constructor (member initialisers with recognised calls, then the body) so that do_vgrad is
    walked on the member state the constructor establishes; flag setters are no-ops here (read separately by ctor_facts)"""
    noop = lambda w, node, args, obj: V('0', 'Int', 'int')
    wp.members = [(r'^(convex|smooth|strong_convexity)\|', noop)] + list(wp.members)
    params = [c for c in ctor['inner'] if c['kind'] == 'ParmVarDecl']
    if not params or params[0].get('name') != 'dims':
        raise Unsupported(f'{wp.name}: constructor without a leading dims parameter')
    wp.env['dims'] = V(str(n), 'Int', 'long')
    for p in params[1:]:
        if p.get('name') != 'summands':
            raise Unsupported(f'{wp.name}: constructor parameter {p.get("name")}')
        wp.env['summands'] = V(str(n), 'Int', 'long')          # bounded stand-in: as many summands as dimensions
    wp.matrix_members = set()
    for ini in ctor.get('inner', []):
        if ini.get('kind') != 'CXXCtorInitializer' or 'anyInit' not in ini:
            continue
        m = ini['anyInit']['name']
        t = strip_cv(qual(ini['anyInit'].get('type')))
        rank = re.search(r'tensor_t<[^,]+, double, (\d+)>', t)
        if rank and rank.group(1) == '2':
            wp.matrix_members.add('self.' + m)
        calls = [x for x in astload.walk(ini) if x.get('kind') == 'CallExpr']
        if calls:
            v = wp.ev(ini['inner'][0])
            wp.env['self.' + m] = v
            wp.ver['self.' + m] = 0
    wp.guard = 'true'
    wp.returns = 0
    wp.default_file = None
    body = [c for c in ctor['inner'] if c['kind'] == 'CompoundStmt'][0]
    wp.ex(body)
    for k in list(wp.env):
        if not k.startswith('self.'):
            del wp.env[k]
    wp.written = set()


def walk_function(name, fn, path, n=None, symmetric=(), ctor=None):
    wp = EigWP(name, n=n)
    if n is None:
        wp.const('n', 'Int', 'long')
        wp.assume('(>= n 1)')
        nt = 'n'
    else:
        nt = str(n)
    wp.const('gx_size', 'Int', 'long')
    if ctor is not None:
        walk_ctor(wp, ctor, n)
    wp.env['self.size'] = V(nt, 'Int', 'long')
    for key, p in wp.bind_params(fn):
        if key == 'x':
            wp.input_array('x', 'x', nt)
        elif key == 'gx':
            wp.input_array('gx', 'gx0', 'gx_size')
        else:
            raise Unsupported(f'{name}: unexpected parameter {key}')
    for m, rank in member_arrays(fn).items():
        if 'self.' + m in wp.env:
            continue
        if rank == 1:
            wp.input_array('self.' + m, m, nt)
        elif rank == 2:
            wp.input_matrix('self.' + m, m, n, n, symmetric=(m in symmetric))
        elif rank == 0:
            wp.env['self.' + m] = wp.const(f'|{m}|', 'Real', 'double')
        else:
            raise Unsupported(f'{name}: member {m} of rank {rank}')
    rets = []
    wp.post = lambda w, rv: (rets.append((w.guard, rv, dict(w.env), list(w.facts))), [])[1]
    wp.run(fn, path)
    if len(rets) != 1 or rets[0][0] not in ('true',):
        # a single return after the optional gradient block is the shape of every benchmark function
        if len(rets) != 1:
            raise Unsupported(f'{name}: {len(rets)} return paths')
    return wp, rets[0]


def ev_ctor_expr(name, node, n):
    """value of a constructor expression (strong-convexity coefficient, lin_spaced bound) as a term over the dimension"""
    wp = EigWP(name + '::ctor', n=n)
    nt = 'n' if n is None else str(n)
    wp.env['self.size'] = V(nt, 'Int', 'long')
    wp.env['dims'] = V(nt, 'Int', 'long')
    wp.guard = 'true'
    return real_of(wp, wp.ev(node))


HAS = ('=', 'gx_size', 'n')


def has_cond(nt):
    return ('=', 'gx_size', nt)


def decide_cond(t, nt, value):
    """the term with the comparison gx.size() == x.size() decided"""
    b = 'true' if value else 'false'
    return sx.simplify_ite_deep(sx.subst(t, {('=', 'gx_size', nt): b, ('=', nt, 'gx_size'): b}))


def gram_facts(gen, monos, count):
    """STATED FACT G1: for real vectors p, q, r the Gram matrix of their dot products is positive semi-definite:
    <p,p> >= 0, <p,q>^2 <= <p,p><q,q>, det of every 3x3 Gram matrix >= 0.  Instantiated for the degree-1 monomials."""
    import itertools
    leaves = sorted({l for m in monos for (l, p) in m})
    S = lambda a, b: gen.close(('nv_sum', poly.mono_term(poly.m_mul(((a, 1),), ((b, 1),)))))
    out = []
    for a in leaves:
        out.append(f'(>= {S(a, a)} 0.0)')
    for a, b in itertools.combinations(leaves, 2):
        out.append(f'(<= (* {S(a, b)} {S(a, b)}) (* {S(a, a)} {S(b, b)}))')
    for a, b, c in itertools.combinations(leaves, 3):
        aa, bb, cc, ab, ac, bc = S(a, a), S(b, b), S(c, c), S(a, b), S(a, c), S(b, c)
        out.append(f'(>= (+ (* {aa} {bb} {cc}) (* 2.0 {ab} {bc} {ac}) (- (* {aa} {bc} {bc})) (- (* {bb} {ac} {ac})) (- (* {cc} {ab} {ab}))) 0.0)')
    # even monomials of any degree have non-negative sums (S1)
    for m in monos:
        if m and all(p % 2 == 0 for _, p in m):
            out.append(f'(>= {gen.close(("nv_sum", poly.mono_term(m)))} 0.0)')
    return out


def generic_vcs(name, info, not_decided, assumptions):
    cls = cls_of(name)
    tu = BENCH + name + '.cpp'
    path = astload.REPO + '/' + tu
    fn = astload.find_definition(tu, cls, 'do_vgrad')
    ctor = ctor_of(name)
    cf = ctor_facts(ctor)
    tag = f'function_{name}'
    info.append(fninfo(tag + '::do_vgrad', f'nano::{cls}::do_vgrad', path, fn))
    info.append(fninfo(tag + '::ctor', f'nano::{cls}::{cls}', path, ctor))
    wp, (guard, rv, env, facts) = walk_function(tag, fn, path)
    gen = Gen(wp.decls, length='n', hyps=['(>= n 1)'], tag=tag)
    src = {'file': path, 'line': fn.get('loc', {}).get('line')}
    vcs = gen.from_wp(wp, tag, path)
    R = sx.parse(rv.t)
    g = env['gx']
    if 'gx' not in getattr(wp, 'written', ()):
        raise Unsupported(f'{tag}: the gradient is never written')
    G = sx.parse(g.c[0])
    Rt, Rf = decide_cond(R, 'n', True), decide_cond(R, 'n', False)
    Gt = decide_cond(G, 'n', True)
    if sx.mentions(Gt, '|gx0@i|'):
        raise Unsupported(f'{tag}: the gradient depends on the previous content of gx')
    vcs.append(gen.vc(f'{tag}/same value with and without a gradient request', [], ('=', Rt, Rf), source=src))
    bias_hyps = []
    for m, (lo, hi) in cf['lin_spaced'].items():
        leaf = f'|{m}@i|'
        if leaf in sx.atoms(Rt) | sx.atoms(Gt):
            l, h = ev_ctor_expr(tag, lo, None), ev_ctor_expr(tag, hi, None)
            bias_hyps.append(f'(and (<= (ite (<= {l} {h}) {l} {h}) {leaf}) (<= {leaf} (ite (<= {l} {h}) {h} {l})))')
            assumptions.add(f'{cls}: the coefficients of {m} lie between the end points passed to lin_spaced in the constructor (assumed contract of tensor lin_spaced)')
    gen.hyps += bias_hyps
    value = gen.split(poly.normalise_sums(Rt, ('to_real', 'n')))
    grad = gen.split(poly.normalise_sums(Gt, ('to_real', 'n')))
    kk = sx.kinks(value, X)
    away = [('not', ('=', a, b)) for a, b in kk]
    vcs.append(gen.vc(f'{tag}/gradient == d value / d x_i (away from the kinks of the value)', away, ('=', grad, sx.D(value, X)),
                      about='the gradient written to gx is the derivative of the returned value', source=src))
    if cf['smooth'] == 'yes':
        for (a, b) in kk:
            vp, vm = sx.force(value, (a, b), +1), sx.force(value, (a, b), -1)
            at = [('=', a, b)]
            kt = f'kink {sx.show(a)[:60]} == {sx.show(b)[:20]}'
            vcs.append(gen.vc(f'{tag}/declared smooth: value continuous at {kt}', at, ('=', vp, vm), source=src))
            vcs.append(gen.vc(f'{tag}/declared smooth: one-sided derivatives agree at {kt}', at, ('=', sx.D(vp, X), sx.D(vm, X)), source=src))
            vcs.append(gen.vc(f'{tag}/declared smooth: gradient == derivative at {kt}', at, ('=', grad, sx.D(vp, X)), source=src))
    elif cf['smooth'] not in ('no',):
        raise Unsupported(f'{tag}: smooth(..) flag not found in the constructor')
    if cf['convex'] == 'yes':
        mu = '0.0'
        if cf['mu'] is not None and cf['mu'] != 'several':
            try:
                mu = ev_ctor_expr(tag, cf['mu'], None)
            except Unsupported as e:
                not_decided.append(f'{tag}: declared strong-convexity coefficient (constructor expression not evaluated: {e}); convexity is checked with mu = 0')
        vcs += convexity_generic(gen, tag, Rt, Gt, sx.parse(mu), src, not_decided)
    elif cf['convex'] != 'no':
        raise Unsupported(f'{tag}: convex(..) flag not found in the constructor')
    vcs += gen.lemmas
    return vcs, {'convex': cf['convex'], 'smooth': cf['smooth']}


def convexity_generic(gen, tag, R, G, mu, src, not_decided):
    Z = '|z@i|'
    gen.declare(Z)
    count = ('to_real', 'n')
    phi = linear_open(R)
    label = f'{tag}/declared convex: f(z) >= f(x) + <g(x), z - x> + mu/2 |z - x|^2'
    if phi is not None and not sx.subterms(G, 'nv_sum'):
        phiz = sx.subst(phi, {X: Z})
        d = ('-', Z, X)
        return [gen.vc(label + ' (per coordinate, summed)', [], ('>=', phiz, ('+', phi, ('*', G, d), ('*', ('/', mu, '2.0'), d, d))),
                       about='value is a linear combination of coefficient-wise sums: the inequality holds coordinate by coordinate', source=src)]
    # Gram abstraction
    Rn = poly.normalise_sums(R, count)
    Rz = poly.normalise_sums(sx.subst(R, {X: Z}), count)
    d = ('-', Z, X)
    P = poly.to_poly(('+', ('*', poly.normalise_sums(G, count), d), ('*', ('/', mu, '2.0'), d, d)))
    if P is None or any(sx.subterms(s[1], 'nv_sum') for s in sx.subterms(Rn, 'nv_sum')):
        not_decided.append(f'{tag}: convexity inequality (gradient is not polynomial in the coefficients at i)')
        return []
    lin = poly.sum_of(P, count)
    monos = poly.monomials(Rn) + [m for m in poly.monomials(Rz) if m not in poly.monomials(Rn)]
    monos += [m for m in poly.monomials(lin) if m not in monos]
    if any(sum(p for _, p in m) > 2 for m in monos):
        not_decided.append(f'{tag}: convexity inequality (sums of monomials of degree > 2 that are not separable)')
        return []
    facts = gram_facts(gen, monos, count)
    return [gen.vc(label + ' (Gram abstraction)', [], ('>=', Rz, ('+', Rn, lin)), about='sums of products of x, z and the bias vector as reals under Cauchy-Schwarz',
                   source=src, extra_axioms=facts, timeout=30)]


# ------------------------------------------------------------------------------------------------ bounded (concrete n)
def bounded_vcs(name, sizes, info, not_decided, assumptions, symmetric=(), extra_hyps=None, cls=None, tu=None, convex_timeout=30, use_ctor=False, convex_sizes=None, pieces=False):
    cls = cls or cls_of(name)
    tu = tu or BENCH + name + '.cpp'
    path = astload.REPO + '/' + tu
    fn = astload.find_definition(tu, cls, 'do_vgrad')
    ctor = ctor_of(name, cls, tu)
    cf = ctor_facts(ctor)
    base = f'function_{name}'
    info.append(fninfo(base + '::do_vgrad', f'nano::{cls}::do_vgrad', path, fn))
    info.append(fninfo(base + '::ctor', f'nano::{cls}::{cls}', path, ctor))
    src = {'file': path, 'line': fn.get('loc', {}).get('line')}
    out = []
    for n in sizes:
        tag = f'{base}[n={n}]'
        if cf['size'] is not None:
            sz = lit_int(sx.show(sx.parse(ev_size(tag, cf['size'], n))))
            if sz != n:
                continue          # no `dims` gives a function of this size (powell: multiples of 4, rosenbrock: >= 2)
        wp, (guard, rv, env, facts) = walk_function(tag, fn, path, n=n, symmetric=symmetric, ctor=ctor if use_ctor else None)
        hyps = list(extra_hyps(wp, n)) if extra_hyps else []
        gen = Gen(wp.decls, hyps=hyps, tag=tag)
        vcs = gen.from_wp(wp, tag, path)
        R = sx.parse(rv.t)
        g = env['gx']
        if 'gx' not in getattr(wp, 'written', ()):
            raise Unsupported(f'{tag}: the gradient is never written')
        nt = str(n)
        Rt, Rf = decide_cond(R, nt, True), decide_cond(R, nt, False)
        Gt = [decide_cond(sx.parse(c), nt, True) for c in g.c]
        if any(sx.mentions(c, f'|gx0@{k}|') for c in Gt for k in range(n)):
            raise Unsupported(f'{tag}: the gradient depends on the previous content of gx')
        vcs.append(gen.vc(f'{tag}/same value with and without a gradient request', [], ('=', Rt, Rf), source=src))
        xs = [f'|x@{k}|' for k in range(n)]
        kk = []
        for xv in xs:
            for pr in sx.kinks(Rt, xv):
                if pr not in kk and (pr[1], pr[0]) not in kk:
                    kk.append(pr)
        away = [('not', ('=', a, b)) for a, b in kk]
        for k, xv in enumerate(xs):
            vcs.append(gen.vc(f'{tag}/gradient[{k}] == d value / d x_{k} (away from the kinks of the value)', away, ('=', Gt[k], sx.D(Rt, xv)),
                              about='the gradient written to gx is the derivative of the returned value', source=src))
        if cf['smooth'] == 'yes':
            for (a, b) in kk:
                vp, vm = sx.force(Rt, (a, b), +1), sx.force(Rt, (a, b), -1)
                at = [('=', a, b)]
                kt = f'kink {sx.show(a)[:50]} == {sx.show(b)[:20]}'
                vcs.append(gen.vc(f'{tag}/declared smooth: value continuous at {kt}', at, ('=', vp, vm), source=src))
                for k, xv in enumerate(xs):
                    vcs.append(gen.vc(f'{tag}/declared smooth: one-sided derivatives wrt x_{k} agree at {kt}', at, ('=', sx.D(vp, xv), sx.D(vm, xv)), source=src))
        elif cf['smooth'] != 'no':
            raise Unsupported(f'{tag}: smooth(..) flag not found in the constructor')
        if cf['convex'] == 'yes' and (convex_sizes is None or n in convex_sizes):
            mu = '0.0'
            if cf['mu'] is not None and cf['mu'] != 'several':
                try:
                    mu = ev_ctor_expr(tag, cf['mu'], n)
                except Unsupported as e:
                    nd = f'{base}: declared strong-convexity coefficient (constructor expression not evaluated); convexity is checked with mu = 0'
                    if nd not in not_decided:
                        not_decided.append(nd)
            zs = [gen.declare(f'|z@{k}|') for k in range(n)]
            Rz = sx.subst(Rt, dict(zip(xs, zs)))
            lin = [('*', Gt[k], ('-', zs[k], xs[k])) for k in range(n)]
            quad = [('*', ('/', sx.parse(mu), '2.0'), ('-', zs[k], xs[k]), ('-', zs[k], xs[k])) for k in range(n)]
            vcs.append(gen.vc(f'{tag}/declared convex: f(z) >= f(x) + <g(x), z - x> + mu/2 |z - x|^2', [],
                              ('>=', Rz, ('+', Rt) + tuple(lin) + tuple(quad)), about='for all x, z in R^n, n fixed', source=src, timeout=convex_timeout))
        elif cf['convex'] not in ('no', 'yes'):
            raise Unsupported(f'{tag}: convex(..) flag not found in the constructor')
        if pieces is True or (pieces and n in pieces):
            vcs += piecewise_vcs(gen, tag, Rt, Gt, xs, src, cf['convex'] == 'yes')
        vcs += gen.lemmas
        for v in vcs:
            v.bound = f'dimension n = {n}'
        out += vcs
    if not out:
        raise Unsupported(f'{base}: no admissible size among {sizes}')
    return out, {'convex': cf['convex'], 'smooth': cf['smooth']}


def ev_size(name, node, n):
    wp = EigWP(name + '::ctor', n=n)
    wp.env['dims'] = V(str(n), 'Int', 'long')
    wp.guard = 'true'
    v = wp.ev(node)
    return v.t


# ------------------------------------------------------------------------------------------------ callee contracts used by the walks
def helper_vcs(info):
    """nano::square / cube / quartic (include/nano/core/numeric.h) and nano::is_pos_target (include/nano/loss/class.h) are mapped to
    x*x, x*x*x, x*x*x*x and target > 0 at their call sites: the same clauses are proved here from their own bodies."""
    vcs = []
    tu = BENCH + 'powell.cpp'
    hdr = astload.REPO + '/include/nano/core/numeric.h'
    for nm, k in (('square', 2), ('cube', 3), ('quartic', 4)):
        docs = astload.dump(tu, 'nano::' + nm)
        cands = {}
        for f in astload.find_definitions(docs, nm):
            if astload.template_args(f)[:1] == ['double']:
                cands[tuple(astload.param_types(f))] = f
        if len(cands) != 1:
            raise astload.ExtractionError(f'nano::{nm}<double>: {len(cands)} instantiations in {tu}')
        fn = list(cands.values())[0]
        info.append(fninfo(f'nano::{nm}', f'nano::{nm}<double>', hdr, fn))
        wp = EigWP(f'nano::{nm}')
        (key, p), = wp.bind_params(fn)
        wp.env[key] = wp.const('|value|', 'Real', 'double')
        rets = []
        wp.post = lambda w, rv: (rets.append(rv), [])[1]
        wp.run(fn, hdr)
        if len(rets) != 1:
            raise Unsupported(f'nano::{nm}: {len(rets)} return paths')
        gen = Gen(wp.decls, tag=f'nano::{nm}')
        vcs.append(gen.vc(f'nano::{nm}/returns value^{k} (the contract assumed at its call sites)', [], ('=', sx.parse(rets[0].t), ('*',) + ('|value|',) * k),
                          source={'file': hdr, 'line': fn.get('loc', {}).get('line')}))
    tu2, hdr2 = 'src/loss.cpp', astload.REPO + '/include/nano/loss/class.h'
    fn = astload.find_definition(tu2, 'nano::is_pos_target', 'is_pos_target')
    info.append(fninfo('nano::is_pos_target', 'nano::is_pos_target', hdr2, fn))
    wp = EigWP('nano::is_pos_target')
    (key, p), = wp.bind_params(fn)
    wp.env[key] = wp.const('|target|', 'Real', 'double')
    rets = []
    wp.post = lambda w, rv: (rets.append(rv), [])[1]
    wp.run(fn, hdr2)
    gen = Gen(wp.decls, tag='nano::is_pos_target')
    vcs.append(gen.vc('nano::is_pos_target/returns target > 0 (the contract assumed at its call sites)', [], ('=', sx.parse(rets[0].t), ('>', '|target|', '0.0')),
                      source={'file': hdr2, 'line': fn.get('loc', {}).get('line')}))
    return vcs


# ------------------------------------------------------------------------------------------------ max-of-terms functions
def candidate(gv, dgrads, syms):
    """index of the piece whose derivative vector agrees NUMERICALLY with the branch's gradient at three fixed points (a heuristic
    that only chooses which identity is then obliged; None: no piece fits)"""
    import random
    rnd = random.Random(20260926)
    pts = [{s: rnd.uniform(-2.0, 2.0) for s in syms} for _ in range(3)]
    for j, dg in enumerate(dgrads):
        try:
            if all(abs(sx.evaluate(g, pt) - sx.evaluate(d, pt)) <= 1e-9 * (1.0 + abs(sx.evaluate(d, pt))) for pt in pts for g, d in zip(gv, dg)):
                return j
        except (sx.SxError, ValueError, ZeroDivisionError, OverflowError):
            continue
    return None



def piecewise_vcs(gen, tag, R, G, xs, src, convex, hyps=()):
    """functions whose value is an upper envelope (max of terms, or a sum of such) and whose gradient is the gradient of ONE selected
    term.  Instead of the whole inequality f(z) >= f(x) + <g(x), z - x> (undecided by the solvers once exp is involved), the three facts
    it follows from (COMPOSITION RULE, trusted: f(z) >= p(z) >= p(x) + <grad p(x), z - x> = f(x) + <g(x), z - x>):
      envelope   every piece p of the value (the value with its comparisons decided one way) satisfies p <= value everywhere
      convex     every signed addend of every piece is convex (so the piece is)
      active     on every branch of the gradient code: the returned vector is the gradient of a piece p, and that piece is ACTIVE at
                 the point: p(x) == value(x)          <- this is the obligation a wrong branch / a tie handled wrongly refutes"""
    vcs = []
    n = len(xs)
    vp = sx.pieces(R)
    distinct = []
    for conds, p in vp:
        if p not in distinct:
            distinct.append(p)
    for j, p in enumerate(distinct):
        vcs.append(gen.vc(f'{tag}/envelope: piece {j} of the value never exceeds the value', list(hyps), ('>=', R, p), about=sx.show(p)[:200], source=src))
    if convex:
        zs = [gen.declare(f'|z@{k}|') for k in range(n)]
        done = []
        for j, p in enumerate(distinct):
            for sign, a in sx.addends(p):
                term = a if sign > 0 else ('-', a)
                if term in done:
                    continue
                done.append(term)
                tz = sx.subst(term, dict(zip(xs, zs)))
                lin = [('*', sx.D(term, xs[k]), ('-', zs[k], xs[k])) for k in range(n) if sx.mentions(term, xs[k])]
                vcs.append(gen.vc(f'{tag}/convex addend {len(done)}: t(z) >= t(x) + <grad t(x), z - x>', list(hyps), ('>=', tz, ('+', term) + tuple(lin)),
                                  about=sx.show(term)[:200], source=src))
    gp = sx.pieces(('vec',) + tuple(G))
    dgrads = [[sx.D(p, xv) for xv in xs] for p in distinct]
    syms = sorted(set().union(*[sx.atoms(p) for p in distinct], *[sx.atoms(g) for g in G]))
    for b, (conds, gv) in enumerate(gp):
        sel = candidate(gv[1:], dgrads, syms)
        label = ' and '.join(sx.show(c) for c in conds)[:160]
        if sel is None:
            vcs.append(gen.vc(f'{tag}/active: branch {b} of the gradient code returns the gradient of a piece of the value', list(hyps) + list(conds), 'false',
                              about=label, source=src))
            continue
        vcs.append(gen.vc(f'{tag}/active: branch {b} returns the gradient of piece {sel} and that piece attains the value', list(hyps) + list(conds),
                          ('and', ('=', R, distinct[sel])) + tuple(('=', gv[1 + k], dgrads[sel][k]) for k in range(n)), about=label, source=src))
    return vcs
