"""vcgen: SMT scripts for the C06 obligations.

Every obligation is  hypotheses /\\ axiom instances /\\ not(claim)  must be unsat, over the reals, where
  * `(nv_sum phi)` nodes are replaced by ONE real constant per distinct summand phi (so the only thing known about a sum is
    that equal summands give equal sums) -- plus, where a lemma VC `phi >= 0 for all coefficient values` of the same run
    proves it, the fact  sum >= 0  (STATED FACT S1: a finite sum of non-negative reals is non-negative; S1': of positive reals
    over a non-empty index range is positive);
  * exp / log / log1p / atan / sqrt are uninterpreted; the following STATED FACTS of real analysis are instantiated on the
    applications that occur in the script (this list is part of the trusted base):
      E1  exp(u) > 0
      E2  exp(u) * exp(v) = 1            when u = -v
      E3  exp(v) >= exp(u) * (1 + v - u)                                  (tangent-line inequality = convexity of exp)
      E4  exp(0) = 1                      (instantiated when a term exp(u) occurs: u = 0 => exp(u) = 1)
      E5  exp(u) >= 1 + u                 (E3 with the tangent at 0)
      L1  log(u) >= 0 when u >= 1;        log1p(u) >= 0 when u >= 0
      P1  softplus identity:  log1p(exp(u)) = u + log1p(exp(v))            when u = -v
      P2  softplus tangent:   log1p(exp(v)) >= log1p(exp(u)) + exp(u) / (1 + exp(u)) * (v - u)     (convexity of softplus)
      Q1  sqrt(u) >= 0 and sqrt(u)^2 = u  when u >= 0
    P2 is used only by the convexity obligation of the logistic loss (it is close to the claim itself: what the obligation
    adds is the chain rule through -target*output and the agreement of the two branches the code switches between).
"""
import itertools

import sx
from core import VC
import nvwp


class Gen:
    def __init__(self, decls, length=None, hyps=(), tag=''):
        self.tag = tag           # owner (function / kernel) named in the lemma VCs
        self.hyps = list(hyps)   # hypotheses on scalar parameters (parameter domains) under which the summand lemmas are proved and used
        self.length = length     # term of the common length of the summed arrays (for: positive summands, non-empty => sum > 0)
        self.sum_pos = {}
        self.decls = [d for d in decls]
        self.sums = {}           # show(phi) -> constant name
        self.sum_nonneg = {}     # show(phi) -> bool (lemma proved at build time; the lemma VC is part of the run)
        self.lemmas = []
        self.extra_decls = []

    def declare(self, name, sort='Real'):
        d = f'(declare-const {name} {sort})'
        if d not in self.decls and d not in self.extra_decls:
            self.extra_decls.append(d)
        return name

    # ------------------------------------------------------------------------------------------- sums
    def close(self, t):
        """replace nv_sum nodes (innermost first) by their constants"""
        if isinstance(t, str):
            return t
        t = (t[0],) + tuple(self.close(x) for x in t[1:])
        if t[0] == 'nv_sum':
            key = sx.show(t[1])
            if key not in self.sums:
                nm = f'|sum#{len(self.sums) + 1}|'
                self.sums[key] = nm
                self.declare(nm)
                self.declare(nm.replace('sum#', 'rest#'))
                self.sum_nonneg[key] = self.prove_nonneg(t[1], nm)
            return self.sums[key]
        return t

    def split(self, t):
        """STATED FACT S3: sum_j phi(j) = phi(i) + (sum over j != i), and the second part does not depend on the coefficients at i.
        Replaces every (nv_sum phi) by (+ |rest#k| phi): the generic coordinate i is then explicit in the term, which is what the
        derivative / kink / continuity obligations at coordinate i talk about."""
        if isinstance(t, str):
            return t
        t = (t[0],) + tuple(self.split(x) for x in t[1:])
        if t[0] == 'nv_sum':
            if sx.subterms(t[1], 'nv_sum') or any(a.startswith('|rest#') for a in sx.atoms(t[1])):
                raise sx.SxError('nested sums cannot be split at the generic coordinate')
            nm = self.close(t)
            return ('+', nm.replace('sum#', 'rest#'), t[1])
        return t

    def prove_nonneg(self, phi, nm):
        """lemma VC: the summand is >= 0 for all values of its constants (decided now so that the fact may be used; the VC
        itself is emitted with the run)"""
        vc = self.vc(f'{self.tag or "lemma"}/lemma: summand of {nm} is non-negative', self.hyps, ('>=', phi, '0.0'), about=f'summand {sx.show(phi)[:200]}',
                     timeout=3, use_sum_facts=False)
        r = vc.verify()
        if r['status'] == 'SUCCESS':
            vc.timeout = 20
            self.lemmas.append(vc)
            if self.length is not None:
                vs = self.vc(f'{self.tag or "lemma"}/lemma: summand of {nm} is positive', self.hyps, ('>', phi, '0.0'), about=f'summand {sx.show(phi)[:200]}',
                             timeout=3, use_sum_facts=False)
                if vs.verify()['status'] == 'SUCCESS':
                    vs.timeout = 20
                    self.lemmas.append(vs)
                    self.sum_pos[sx.show(phi)] = True
            return True
        return False

    def sum_facts(self, used):
        out = []
        for key, nm in self.sums.items():
            for c in (nm, nm.replace('sum#', 'rest#')):
                if c in used and self.sum_nonneg.get(key):
                    out.append(f'(>= {c} 0.0)')
            if nm in used and self.sum_pos.get(key):
                out.append(f'(=> (> {self.length} 0) (> {nm} 0.0))')        # S1': positive summands over a non-empty range
        return out

    # ------------------------------------------------------------------------------------------- axioms
    def axioms(self, terms):
        exps, logs, log1ps, sqrts = [], [], [], []
        for t in terms:
            for op, lst in (('nv_exp', exps), ('nv_log', logs), ('nv_log1p', log1ps), ('nv_sqrt', sqrts)):
                for s in sx.subterms(t, op):
                    if s not in lst:
                        lst.append(s)
        out = []
        for e in exps:
            u = sx.show(e[1])
            out.append(f'(> {sx.show(e)} 0.0)')                                               # E1
            out.append(f'(=> (= {u} 0.0) (= {sx.show(e)} 1.0))')                              # E4
            out.append(f'(>= {sx.show(e)} (+ 1.0 {u}))')                                      # E5
        for a, b in itertools.combinations(exps, 2):
            u, v = sx.show(a[1]), sx.show(b[1])
            out.append(f'(=> (= {u} (- {v})) (= (* {sx.show(a)} {sx.show(b)}) 1.0))')          # E2
        for a, b in itertools.permutations(exps, 2):
            u, v = sx.show(a[1]), sx.show(b[1])
            out.append(f'(>= {sx.show(b)} (* {sx.show(a)} (+ 1.0 (- {v} {u}))))')              # E3
        for l in logs:
            out.append(f'(=> (>= {sx.show(l[1])} 1.0) (>= {sx.show(l)} 0.0))')                # L1
        for l in log1ps:
            out.append(f'(=> (>= {sx.show(l[1])} 0.0) (>= {sx.show(l)} 0.0))')                # L1
        sps = [l for l in log1ps if isinstance(l[1], tuple) and l[1][0] == 'nv_exp']
        for a, b in itertools.combinations(sps, 2):
            u, v = sx.show(a[1][1]), sx.show(b[1][1])
            out.append(f'(=> (= {u} (- {v})) (= {sx.show(a)} (+ {u} {sx.show(b)})))')          # P1
        for a, b in itertools.permutations(sps, 2):
            u, v = sx.show(a[1][1]), sx.show(b[1][1])
            eu = sx.show(a[1])
            out.append(f'(>= {sx.show(b)} (+ {sx.show(a)} (* (/ {eu} (+ 1.0 {eu})) (- {v} {u}))))')   # P2
        for s in sqrts:
            u = sx.show(s[1])
            out.append(f'(=> (>= {u} 0.0) (and (>= {sx.show(s)} 0.0) (= (* {sx.show(s)} {sx.show(s)}) {u})))')   # Q1
        return out

    # ------------------------------------------------------------------------------------------- scripts
    def vc(self, name, hyps, claim, about='', source=None, timeout=20, expect='unsat', use_sum_facts=True, extra_axioms=()):
        hyps = [self.close(sx.parse(h) if isinstance(h, str) else h) for h in list(hyps) + [h for h in self.hyps if h not in hyps] if h != 'true']
        claim = self.close(sx.parse(claim) if isinstance(claim, str) else claim)
        ax = self.axioms(hyps + [claim])
        used = set()
        for t in hyps + [claim]:
            used |= sx.atoms(t)
        facts = self.sum_facts(used) if use_sum_facts else []
        body = [nvwp.PRELUDE] + self.decls + self.extra_decls
        body += [f'(assert {sx.show(h)})' for h in hyps]
        body += [f'(assert {a})' for a in list(ax) + list(facts) + list(extra_axioms)]
        if expect == 'unsat':
            body.append(f'(assert (not {sx.show(claim)}))')
        body.append('(check-sat)')
        return VC(name, '\n'.join(body) + '\n', about=about or name, source=source, timeout=timeout, expect=expect)

    def from_wp(self, wp, prefix, file=None, about='', hyps=()):
        """the obligations nvwp collected while walking the code (indices, divisions, loop shape), with sums / axioms"""
        out, counts = [], {}
        for label, guard, claim, line, facts in wp.obligations:
            counts[label] = counts.get(label, 0) + 1
            nm = f'{prefix}/{label}' + (f' @line {line}' if line else '') + (f' #{counts[label]}' if counts[label] > 1 else '')
            out.append(self.vc(nm, list(hyps) + list(facts) + [guard], claim, about=about or label, source={'file': file, 'line': line}))
        return out
