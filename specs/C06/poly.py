"""poly: polynomial normal form of a coefficient-wise term in its LEAF constants (|a@i|), with leaf-free coefficients kept as
sx terms.  Used to push a finite sum through a polynomial summand:
        sum_i ( sum_m c_m * m(leaves_i) )  =  sum_m c_m * (nv_sum m)            (STATED FACT S2: linearity of finite sums)
so that equal monomials obtained along different routes (value at z, <gradient, z - x>, ||z - x||^2) are the SAME sum constant.
A polynomial is a dict  monomial -> coefficient term;  a monomial is a sorted tuple of (leaf, power)."""
import re

import sx

LEAF = re.compile(r'^\|[^|]*@[a-z]\|$')


def is_leaf(t):
    return isinstance(t, str) and LEAF.match(t) is not None


def has_leaf(t):
    """does t mention a leaf OUTSIDE its (nv_sum ..) nodes (inside, the leaf is the bound summation coordinate)"""
    if isinstance(t, str):
        return is_leaf(t)
    if t[0] == 'nv_sum':
        return False
    return any(has_leaf(x) for x in t[1:])


def p_const(c):
    return {(): c}


def p_add(a, b):
    out = dict(a)
    for m, c in b.items():
        out[m] = sx.add(out[m], c) if m in out else c
    return out


def p_neg(a):
    return {m: sx.neg(c) for m, c in a.items()}


def m_mul(m1, m2):
    d = dict(m1)
    for leaf, p in m2:
        d[leaf] = d.get(leaf, 0) + p
    return tuple(sorted(d.items()))


def p_mul(a, b):
    out = {}
    for m1, c1 in a.items():
        for m2, c2 in b.items():
            m = m_mul(m1, m2)
            c = sx.mul(c1, c2)
            out[m] = sx.add(out[m], c) if m in out else c
    return out


def to_poly(t):
    """polynomial of t in its leaves, or None when t is not polynomial in them (ite / exp / division by a leaf ..)"""
    if is_leaf(t):
        return {((t, 1),): sx.ONE}
    if not has_leaf(t):
        return p_const(t)
    op, a = t[0], t[1:]
    if op == '+':
        r = {}
        for x in a:
            p = to_poly(x)
            if p is None:
                return None
            r = p_add(r, p)
        return r
    if op == '-':
        ps = [to_poly(x) for x in a]
        if any(p is None for p in ps):
            return None
        if len(ps) == 1:
            return p_neg(ps[0])
        r = ps[0]
        for p in ps[1:]:
            r = p_add(r, p_neg(p))
        return r
    if op == '*':
        r = p_const(sx.ONE)
        for x in a:
            p = to_poly(x)
            if p is None:
                return None
            r = p_mul(r, p)
        return r
    if op == '/' and len(a) == 2 and not has_leaf(a[1]):
        p = to_poly(a[0])
        return None if p is None else {m: sx.div(c, a[1]) for m, c in p.items()}
    return None


def mono_term(m):
    fs = []
    for leaf, p in m:
        fs += [leaf] * p
    if not fs:
        return sx.ONE
    return fs[0] if len(fs) == 1 else ('*',) + tuple(fs)


def sum_of(p, count):
    """sum over the coordinates of the polynomial p: sum_m c_m * (nv_sum m); the constant monomial sums to c * count"""
    parts = []
    for m, c in sorted(p.items(), key=lambda kv: str(kv[0])):
        if m == ():
            parts.append(sx.mul(c, count))
        else:
            parts.append(sx.mul(c, ('nv_sum', mono_term(m))))
    return sx.add(*parts) if parts else sx.ZERO


def normalise_sums(t, count):
    """rewrite every (nv_sum phi) of t whose summand is polynomial in the leaves into the linear combination of monomial sums"""
    if isinstance(t, str):
        return t
    t = (t[0],) + tuple(normalise_sums(x, count) for x in t[1:])
    if t[0] == 'nv_sum':
        p = to_poly(t[1])
        if p is not None and all(not sx.subterms(c, 'nv_sum') or True for c in p.values()):
            return sum_of(p, count)
    return t


def monomials(t, out=None):
    """the monomials m of the (nv_sum m) nodes of a normalised term"""
    out = [] if out is None else out
    for s in sx.subterms(t, 'nv_sum'):
        p = to_poly(s[1])
        if p is not None and len(p) == 1:
            m = list(p)[0]
            if m not in out:
                out.append(m)
    return out
