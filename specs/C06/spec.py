"""C06 -- values, gradients and convexity flags are truthful (partial: see `not_decided`).

Everything runs on back end B (SMT over the reals).  The extracted text is the real code: the clang AST of the instantiated
loss kernels / error policies / per-sample loops (src/loss.cpp, include/nano/loss/*.h, src/loss/pinball.cpp), of the
benchmark functions' do_vgrad bodies and constructors (src/function/benchmark/*.cpp) and of the constraint value/gradient
overloads (src/function/constraint.cpp), walked by specs/C06/eig.py (a symbolic executor for Eigen array code on top of
nvwp).  The spec generator differentiates the extracted VALUE term syntactically (rule table in specs/C06/sx.py) and
obliges  extracted gradient == D(extracted value).
"""
import os
import sys

sys.path.insert(0, os.path.dirname(os.path.abspath(__file__)))

import astload  # noqa: E402
import nvwp  # noqa: E402
import sx  # noqa: E402
import losses  # noqa: E402


def build(tier):
    vcs, info, not_decided = [], [], []
    flags = {}
    for k in losses.KERNELS:
        for pol, spec in losses.specialisations(k):
            try:
                v, fl = losses.kernel_vcs(k, pol, spec, info, not_decided)
            except (nvwp.Unsupported, sx.SxError) as e:
                raise astload.ExtractionError(f'loss kernel {k}<{pol}>: {e}')
            vcs += v
            flags[f'{k[:-2]}[{pol[:-2]}]'] = fl
    for p in losses.POLICIES:
        try:
            vcs += losses.error_vcs(p, info, not_decided)
        except (nvwp.Unsupported, sx.SxError) as e:
            raise astload.ExtractionError(f'error policy {p}: {e}')
    try:
        vcs += losses.flatten_vcs(info)
        v, fl = losses.pinball_vcs(info, not_decided)
        vcs += v
        flags['pinball'] = fl
    except (nvwp.Unsupported, sx.SxError) as e:
        raise astload.ExtractionError(f'per-sample loops: {e}')
    # VC names must be unique (lemma VCs of different kernels share their text)
    seen = {}
    for v in vcs:
        seen[v.name] = seen.get(v.name, 0) + 1
        if seen[v.name] > 1:
            v.name += f' ~{seen[v.name]}'
    return {
        'targets': [], 'vcs': vcs, 'functions': info,
        'decided': [
            'losses (16 of 17; classnll: only the loop / index discipline): the gradient written by vgrad is the derivative of the value returned by value '
            '(per output coordinate, away from the kinks of abs / max / the branch the code switches on); a loss that declares itself smooth has no '
            'derivative jump at those kinks and its gradient equals the derivative there too; a loss that declares itself convex satisfies '
            'value(z) >= value(x) + <vgrad(x), z - x> for all x, z (per coordinate, summed); the value is non-negative',
            'errors: absdiff / multi-label / single-label errors are non-negative; the 0-1 errors follow the sign rule per output '
            '(wrong side of 0 or exactly 0 => counted, right side with margin 2^-52 => not counted) and the arg-max rule '
            '(error 0 iff the target at an index of a largest output is positive)',
            'per-sample loops of all 16 flatten_loss_t instantiations and of pinball_loss_t: sample s reads row s of targets and row s of outputs '
            '(in this argument order), writes slot / row s of the result and nothing else, every sample is visited; the loss object declares exactly '
            'the flags of its kernel; pinball error == pinball value',
        ],
        'not_decided': not_decided + [
            'exactness in IEEE arithmetic: every identity / inequality is proved over the reals (overflow of exp, cancellation, the 2^-52 fuzz of '
            'the 0-1 errors between 0 and epsilon are outside the model)',
            'agreement with central differences (a numerical statement) -- replaced by the exact derivative identity',
            'a flag that is pessimistic (convex = false on a convex loss) is not a violation of the property and is not checked',
        ],
        'assumptions': [
            'IEEE double treated as real; std::exp / log / log1p / atan are uninterpreted functions constrained only by the stated facts E1-E4, L1, P1, P2 '
            '(specs/C06/vcgen.py) -- P2 (softplus is convex with derivative sigmoid) is used by the convexity obligation of the logistic loss only',
            'derivative rule table of specs/C06/sx.py (sum, product, quotient, chain rule for exp / log / log1p / atan / sqrt, branch-wise for ite)',
            'finite sums: S1 a sum of non-negative terms is non-negative (positive terms, non-empty range: positive), S2 linearity, '
            'S3 sum = summand at i + rest that does not depend on coordinate i',
            'Eigen coefficient-wise operators, reductions and maxCoeff(&index) behave as documented (closed list in specs/C06/eig.py); '
            'a per-coordinate / per-sample `for (i = 0; i < size; ++i)` loop whose body touches the arrays at i only computes the map / the additive '
            'reduction of its body (the shape conditions are obligations of every run)',
            'classnll and the single-label error call maxCoeff: a sample has at least one output value',
            'pinball: 0 <= alpha <= 1, the domain registered by the constructor (read from the make_scalar call; parameters staying in their domain is C19)',
        ],
        'trusted': ['specs/C06/sx.py derivative rule table', 'specs/C06/vcgen.py stated facts about exp / log / log1p / sqrt and finite sums',
                    'specs/C06/eig.py closed list of Eigen operations'],
    }
