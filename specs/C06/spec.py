"""C06 -- values, gradients and convexity flags are truthful (partial: see `not_decided`).

Everything runs on back end B (SMT over the reals).  The extracted text is the real code: the clang AST of the instantiated
loss kernels / error policies / per-sample loops (src/loss.cpp, include/nano/loss/*.h, src/loss/pinball.cpp), of the
benchmark functions' do_vgrad bodies and constructors (src/function/benchmark/*.cpp) and of the constraint value/gradient
overloads (src/function/constraint.cpp), walked by specs/C06/eig.py (a symbolic executor for Eigen array code on top of
nvwp).  The spec generator differentiates the extracted VALUE term syntactically (rule table in specs/C06/sx.py) and
obliges  extracted gradient == D(extracted value).
"""
import os
import sys

sys.path.insert(0, os.path.dirname(os.path.abspath(__file__)))

import astload  # noqa: E402
import nvwp  # noqa: E402
import sx  # noqa: E402
import losses  # noqa: E402
import functions  # noqa: E402
import constraints  # noqa: E402

GENERIC_FUNCTIONS = ['sphere', 'sargan', 'zakharov', 'styblinski_tang', 'axis_ellipsoid', 'cauchy', 'chung_reynolds', 'exponential', 'qing',
                     'schumer_steiglitz']
# name -> (sizes, options): functions that couple coordinates / loop with strides / use matrices or arg-max: fixed dimensions only
BOUNDED_FUNCTIONS = {
    'trid': ((1, 2, 3, 4), {}),
    'powell': ((4,), {}),
    'rosenbrock': ((2, 3), {}),
    'dixon_price': ((1, 2, 3), {}),
    'rotated_ellipsoid': ((1, 2, 3), {}),
    'quadratic': ((1, 2, 3), {'use_ctor': True, 'convex_sizes': (1, 2)}),
    'maxq': ((1, 2, 3), {'pieces': True}),
    'maxhilb': ((1, 2, 3), {'convex_sizes': (1, 2), 'pieces': (1, 2)}),
    'kinks': ((1, 2), {}),
    'geometric': ((1, 2), {'use_ctor': True, 'cls': 'function_geometric_optimization_t'}),
    'chained_lq': ((2, 3), {'convex_sizes': (2,), 'pieces': True}),
    'chained_cb3I': ((2, 3), {'convex_sizes': (), 'pieces': True}),
    'chained_cb3II': ((2, 3), {'convex_sizes': (), 'pieces': True}),
}


def build(tier):
    import core
    vcs, bounded, info, not_decided = [], [], [], []
    assumptions = set()
    flags = {}

    def guarded(what, f):
        def job():
            try:
                return f()
            except (nvwp.Unsupported, sx.SxError) as e:
                return astload.ExtractionError(f'{what}: {e}')
            except astload.ExtractionError as e:
                return e
        return job

    def kernels():
        v = []
        for k in losses.KERNELS:
            for pol, spec in losses.specialisations(k):
                r, fl = losses.kernel_vcs(k, pol, spec, info, not_decided)
                v += r
                flags[f'{k[:-2]}[{pol[:-2]}]'] = fl
        for p in losses.POLICIES:
            v += losses.error_vcs(p, info, not_decided)
        return v, []

    def classnll_binary():
        return [], losses.classnll_one_output_vcs(info, not_decided)

    def sample_loops():
        v = losses.flatten_vcs(info)
        r, fl = losses.pinball_vcs(info, not_decided)
        flags['pinball'] = fl
        return v + r, []

    def generic_fn(name):
        def f():
            v, fl = functions.generic_vcs(name, info, not_decided, assumptions)
            flags['function_' + name] = fl
            return v, []
        return f

    def bounded_fn(name, sizes, opts):
        def f():
            v, fl = functions.bounded_vcs(name, sizes, info, not_decided, assumptions, **opts)
            flags['function_' + name] = fl
            return [], v
        return f

    def constraint_kinds():
        v = constraints.generic_kind('euclidean_ball_t', info, not_decided) + constraints.generic_kind('linear_t', info, not_decided)
        b = []
        for k in ('minimum_t', 'maximum_t', 'constant_t'):
            b += constraints.bounded_kind(k, (1, 2, 3), info, not_decided)
        b += constraints.bounded_kind('quadratic_t', (1, 2), info, not_decided)
        return v, b

    jobs = [guarded('helper contracts', lambda: (functions.helper_vcs(info), [])), guarded('loss kernels / error policies', kernels), guarded('per-sample loops', sample_loops), guarded('classnll with one output', classnll_binary), guarded('constraints', constraint_kinds)]
    jobs += [guarded(f'function {n}', generic_fn(n)) for n in GENERIC_FUNCTIONS]
    jobs += [guarded(f'function {n} (bounded)', bounded_fn(n, sizes, opts)) for n, (sizes, opts) in BOUNDED_FUNCTIONS.items()]
    # the jobs are dominated by clang runs (one translation unit per benchmark function): run them side by side
    for r in core.parallel(jobs, workers=12):
        if isinstance(r, Exception):
            raise r
        vcs += r[0]
        bounded += r[1]
    info.sort(key=lambda f: (str(f.get('file')), f.get('line') or 0, f.get('c_name')))
    not_decided.sort()
    # VC names must be unique (lemma VCs of different kernels share their text)
    seen = {}
    for v in vcs + bounded:
        seen[v.name] = seen.get(v.name, 0) + 1
        if seen[v.name] > 1:
            v.name += f' ~{seen[v.name]}'
    return {
        'targets': [], 'vcs': vcs, 'bounded': bounded, 'functions': info,
        'decided': [
            'losses (16 of 17; classnll: only the loop / index discipline): the gradient written by vgrad is the derivative of the value returned by value '
            '(per output coordinate, away from the kinks of abs / max / the branch the code switches on); a loss that declares itself smooth has no '
            'derivative jump at those kinks and its gradient equals the derivative there too; a loss that declares itself convex satisfies '
            'value(z) >= value(x) + <vgrad(x), z - x> for all x, z (per coordinate, summed); the value is non-negative',
            'errors: absdiff / multi-label / single-label errors are non-negative; the 0-1 errors follow the sign rule per output '
            '(wrong side of 0 or exactly 0 => counted, right side with margin 2^-52 => not counted) and the arg-max rule '
            '(error 0 iff the target at an index of a largest output is positive)',
            'per-sample loops of all 16 flatten_loss_t instantiations and of pinball_loss_t: sample s reads row s of targets and row s of outputs '
            '(in this argument order), writes slot / row s of the result and nothing else, every sample is visited; the loss object declares exactly '
            'the flags of its kernel; pinball error == pinball value',
            'benchmark functions, EVERY dimension n >= 1 (generic coordinate): ' + ', '.join(GENERIC_FUNCTIONS) + ': value-only and value+gradient calls '
            'return the same value; gx_i == d value / d x_i; declared convex (and strongly convex with the declared coefficient: sphere 2, axis-ellipsoid 2, '
            'exponential 2/n) => f(z) >= f(x) + <g(x), z - x> + mu/2 |z - x|^2 for all x, z in R^n',
            'constraint kinds, every dimension: euclidean ball (equality / inequality), linear (equality / inequality): same clauses, strong convexity 2 resp. 0',
            'BOUNDED stand-ins (fixed dimensions, listed under coverage.bounded): ' + ', '.join(f'{k} n={list(v[0])}' for k, v in BOUNDED_FUNCTIONS.items()) +
            '; constraints minimum / maximum / constant n=1..3, quadratic n=1,2 for EVERY square P (::symmetric(P) is extracted and walked)',
            'max-of-terms functions (chained_lq, chained_cb3I, chained_cb3II n=2,3; maxq n=1..3; maxhilb n=1,2), BOUNDED: every piece of the value is a '
            'minorant of the value; every signed addend of every piece is convex; on EVERY branch of the gradient code the returned vector is the gradient '
            'of a piece that is ACTIVE (attains the returned value) at the point -- from which f(z) >= f(x) + <g(x), z - x> follows by the composition rule',
            's-classnll with one output (BOUNDED n=1): gradient == d value / d output; value >= 0 is REFUTED there (known finding, see known_findings.txt)',
        ],
        'not_decided': not_decided + [
            'exactness in IEEE arithmetic: every identity / inequality is proved over the reals (overflow of exp, cancellation, the 2^-52 fuzz of '
            'the 0-1 errors between 0 and epsilon are outside the model)',
            'agreement with central differences (a numerical statement) -- replaced by the exact derivative identity',
            'a flag that is pessimistic (convex = false on a convex function / loss, smooth = false, a strong-convexity coefficient smaller than the best one) '
            'is not a violation of the property and is not checked',
            'benchmark functions maxquad (3-D coefficient tensors) and the five elastic-net instantiations (function_enet_t<loss>: synthetic data + loss)',
            'the bounded functions at dimensions other than the listed ones; the convexity inequality AS ONE FORMULA for chained_cb3I / chained_cb3II (exp inside a max: '
            'no solver decides it) and for chained_lq / maxhilb / quadratic at n = 3 (time-outs) -- for the max-of-terms functions it is replaced by the envelope / convex-addend / '
            'active-piece obligations; the declared strong-convexity coefficient of the quadratic function and of quadratic constraints (an eigenvalue computation)',
            'classnll for a symbolic number of outputs: gradient == derivative, convexity, non-negativity (maxCoeff + epsilon inside the logarithm)',
            'functional constraints (delegate to function_t::vgrad), the std::visit dispatch nano::vgrad / nano::convex / nano::strong_convexity over the variant',
            'machine-learning objectives: linear::function_t, gboost functions, tuner surrogate (the regularisation terms of the linear model are C09)',
        ],
        'assumptions': sorted(assumptions) + [
            'IEEE double treated as real; std::exp / log / log1p / atan are uninterpreted functions constrained only by the stated facts E1-E5, L1, P1, P2, Q1 '
            '(specs/C06/vcgen.py) -- P2 (softplus is convex with derivative sigmoid) is used by the convexity obligation of the logistic loss only',
            'derivative rule table of specs/C06/sx.py (sum, product, quotient, chain rule for exp / log / log1p / atan / sqrt, branch-wise for ite)',
            'finite sums: S1 a sum of non-negative terms is non-negative (positive terms, non-empty range: positive), S2 linearity, '
            'S3 sum = summand at i + rest that does not depend on coordinate i; G1 the Gram matrix of real vectors is positive semi-definite (Cauchy-Schwarz)',
            'Eigen coefficient-wise operators, reductions, products and maxCoeff(&index) behave as documented (closed list in specs/C06/eig.py); '
            'a per-coordinate / per-sample `for (i = 0; i < size; ++i)` loop whose body touches the arrays at i only computes the map / the additive '
            'reduction of its body (the shape conditions are obligations of every run)',
            'classnll and the single-label error call maxCoeff: a sample has at least one output value',
            'pinball: 0 <= alpha <= 1, the domain registered by the constructor (read from the make_scalar call; parameters staying in their domain is C19)',
            'a function has at least one dimension (n >= 1); gx.size() is either 0 or x.size() (function_t::vgrad)',
            'member tensors of the benchmark functions (m_bias, m_kinks, m_weights, m_a) have the function\'s dimension; random tensors '
            '(make_random_vector / make_random_matrix) are arbitrary reals; the quadratic and geometric functions are walked on the member state their '
            'CONSTRUCTOR body establishes (m_A = I + A * A^T is extracted, not assumed)',
            'constant / minimum / maximum constraints: 0 <= m_dimension < n (::compatible, checked by function_t::constrain before a constraint is accepted)',
            'quadratic constraints, n <= 2: nano::convex(M) (all eigenvalues of M have a non-negative real part) <=> trace(M) >= 0 and det(M) >= 0, for the matrix '
            'M the code passes (::symmetric(P), extracted); nano::strong_convexity(M) is an opaque real (convexity is checked with mu = 0)',
            's-classnll with one output: the valid targets are pos_target() = +1 and neg_target() = -1 (sclass_t::error has a binary branch; test_loss.cpp single_class)',
        ],
        'trusted': ['composition rule for max-of-terms functions: value >= piece everywhere, piece convex with gradient D(piece), piece(x) == value(x) and g(x) == D(piece)(x) '
                    '=> value(z) >= piece(z) >= piece(x) + <D piece(x), z - x> = value(x) + <g(x), z - x>; a sum of convex addends is convex',
                    'specs/C06/sx.py derivative rule table', 'specs/C06/vcgen.py stated facts about exp / log / log1p / sqrt and finite sums',
                    'specs/C06/eig.py closed list of Eigen operations', 'specs/C06/poly.py polynomial normal form (linearity of finite sums)'],
    }


def replay(rp):
    """native replay on the real library (replay/C06_replay.cpp): the property's own clause is evaluated at the verifier's point
    (plus a few fixed generic points: a wrong factor or sign shows almost everywhere, and the uninterpreted exp / log of the model
    need not be the real ones)"""
    import re
    import replaylib
    out = {'reproduced': False, 'runs': []}
    if '/mut_C06_' in os.environ.get('NV_SCRATCH', '') or os.environ.get('NV_NO_NATIVE_REPLAY'):
        # canary-mutation self test of the thorough tier: it only looks at the refuted obligation, and its private scratch would
        # force a full library build (minutes) per canary
        out['skipped'] = 'canary-mutation run / NV_NO_NATIVE_REPLAY'
        return out
    exe = replaylib.build_with_library('replay/C06_replay.cpp', 'C06_replay')

    def run(args):
        rc, so, se = replaylib.run_driver(exe, args)
        out['runs'].append({'args': [str(a) for a in args], 'exit': rc, 'output': so.strip()[-1200:]})
        if rc == 1:
            out['reproduced'] = True

    target = rp.get('target', '')
    for fo in rp.get('failed_obligations', []):
        oid = fo.get('id', '')
        model = replaylib.parse_model((fo.get('counterexample') or {}).get('model', ''))
        m = re.match(r'function_(\w+?)\[n=(\d+)\]', target)
        g = re.match(r'function_(\w+)$', target)
        if target.startswith('constraint_quadratic'):
            run(['quadconvex' if 'convex' in oid else 'quadgrad'])
        elif m or g:
            name = (m or g).group(1)
            n = int(m.group(2)) if m else 3
            fid = function_id(name)
            xs = [model.get(f'x@{k}') if m else None for k in range(n)]
            zs = [model.get(f'z@{k}') if m else None for k in range(n)]
            points = []
            if m and all(v is not None for v in xs):
                points.append(([float(v) for v in xs], [float(v) if v is not None else 0.0 for v in zs]))
            points += [([0.7, -1.3, 0.4, 1.9][:n], [-0.6, 0.8, 1.7, -0.2][:n]), ([2.0, -3.0, 1.0, 0.5][:n], [2.0, -2.0, 1.0, 0.5][:n])]
            for x, z in points:
                if all(abs(v) < 1e6 for v in x + z):
                    run((['fconvex', fid, n] + x + z) if ('convex' in oid or 'active' in oid or 'envelope' in oid) else (['fgrad', fid, n] + x))
        elif target.startswith('loss_classnll[sclass][n=1]'):
            t, o = model.get('target@0'), model.get('output@0')
            for (t, o) in ([(t, o)] if t is not None and o is not None else []) + [(-1.0, -2.0), (1.0, -2.0)]:
                if abs(float(o)) < 1e3:
                    run(['loss', 's-classnll', float(t), float(o), 0.0])
        elif target.startswith('loss_'):
            lm = re.match(r'loss_(\w+?)(?:\[(\w+)\])?$', target)
            lid = {'sclass': 's-', 'mclass': 'm-', 'absdiff': '', None: ''}[lm.group(2)] + lm.group(1).replace('_', '-')
            t, o, z = model.get('target@i'), model.get('output@i'), model.get('output@z')
            pts = [(t, o, z if z is not None else 0.0)] if (t is not None and o is not None) else []
            pts += [(1.0, 0.3, -0.8), (-1.0, 0.4, 2.0), (1.0, -1.7, 0.9), (-1.0, -0.6, -2.5)]
            for (t, o, z) in pts:
                if all(abs(float(v)) < 1e3 for v in (t, o, z)):
                    run(['loss', lid, float(t), float(o), float(z)])
    return out


def function_id(name):
    """the registered id of a benchmark function: the string literal its constructor hands to function_t"""
    opts = BOUNDED_FUNCTIONS.get(name, ((), {}))[1]
    ctor = functions.ctor_of(name, opts.get('cls'))
    lits = [x['value'].strip('"') for x in astload.walk(ctor) if x.get('kind') == 'StringLiteral']
    return lits[0] if lits else name
