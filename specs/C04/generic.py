"""C04, part 10: GENERIC-COORDINATE (symbolic size) versions of the coefficient-wise parts of the interior-point code: no bound on n, p, m.

specs/C06/eig.EigWP in generic mode represents an array by its coefficient at ONE generic index i (`|a@i|`, symbolic length) and a reduction by an
`(nv_sum phi)` node (vcgen.Gen: equal summands = equal sums; a sum of non-negative summands is non-negative).  Matrices do not exist in that mode;
here a matrix is a SYMBOL (SymM: name, rows, cols, transposed?) and a matrix-vector product `M * v` is a NAMED array `|M*<v>@i|` of length rows(M)
(the same product written twice is the same array; its value is not interpreted): what is verified is the coefficient-wise / reduction STRUCTURE
around the products -- which product enters which residual with which sign and factor -- for every size, while the bounded obligations of
residuals.py / scaling.py expand the products at n <= 3.
    ::normalize(A, b, min_norm)  (A as the array of its coefficients: lpNorm<2> of a matrix is the Frobenius norm, `A.array() /= d` is coefficient-wise)
        gfactor   the returned d == max(min_norm, sqrt(sum A_i^2), sqrt(sum b_i^2)) and d >= min_norm
        gscaled   at the generic coefficient:  d * A'_i == A_i  and  d * b'_i == b_i          (min_norm > 0)
    program_t::update<vector_t>  on a symbolic program (Q present or absent, sizes n, p, m symbolic)
        geta      m > 0:  eta == -sum_i u_i ((G x)_i - h_i);   m == 0: eta untouched
        grcent    m > 0:  rcent_i == -u_i ((G x)_i - h_i) - eta / (miu m)   at the generic inequality row i
        grdual    rdual_i == [(Q x)_i +] c_i [+ (G'u)_i if m > 0] [+ (A'v)_i if p > 0]   at the generic variable i
        grprim    p > 0:  rprim_i == (A x)_i - b_i
        gfx       fx == mufx * ([1/2 sum x_i (Q x)_i +] sum x_i c_i)"""
import re

import astload
import nvwp
from nvwp import V, Unsupported, ITE
from cxx2c import unwrap, strip_cv, qual
from progwp import ProgWP
from eig import AV, MV, rmax, type_str, real_of
import vcgen
import sx
import residuals
import scaling
from residuals import fninfo, line_of

TU = residuals.TU
FLT = residuals.FLT


class SymM:
    """a matrix as a symbol: only its name, its extents (terms) and whether it is seen transposed"""
    s, c = 'SymMatrix', None

    def __init__(self, name, rows, cols, tr=False):
        self.name, self.rows, self.cols, self.tr = name, rows, cols, tr
        self.t = f'{name}{"^T" if tr else ""}'


class GenWP(ProgWP):
    def __init__(self, name, **kw):
        super().__init__(name, **kw)
        self.dim = None                     # generic coordinate
        self.products = {}

    def garr(self, key, name, n_term):
        return self.input_array(key, name, n_term)

    def gmat(self, key, name, rows, cols):
        self.env[key] = SymM(name, rows, cols)
        return self.env[key]

    def sym_of(self, node):
        v = None
        u = unwrap(node)
        while u.get('kind') in ('ImplicitCastExpr', 'MaterializeTemporaryExpr', 'ParenExpr') and u.get('inner'):
            u = unwrap(u['inner'][0])
        try:
            v = self.ev(u)
        except Unsupported:
            return None
        return v if isinstance(v, SymM) else None

    def eigen_member(self, n):
        me = n['inner'][0]
        if me.get('kind') != 'MemberExpr':
            return None
        name, obj, args = me.get('name'), me['inner'][0], n['inner'][1:]
        if name in ('size', 'rows', 'cols', 'transpose', 'matrix') and not args and unwrap(obj).get('kind') != 'CXXThisExpr':
            M = self.sym_of(obj)
            if M is not None:
                r, c = (M.cols, M.rows) if M.tr else (M.rows, M.cols)
                if name == 'rows':
                    return V(r, 'Int', 'long')
                if name == 'cols':
                    return V(c, 'Int', 'long')
                if name == 'size':
                    return V(f'(* {r} {c})', 'Int', 'long')
                if name == 'matrix':
                    return M
                return SymM(M.name, M.rows, M.cols, not M.tr)
        if name == 'lpNorm' and not args:
            o = self.ev(obj)
            if isinstance(o, AV) and self.member_template_args(me) == ['2']:
                self.note('Eigen .lpNorm<2>() (generic coordinate)')
                return V(f'(nv_sqrt (nv_sum (* {o.c[0]} {o.c[0]})))', 'Real', 'double')
        return super().eigen_member(n)

    def eigen_operator(self, n):
        inner = n['inner']
        op = unwrap(inner[0]).get('referencedDecl', {}).get('name')
        args = inner[1:]
        if op == 'operator*' and len(args) == 2:
            M = self.sym_of(args[0])
            if M is not None:
                v = self.ev(args[1])
                if not isinstance(v, AV):
                    raise Unsupported(f'{self.name}: symbolic matrix times a non-vector')
                if 'Product' not in type_str(n).split('<')[0] and 'Product<' not in type_str(n)[:60]:
                    raise Unsupported(f'{self.name}: matrix * vector whose result type is not Eigen::Product: {type_str(n)[:80]}')
                r, c = (M.cols, M.rows) if M.tr else (M.rows, M.cols)
                self.oblige('matrix * vector: inner dimensions agree', f'(= {c} {v.n})', n)
                m_ = re.fullmatch(r'\|([^|@]+)@i\|', v.c[0])
                if m_ is None:
                    raise Unsupported(f'{self.name}: matrix product with a vector that is not a stored array: {v.c[0][:60]}')
                key = (M.t, m_.group(1))
                if key not in self.products:
                    self.products[key] = f'{M.t}*{m_.group(1)}'
                self.note('Eigen matrix * vector (named product array)')
                return AV([self.leaf(self.products[key])], r, v.deps)
        return super().eigen_operator(n)

    def merge(self, c, envA, envB):
        syms = {k: a for k, a in envA.items() if isinstance(a, SymM) and envB.get(k) is a}
        A = {k: v for k, v in envA.items() if not isinstance(v, SymM)}
        B = {k: v for k, v in envB.items() if not isinstance(v, SymM)}
        out = super().merge(c, A, B)
        out.update(syms)
        return out

    def ex(self, n):
        # symbolic sizes: no folding of `if (m > 0)`; both branches are walked and merged
        return super().ex(n)


def canon(t):
    """operands of the commutative + and * sorted by their printed form: `(nv_sum (* u f))` and `(nv_sum (* f u))` are then ONE sum constant
    (vcgen knows sums only up to the printed summand); sound: a rewriting with commutativity of real + and *"""
    if isinstance(t, str):
        return t
    args = [canon(x) for x in t[1:]]
    if t[0] in ('+', '*'):
        args = sorted(args, key=sx.show)
    return (t[0],) + tuple(args)


class CanonGen(vcgen.Gen):
    def close(self, t):
        return super().close(canon(t))


def gen_for(wp, hyps, tag):
    return CanonGen(list(dict.fromkeys(wp.decls)), hyps=hyps, tag=tag)


def intc(wp, name):
    d = f'(declare-const {name} Int)'
    if d not in wp.decls:
        wp.decls.append(d)
    return name


# ------------------------------------------------------------------------------------------------- ::normalize
def normalize_generic(info):
    path = astload.REPO + '/' + TU
    fn = scaling.normalize_decl()
    wp = GenWP('normalize[generic]')
    kA, kb, km = [k for k, _ in wp.bind_params(fn)]
    sa, sb = intc(wp, 'sizeA'), intc(wp, 'sizeb')
    A0 = wp.garr(kA, 'A', sa).c[0]
    b0 = wp.garr(kb, 'b', sb).c[0]
    wp.scalar(km, 'min_norm')
    rets = []
    wp.post = lambda w, rv: (rets.append((w.guard, rv)), [])[1]
    wp.run(fn, path)
    if len(rets) != 1 or rets[0][1] is None:
        raise Unsupported(f'{wp.name}: not a single return')
    d = rets[0][1].t
    info.append(fninfo('normalize[generic]', '::normalize', path, fn))
    hy = ['(> min_norm 0.0)', f'(>= {sa} 0)', f'(>= {sb} 0)']
    g = gen_for(wp, hy, wp.name)
    src = {'file': path, 'line': line_of(fn)}
    out = g.from_wp(wp, wp.name, path, hyps=hy)
    fa, fb = f'(nv_sqrt (nv_sum (* {A0} {A0})))', f'(nv_sqrt (nv_sum (* {b0} {b0})))'
    out.append(g.vc(f'{wp.name}/gfactor: the returned factor is max(min_norm, ||A||_F, ||b||_2) and >= min_norm, for every size', hy,
                    f'(and (= {d} {rmax(rmax("min_norm", fa), fb)}) (>= {d} min_norm))', source=src))
    A1, b1 = wp.env[kA].c[0], wp.env[kb].c[0]
    out.append(g.vc(f'{wp.name}/gscaled: at the generic coefficient d * A\'_i == A_i and d * b\'_i == b_i: both are divided by the returned factor', hy,
                    f'(and (= (* {d} {A1}) {A0}) (= (* {d} {b1}) {b0}))', source=src))
    out += g.lemmas
    out.append(g.vc(f'{wp.name}/reachability canary: preconditions are satisfiable', hy, 'true', expect='sat', source=src))
    return out


# ------------------------------------------------------------------------------------------------- program_t::update
def update_generic(hasQ, info):
    path = astload.REPO + '/' + TU
    fn = astload.find_definition(TU, FLT, 'update', lambda d: (astload.template_args(d) or [''])[0].startswith('nano::tensor_t'))
    tag = f'program_update[generic,{"QP" if hasQ else "LP"}]'
    wp = GenWP(tag)
    wp.members = residuals.PROGRAM_GETTERS + list(wp.members)
    kx, ku, kv, kmiu, kst = [k for k, _ in wp.bind_params(fn)]
    n, p, m = intc(wp, 'n'), intc(wp, 'p'), intc(wp, 'm')
    wp.gmat('self.m_Q', 'Q', n if hasQ else '0', n if hasQ else '0')
    wp.gmat('self.m_A', 'A', p, n)
    wp.gmat('self.m_G', 'G', m, n)
    c = wp.garr('self.m_c', 'c', n).c[0]
    b = wp.garr('self.m_b', 'b', p).c[0]
    h = wp.garr('self.m_h', 'h', m).c[0]
    wp.scalar('self.m_mufx', 'mufx')
    x, u, v = wp.garr(kx, 'x', n).c[0], wp.garr(ku, 'u', m).c[0], wp.garr(kv, 'v', p).c[0]
    wp.scalar(kmiu, 'miu')
    wp.scalar(kst + '.m_fx', 'fx0')
    eta0 = wp.scalar(kst + '.m_eta', 'eta0').t
    wp.garr(kst + '.m_rdual', 'rdual0', n)
    rprim0 = wp.garr(kst + '.m_rprim', 'rprim0', p).c[0]
    rcent0 = wp.garr(kst + '.m_rcent', 'rcent0', m).c[0]
    rets = []
    wp.post = lambda w, rv: (rets.append(w.guard), [])[1]
    wp.run(fn, path)
    if len(rets) != 1:
        raise Unsupported(f'{wp.name}: {len(rets)} return paths')
    info.append(fninfo(f'program_update[generic]', 'nano::program::solver_t::program_t::update<vector_t> (generic coordinate)', path, fn))
    hy = ['(> miu 1.0)', f'(> {n} 0)', f'(>= {p} 0)', f'(>= {m} 0)']
    g = gen_for(wp, hy, tag)
    src = {'file': path, 'line': line_of(fn)}
    out = g.from_wp(wp, tag, path, hyps=hy)
    P = lambda M, vec: wp.leaf(wp.products.get((M, vec), f'MISSING:{M}*{vec}'))
    S = lambda f: wp.env[f'{kst}.{f}']
    Gx, Ax = P('G', 'x'), P('A', 'x')
    eta_tb = f'(- (nv_sum (* {u} (- {Gx} {h}))))'
    out.append(g.vc(f'{tag}/geta: m > 0: eta == -sum_i u_i ((G x)_i - h_i); m == 0: eta is left alone', hy,
                    f'(and (=> (> {m} 0) (= {S("m_eta").t} {eta_tb})) (=> (= {m} 0) (= {S("m_eta").t} {eta0})))', source=src))
    rc = f'(- (- (* {u} (- {Gx} {h}))) (/ {eta_tb} (* miu (to_real {m}))))'
    out.append(g.vc(f'{tag}/grcent: m > 0: rcent_i == -u_i ((G x)_i - h_i) - eta / (miu m) at the generic inequality row; m == 0: left alone', hy,
                    f'(and (=> (> {m} 0) (= {S("m_rcent").c[0]} {rc})) (=> (= {m} 0) (= {S("m_rcent").c[0]} {rcent0})))', source=src))
    parts = ([P('Q', 'x')] if hasQ else []) + [c]
    rd = lambda withG, withA: '(+ ' + ' '.join(parts + ([P('G^T', 'u')] if withG else []) + ([P('A^T', 'v')] if withA else []) + ['0.0']) + ')'
    cl = [f'(=> (and {"(> m 0)" if wg else "(= m 0)"} {"(> p 0)" if wa else "(= p 0)"}) (= {S("m_rdual").c[0]} {rd(wg, wa)}))' for wg in (True, False) for wa in (True, False)]
    out.append(g.vc(f'{tag}/grdual: rdual_i == (Q x)_i + c_i + (G\'u)_i + (A\'v)_i at the generic variable (terms of absent blocks dropped)', hy,
                    '(and ' + ' '.join(cl) + ')', source=src))
    out.append(g.vc(f'{tag}/grprim: p > 0: rprim_i == (A x)_i - b_i at the generic equality row; p == 0: left alone', hy,
                    f'(and (=> (> {p} 0) (= {S("m_rprim").c[0]} (- {Ax} {b}))) (=> (= {p} 0) (= {S("m_rprim").c[0]} {rprim0})))', source=src))
    obj = f'(+ (* 0.5 (nv_sum (* {x} {P("Q", "x")}))) (nv_sum (* {x} {c})))' if hasQ else f'(nv_sum (* {x} {c}))'
    out.append(g.vc(f'{tag}/gfx: fx == mufx * (1/2 sum x_i (Q x)_i + sum x_i c_i)', hy, f'(= {S("m_fx").t} (* {obj} mufx))', source=src))
    names = sorted(wp.products.values())
    want = sorted((['Q*x'] if hasQ else []) + ['G*x', 'A*x', 'G^T*u', 'A^T*v'])
    out.append(g.vc(f'{tag}/gproducts: the matrix-vector products that occur are exactly Q x, G x, A x, G\'u, A\'v', [], 'true' if names == want else 'false',
                    about=f'products: {names}', source=src))
    out += g.lemmas
    out.append(g.vc(f'{tag}/reachability canary: preconditions are satisfiable', hy, 'true', expect='sat', source=src))
    return out


def build():
    info, out = [], []
    out += normalize_generic(info)
    for hasQ in (True, False):
        out += update_generic(hasQ, info)
    return out, info
