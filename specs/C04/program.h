/* C04: decision protocol of the primal-dual interior-point solver (src/program/solver.cpp).
 *
 * Numerics are opaque.  Every matrix / vector / Eigen expression / decomposition is a `struct nv_val`: a ghost *value
 * identity* `ver` (equal ver => equal value).  Eigen operators are UNINTERPRETED functions over identities (congruence
 * only: sound for every interpretation of the algebra), reductions (lpNorm, maxCoeff, residual, all_finite, isApprox,
 * rows) are uninterpreted functions of the identity returning ghost doubles / bools / sizes, linear solves and residual
 * updates havoc what they assign.  What is proved is the control skeleton: which status is stored when, on which
 * (x, eta, rdual, rprim) the advertised comparison was made, and that (x, u, v) only move along one common step that
 * lies between 0 and a step that passed the strict-feasibility test for that very point and direction. */
#ifndef NV_C04_PROGRAM_H
#define NV_C04_PROGRAM_H
#include "nv_base.h"
/* finiteness by comparisons only (no floating-point subtraction to bit-blast); same truth table as nv_base.h's */
#undef NV_FINITE
#define NV_FINITE(x) ((x) >= -1.7976931348623157e308 && (x) <= 1.7976931348623157e308)

/* nano::solver_status (include/nano/solver/status.h: declaration order; only distinctness is used) */
#define NVE_solver_status_max_iters 0
#define NVE_solver_status_converged 1
#define NVE_solver_status_failed 2
#define NVE_solver_status_unfeasible 3
#define NVE_solver_status_unbounded 4

/* Eigen::ComputationInfo (Eigen/src/Core/util/Constants.h; only distinctness is used) */
#define NVE_ComputationInfo_Success 0
#define NVE_ComputationInfo_NumericalIssue 1
#define NVE_ComputationInfo_NoConvergence 2
#define NVE_ComputationInfo_InvalidInput 3

/* ------------------------------------------------------------------ uninterpreted value algebra */
uint64_t __CPROVER_uninterpreted_e_add(uint64_t, uint64_t);      /* a + b */
uint64_t __CPROVER_uninterpreted_e_sub(uint64_t, uint64_t);      /* a - b */
uint64_t __CPROVER_uninterpreted_e_mul(uint64_t, uint64_t);      /* a * b (matrix product / coefficient-wise on arrays) */
uint64_t __CPROVER_uninterpreted_e_div(uint64_t, uint64_t);      /* a / b (coefficient-wise) */
uint64_t __CPROVER_uninterpreted_e_neg(uint64_t);                /* -a */
uint64_t __CPROVER_uninterpreted_e_scale(double, uint64_t);      /* s * a */
uint64_t __CPROVER_uninterpreted_e_sdiv(double, uint64_t);       /* s / a (coefficient-wise) */
uint64_t __CPROVER_uninterpreted_e_segment(uint64_t, int64_t, int64_t);
uint64_t __CPROVER_uninterpreted_e_zero(int64_t);                /* vector_t::zero(n) */
uint64_t __CPROVER_uninterpreted_e_nan(int64_t);                 /* vector_t::constant(n, nan) */
double   __CPROVER_uninterpreted_r_norm2(uint64_t);              /* lpNorm<2>() */
double   __CPROVER_uninterpreted_r_maxcoeff(uint64_t);           /* maxCoeff() */
double   __CPROVER_uninterpreted_r_residual(uint64_t, uint64_t, uint64_t); /* sqrt(rdual.rdual + rcent.rcent + rprim.rprim) */
int64_t  __CPROVER_uninterpreted_r_rows(uint64_t);               /* rows() / size() */
_Bool    __CPROVER_uninterpreted_r_all_finite(uint64_t);
double   __CPROVER_uninterpreted_r_coeff(uint64_t, int64_t);     /* v(i) */
_Bool    __CPROVER_uninterpreted_r_isapprox(uint64_t, uint64_t, double);
uint64_t __CPROVER_uninterpreted_e_divs(uint64_t, double);       /* a / s */
uint64_t __CPROVER_uninterpreted_e_ssub(double, uint64_t);       /* s - a (coefficient-wise) */
uint64_t __CPROVER_uninterpreted_e_written(uint64_t, uint64_t);  /* a after a write of b through a (partial) view of a */
uint64_t __CPROVER_uninterpreted_e_written_s(uint64_t, double);  /* a after a write of the scalar s through a view of a */
int64_t  __CPROVER_uninterpreted_r_size(uint64_t);               /* size() of a matrix */
double   __CPROVER_uninterpreted_r_dot(uint64_t, uint64_t);      /* a.dot(b) */
#define NV_ADD(a, b) __CPROVER_uninterpreted_e_add(a, b)
#define NV_SUB(a, b) __CPROVER_uninterpreted_e_sub(a, b)
#define NV_MUL(a, b) __CPROVER_uninterpreted_e_mul(a, b)
#define NV_SCALE(s, a) __CPROVER_uninterpreted_e_scale(s, a)
#define NV_SEGMENT(a, i, n) __CPROVER_uninterpreted_e_segment(a, i, n)
#define NV_NANVEC(n) __CPROVER_uninterpreted_e_nan(n)
#define NV_NORM2(a) __CPROVER_uninterpreted_r_norm2(a)
#define NV_MAXCOEFF(a) __CPROVER_uninterpreted_r_maxcoeff(a)
#define NV_ROWS(a) __CPROVER_uninterpreted_r_rows(a)
#define NV_RESIDUAL(a, b, c) __CPROVER_uninterpreted_r_residual(a, b, c)
#define NV_ISAPPROX(a, b, e) __CPROVER_uninterpreted_r_isapprox(a, b, e)
#define NV_DIVS(a, s) __CPROVER_uninterpreted_e_divs(a, s)
#define NV_SIZE(a) __CPROVER_uninterpreted_r_size(a)
#define NV_DOT(a, b) __CPROVER_uninterpreted_r_dot(a, b)
/* the uninterpreted float operations themselves (the NV_F* macros of extracted code may add IEEE facts, the value is this one) */
#define NV_UFMUL(a, b) __CPROVER_uninterpreted_fmul(a, b)
#define NV_UFADD(a, b) __CPROVER_uninterpreted_fadd(a, b)

struct nv_val { uint64_t ver; };   /* ghost: identity of the value of a matrix / vector / Eigen expression / decomposition */

static struct nv_val nv_opaque(uint64_t ver) { struct nv_val r; r.ver = ver; return r; }
static struct nv_val nv_fresh(void) { return nv_opaque(nv_nondet_uint64_t()); }     /* an arbitrary value */
static struct nv_val nv_e_scale(double s, struct nv_val d) { return nv_opaque(NV_SCALE(s, d.ver)); }
static struct nv_val nv_e_add(struct nv_val a, struct nv_val b) { return nv_opaque(NV_ADD(a.ver, b.ver)); }
static struct nv_val nv_e_mul(struct nv_val a, struct nv_val b) { return nv_opaque(NV_MUL(a.ver, b.ver)); }
static struct nv_val nv_e_sub(struct nv_val a, struct nv_val b) { return nv_opaque(NV_SUB(a.ver, b.ver)); }
static struct nv_val nv_e_div(struct nv_val a, struct nv_val b) { return nv_opaque(__CPROVER_uninterpreted_e_div(a.ver, b.ver)); }
static struct nv_val nv_e_neg(struct nv_val a) { return nv_opaque(__CPROVER_uninterpreted_e_neg(a.ver)); }
static struct nv_val nv_e_sdiv(double s, struct nv_val a) { return nv_opaque(__CPROVER_uninterpreted_e_sdiv(s, a.ver)); }
static struct nv_val nv_e_segment(struct nv_val a, int64_t i, int64_t n) { return nv_opaque(NV_SEGMENT(a.ver, i, n)); }
static struct nv_val nv_e_zero(int64_t n) { return nv_opaque(__CPROVER_uninterpreted_e_zero(n)); }
static struct nv_val nv_e_nan(int64_t n) { return nv_opaque(NV_NANVEC(n)); }
static struct nv_val nv_e_same(struct nv_val a) { return a; }      /* array() / matrix() / vector() / transpose() / copy: the same coefficients */
static double  nv_e_norm2(struct nv_val a) { double r = NV_NORM2(a.ver); __CPROVER_assume(!(r < 0.0)); return r; }   /* a norm is >= 0 or NaN */
static double  nv_e_maxcoeff(struct nv_val a) { return NV_MAXCOEFF(a.ver); }
static int64_t nv_e_rows(struct nv_val a) { int64_t n = NV_ROWS(a.ver); __CPROVER_assume(n >= 0); return n; }
static _Bool   nv_e_all_finite(struct nv_val a) { return __CPROVER_uninterpreted_r_all_finite(a.ver); }
static _Bool   nv_e_isapprox(struct nv_val a, struct nv_val b, double eps) { return NV_ISAPPROX(a.ver, b.ver, eps); }
static struct nv_val nv_e_divs(struct nv_val a, double s) { return nv_opaque(NV_DIVS(a.ver, s)); }
static struct nv_val nv_e_ssub(double s, struct nv_val a) { return nv_opaque(__CPROVER_uninterpreted_e_ssub(s, a.ver)); }
static struct nv_val nv_e_written(struct nv_val a, struct nv_val b) { return nv_opaque(__CPROVER_uninterpreted_e_written(a.ver, b.ver)); }
static struct nv_val nv_e_written_s(struct nv_val a, double s) { return nv_opaque(__CPROVER_uninterpreted_e_written_s(a.ver, s)); }
static int64_t nv_e_size(struct nv_val a) { int64_t n = NV_SIZE(a.ver); __CPROVER_assume(n >= 0); return n; }
static double  nv_e_dot(struct nv_val a, struct nv_val b) { return NV_DOT(a.ver, b.ver); }

/* "step lies between 0 and the tested step" (the segment [x, x + tested * d]; convexity of {G x < h} is the reason the
 * solver may shrink the step after the test) */
#define NV_BETWEEN0(s, t) (NV_SAME(s, t) || (0.0 <= (s) && (s) <= (t)) || ((t) <= (s) && (s) <= 0.0))

/* ghost record of the last evaluation of (lin * (base + step * dir) - off).maxCoeff(); the AST pattern is recognised by
 * spec.py:strict_test_hook, the value is the same uninterpreted term the generic algebra gives */
struct nv_strict_t { uint64_t lin, off, base, dir; double step; double val; _Bool fresh; };
struct nv_strict_t nv_strict;
static double nv_maxcoeff_affine_along(struct nv_val lin, struct nv_val base, double step, struct nv_val dir, struct nv_val off)
{
  double v = NV_MAXCOEFF(NV_SUB(NV_MUL(lin.ver, NV_ADD(base.ver, NV_SCALE(step, dir.ver))), off.ver));
  struct nv_strict_t t; t.lin = lin.ver; t.off = off.ver; t.base = base.ver; t.dir = dir.ver; t.step = step; t.val = v; t.fresh = 1;
  nv_strict = t;
  return v;
}
/* ghost record of the current group of in-place advances X += step * dir (pattern recognised by spec.py:advance_hook).
 * A group starts with the first advance after a strict-feasibility test; r0, r1, r2 / d0, d1, d2 are the resulting values
 * and the directions of its 1st, 2nd, 3rd member.  `ok`: the 1st member advanced exactly the base value and direction of
 * that test, the test was negative, the step lies between 0 and the tested step, and every later member used the same
 * step.  (lin, off) are the matrix and the offset of that test. */
struct nv_grp_t { int32_t n; _Bool ok; uint64_t r0, r1, r2, d0, d1, d2, lin, off; double step; };
struct nv_grp_t nv_grp;
static struct nv_val nv_advanced(struct nv_val x, double step, struct nv_val dir)
{
  uint64_t r = NV_ADD(x.ver, NV_SCALE(step, dir.ver));        /* the value the generic algebra gives to x + step * dir */
  struct nv_grp_t g = nv_grp;
  if (nv_strict.fresh)
  {
    g.n = 1; g.r0 = r; g.d0 = dir.ver; g.step = step; g.lin = nv_strict.lin; g.off = nv_strict.off;
    g.ok = nv_strict.val < 0.0 && nv_strict.base == x.ver && nv_strict.dir == dir.ver && NV_BETWEEN0(step, nv_strict.step);
    nv_strict.fresh = 0;
  }
  else
  {
    if (g.n == 1) { g.r1 = r; g.d1 = dir.ver; } else { g.r2 = r; g.d2 = dir.ver; }
    if (g.n < 1000) g.n = g.n + 1;
    g.ok = g.ok && NV_SAME(step, g.step);
  }
  nv_grp = g;
  return nv_opaque(r);
}
uint64_t nv_n_solve, nv_n_update;       /* ghost counters: how many linear solves / residual updates happened */

/* ------------------------------------------------------------------ scalar library functions */
static double nv_fmin(double a, double b) { return (b < a) ? b : a; }          /* std::min */
static double nv_fmax(double a, double b) { return (a < b) ? b : a; }          /* std::max; std::max({a, b, c}) folds it left */
static _Bool  nv_isfinite(double a) { return NV_FINITE(a); }
static double nv_epsilon2(void) { return 1.4901161193847656e-08; }            /* nano::epsilon2<double>() = sqrt(DBL_EPSILON): only its being one fixed number is used */
#define nv_dbl_max_value 1.7976931348623157e308
static double nv_dbl_max(void) { return nv_dbl_max_value; }                    /* std::numeric_limits<double>::max() */

/* IEEE facts about multiplying by a factor in [0, 1] (round-to-nearest is monotone and a is representable):
 * the product lies between 0 and a; NaN stays NaN and an infinity times a positive factor stays that infinity.
 * Everything else about * is left uninterpreted. */
static double nv_fmul(double a, double b)
{
  double r = __CPROVER_uninterpreted_fmul(a, b);
  if (0.0 <= b && b <= 1.0)
  {
    if (NV_FINITE(a)) __CPROVER_assume((0.0 <= a && 0.0 <= r && r <= a) || (a <= 0.0 && a <= r && r <= 0.0));
    else if (0.0 < b) __CPROVER_assume(NV_SAME(r, a));
  }
  return r;
}
#undef NV_FMUL
#define NV_FMUL(a, b) nv_fmul(a, b)
/* IEEE facts used by make_smax: negation flips the sign exactly; the quotient of two negative numbers is >= 0 or NaN
 * (inf / inf), never negative */
static double nv_fneg(double a) { double r = __CPROVER_uninterpreted_fneg(a); __CPROVER_assume((a > 0.0) == (r < 0.0) && (a < 0.0) == (r > 0.0)); return r; }
static double nv_fdiv(double a, double b) { double r = __CPROVER_uninterpreted_fdiv(a, b); __CPROVER_assume(!(a < 0.0 && b < 0.0) || !(r < 0.0)); return r; }
#undef NV_FNEG
#define NV_FNEG(a) nv_fneg(a)
#undef NV_FDIV
#define NV_FDIV(a, b) nv_fdiv(a, b)

/* ------------------------------------------------------------------ modelled classes */
struct nv_logger { int32_t dummy; };
struct nv_pstate            /* nano::program::solver_state_t (include/nano/program/state.h), field for field */
{
  int32_t m_iters; double m_fx; struct nv_val m_x, m_u, m_v; double m_eta; struct nv_val m_rdual, m_rcent, m_rprim;
  double m_kkt; int32_t m_status; double m_ldlt_rcond; _Bool m_ldlt_positive;
  /* ghost, written only by the model of program_t::update: the (x, u, v) the residual fields (m_fx, m_eta, m_rdual, m_rprim,
   * m_rcent) were computed from, and the value it stored in m_fx (= normalised objective at res_x, times program.m_mufx) */
  uint64_t res_x, res_u, res_v; double fx_expect;
  /* ghost provenance of that update call: was it a TRIAL point (bx + s * dx, bu + s * du, bv + s * dv) with ONE step s, from which
   * base point (bx, bu, bv), in which outer iteration (m_iters at the call), and the how-manyth consecutive trial from that base in
   * that iteration */
  _Bool res_trial; uint64_t res_bx, res_bu, res_bv; int32_t res_iter; int64_t res_count;
};
struct nv_reducer { int32_t dummy; };          /* (anonymous namespace)::reducer_t: its constructor calls reduce(A, b) */
struct nv_program           /* solver_t::program_t (src/program/solver.cpp) */
{
  struct nv_val m_Q, m_c, m_A, m_b, m_G, m_h; struct nv_reducer m_reducer; double m_mufx;
  struct nv_program_buffers { struct nv_val ldlt, lmat, lvec, lsol; } buf;   /* the `mutable` members (one assigns target) */
};
#define m_ldlt buf.ldlt
#define m_lmat buf.lmat
#define m_lvec buf.lvec
#define m_lsol buf.lsol
struct nv_solver { int32_t dummy; };

/* registered parameter domains (solver_t::solver_t, src/program/solver.cpp:207-214); ghost globals fixed during a call */
double nv_p_s0, nv_p_miu, nv_p_alpha, nv_p_beta, nv_p_epsilon, nv_p_epsilon0; int64_t nv_p_max_iters, nv_p_max_lsearch_iters;
#define NV_PARAMS_OK (0.0 < nv_p_s0 && nv_p_s0 <= 1.0 && 1.0 < nv_p_miu && nv_p_miu <= 1e6 && 0.0 < nv_p_alpha && nv_p_alpha < 1.0 \
  && 0.0 < nv_p_beta && nv_p_beta < 1.0 && 0.0 <= nv_p_epsilon && nv_p_epsilon <= 1e-3 && 0.0 <= nv_p_epsilon0 && nv_p_epsilon0 <= 1e-3 \
  && 10 <= nv_p_max_iters && nv_p_max_iters <= 1000 && 10 <= nv_p_max_lsearch_iters && nv_p_max_lsearch_iters <= 1000)
static double  nv_param_s0(void) { return nv_p_s0; }
static double  nv_param_miu(void) { return nv_p_miu; }
static double  nv_param_alpha(void) { return nv_p_alpha; }
static double  nv_param_beta(void) { return nv_p_beta; }
static double  nv_param_epsilon(void) { return nv_p_epsilon; }
static double  nv_param_epsilon0(void) { return nv_p_epsilon0; }
static int64_t nv_param_max_iters(void) { return nv_p_max_iters; }
static int64_t nv_param_max_lsearch_iters(void) { return nv_p_max_lsearch_iters; }

/* program_t::n() / p() / m(): sizes of c, A, G */
static int64_t nv_program_n(const struct nv_program* p) { return nv_e_rows(p->m_c); }
static int64_t nv_program_p(const struct nv_program* p) { return nv_e_rows(p->m_A); }
static int64_t nv_program_m(const struct nv_program* p) { return nv_e_rows(p->m_G); }
/* program_t::solve(hessvar, rdual, rprim) const: writes the mutable buffers m_lmat, m_lvec, m_ldlt, m_lsol (havoc) */
static void nv_program_solve(struct nv_program* p)
{
  struct nv_program_buffers b; b.lmat = nv_fresh(); b.lvec = nv_fresh(); b.ldlt = nv_fresh(); b.lsol = nv_fresh(); p->buf = b;
  if (nv_n_solve < UINT64_MAX) nv_n_solve = nv_n_solve + 1;
}
/* the normalised objective at x as seen from the callers of program_t::update: SOME deterministic function of the identities
 * of Q, c and x -- which is what NV_CONTRACT_program_update_* (proved on both instantiations of update) says, with the
 * function spelled out there as NV_OBJN */
double __CPROVER_uninterpreted_r_objn(uint64_t, uint64_t, uint64_t);
#define NV_OBJN_ABS(prog, xver) __CPROVER_uninterpreted_r_objn((prog)->m_Q.ver, (prog)->m_c.ver, (xver))
/* program_t::update(x, u, v, miu, state) const as seen from solve_with/without_inequality (contract: targets program_update_*):
 * writes state.m_fx = objn(x) * m_mufx, and m_eta, m_rdual, m_rprim, m_rcent (havoc), nothing else; in particular not m_x,
 * m_u, m_v, m_status, m_iters.  Ghost: where the residual fields were computed. */
static struct nv_pstate nv_program_updated(const struct nv_program* p, struct nv_pstate s, struct nv_val x, struct nv_val u, struct nv_val v)
{
  s.m_fx = NV_UFMUL(NV_OBJN_ABS(p, x.ver), p->m_mufx); s.fx_expect = s.m_fx; s.m_eta = nv_nondet_double();
  s.m_rdual = nv_fresh(); s.m_rprim = nv_fresh(); s.m_rcent = nv_fresh();
  s.res_x = x.ver; s.res_u = u.ver; s.res_v = v.ver;
  s.res_trial = 0; s.res_bx = 0; s.res_bu = 0; s.res_bv = 0; s.res_iter = s.m_iters; s.res_count = 0;
  if (nv_n_update < UINT64_MAX) nv_n_update = nv_n_update + 1;
  return s;
}
/* program.update(X + sx * DX, U + su * DU, V + sv * DV, miu, state) (AST pattern recognised by spec.py:update_along_hook): the same
 * values as the generic algebra gives the three sums, plus the provenance of the trial point */
static struct nv_pstate nv_program_updated_along(const struct nv_program* p, struct nv_pstate s, struct nv_val X, double sx, struct nv_val DX,
                                                 struct nv_val U, double su, struct nv_val DU, struct nv_val V, double sv, struct nv_val DV)
{
  _Bool  follows = s.res_trial && s.res_bx == X.ver && s.res_bu == U.ver && s.res_bv == V.ver && s.res_iter == s.m_iters;
  int64_t before = s.res_count;
  s = nv_program_updated(p, s, nv_e_add(X, nv_e_scale(sx, DX)), nv_e_add(U, nv_e_scale(su, DU)), nv_e_add(V, nv_e_scale(sv, DV)));
  if (NV_SAME(sx, su) && NV_SAME(su, sv))
  {
    s.res_trial = 1; s.res_bx = X.ver; s.res_bu = U.ver; s.res_bv = V.ver;
    s.res_count = (follows && before < 1000000) ? before + 1 : 1;
  }
  return s;
}
/* reducer_t(A, b) = reduce(A, b) (src/program/util.cpp): removes linearly dependent equality rows -- A and b become other
 * values (havoc); ghost witnesses of the reduced pair */
uint64_t nv_w_Ared, nv_w_bred;
uint64_t nv_w_Ain, nv_w_bin;            /* ... and of the pair it was applied to */
static struct nv_reducer nv_reduce(struct nv_val* A, struct nv_val* b)
{ struct nv_reducer r; r.dummy = 0; nv_w_Ain = A->ver; nv_w_bin = b->ver; *A = nv_fresh(); *b = nv_fresh(); nv_w_Ared = A->ver; nv_w_bred = b->ver; return r; }
/* the scaling routine, by its contract (target normalize) */
double normalize(struct nv_val* A, struct nv_val* b, double min_norm);
/* solver_state_t::update(Q, c, A, b, G, h): computes m_kkt only (src/program/state.cpp:23-63) */
static double nv_kkt_value(void) { return nv_nondet_double(); }
/* ::make_smax(u, du) as seen from solve_with_inequality: no side effects, any double (its own contract is proved in target
 * make_smax; its size precondition at this call site is not decided, see spec.py) */
static double nv_make_smax_any(const struct nv_val* u, const struct nv_val* du) { return nv_nondet_double(); }
/* solver_state_t::residual() const */
static double nv_pstate_residual(const struct nv_pstate* s) { return NV_RESIDUAL(s->m_rdual.ver, s->m_rcent.ver, s->m_rprim.ver); }
/* solver_state_t::nan (static constexpr quiet NaN, include/nano/program/state.h:44) as named by the default member initialisers */
static double nv_quiet_nan(void) { double z = 0.0; return z / z; }
#define nan nv_quiet_nan()
/* `solver_state_t{n, m, p}` as a prvalue: the extracted constructor (src/program/state.cpp) run on a fresh object */
void pstate_ctor(struct nv_pstate* self, int64_t n, int64_t n_ineqs, int64_t n_eqs);
static struct nv_pstate pstate_ctor_value(int64_t n, int64_t n_ineqs, int64_t n_eqs) { struct nv_pstate s; pstate_ctor(&s, n, n_ineqs, n_eqs); return s; }
/* coefficient access u(i): in bounds is an obligation; reading the same coefficient twice gives the same number; a vector
 * whose coefficients are all > 0 yields one that is > 0.
 * Ghost hypothesis register: "the vector with identity nv_hyp_allpos_ver has only coefficients > 0" (harness-chosen). */
_Bool nv_hyp_allpos; uint64_t nv_hyp_allpos_ver;
#define NV_HYP_ALLPOS(v) (nv_hyp_allpos && (v)->ver == nv_hyp_allpos_ver)
static double nv_vec_at(const struct nv_val* v, int64_t i)
{
  __CPROVER_assert(0 <= i && i < NV_ROWS(v->ver), "nv_vec_at: coefficient index in bounds");
  double r = __CPROVER_uninterpreted_r_coeff(v->ver, i);
  __CPROVER_assume(!NV_HYP_ALLPOS(v) || r > 0.0);
  return r;
}

/* ------------------------------------------------------------------ contracts */
#define NV_FRESH(p) __CPROVER_is_fresh(p, sizeof(*(p)))
#define NV_R __CPROVER_return_value
#define NV_ISNAN(x) ((x) != (x))
/* the property's feasibility statement on the (normalised) program: every equality within tolerance (none, or
 * ||A x - b|| < eps2) and every inequality within tolerance (none, or max(G x - h) < eps2) */
#define NV_FEASIBLE(prog, xver) \
  ((NV_ROWS((prog)->m_A.ver) == 0 || NV_NORM2(NV_SUB(NV_MUL((prog)->m_A.ver, (xver)), (prog)->m_b.ver)) < nv_epsilon2()) && \
   (NV_ROWS((prog)->m_G.ver) == 0 || NV_MAXCOEFF(NV_SUB(NV_MUL((prog)->m_G.ver, (xver)), (prog)->m_h.ver)) < nv_epsilon2()))
/* the property's optimality statement: max(eta, ||rdual||, ||rprim||) < epsilon, every comparison a real one (a NaN
 * residual is not below the threshold) */
#define NV_OPTIMAL(st, eps) ((st).m_eta < (eps) && NV_NORM2((st).m_rdual.ver) < (eps) && NV_NORM2((st).m_rprim.ver) < (eps))
/* what the pre-repair test std::max({eta, |rdual|, |rprim|}) < epsilon guaranteed for every double: eta below the threshold
 * and no residual norm at or above it (a NaN norm in 2nd / 3rd position is skipped by std::max: the defect recorded in
 * known_findings.txt; done() now compares each quantity itself and the contracts use NV_OPTIMAL). */
#define NV_NOT_ABOVE(st, eps) ((st).m_eta < (eps) && !(NV_NORM2((st).m_rdual.ver) >= (eps)) && !(NV_NORM2((st).m_rprim.ver) >= (eps)))
#define NV_EPS_OK(eps) (0.0 <= (eps) && (eps) <= 1e-3)      /* registered domain of solver::epsilon (solver.cpp:211, :248) */

/* program_t::feasible(state) as seen from its callers' proofs: SOME deterministic function of the identities of A, b, G, h
 * and state.m_x -- which is what NV_CONTRACT_program_feasible (proved in target program_feasible) says, with the function
 * spelled out there as NV_FEASIBLE.  One uninterpreted symbol instead of eight keeps the callers' proofs small. */
_Bool __CPROVER_uninterpreted_r_feasible(uint64_t, uint64_t, uint64_t, uint64_t, uint64_t);
#define NV_FEAS_ABS(prog, xver) __CPROVER_uninterpreted_r_feasible((prog)->m_A.ver, (prog)->m_b.ver, (prog)->m_G.ver, (prog)->m_h.ver, (xver))
static _Bool nv_program_feasible_abs(const struct nv_program* p, const struct nv_pstate* s) { return NV_FEAS_ABS(p, s->m_x.ver); }
/* program_t::feasible(state) */
#define NV_CONTRACT_program_feasible \
__CPROVER_requires(NV_FRESH(self) && NV_FRESH(state)) \
__CPROVER_assigns() \
__CPROVER_ensures(__CPROVER_return_value == NV_FEASIBLE(self, state->m_x.ver))

/* everything but the status */
#define NV_PSTATE_KEPT(s) ((s)->m_iters == __CPROVER_old((s)->m_iters) && NV_SAME((s)->m_fx, __CPROVER_old((s)->m_fx)) \
  && (s)->m_x.ver == __CPROVER_old((s)->m_x.ver) && (s)->m_u.ver == __CPROVER_old((s)->m_u.ver) && (s)->m_v.ver == __CPROVER_old((s)->m_v.ver) \
  && NV_SAME((s)->m_eta, __CPROVER_old((s)->m_eta)) && (s)->m_rdual.ver == __CPROVER_old((s)->m_rdual.ver) && (s)->m_rcent.ver == __CPROVER_old((s)->m_rcent.ver) \
  && (s)->m_rprim.ver == __CPROVER_old((s)->m_rprim.ver) && NV_SAME((s)->m_kkt, __CPROVER_old((s)->m_kkt)) \
  && NV_SAME((s)->m_ldlt_rcond, __CPROVER_old((s)->m_ldlt_rcond)) && (s)->m_ldlt_positive == __CPROVER_old((s)->m_ldlt_positive))

/* solver_t::done(program, state, epsilon, logger): the whole decision.
 * status' == converged <=> feasible(state) && max(eta, |rdual|, |rprim|) < epsilon; otherwise unbounded if feasible,
 * unfeasible if not (written as one conditional so that each uninterpreted term occurs once); nothing but the status
 * is written. */
#define NV_DONE_STATUS(F, OPT) ((F) ? ((OPT) ? NVE_solver_status_converged : NVE_solver_status_unbounded) : NVE_solver_status_unfeasible)
#define NV_DONE_COMMON \
__CPROVER_requires(NV_FRESH(program) && NV_FRESH(state) && NV_FRESH(logger) && NV_EPS_OK(epsilon)) \
__CPROVER_assigns(state->m_status) \
__CPROVER_ensures(state->m_status == NV_DONE_STATUS(NV_FEASIBLE(program, state->m_x.ver), NV_OPTIMAL(*state, epsilon))) \
__CPROVER_ensures(NV_PSTATE_KEPT(state))
#define NV_CONTRACT_solver_done NV_DONE_COMMON
/* the property's clause without any side condition: converged => every one of eta, |rdual|, |rprim| is below epsilon */
#define NV_CONTRACT_solver_done_nan NV_DONE_COMMON \
__CPROVER_ensures(state->m_status == NVE_solver_status_converged ==> NV_OPTIMAL(*state, epsilon))

/* solver_state_t::solver_state_t(n, n_ineqs, n_eqs): a new state claims nothing -- status max_iters (not converged),
 * no iterations, every number NaN, vectors of the given sizes filled with NaN */
#define NV_CONTRACT_pstate_ctor \
__CPROVER_requires(NV_FRESH(self)) \
__CPROVER_assigns(*self) \
__CPROVER_ensures(self->m_status == NVE_solver_status_max_iters && self->m_iters == 0 && NV_ISNAN(self->m_fx) && NV_ISNAN(self->m_eta)) \
__CPROVER_ensures(self->m_kkt == 0.0 && self->m_ldlt_rcond == 0.0 && !self->m_ldlt_positive) \
__CPROVER_ensures(self->m_x.ver == NV_NANVEC(n) && self->m_u.ver == NV_NANVEC(n_ineqs) && self->m_v.ver == NV_NANVEC(n_eqs)) \
__CPROVER_ensures(self->m_rdual.ver == NV_NANVEC(n) && self->m_rcent.ver == NV_NANVEC(n_ineqs) && self->m_rprim.ver == NV_NANVEC(n_eqs))

/* ::make_smax(u, du): the largest step in (0, 1] keeping u + s * du >= 0.  Decided here for every double: the result is
 * never above 1 and never NaN, every coefficient read is in bounds, and for a positive u the result is not negative
 * (it can underflow to +0 in IEEE arithmetic, so "(0, 1]" holds over the reals only).
 * Precondition: the function's own assert(u.size() == du.size()) (solver.cpp:26, compiled out in release builds). */
#define NV_CONTRACT_make_smax \
__CPROVER_requires(NV_FRESH(u) && NV_FRESH(du) && NV_ROWS(du->ver) == NV_ROWS(u->ver)) \
__CPROVER_assigns() \
__CPROVER_ensures(__CPROVER_return_value <= 1.0) \
__CPROVER_ensures(NV_HYP_ALLPOS(u) ==> 0.0 <= __CPROVER_return_value)
#define NV_LOOP_make_smax_1 \
__CPROVER_assigns(i, smax) \
__CPROVER_loop_invariant(0 <= i && i <= size && smax <= nv_dbl_max_value && (NV_HYP_ALLPOS(u) ==> 0.0 <= smax)) \
__CPROVER_decreases(size - i)

/* ------------------------------------------------------------------ the scaling protocol
 * property: "M = max(1e-3, ||Q||_F, ||c||_2)", "the reported objective agrees with the objective at x", "the same holds when the
 * program is restated (positively rescaled rows / objective)": the solver works on data divided by max(1e-3, |A|, |b|); the
 * factor it reports / multiplies back with IS the factor the data was divided by, and both members of a pair get the same one */
#define NV_MAX2(a, b) (((a) < (b)) ? (b) : (a))
#define NV_M(m, aver, bver) NV_MAX2(NV_MAX2((m), NV_NORM2(aver)), NV_NORM2(bver))
#define NV_MIN_NORM 1e-3
/* ::normalize(A, b, min_norm): both are divided by the returned factor, which is max(min_norm, |A|, |b|) >= min_norm */
#define NV_CONTRACT_normalize \
__CPROVER_requires(NV_FRESH(A) && NV_FRESH(b) && 0.0 < min_norm) \
__CPROVER_assigns(*A, *b) \
__CPROVER_ensures(__CPROVER_return_value == NV_M(min_norm, __CPROVER_old(A->ver), __CPROVER_old(b->ver)) && __CPROVER_return_value >= min_norm) \
__CPROVER_ensures(A->ver == NV_DIVS(__CPROVER_old(A->ver), __CPROVER_return_value) && b->ver == NV_DIVS(__CPROVER_old(b->ver), __CPROVER_return_value))
/* program_t(Q, c, A, b, G, h): m_mufx is the factor (Q, c) were divided by; (A, b) after the removal of dependent rows and
 * (G, h) are each divided by their own common factor */
#define NV_CONTRACT_program_ctor \
__CPROVER_requires(NV_FRESH(self)) \
__CPROVER_assigns(*self, nv_w_Ared, nv_w_bred, nv_w_Ain, nv_w_bin) \
/* reduce() is applied to the equality pair (A, b) handed in, before anything is scaled */ \
__CPROVER_ensures(nv_w_Ain == A.ver && nv_w_bin == b.ver) \
__CPROVER_ensures(self->m_mufx == NV_M(NV_MIN_NORM, Q.ver, c.ver) && self->m_mufx >= NV_MIN_NORM) \
__CPROVER_ensures(self->m_Q.ver == NV_DIVS(Q.ver, self->m_mufx) && self->m_c.ver == NV_DIVS(c.ver, self->m_mufx)) \
__CPROVER_ensures(self->m_A.ver == NV_DIVS(nv_w_Ared, NV_M(NV_MIN_NORM, nv_w_Ared, nv_w_bred)) && self->m_b.ver == NV_DIVS(nv_w_bred, NV_M(NV_MIN_NORM, nv_w_Ared, nv_w_bred))) \
__CPROVER_ensures(self->m_G.ver == NV_DIVS(G.ver, NV_M(NV_MIN_NORM, G.ver, h.ver)) && self->m_h.ver == NV_DIVS(h.ver, NV_M(NV_MIN_NORM, G.ver, h.ver)))
/* program_t::update(x, u, v, miu, state): the reported objective is the normalised objective AT x (c.x, or x.Qx/2 + c.x when
 * there is a Q) multiplied back by exactly m_mufx; only the residual fields are written */
#define NV_OBJN(prog, xver) ((NV_SIZE((prog)->m_Q.ver) == 0) ? NV_DOT((xver), (prog)->m_c.ver) \
  : NV_UFADD(NV_UFMUL(0.5, NV_DOT((xver), NV_MUL((prog)->m_Q.ver, (xver)))), NV_DOT((xver), (prog)->m_c.ver)))
#define NV_UPDATE_ASSIGNS_ENSURES(xver) \
__CPROVER_assigns(state->m_fx, state->m_eta, state->m_rdual, state->m_rprim, state->m_rcent) \
__CPROVER_ensures(NV_SAME(state->m_fx, NV_UFMUL(NV_OBJN(self, (xver)), self->m_mufx)))
/* tvector = vector_t: every call site passes the state's own members (solver.cpp:279, :346, :402) */
#define NV_CONTRACT_program_update_vec \
__CPROVER_requires(NV_FRESH(self) && NV_FRESH(state) && x == &state->m_x && u == &state->m_u && v == &state->m_v) \
NV_UPDATE_ASSIGNS_ENSURES(__CPROVER_old(state->m_x.ver))
/* tvector = the Eigen expression x + s * dx: temporaries (solver.cpp:331) */
#define NV_CONTRACT_program_update_expr \
__CPROVER_requires(NV_FRESH(self) && NV_FRESH(state) && NV_FRESH(x) && NV_FRESH(u) && NV_FRESH(v)) \
NV_UPDATE_ASSIGNS_ENSURES(x->ver)

/* solver_t::solve_without_inequality(program, logger): one KKT solve; converged <=> valid && aprox, failed <=> !valid,
 * else unfeasible; the returned (x, v) are the two segments of that solution */
#define NV_SWO_VALID NV_FINITE(NV_RESIDUAL(NV_R.m_rdual.ver, NV_R.m_rcent.ver, NV_R.m_rprim.ver))
#define NV_SWO_APROX NV_ISAPPROX(NV_MUL(program->m_lmat.ver, program->m_lsol.ver), program->m_lvec.ver, nv_epsilon2())
#define NV_CONTRACT_solve_without_inequality \
__CPROVER_requires(NV_FRESH(self) && NV_FRESH(program) && NV_FRESH(logger) && NV_PARAMS_OK && nv_n_solve < 1000000 && nv_n_update < 1000000) \
__CPROVER_assigns(program->buf, nv_n_solve, nv_n_update) \
__CPROVER_ensures((NV_R.m_status == NVE_solver_status_converged) == (NV_SWO_VALID && NV_SWO_APROX)) \
__CPROVER_ensures((NV_R.m_status == NVE_solver_status_failed) == (!NV_SWO_VALID)) \
__CPROVER_ensures((NV_R.m_status == NVE_solver_status_unfeasible) == (NV_SWO_VALID && !NV_SWO_APROX)) \
__CPROVER_ensures(NV_R.m_x.ver == NV_SEGMENT(program->m_lsol.ver, 0, NV_ROWS(program->m_c.ver))) \
__CPROVER_ensures(NV_R.m_v.ver == NV_SEGMENT(program->m_lsol.ver, NV_ROWS(program->m_c.ver), NV_ROWS(program->m_A.ver))) \
__CPROVER_ensures(NV_R.m_u.ver == NV_NANVEC(0) && NV_R.m_iters == 0 && nv_n_solve == __CPROVER_old(nv_n_solve) + 1) \
/* the reported objective and residuals are those of the returned point */ \
__CPROVER_ensures(NV_RES_AT_RETURNED(NV_R))

/* the residual fields and the reported objective were computed at the (x, u, v) the state holds; fx is objn(x) * mufx */
#define NV_RES_AT_RETURNED(st) ((st).res_x == (st).m_x.ver && (st).res_u == (st).m_u.ver && (st).res_v == (st).m_v.ver && NV_SAME((st).m_fx, (st).fx_expect))
/* ... or, only when the line search of the FINAL iteration was exhausted (max_lsearch_iters consecutive trials), at the last trial
 * point (x + s du, u + s du, v + s dv) of that very line search, started from the (x, u, v) the state holds */
#define NV_RES_AT_LAST_TRIAL(st, nmax) ((st).res_trial && (st).res_bx == (st).m_x.ver && (st).res_bu == (st).m_u.ver && (st).res_bv == (st).m_v.ver \
  && (st).res_iter == (st).m_iters && (st).res_count == (nmax) && NV_SAME((st).m_fx, (st).fx_expect))
/* solver_t::solve_with_inequality(program, x0, logger) */
#define NV_START_INFEASIBLE (NV_MAXCOEFF(NV_SUB(NV_MUL(program->m_G.ver, x0->ver), program->m_h.ver)) >= 0.0)
/* (x, u, v) are the three members of the last group of in-place advances: one common step, lying between 0 and a step
 * for which (G (x + s dx) - h).maxCoeff() < 0 was evaluated to true for exactly this x and dx */
#define NV_ADVANCED(st, prog) (nv_grp.n == 3 && nv_grp.ok && nv_grp.r0 == (st).m_x.ver && nv_grp.r1 == (st).m_u.ver && nv_grp.r2 == (st).m_v.ver \
  && nv_grp.lin == (prog)->m_G.ver && nv_grp.off == (prog)->m_h.ver)
#define NV_IS_STATUS(x) ((x) == NVE_solver_status_max_iters || (x) == NVE_solver_status_converged || (x) == NVE_solver_status_failed \
  || (x) == NVE_solver_status_unfeasible || (x) == NVE_solver_status_unbounded)
/* The contract is proved in two targets over the same extracted body (they run in parallel): the STATUS protocol
 * (solve_with_inequality) and the ADVANCE protocol (solve_with_inequality_adv); each has the loop invariants it needs. */
#define NV_SWI_REQUIRES_ASSIGNS \
__CPROVER_requires(NV_FRESH(self) && NV_FRESH(program) && NV_FRESH(x0) && NV_FRESH(logger) && NV_PARAMS_OK && nv_n_solve < 1000000 && nv_n_update < 1000000) \
__CPROVER_assigns(program->buf, nv_strict, nv_grp, nv_n_solve, nv_n_update)
#define NV_CONTRACT_solve_with_inequality NV_SWI_REQUIRES_ASSIGNS \
__CPROVER_ensures(NV_IS_STATUS(NV_R.m_status) && 0 <= NV_R.m_iters && NV_R.m_iters <= nv_p_max_iters) \
__CPROVER_ensures(NV_START_INFEASIBLE \
  /* an x0 that is not strictly feasible is refused: unfeasible, and no iteration (no linear solve, no residual update) */ \
  ? (NV_R.m_status == NVE_solver_status_unfeasible && NV_R.m_iters == 0 && NV_R.m_x.ver == x0->ver \
     && nv_n_solve == __CPROVER_old(nv_n_solve) && nv_n_update == __CPROVER_old(nv_n_update)) \
  /* every other exit sets a status: max_iters exactly when the iteration budget ran out, failed only on a non-finite eta / \
   * residual norm of the returned state, and converged / unbounded / unfeasible exactly by the decision of done() on the \
   * RETURNED state: converged <=> the returned x is feasible and the returned eta, |rdual|, |rprim| are below epsilon */ \
  : (((NV_R.m_status == NVE_solver_status_max_iters) == (NV_R.m_iters == nv_p_max_iters)) \
     && (NV_R.m_status == NVE_solver_status_failed ==> (!NV_FINITE(NV_R.m_eta) || !NV_FINITE(NV_NORM2(NV_R.m_rdual.ver)) || !NV_FINITE(NV_NORM2(NV_R.m_rprim.ver)))) \
     && ((NV_R.m_status == NVE_solver_status_converged || NV_R.m_status == NVE_solver_status_unbounded || NV_R.m_status == NVE_solver_status_unfeasible) \
         ==> NV_R.m_status == NV_DONE_STATUS(NV_FEAS_ABS(program, NV_R.m_x.ver), NV_OPTIMAL(NV_R, nv_p_epsilon)))))
#define NV_SWI_LOOP3_FRAME \
__CPROVER_loop_invariant(state.m_x.ver == __CPROVER_loop_entry(state.m_x.ver) && state.m_u.ver == __CPROVER_loop_entry(state.m_u.ver) && state.m_v.ver == __CPROVER_loop_entry(state.m_v.ver) \
  && state.m_status == __CPROVER_loop_entry(state.m_status) && state.m_iters == __CPROVER_loop_entry(state.m_iters))
#define NV_LOOP_solve_with_inequality_1 \
__CPROVER_assigns(state, dx, du, dv, program->buf, nv_strict, nv_grp, nv_n_solve, nv_n_update) \
__CPROVER_loop_invariant(0 <= state.m_iters && state.m_iters <= max_iters && state.m_status == NVE_solver_status_max_iters) \
__CPROVER_decreases(max_iters - state.m_iters)
#define NV_LOOP_solve_with_inequality_2 \
__CPROVER_assigns(iter, s, nv_strict) \
__CPROVER_loop_invariant(0 <= iter && iter <= max_lsearch_iters) \
__CPROVER_decreases(max_lsearch_iters - iter)
#define NV_LOOP_solve_with_inequality_3 \
__CPROVER_assigns(iter, s, state, nv_n_update) \
__CPROVER_loop_invariant(0 <= iter && iter <= max_lsearch_iters) \
NV_SWI_LOOP3_FRAME \
__CPROVER_decreases(max_lsearch_iters - iter)

/* third target over the same body: what done() certified (eta, rdual, rprim) and the reported fx were computed by program_t::update
 * (a) at the RETURNED (x, u, v), or (b) -- only when the line search of the final iteration was exhausted -- at the last trial point
 * of that same line search started from the returned (x, u, v) (the property tolerates 1e-6; that this trial point is close,
 * s <= beta^max_lsearch_iters, is numeric and not decided).  Anything older or unrelated is refuted. */
/* no trial point of the current outer iteration has been evaluated yet */
#define NV_NO_TRIAL_YET(st) (!(st).res_trial || (st).res_iter < (st).m_iters)
#define NV_CONTRACT_solve_with_inequality_res NV_SWI_REQUIRES_ASSIGNS \
__CPROVER_ensures(NV_R.m_status == NVE_solver_status_converged ==> (NV_RES_AT_RETURNED(NV_R) || NV_RES_AT_LAST_TRIAL(NV_R, nv_p_max_lsearch_iters)))
#define NV_LOOP_solve_with_inequality_res_1 \
__CPROVER_assigns(state, dx, du, dv, program->buf, nv_strict, nv_grp, nv_n_solve, nv_n_update) \
__CPROVER_loop_invariant(0 <= state.m_iters && state.m_iters <= max_iters && NV_RES_AT_RETURNED(state) && NV_NO_TRIAL_YET(state)) \
__CPROVER_decreases(max_iters - state.m_iters)
#define NV_LOOP_solve_with_inequality_res_2 NV_LOOP_solve_with_inequality_2
#define NV_LOOP_solve_with_inequality_res_3 \
__CPROVER_assigns(iter, s, state, nv_n_update) \
__CPROVER_loop_invariant(0 <= iter && iter <= max_lsearch_iters) \
NV_SWI_LOOP3_FRAME \
__CPROVER_loop_invariant(iter == 0 ? (NV_RES_AT_RETURNED(state) && NV_NO_TRIAL_YET(state)) : NV_RES_AT_LAST_TRIAL(state, iter)) \
__CPROVER_decreases(max_lsearch_iters - iter)

/* the returned point is x0 or was reached by advances that each passed the strict-feasibility test */
#define NV_CONTRACT_solve_with_inequality_adv NV_SWI_REQUIRES_ASSIGNS \
__CPROVER_ensures(NV_R.m_x.ver == x0->ver || NV_ADVANCED(NV_R, program))
#define NV_LOOP_solve_with_inequality_adv_1 \
__CPROVER_assigns(state, dx, du, dv, program->buf, nv_strict, nv_grp, nv_n_solve, nv_n_update) \
__CPROVER_loop_invariant(0 <= state.m_iters && state.m_iters <= max_iters) \
__CPROVER_loop_invariant(state.m_x.ver == x0->ver || (NV_ADVANCED(state, program) && nv_grp.d0 == dx.ver && nv_grp.d1 == du.ver && nv_grp.d2 == dv.ver)) \
__CPROVER_decreases(max_iters - state.m_iters)
#define NV_LOOP_solve_with_inequality_adv_2 NV_LOOP_solve_with_inequality_2
#define NV_LOOP_solve_with_inequality_adv_3 \
__CPROVER_assigns(iter, s, state, nv_n_update) \
__CPROVER_loop_invariant(0 <= iter && iter <= max_lsearch_iters && NV_BETWEEN0(s, nv_strict.step)) \
NV_SWI_LOOP3_FRAME \
__CPROVER_decreases(max_lsearch_iters - iter)

#endif
